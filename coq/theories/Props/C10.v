(** C10 — Ethereum client: rule-abiding headers only; forks never wedge it.
    Only statements here; proofs are in Proofs/Eth*.v.  The model (Model/Eth.v) transcribes
    x/xibc/clients/light-clients/eth/types/{update,header,verify_header,store,client_state}.go and
    keeper.UpdateClient of /repo as they are (after the repair db7007a of RestrictChain).

    Variants.  Model/Eth.v is parametrised by the repairs that exist as patches ([variant]); every statement below
    is about [cur] = the code of /repo as it is: RestrictChain repaired (db7007a), the two candidate repairs of
    checkValidity and the candidate repair of RestrictChain's use of the root-main index NOT applied
    ([fix_rev = false], [fix_exp = false], [fix_root = false], so [rev_ok cur s h] and [exp_ok cur bt s h] are [true],
    a hypothesis "[fix_x = true] or P" means P, and a hypothesis "[fix_x = true] -> P" is vacuous).  The proofs do not
    use the values of the three constants: when a patch is committed to /repo the constant is flipped and the same
    statements hold for the repaired code (e.g. with [fix_root = true] no hypothesis about state roots is left).

    Conventions.  [hash] (Header.Hash) and [ethash_ok] (the seal check) are arbitrary functions; the only
    hypothesis on the hash is [hash_ok_b hash univ = true] for a finite list [univ] of headers containing every
    header that occurs: 32 bytes, and two headers of [univ] with the same hash have the same block number and
    the same (normalised) parent hash.  [Reach hash ethash_ok U r0 g0 hist s]: [s] is the state after creating the
    client with a header of revision number [r0] and block number [g0] (consensus state = that header's) and any
    number of submissions; [hist] lists the accepted headers, newest first, the creation header last.  The
    accepted headers are in [univ], carry revision number [r0] (necessary: Refuted/C10_revision.v), a block
    number below 2^63, a state root no stored header of the same height has (necessary: Refuted/C10_same_root.v)
    and are not a different encoding of a stored header with the same hash.  Refused submissions leave the state
    unchanged and may be anything. *)
From Teleport Require Import Base.Bytes Base.Outcome Model.Eth Model.EthCheck Model.EthToy
  Proofs.EthBase Proofs.EthValid Proofs.EthChain Proofs.EthInv Proofs.EthStep Proofs.Eth Proofs.EthWedge Proofs.EthTop.
Local Open Scope N_scope.

(** (a) Soundness of acceptance, for every history and every header: an accepted header names (by the hash
    and height in its parent-hash and number fields) a header [p] that was accepted before (or is the creation
    header) and is still stored one height below, and satisfies the timestamp, gas-limit and EIP-1559 base-fee
    rules relative to [p] and, except on Rinkeby (chain id 4), the difficulty formula, the extra-data bound and
    the ethash seal; the client was active; the accepted header is the new head; chain id and trusting period
    do not change. *)
Theorem C10_eth_accept_sound : forall hash ethash_ok univ, hash_ok_b hash univ = true -> forall r0 g0 hist s bt h s',
  Reach hash ethash_ok (fun a => In a univ) r0 g0 hist s -> h_num h < two63 ->
  update_client hash ethash_ok bt s h = Ok s' ->
  active bt s = true /\
  (exists p, In p hist /\ iget (to_hash (h_parent h), h_num h - 1) (idx s) = Some p /\
             hash p = to_hash (h_parent h) /\ h_num h = h_num p + 1 /\
             validate_basic h = true /\
             h_time h <= bt + 15 /\ h_time p < h_time h /\
             (Z.abs (Z.of_N (h_gaslimit p) - Z.of_N (h_gaslimit h)) < Z.of_N (h_gaslimit p / 1024))%Z /\
             5000 <= h_gaslimit h /\
             big (h_basefee h) = expected_base_fee p /\
             (chain_id s <> rinkeby ->
                Z.of_N (big (h_diff h)) = calc_difficulty (h_time h) p /\ len (h_extra h) <= 32 /\ ethash_ok h = true)) /\
  rev_ok cur s h = true /\ exp_ok cur bt s h = true /\
  head s' = h /\ chain_id s' = chain_id s /\ trusting s' = trusting s.
Proof. exact final_accept_sound. Qed.
Print Assumptions C10_eth_accept_sound.

(** The update never panics, whatever the state and the header (every variant of the code). *)
Theorem C10_no_panic : forall hash ethash_ok v bt s h, update_client_gen hash ethash_ok v bt s h <> Panic.
Proof. exact update_no_panic. Qed.
Print Assumptions C10_no_panic.

(** (b) Each accepted header becomes the head (any state), and after any history the head is the last
    accepted header. *)
Theorem C10_head_is_last_accepted_step : forall hash ethash_ok v s bt h,
  match update_client_gen hash ethash_ok v bt s h with Ok s' => head s' = h | _ => True end.
Proof. exact run_head. Qed.
Print Assumptions C10_head_is_last_accepted_step.

Theorem C10_head_is_last_accepted : forall hash ethash_ok U r0 g0 hist s,
  Reach hash ethash_ok U r0 g0 hist s -> exists rest, hist = head s :: rest.
Proof. exact reach_head. Qed.
Print Assumptions C10_head_is_last_accepted.

(** (c) No wedge.  After any history (competing branches in any order), a header [h] that is a rule-abiding
    child of ANY stored header ([valid_child_b]: the header stored under (parent hash, number - 1) has that
    hash and [h] passes the rules above relative to it) is accepted and becomes the head, provided
      - the client is active at the block time (its head is not older than the trusting period),
      - [h] carries the client's revision number, a state root no other stored header of its height has, and
        is not a second encoding of a stored header,
      - [h] extends the head, or the new branch and the main chain MEET at a height whose consensus state is
        not pruned: walking down from [h] through [J] stored parents one reaches [x]; the main chain (the
        head's stored ancestry) has a header [y] of the same height with the same parent hash; and that
        height is at least [base s] (the lowest height of the main chain still stored), or [base s + 1] when
        this very update prunes the state at [base s] ("no header of the two branches above the fork point
        was pruned"; necessary: Refuted/C10_pruned_fork.v).
      - ([exp_ok cur bt s h]: vacuous for the code as it is; with the candidate repair it says that [h] is not
        older than the trusting period).
    Moreover the client is active afterwards exactly when [h] itself is not older than the trusting period
    (as the code is, an older [h] is accepted all the same and leaves the client expired:
    Refuted/C10_expired_branch.v). *)
Theorem C10_no_wedge : forall hash ethash_ok univ, hash_ok_b hash univ = true -> forall r0 g0 hist s bt h,
  Reach hash ethash_ok (fun a => In a univ) r0 g0 hist s ->
  active bt s = true -> valid_child_b hash ethash_ok bt s h = true -> h_rev h = h_rev (head s) ->
  exp_ok cur bt s h = true ->
  (fix_root = true \/ fresh_root_b hash s h = true) -> noalias_b hash s h = true ->
  (fix_root = true -> In h univ) ->
  (beq (hash (head s)) (h_parent h) = true \/
   exists J x y, nth_anc (idx s) h J = Some x /\ In y (main_chain s) /\ h_num x = h_num y /\
                 (if prune_due bt s then base s + 1 else base s) <= h_num x /\ h_parent y = h_parent x) ->
  exists s', update_client hash ethash_ok bt s h = Ok s' /\ head s' = h /\
             active bt s' = negb (add64 (h_time h) (trusting s) <? bt).
Proof. exact final_no_wedge. Qed.
Print Assumptions C10_no_wedge.

(** Special case: the stored ancestry of [h] reaches the main chain -- some ancestor-or-self [x] of [h], reached
    through [J] stored parents, is one of the head's stored ancestors -- at a height whose consensus state is not
    pruned.  In particular, as long as nothing was pruned every stored header descends from the creation header,
    which is on the main chain. *)
Theorem C10_no_wedge_common_ancestor : forall hash ethash_ok univ, hash_ok_b hash univ = true -> forall r0 g0 hist s bt h J x,
  Reach hash ethash_ok (fun a => In a univ) r0 g0 hist s ->
  active bt s = true -> valid_child_b hash ethash_ok bt s h = true -> h_rev h = h_rev (head s) ->
  exp_ok cur bt s h = true ->
  (fix_root = true \/ fresh_root_b hash s h = true) -> noalias_b hash s h = true ->
  (fix_root = true -> In h univ) ->
  nth_anc (idx s) h J = Some x -> In x (main_chain s) -> (if prune_due bt s then base s + 1 else base s) <= h_num x ->
  exists s', update_client hash ethash_ok bt s h = Ok s' /\ head s' = h /\
             active bt s' = negb (add64 (h_time h) (trusting s) <? bt).
Proof. exact final_no_wedge_common_ancestor. Qed.
Print Assumptions C10_no_wedge_common_ancestor.

(** The same with the hypotheses in the executable form the monitor evaluates on the implementation's
    observed states ([should_accept], Model/Eth.v). *)
Theorem C10_no_wedge_monitor : forall hash ethash_ok univ, hash_ok_b hash univ = true -> forall r0 g0 hist s bt h,
  Reach hash ethash_ok (fun a => In a univ) r0 g0 hist s ->
  should_accept hash ethash_ok bt s h = true -> (fix_root = true -> In h univ) ->
  exists s', update_client hash ethash_ok bt s h = Ok s' /\ head s' = h.
Proof. exact final_no_wedge_b. Qed.
Print Assumptions C10_no_wedge_monitor.

(** (d) Main-chain roots.  After any history, EVERY consensus state kept for a height up to the head's is
    filed under the client's revision number, lies at or above the lowest stored main-chain height, and is
    (timestamp, height, state root) of the head's ancestor at that height -- an accepted header, reached from
    the head through stored parents.  (States above the head belong to abandoned branches.) *)
Theorem C10_main_chain_roots : forall hash ethash_ok univ, hash_ok_b hash univ = true -> forall r0 g0 hist s r k c,
  Reach hash ethash_ok (fun a => In a univ) r0 g0 hist s ->
  cget (r, k) (cons s) = Some c -> k <= h_num (head s) ->
  r = h_rev (head s) /\ base s <= k /\
  exists a, nth_anc (idx s) (head s) (N.to_nat (h_num (head s) - k)) = Some a /\ In a hist /\
            h_num a = k /\ c = cstate_of a.
Proof. exact final_main_chain_roots. Qed.
Print Assumptions C10_main_chain_roots.

(** Conversely every stored ancestor of the head has its consensus state. *)
Theorem C10_main_chain_complete : forall hash ethash_ok univ, hash_ok_b hash univ = true -> forall r0 g0 hist s j a,
  Reach hash ethash_ok (fun a => In a univ) r0 g0 hist s ->
  nth_anc (idx s) (head s) j = Some a ->
  cget (h_rev (head s), h_num a) (cons s) = Some (cstate_of a).
Proof. exact final_main_chain_complete. Qed.
Print Assumptions C10_main_chain_complete.

(** The executable monitors applied to the implementation's traces accept every step of the model:
    the main-chain monitor (kind 26) holds in every reachable state, an accepted step satisfies the
    acceptance monitor (kinds 21, 23); the wedge monitor (kind 25) follows. *)
Theorem C10_monitor_sound_main_chain : forall hash ethash_ok univ, hash_ok_b hash univ = true -> forall r0 g0 t hist s,
  Reach hash ethash_ok (fun a => In a univ) r0 g0 hist s -> main_chain_ok t s = true.
Proof. exact monitor_main_chain_ok. Qed.
Print Assumptions C10_monitor_sound_main_chain.

Theorem C10_monitor_sound_accept : forall hash ethash_ok univ, hash_ok_b hash univ = true -> forall r0 g0 hist s bt h s',
  Reach hash ethash_ok (fun a => In a univ) r0 g0 hist s -> h_num h < two63 ->
  update_client hash ethash_ok bt s h = Ok s' ->
  active bt s = true /\ valid_child_b hash ethash_ok bt s h = true /\ header_eqb (head s') h = true.
Proof. exact monitor_accept_ok. Qed.
Print Assumptions C10_monitor_sound_accept.

(** The wedge monitor (kind 25) evaluates [should_accept_m] = [should_accept] without the no-alias restriction (it
    is stricter than the theorem); where the restriction holds the model accepts. *)
Theorem C10_monitor_sound_wedge : forall t univ, hash_ok_b (t_hash t) univ = true -> forall r0 g0 hist s bt h,
  Reach (t_hash t) (t_seal t) (fun a => In a univ) r0 g0 hist s ->
  should_accept_m t bt s h = true -> noalias_b (t_hash t) s h = true -> (fix_root = true -> In h univ) ->
  exists s', update_client (t_hash t) (t_seal t) bt s h = Ok s' /\ head s' = h.
Proof. exact monitor_wedge_sound. Qed.
Print Assumptions C10_monitor_sound_wedge.

(** Non-vacuity 1: the history of DESIGN 9.5 (G; A1; sibling B1; A2; A3; B2; B3; B4; A3 again; A4: five
    re-organisations, the head moving down twice, one re-submission) is a reachable state with the toy hash
    oracle, which satisfies the hash hypothesis on the nine headers; every submission was accepted. *)
Example C10_nonvacuous_reach :
  hash_ok_b toy_hash univ1 = true /\
  exists s, Reach toy_hash toy_seal (fun a => In a univ1) 0 100 [A4; A3; B4; B3; B2; A3; A2; B1; A1; G] s /\
            head s = A4 /\ length (idx s) = 9%nat /\ length (cons s) = 5%nat.
Proof.
  split; [vm_compute; reflexivity|].
  destruct (run_checked toy_hash toy_seal univ1 0 [G] s0 hist_d2) as [[hs s]|] eqn:E; [|vm_compute in E; discriminate].
  exists s.
  assert (Q : hs = [A4; A3; B4; B3; B2; A3; A2; B1; A1; G] /\ head s = A4 /\ length (idx s) = 9%nat /\ length (cons s) = 5%nat).
  { vm_compute in E. inversion E. repeat split. }
  destruct Q as [-> Q]. split; [|exact Q].
  apply (run_checked_init toy_hash toy_seal univ1 0 100 4 1000000000 G hist_d2); try (vm_compute; reflexivity). exact E.
Qed.

(** Non-vacuity 2: the hypotheses of [C10_no_wedge] are met by a re-organisation: in the state after
    G; A1; B1; A2; A3 (head A3) the child B2 of the stale sibling B1 meets every hypothesis (the branches meet
    at height 101, above the base 100), and in the pruned state of tree 2 (base 506 after six prunes) the
    sibling T9 of M9 does. *)
Example C10_nonvacuous_no_wedge :
  (exists hist s, Reach toy_hash toy_seal (fun a => In a univ1) 0 100 hist s /\ head s = A3 /\
                  should_accept toy_hash toy_seal bt1 s B2 = true /\ beq (toy_hash (head s)) (h_parent B2) = false) /\
  (exists hist s, Reach toy_hash toy_seal (fun a => In a univ2) 0 500 hist s /\ head s = M10 /\ base s = 506 /\
                  should_accept toy_hash toy_seal bt2 s T9 = true /\ beq (toy_hash (head s)) (h_parent T9) = false).
Proof.
  split.
  - destruct (run_checked toy_hash toy_seal univ1 0 [G] s0 (map (fun h => (bt1, h)) [A1; B1; A2; A3])) as [[hs s]|] eqn:E;
      [|vm_compute in E; discriminate].
    exists hs, s. split.
    + eapply (run_checked_init toy_hash toy_seal univ1 0 100 4 1000000000 G); [..|exact E]; vm_compute; reflexivity.
    + vm_compute in E. inversion E. repeat split.
  - destruct (run_checked toy_hash toy_seal univ2 0 [G2] s0' hist_prune) as [[hs s]|] eqn:E; [|vm_compute in E; discriminate].
    exists hs, s. split.
    + eapply (run_checked_init toy_hash toy_seal univ2 0 500 4 100 G2); [..|exact E]; vm_compute; reflexivity.
    + vm_compute in E. inversion E. repeat split.
Qed.
