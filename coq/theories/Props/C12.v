(** C12 — Token-pair registry stays self-consistent under every governance action.
    Only statements here; proofs are in Proofs/Registry.v.  The model ([Model/Registry.v], variant [head] =
    the code at /repo HEAD) takes the external functions as arguments:
      [hid text denom] = TokenPair.GetID (sha256 of "text|denom"), [canon a] = Address.Hex (EIP-55),
    and the theorems carry their assumed behaviour as explicit premises ([Oracles]). *)
From Teleport Require Import Base.Bytes Base.Outcome Base.AList Model.Registry Model.RegistryCheck
  Proofs.RegistryMap Proofs.Registry Proofs.RegistryInst.

(** GetID is collision-free and never empty; the check-summed text of a 20-byte address is a hex address
    that parses back to it. *)
Definition Oracles (hid : bytes -> bytes -> bytes) (canon : bytes -> bytes) : Prop :=
  (forall t d t' d', hid t d = hid t' d' -> t = t' /\ d = d') /\
  (forall t d, hid t d <> []) /\
  (forall a, is_hex_address (canon a) = true) /\
  (forall a, length a = 20%nat -> addr_of (canon a) = a).

(** [Good hid s]: every pair is stored under its GetID, has a non-empty duplicate-free list of denominations
    and a hex-address text, and is reachable by its address and by EACH of its denominations; every address /
    denomination entry points to an existing pair that lists it; no registered denomination reads as a hex
    address.  It holds after ANY sequence of RegisterCoin / AddCoin / RegisterERC20 / ToggleTokenRelay /
    UpdateTokenPairERC20 proposals (validated, executed on a cache context as gov does), conversions with
    their self-destruct clean-up, EnableAggregate changes and a genesis import, from any good registry.
    Side conditions ([admissible]): the address RegisterCoin's deployment creates is a 20-byte address not in
    the ERC20 index; a genesis is imported into an empty registry. *)
Theorem C12_registry_consistent : forall hid canon evm_denom, Oracles hid canon ->
  forall os s, Good hid s -> admissible_run hid canon evm_denom head s os -> Good hid (run hid canon evm_denom head s os).
Proof. intros hid canon e (A & B0 & C & D). exact (registry_consistent hid canon e A C D). Qed.
Print Assumptions C12_registry_consistent.

Theorem C12_registry_consistent_from_empty : forall hid canon evm_denom, Oracles hid canon ->
  forall os, admissible_run hid canon evm_denom head empty_state os -> Good hid (run hid canon evm_denom head empty_state os).
Proof. intros hid canon e (A & B0 & C & D). exact (registry_consistent_from_empty hid canon e A C D). Qed.
Print Assumptions C12_registry_consistent_from_empty.

(** Consequences of [Good]: no denomination and no contract belongs to two pairs; index entries are never
    dangling. *)
Theorem C12_no_denom_in_two_pairs : forall hid s id1 p1 id2 p2 d,
  Good hid s -> aget id1 (st_pairs s) = Some p1 -> aget id2 (st_pairs s) = Some p2 ->
  In d (p_denoms p1) -> In d (p_denoms p2) -> id1 = id2 /\ p1 = p2.
Proof. exact no_denom_in_two_pairs_head. Qed.
Print Assumptions C12_no_denom_in_two_pairs.

Theorem C12_no_contract_in_two_pairs : forall hid s id1 p1 id2 p2,
  Good hid s -> aget id1 (st_pairs s) = Some p1 -> aget id2 (st_pairs s) = Some p2 ->
  addr_of (p_text p1) = addr_of (p_text p2) -> id1 = id2 /\ p1 = p2.
Proof. exact no_contract_in_two_pairs_head. Qed.
Print Assumptions C12_no_contract_in_two_pairs.

Theorem C12_index_entries_point_to_pairs : forall hid s, Good hid s ->
  (forall a id, aget a (st_erc20 s) = Some id -> exists p, aget id (st_pairs s) = Some p /\ addr_of (p_text p) = a) /\
  (forall d id, aget d (st_denom s) = Some id -> exists p, aget id (st_pairs s) = Some p /\ In d (p_denoms p)).
Proof. exact index_entries_point_to_pairs. Qed.
Print Assumptions C12_index_entries_point_to_pairs.

(** Every pair is found through the API ([GetTokenPairID], with its IsHexAddress switch) by its address text
    and by EACH of its denominations, and is stored under its GetID. *)
Theorem C12_resolvable : forall hid s id p,
  Good hid s -> aget id (st_pairs s) = Some p ->
  pair_id hid p = Ok id /\ get_token_pair_id s (p_text p) = id /\ forall d, In d (p_denoms p) -> get_token_pair_id s d = id.
Proof. exact resolvable_head. Qed.
Print Assumptions C12_resolvable.

(** [MintingEnabled] succeeds only for a denomination listed by the stored, enabled pair the token resolves
    to (module enabled) ... *)
Theorem C12_minting_enabled_sound : forall hid s token denom p,
  Good hid s -> minting_enabled head s token denom = Ok p ->
  st_enable s = true /\ p_enabled p = true /\ In denom (p_denoms p) /\
  exists id, aget id (st_pairs s) = Some p /\ get_token_pair_id s token = id.
Proof. exact minting_enabled_sound_head. Qed.
Print Assumptions C12_minting_enabled_sound.

(** ... and, while the module and the pair are enabled, it succeeds for EVERY listed denomination, in the form
    ConvertCoin uses (denomination twice) and in the form ConvertERC20 uses (contract text, denomination). *)
Theorem C12_minting_enabled_complete : forall hid, (forall t d, hid t d <> []) -> forall s id p d,
  Good hid s -> st_enable s = true -> aget id (st_pairs s) = Some p -> p_enabled p = true -> In d (p_denoms p) ->
  minting_enabled head s d d = Ok p /\ minting_enabled head s (p_text p) d = Ok p.
Proof. exact minting_enabled_complete_head. Qed.
Print Assumptions C12_minting_enabled_complete.

(** Convert back: a denomination that converts before ANY operation still converts after it, through a pair
    that lists at least the same denominations, has the same owner and is still enabled — unless the operation
    explicitly toggled that very pair, disabled the module, or cleaned that pair up after its contract
    self-destructed ([explicit]). *)
Theorem C12_convert_back_possible : forall hid canon evm_denom, Oracles hid canon ->
  forall s o d p id,
  Good hid s -> admissible head s o -> minting_enabled head s d d = Ok p -> pair_id hid p = Ok id ->
  explicit hid head s o id \/
  exists p', minting_enabled head (fst (step hid canon evm_denom head s o)) d d = Ok p' /\ evolved p p'.
Proof. intros hid canon e (A & B0 & C & D). exact (convert_back_possible_head hid canon e A B0 C D). Qed.
Print Assumptions C12_convert_back_possible.

(** A genesis accepted by [GenesisState.Validate] is imported (InitGenesis does not panic) into a good
    registry. *)
Theorem C12_genesis_consistent : forall hid, (forall t d t' d', hid t d = hid t' d' -> t = t' /\ d = d') ->
  forall ps, validate_genesis head [] [] ps = Ok tt ->
  exists s', init_genesis hid empty_state ps = Ok s' /\ Good hid s'.
Proof. exact genesis_consistent. Qed.
Print Assumptions C12_genesis_consistent.

(** The pinned [IsDenomRegistered(Name)] test (any variant with the repaired update / genesis validation): the
    registry stays consistent because "a registered denomination has bank metadata" is invariant (metadata is
    never removed) and [EqualMetadata]'s pointer comparison rejects every base that has metadata. *)
Theorem C12_registry_consistent_masked : forall hid canon evm_denom, Oracles hid canon ->
  forall v os s, repaired v -> v_test_base v = false ->
  Consistent hid s -> MetaInv s -> admissible_run hid canon evm_denom v s os ->
  Consistent hid (run hid canon evm_denom v s os) /\ MetaInv (run hid canon evm_denom v s os).
Proof. intros hid canon e (A & B0 & C & D). exact (registry_consistent_masked hid canon e A C D). Qed.
Print Assumptions C12_registry_consistent_masked.

(** The executable monitors evaluated on the implementation's store dumps decide [Good], and accept every
    state the model reaches. *)
Theorem C12_monitor_decides : forall hid s, consistent_b hid s = true /\ nohex_b s = true <-> Good hid s.
Proof. exact monitor_decides. Qed.
Print Assumptions C12_monitor_decides.

Theorem C12_monitor_accepts_model : forall hid canon evm_denom, Oracles hid canon ->
  forall os s, Good hid s -> admissible_run hid canon evm_denom head s os ->
  consistent_b hid (run hid canon evm_denom head s os) = true /\ nohex_b (run hid canon evm_denom head s os) = true.
Proof. intros hid canon e (A & B0 & C & D). exact (monitor_accepts_model hid canon e A C D). Qed.
Print Assumptions C12_monitor_accepts_model.

(** The 40-hex-digit corner (O5): such a string IS a valid bank denomination and passes the proposal's
    ValidateBasic, and GetTokenPairID treats it as an address — which is why the code has to refuse it. *)
Theorem C12_hex_looking_denom_is_valid :
  let d := B "d533edae68bbfb79518734716ae7dfecc427b16e" in
  valid_denom d = true /\ is_hex_address d = true /\
  validate_basic (ORegisterCoin {| md_desc := B "x"; md_units := [(d, 0%N)]; md_base := d; md_display := d;
                                   md_name := B "hexcoin"; md_symbol := B "HX" |} [] true) = true.
Proof. vm_compute. repeat split; reflexivity. Qed.
Print Assumptions C12_hex_looking_denom_is_valid.

(** Non-vacuity: the oracle hypotheses are satisfiable ... *)
Example C12_oracles_satisfiable : Oracles hid0 canon0.
Proof. split; [exact hid0_inj | split; [exact hid0_nonempty | split; [exact canon0_hex | exact canon0_addr]]]. Qed.
Print Assumptions C12_oracles_satisfiable.

(** ... and a concrete admissible history (the D6 witness: RegisterERC20 X; AddCoin dcoin X;
    UpdateTokenPairERC20 X -> Y; ConvertCoin dcoin; Toggle dcoin) runs to a registry with one pair at Y that
    lists both denominations, both resolvable and convertible until the explicit toggle. *)
Definition ex_X : bytes := repeat x11 20.
Definition ex_Y : bytes := repeat x22 20.
Definition ex_q : option erc20q := Some {| q_name := B "coin"; q_symbol := B "CN"; q_decimals := 18; q_sname := B "coin" |}.
Definition ex_md : metadata :=
  {| md_desc := B "the dcoin coin"; md_units := [(B "dcoin", 0%N)]; md_base := B "dcoin"; md_display := B "dcoin";
     md_name := B "dcoin"; md_symbol := B "DCOIN" |}.
Definition ex_ops : list op :=
  [ ORegisterERC20 (canon0 ex_X) ex_q; OAddCoin ex_md (canon0 ex_X) true; OUpdate (canon0 ex_X) (canon0 ex_Y) ex_q;
    OConvertCoin (B "dcoin") [ex_X; ex_Y] ].

Example C12_nonvacuous :
  admissible_run hid0 canon0 (B "atele") head empty_state (ex_ops ++ [OToggle (B "dcoin")]) /\
  let s := run hid0 canon0 (B "atele") head empty_state ex_ops in
  (exists id p, st_pairs s = [(id, p)] /\ p_text p = canon0 ex_Y /\ length (p_denoms p) = 2%nat /\
                minting_enabled head s (B "dcoin") (B "dcoin") = Ok p) /\
  minting_enabled head (fst (step hid0 canon0 (B "atele") head s (OToggle (B "dcoin")))) (B "dcoin") (B "dcoin") = Err.
Proof.
  split; [vm_compute; repeat split|]. cbv zeta. split.
  - eexists. eexists. vm_compute. repeat split; reflexivity.
  - vm_compute. reflexivity.
Qed.
Print Assumptions C12_nonvacuous.
