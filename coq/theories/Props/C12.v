(** C12 — Token-pair registry stays self-consistent under every governance action.
    Only statements here; proofs are in Proofs/Registry.v.  The model ([Model/Registry.v], variant [head] =
    the code at /repo HEAD) takes the external functions as arguments:
      [hid text denom] = TokenPair.GetID (sha256 of "text|denom"), [canon a] = Address.Hex (EIP-55),
    and the theorems carry their assumed behaviour as explicit premises ([Oracles]). *)
From Teleport Require Import Base.Bytes Base.Outcome Base.AList Model.Registry Model.RegistryExport Model.RegistryCheck
  Proofs.RegistryMap Proofs.Registry Proofs.RegistryInst Proofs.RegistryHistory Proofs.RegistrySorted
  Proofs.RegistryMonitor.

(** GetID is collision-free ON HEX-ADDRESS TEXTS (all the registry ever hashes: sha256 of text|denom collides for
    arbitrary strings, e.g. ("a|b","c") and ("a","b|c"), so nothing stronger may be assumed - see
    [C12_real_getid_meets_oracles] in Props/C12SourceGetID.v for what the real function needs) and never empty; the check-summed text of a 20-byte
    address is a hex address that parses back to it. *)
Definition Oracles (hid : bytes -> bytes -> bytes) (canon : bytes -> bytes) : Prop :=
  (forall t d t' d', is_hex_address t = true -> is_hex_address t' = true -> hid t d = hid t' d' -> t = t' /\ d = d') /\
  (forall t d, hid t d <> []) /\
  (forall a, is_hex_address (canon a) = true) /\
  (forall a, length a = 20%nat -> addr_of (canon a) = a).

(** [Good hid s]: every pair is stored under its GetID, has a non-empty duplicate-free list of denominations
    and a hex-address text, and is reachable by its address and by EACH of its denominations; every address /
    denomination entry points to an existing pair that lists it; no registered denomination reads as a hex
    address.  It holds after ANY sequence of RegisterCoin / AddCoin / RegisterERC20 / ToggleTokenRelay /
    UpdateTokenPairERC20 proposals (validated, executed on a cache context as gov does), conversions with
    their self-destruct clean-up, EnableAggregate changes and a genesis import, from any good registry.
    Side conditions ([admissible]): the address RegisterCoin's deployment creates is a 20-byte address not in
    the ERC20 index; a genesis is imported into an empty registry. *)
Theorem C12_registry_consistent : forall hid canon evm_denom, Oracles hid canon ->
  forall os s, Good hid s -> admissible_run hid canon evm_denom head s os -> Good hid (run hid canon evm_denom head s os).
Proof. intros hid canon e (A & B0 & C & D). exact (registry_consistent hid canon e A C D). Qed.
Print Assumptions C12_registry_consistent.

Theorem C12_registry_consistent_from_empty : forall hid canon evm_denom, Oracles hid canon ->
  forall os, admissible_run hid canon evm_denom head empty_state os -> Good hid (run hid canon evm_denom head empty_state os).
Proof. intros hid canon e (A & B0 & C & D). exact (registry_consistent_from_empty hid canon e A C D). Qed.
Print Assumptions C12_registry_consistent_from_empty.

(** Consequences of [Good]: no denomination and no contract belongs to two pairs; index entries are never
    dangling. *)
Theorem C12_no_denom_in_two_pairs : forall hid s id1 p1 id2 p2 d,
  Good hid s -> aget id1 (st_pairs s) = Some p1 -> aget id2 (st_pairs s) = Some p2 ->
  In d (p_denoms p1) -> In d (p_denoms p2) -> id1 = id2 /\ p1 = p2.
Proof. exact no_denom_in_two_pairs_head. Qed.
Print Assumptions C12_no_denom_in_two_pairs.

Theorem C12_no_contract_in_two_pairs : forall hid s id1 p1 id2 p2,
  Good hid s -> aget id1 (st_pairs s) = Some p1 -> aget id2 (st_pairs s) = Some p2 ->
  addr_of (p_text p1) = addr_of (p_text p2) -> id1 = id2 /\ p1 = p2.
Proof. exact no_contract_in_two_pairs_head. Qed.
Print Assumptions C12_no_contract_in_two_pairs.

Theorem C12_index_entries_point_to_pairs : forall hid s, Good hid s ->
  (forall a id, aget a (st_erc20 s) = Some id -> exists p, aget id (st_pairs s) = Some p /\ addr_of (p_text p) = a) /\
  (forall d id, aget d (st_denom s) = Some id -> exists p, aget id (st_pairs s) = Some p /\ In d (p_denoms p)).
Proof. exact index_entries_point_to_pairs. Qed.
Print Assumptions C12_index_entries_point_to_pairs.

(** Every pair is found through the API ([GetTokenPairID], with its IsHexAddress switch) by its address text
    and by EACH of its denominations, and is stored under its GetID. *)
Theorem C12_resolvable : forall hid s id p,
  Good hid s -> aget id (st_pairs s) = Some p ->
  pair_id hid p = Ok id /\ get_token_pair_id s (p_text p) = id /\ forall d, In d (p_denoms p) -> get_token_pair_id s d = id.
Proof. exact resolvable_head. Qed.
Print Assumptions C12_resolvable.

(** [MintingEnabled] succeeds only for a denomination listed by the stored, enabled pair the token resolves
    to (module enabled) ... *)
Theorem C12_minting_enabled_sound : forall hid s token denom p,
  Good hid s -> minting_enabled head s token denom = Ok p ->
  st_enable s = true /\ p_enabled p = true /\ In denom (p_denoms p) /\
  exists id, aget id (st_pairs s) = Some p /\ get_token_pair_id s token = id.
Proof. exact minting_enabled_sound_head. Qed.
Print Assumptions C12_minting_enabled_sound.

(** ... and, while the module and the pair are enabled, it succeeds for EVERY listed denomination, in the form
    ConvertCoin uses (denomination twice) and in the form ConvertERC20 uses (contract text, denomination). *)
Theorem C12_minting_enabled_complete : forall hid, (forall t d, hid t d <> []) -> forall s id p d,
  Good hid s -> st_enable s = true -> aget id (st_pairs s) = Some p -> p_enabled p = true -> In d (p_denoms p) ->
  minting_enabled head s d d = Ok p /\ minting_enabled head s (p_text p) d = Ok p.
Proof. exact minting_enabled_complete_head. Qed.
Print Assumptions C12_minting_enabled_complete.

(** Convert back: a denomination that converts before ANY operation still converts after it, through a pair
    that lists at least the same denominations, has the same owner and is still enabled — unless the operation
    explicitly toggled that very pair, disabled the module, or cleaned that pair up after its contract
    self-destructed ([explicit]). *)
Theorem C12_convert_back_possible : forall hid canon evm_denom, Oracles hid canon ->
  forall s o d p id,
  Good hid s -> admissible head s o -> minting_enabled head s d d = Ok p -> pair_id hid p = Ok id ->
  explicit hid head s o id \/
  exists p', minting_enabled head (fst (step hid canon evm_denom head s o)) d d = Ok p' /\ evolved p p'.
Proof. intros hid canon e (A & B0 & C & D). exact (convert_back_possible_head hid canon e A B0 C D). Qed.
Print Assumptions C12_convert_back_possible.

(** The same over a whole HISTORY (the "consequently" clause of the property at full strength): a denomination that
    converts before any admissible sequence of operations still converts after it - as a coin into the token
    (ConvertCoin: denomination twice) AND back (ConvertERC20: the pair's contract text and the denomination) - through
    a pair that kept every denomination, its owner and its enabled flag, unless at some point of the history an
    operation explicitly toggled / cleaned up the very pair the denomination converted through at that moment, or
    disabled the module ([hit]: the prefix, the operation and that pair are exhibited). *)
Theorem C12_convert_back_over_history : forall hid canon evm_denom, Oracles hid canon ->
  forall os s d p,
  Good hid s -> admissible_run hid canon evm_denom head s os -> minting_enabled head s d d = Ok p ->
  hit hid canon evm_denom s os d \/
  exists p', minting_enabled head (run hid canon evm_denom head s os) d d = Ok p' /\
             minting_enabled head (run hid canon evm_denom head s os) (p_text p') d = Ok p' /\ evolved p p'.
Proof. intros hid canon e (A & B0 & C & D). exact (convert_back_run hid canon e A B0 C D). Qed.
Print Assumptions C12_convert_back_over_history.

(** What "kept" means: an [evolved] pair lists the old denominations in the same order (new ones only appended), so its
    first denomination - and with it the id under a given contract text - never changes. *)
Theorem C12_first_denomination_is_stable : forall hid p p' id, evolved p p' -> pair_id hid p = Ok id ->
  exists d0 r r', p_denoms p = d0 :: r /\ p_denoms p' = d0 :: r' /\ pair_id hid p' = Ok (hid (p_text p') d0).
Proof. exact evolved_first_denom. Qed.
Print Assumptions C12_first_denomination_is_stable.

(** The contract may be written in any spelling (check-summed, lower / upper case, with or without 0x): resolution goes
    through the 20-byte address. *)
Theorem C12_resolution_ignores_spelling : forall s t t',
  is_hex_address t = true -> is_hex_address t' = true -> addr_of t = addr_of t' ->
  get_token_pair_id s t = get_token_pair_id s t' /\
  forall d, minting_enabled head s t d = minting_enabled head s t' d.
Proof.
  intros s t t' H H' E. unfold minting_enabled, get_token_pair_id. rewrite H, H', E. split; [reflexivity | intro d; reflexivity].
Qed.
Print Assumptions C12_resolution_ignores_spelling.

(** "And nothing else changes", part 1: an operation that is refused by ValidateBasic, returns an error or panics
    (and every conversion proper / environment step: class 9) leaves the WHOLE state as it was - for every code
    variant; a genesis file only brings its bank metadata. *)
Theorem C12_failed_operation_changes_nothing : forall hid canon evm_denom v s o,
  snd (step hid canon evm_denom v s o) <> 0%nat ->
  (is_genesis o = false -> fst (step hid canon evm_denom v s o) = s) /\
  st_pairs (fst (step hid canon evm_denom v s o)) = st_pairs s /\ st_erc20 (fst (step hid canon evm_denom v s o)) = st_erc20 s /\
  st_denom (fst (step hid canon evm_denom v s o)) = st_denom s /\ st_enable (fst (step hid canon evm_denom v s o)) = st_enable s.
Proof. exact failed_step_changes_nothing. Qed.
Print Assumptions C12_failed_operation_changes_nothing.

(** Part 2: every operation leaves every pair it does not work on EXACTLY as it was - same record under the same
    id, still reachable by its address and by each of its denominations.  [target]: AddCoin / Update name the pair by
    its contract, Toggle by a token, a conversion cleans up the pair it resolved ([explicit]); RegisterCoin and
    RegisterERC20 touch no existing pair at all. *)
Theorem C12_other_pairs_untouched : forall hid canon evm_denom, Oracles hid canon ->
  forall s o id p,
  Good hid s -> admissible head s o -> aget id (st_pairs s) = Some p ->
  target hid s o id \/
  (aget id (st_pairs (fst (step hid canon evm_denom head s o))) = Some p /\
   aget (addr_of (p_text p)) (st_erc20 (fst (step hid canon evm_denom head s o))) = Some id /\
   forall d, In d (p_denoms p) -> aget d (st_denom (fst (step hid canon evm_denom head s o))) = Some id).
Proof. intros hid canon e (A & B0 & C & D). exact (step_untouched_indexes hid canon e A C D). Qed.
Print Assumptions C12_other_pairs_untouched.

(** Well-formedness of the raw stores over every history: besides [Good], the three prefixes stay STRICTLY SORTED by
    key (raw iteration shows every binding exactly once: no shadowed entries behind the API's back) and every
    registered denomination is a valid bank denomination. *)
Theorem C12_wellformed_over_history : forall hid canon evm_denom, Oracles hid canon ->
  forall os, admissible_run hid canon evm_denom head empty_state os ->
  let s := run hid canon evm_denom head empty_state os in
  Good hid s /\ (Srt (st_pairs s) /\ Srt (st_erc20 s) /\ Srt (st_denom s)) /\ ValidDenoms s.
Proof.
  intros hid canon e (A & B0 & C & D) os Ad.
  exact (wf_run hid canon e A C D os empty_state (wf_empty hid) Ad).
Qed.
Print Assumptions C12_wellformed_over_history.

(** Consequently the genesis that ExportGenesis (GetAllTokenPairs = raw iteration of prefix 0x01) produces after ANY
    history passes GenesisState.Validate, and InitGenesis of it into an empty registry yields a good registry: the
    chain can always restart from its own export.  (That the re-import reproduces the store byte for byte is C13.) *)
Theorem C12_export_validates : forall hid canon evm_denom, Oracles hid canon ->
  forall os, admissible_run hid canon evm_denom head empty_state os ->
  let s := run hid canon evm_denom head empty_state os in
  validate_genesis head [] [] (get_all_token_pairs s) = Ok tt /\
  exists s', init_genesis hid empty_state (get_all_token_pairs s) = Ok s' /\ Good hid s'.
Proof.
  intros hid canon e (A & B0 & C & D) os Ad. cbv zeta.
  pose proof (wf_run hid canon e A C D os empty_state (wf_empty hid) Ad) as W. split.
  - pose proof (export_validates_wf hid _ W) as E. unfold export_validates in E.
    destruct (validate_genesis head [] [] (get_all_token_pairs (run hid canon e head empty_state os))) as [[]| |]; [reflexivity | discriminate | discriminate].
  - exact (export_reimports hid A _ W).
Qed.
Print Assumptions C12_export_validates.

(** The executable forms evaluated on the implementation's dumps imply the Prop forms. *)
Theorem C12_wellformed_monitors_sound : forall s,
  (sorted_state_b s = true -> Srt (st_pairs s) /\ Srt (st_erc20 s) /\ Srt (st_denom s)) /\
  (valid_denoms_b s = true -> ValidDenoms s).
Proof.
  intro s. split; [|apply valid_denoms_b_spec].
  unfold sorted_state_b. rewrite !andb_true_iff. intros [[[H1 H2] H3] _].
  split; [apply sorted_b_Srt, H1 | split; [apply sorted_b_Srt, H2 | apply sorted_b_Srt, H3]].
Qed.
Print Assumptions C12_wellformed_monitors_sound.

(** A genesis accepted by [GenesisState.Validate] is imported (InitGenesis does not panic) into a good
    registry. *)
Theorem C12_genesis_consistent : forall hid,
  (forall t d t' d', is_hex_address t = true -> is_hex_address t' = true -> hid t d = hid t' d' -> t = t' /\ d = d') ->
  forall ps, validate_genesis head [] [] ps = Ok tt ->
  exists s', init_genesis hid empty_state ps = Ok s' /\ Good hid s'.
Proof. exact genesis_consistent. Qed.
Print Assumptions C12_genesis_consistent.

(** The pinned [IsDenomRegistered(Name)] test (any variant with the repaired update / genesis validation): the
    registry stays consistent because "a registered denomination has bank metadata" is invariant (metadata is
    never removed) and [EqualMetadata]'s pointer comparison rejects every base that has metadata. *)
Theorem C12_registry_consistent_masked : forall hid canon evm_denom, Oracles hid canon ->
  forall v os s, repaired v -> v_test_base v = false ->
  Consistent hid s -> MetaInv s -> admissible_run hid canon evm_denom v s os ->
  Consistent hid (run hid canon evm_denom v s os) /\ MetaInv (run hid canon evm_denom v s os).
Proof. intros hid canon e (A & B0 & C & D). exact (registry_consistent_masked hid canon e A C D). Qed.
Print Assumptions C12_registry_consistent_masked.

(** The executable monitors evaluated on the implementation's store dumps decide [Good], and accept every
    state the model reaches. *)
Theorem C12_monitor_decides : forall hid s, consistent_b hid s = true /\ nohex_b s = true <-> Good hid s.
Proof. exact monitor_decides. Qed.
Print Assumptions C12_monitor_decides.

Theorem C12_monitor_accepts_model : forall hid canon evm_denom, Oracles hid canon ->
  forall os s, Good hid s -> admissible_run hid canon evm_denom head s os ->
  consistent_b hid (run hid canon evm_denom head s os) = true /\ nohex_b (run hid canon evm_denom head s os) = true.
Proof. intros hid canon e (A & B0 & C & D). exact (monitor_accepts_model hid canon e A C D). Qed.
Print Assumptions C12_monitor_accepts_model.

(** ... and so do the OBSERVATION-level monitors (23 resolvable through GetTokenPairID, 24 / 25 MintingEnabled sound and
    complete): on the answers the model itself gives for a universe of token strings that contains the text and the
    denominations of every stored pair, they accept every state of every admissible history.  A monitor failure on an
    implementation trace is therefore never an artefact of the monitor. *)
Theorem C12_observation_monitors_accept_model : forall hid canon evm_denom, Oracles hid canon ->
  forall os, admissible_run hid canon evm_denom head empty_state os ->
  let s := run hid canon evm_denom head empty_state os in
  forall o cl toks, covers s toks ->
  consistent_b hid s = true /\ nohex_b s = true /\
  resolvable_b (model_ostep hid o cl s toks) = true /\ me_sound_b (model_ostep hid o cl s toks) = true /\
  me_complete_b (model_ostep hid o cl s toks) = true.
Proof.
  intros hid canon e (A & B0 & C & D) os Ad. cbv zeta. intros o cl toks Cv.
  destruct (wf_run hid canon e A C D os empty_state (wf_empty hid) Ad) as (G & S & V).
  exact (step_monitors_accept_model hid B0 o cl _ toks G S V Cv).
Qed.
Print Assumptions C12_observation_monitors_accept_model.

(** Monitor 26 (convert back across one step, evaluated on two consecutive observations) likewise accepts the model:
    for every reachable state and every admissible next operation, on the model's own answers before and after. *)
Theorem C12_convert_back_monitor_accepts_model : forall hid canon evm_denom, Oracles hid canon ->
  forall os, admissible_run hid canon evm_denom head empty_state os ->
  let s := run hid canon evm_denom head empty_state os in
  forall o, admissible head s o ->
  forall o0 cl0 toks toks', covers (fst (step hid canon evm_denom head s o)) toks' ->
  convert_back_b (model_ostep hid o0 cl0 s toks)
                 (model_ostep hid o (snd (step hid canon evm_denom head s o)) (fst (step hid canon evm_denom head s o)) toks') = true.
Proof.
  intros hid canon e (A & B0 & C & D) os Ad. cbv zeta. intros o Ao o0 cl0 toks toks' Cv.
  destruct (wf_run hid canon e A C D os empty_state (wf_empty hid) Ad) as (G & S & V).
  exact (convert_back_model hid B0 canon e A C D o0 cl0 _ toks o toks' G S Ao Cv).
Qed.
Print Assumptions C12_convert_back_monitor_accepts_model.

(** The environment hypotheses are decidable, and every run checks them on every executed operation (mismatch kind 14)
    - so no executed case lies outside the domain of the theorems unnoticed. *)
Theorem C12_admissible_decided : forall s o, admissible_b s o = true <-> admissible head s o.
Proof. exact admissible_b_spec. Qed.
Print Assumptions C12_admissible_decided.

(** The 40-hex-digit corner (O5): such a string IS a valid bank denomination and passes the proposal's
    ValidateBasic, and GetTokenPairID treats it as an address — which is why the code has to refuse it. *)
Theorem C12_hex_looking_denom_is_valid :
  let d := B "d533edae68bbfb79518734716ae7dfecc427b16e" in
  valid_denom d = true /\ is_hex_address d = true /\
  validate_basic (ORegisterCoin {| md_desc := B "x"; md_units := [(d, 0%N)]; md_base := d; md_display := d;
                                   md_name := B "hexcoin"; md_symbol := B "HX" |} [] true) = true.
Proof. vm_compute. repeat split; reflexivity. Qed.
Print Assumptions C12_hex_looking_denom_is_valid.

(** The tie to the source (GetID's hashed string, CreateDenom / CreateDenomDescription, the Owner constants, who can
    write the registry) is re-checked on every run on terms REGENERATED from the Go code: Props/C12SourceGetID.v
    ([C12_source_getid], [C12_real_getid_meets_oracles]), C12SourceFormats.v, C12SourceOwners.v, C12SourceWriters.v -
    one file per item, so that an item that cannot be determined breaks its own obligation only. *)

(** Non-vacuity: the oracle hypotheses are satisfiable ... *)
Example C12_oracles_satisfiable : Oracles hid0 canon0.
Proof. split; [intros t d t' d' _ _; exact (hid0_inj t d t' d') | split; [exact hid0_nonempty | split; [exact canon0_hex | exact canon0_addr]]]. Qed.
Print Assumptions C12_oracles_satisfiable.

(** ... and a concrete admissible history (the D6 witness: RegisterERC20 X; AddCoin dcoin X;
    UpdateTokenPairERC20 X -> Y; ConvertCoin dcoin; Toggle dcoin) runs to a registry with one pair at Y that
    lists both denominations, both resolvable and convertible until the explicit toggle. *)
Definition ex_X : bytes := repeat x11 20.
Definition ex_Y : bytes := repeat x22 20.
Definition ex_q : option erc20q := Some {| q_name := B "coin"; q_symbol := B "CN"; q_decimals := 18; q_sname := B "coin" |}.
Definition ex_md : metadata :=
  {| md_desc := B "the dcoin coin"; md_units := [(B "dcoin", 0%N)]; md_base := B "dcoin"; md_display := B "dcoin";
     md_name := B "dcoin"; md_symbol := B "DCOIN" |}.
Definition ex_ops : list op :=
  [ ORegisterERC20 (canon0 ex_X) ex_q; OAddCoin ex_md (canon0 ex_X) true; OUpdate (canon0 ex_X) (canon0 ex_Y) ex_q;
    OConvertCoin (B "dcoin") [ex_X; ex_Y] ].

Example C12_nonvacuous :
  admissible_run hid0 canon0 (B "atele") head empty_state (ex_ops ++ [OToggle (B "dcoin")]) /\
  let s := run hid0 canon0 (B "atele") head empty_state ex_ops in
  (exists id p, st_pairs s = [(id, p)] /\ p_text p = canon0 ex_Y /\ length (p_denoms p) = 2%nat /\
                minting_enabled head s (B "dcoin") (B "dcoin") = Ok p) /\
  minting_enabled head (fst (step hid0 canon0 (B "atele") head s (OToggle (B "dcoin")))) (B "dcoin") (B "dcoin") = Err.
Proof.
  split; [vm_compute; repeat split|]. cbv zeta. split.
  - eexists. eexists. vm_compute. repeat split; reflexivity.
  - vm_compute. reflexivity.
Qed.
Print Assumptions C12_nonvacuous.

(** Non-vacuity of the history theorem: in the D6 witness the added denomination converts before the update and, after
    the update AND a conversion, still converts in both directions through the pair at the new contract (right-hand
    disjunct); one more operation - the explicit toggle - is a [hit]. *)
Example C12_history_nonvacuous :
  let s := run hid0 canon0 (B "atele") head empty_state (firstn 2 ex_ops) in
  let os := skipn 2 ex_ops in
  Good hid0 s /\ admissible_run hid0 canon0 (B "atele") head s (os ++ [OToggle (B "dcoin")]) /\
  (exists p, minting_enabled head s (B "dcoin") (B "dcoin") = Ok p /\ p_text p = canon0 ex_X) /\
  (exists p', minting_enabled head (run hid0 canon0 (B "atele") head s os) (B "dcoin") (B "dcoin") = Ok p' /\
              minting_enabled head (run hid0 canon0 (B "atele") head s os) (p_text p') (B "dcoin") = Ok p' /\ p_text p' = canon0 ex_Y) /\
  hit hid0 canon0 (B "atele") s (os ++ [OToggle (B "dcoin")]) (B "dcoin").
Proof.
  cbv zeta. split; [apply monitor_decides; vm_compute; split; reflexivity|]. split; [vm_compute; repeat split|]. split; [|split].
  - eexists. split; vm_compute; reflexivity.
  - eexists. split; [vm_compute; reflexivity|]. split; vm_compute; reflexivity.
  - exists (skipn 2 ex_ops), (OToggle (B "dcoin")), []. eexists. eexists.
    split; [reflexivity|]. split; [vm_compute; reflexivity|]. split; vm_compute; reflexivity.
Qed.
Print Assumptions C12_history_nonvacuous.

(** Non-vacuity of the export theorem: the registry of the D6 witness (one pair, two denominations) is well-formed
    and its export validates. *)
Example C12_export_nonvacuous :
  let s := run hid0 canon0 (B "atele") head empty_state ex_ops in
  length (get_all_token_pairs s) = 1%nat /\ export_validates head s = true /\ sorted_state_b s = true /\ valid_denoms_b s = true.
Proof. vm_compute. repeat split; reflexivity. Qed.
Print Assumptions C12_export_nonvacuous.
