(** C12 — placeholder while the proofs are being written (statements follow). *)
From Teleport Require Import Base.Bytes Base.Outcome Base.AList Model.Registry Model.RegistryCheck.

Example C12_model_runs : st_enable empty_state = true.
Proof. reflexivity. Qed.
Print Assumptions C12_model_runs.
