(** C01 — Exactly-once packet delivery per (source, destination, sequence).
    Only statements; proofs in Proofs/PacketC01.v.  [P : params] bundles the external functions (ABI codecs,
    sha256, light-client verification, bech32, EqualFold) as ARBITRARY oracles; the key builders are the real ones
    ([real_keys P]: regenerated from host/keys.go).  A history is a list of operations [(env, action)] folded by
    [run] from ANY state; [step] models one delivered message (error / panic => state unchanged). *)
From Teleport Require Import Base.Bytes Base.Outcome Base.AList Model.Packet Model.PacketKeys
     Proofs.Packet Proofs.PacketC01 Proofs.PacketC02 Proofs.PacketC05 Proofs.PacketC04 Proofs.PacketTx Proofs.PacketKeys Proofs.PacketExamples.
Local Open Scope N_scope.

(** No operation of any history removes or rewrites a packet receipt. *)
Theorem C01_receipts_monotone : forall P, real_keys P -> forall ops s t v,
  sget (rkey P t) s = Some v -> sget (rkey P t) (run P s ops) = Some v.
Proof. intros P K ops s t v H. exact (run_keeps_receipts P (real_keys_ok P K) ops s _ _ (ex_intro _ t eq_refl) H). Qed.
Print Assumptions C01_receipts_monotone.

(** Once a receive whose packet bytes decode to the triple t was accepted, EVERY later receive — after any history
    [ops] of receives, acks, sends, client updates, governance — whose bytes decode to the same t (whatever the
    encoding, payload, proof, proof height, signer, callback behaviour) returns an error and leaves the WHOLE state
    equal. *)
Theorem C01_recv_at_most_once : forall P, real_keys P -> forall env s m cb s1 ops env' m' cb',
  exec P env s (ARecv m cb) = Ok s1 ->
  triple_of (fst (decode P (rm_packet m'))) = triple_of (fst (decode P (rm_packet m))) ->
  exec P env' (run P s1 ops) (ARecv m' cb') = Err /\
  step P (run P s1 ops) (env', ARecv m' cb') = (run P s1 ops, false).
Proof. intros P K. exact (recv_at_most_once P (real_keys_ok P K)). Qed.
Print Assumptions C01_recv_at_most_once.

(** The application effects happen at most once per triple: in every history from a state whose ghost log is
    consistent (e.g. empty), the log contains at most one persisted onRecvPacket invocation and at most one written
    acknowledgement per triple. *)
Theorem C01_effects_at_most_once : forall P, real_keys P -> forall ops s t,
  log_ok P s ->
  (cnt (is_onrecv t) (log (st_app (run P s ops))) <= 1)%nat /\
  (cnt (is_ackw t) (log (st_app (run P s ops))) <= 1)%nat.
Proof. intros P K. exact (effects_at_most_once P (real_keys_ok P K)). Qed.
Print Assumptions C01_effects_at_most_once.

Theorem C01_log_ok_empty : forall P s, log (st_app s) = [] -> log_ok P s.
Proof. exact log_ok_empty. Qed.
Print Assumptions C01_log_ok_empty.

(** The hypotheses on the keys hold for the real key builders (format terms regenerated from host/keys.go). *)
Theorem C01_real_keys_ok : forall P, real_keys P -> keys_ok P.
Proof. exact real_keys_ok. Qed.
Print Assumptions C01_real_keys_ok.

(** Cosmos transactions carrying SEVERAL messages (BaseApp.runTx is atomic over all of them: [step_tx] accepts a
    transaction iff every message is accepted, and a rejected transaction leaves the state equal).  Every state
    reachable by a history of transactions is the state reached by the messages of the accepted transactions alone,
    so every theorem stated over [run] covers histories of multi-message transactions. *)
Theorem C01_run_txs_as_run : forall P l s,
  run_txs P s l = run P s (accepted P s l) /\
  (forall o, In o (accepted P s l) -> exists t, In t l /\ In o t).
Proof. exact run_txs_as_run. Qed.
Print Assumptions C01_run_txs_as_run.

(** Same block, same transaction: once a transaction containing an accepted receive of triple t is accepted, every
    later transaction — after any history [l] of transactions — that carries a receive decoding to t is rejected AS A
    WHOLE and leaves the state equal; the messages before (t3) and behind (t4) it in that transaction have
    no effect either. *)
Theorem C01_recv_twice_tx_rejected : forall P, real_keys P ->
  forall env s m cb t1 t2 env' m' cb' t3 t4 l s1,
  exec_tx P s (t1 ++ (env, ARecv m cb) :: t2) = Some s1 ->
  triple_of (fst (decode P (rm_packet m'))) = triple_of (fst (decode P (rm_packet m))) ->
  step_tx P (run_txs P s1 l) (t3 ++ (env', ARecv m' cb') :: t4) = (run_txs P s1 l, false).
Proof. intros P K. exact (recv_twice_tx_rejected P (real_keys_ok P K)). Qed.
Print Assumptions C01_recv_twice_tx_rejected.

(** Non-vacuity: on a concrete chain B (client for chain A, one relayer) a packet (A, B, 3) is accepted; after a
    history that receives two other packets, a re-encoded duplicate (other payload, other proof, other height) is
    rejected; exactly one callback invocation and one acknowledgement are logged for the triple. *)
Example C01_nonvacuous :
  let m := recv_of (pkt x61 x62 3) in
  real_keys exP /\
  match exec exP 1 exB (ARecv m cb_ok) with
  | Ok s1 =>
      let s2 := run exP s1 [(2, ARecv (recv_of (pkt x61 x62 4)) cb_ok); (3, ARecv (recv_of (pkt x61 x62 5)) cb_ok)] in
      length (st_store s2) = 6%nat /\
      step exP s2 (4, ARecv (mkRecv [x61; x62; x09; x09; x09] (B "other proof") (0, 77) (B "rel")) cb_ok) = (s2, false) /\
      cnt (is_onrecv (chA, chB, 3)) (log (st_app s2)) = 1%nat /\ cnt (is_ackw (chA, chB, 3)) (log (st_app s2)) = 1%nat
  | _ => False
  end.
Proof. split; [exact exP_real|]. vm_compute. repeat split; reflexivity. Qed.
