(** C06 — refinement between layers (statements only; proofs in Proofs/AuthPacket.v).

    The RecvPacket / Acknowledgement handlers of the PACKET-CORE model (Model/Packet.v — concrete KV
    store with receipts, commitments and acknowledgement hashes, relayer table, callbacks as inputs;
    the model the packet properties C01/C02/C04/C05 are proved about and which their correspondence
    check ties to x/xibc/keeper/msg_server.go + core/packet/keeper/packet.go) are an INSTANCE of the
    authorization model Model/Auth.v: run on the same message they agree in outcome class, the
    authorization model's new lower state IS the packet-core model's new state, and the relayer
    registry is the packet-core model's relayer table.  So every theorem of Props/C06.v about
    handle_recv / handle_ack holds of the packet-core handlers; [C06_packet_core_recv_sound] spells
    the main ones out on the packet-core state itself.

    Premise [tss_verify] (a hypothesis of the closed theorems, not an axiom): the packet-core
    model's verification oracle, on a TSS client, is the string comparison of
    x/xibc/clients/tss-client/types/client_state.go VerifyPacketCommitment / VerifyPacketAcknowledgement
    (`if string(proof) != cs.TssAddress { return error }; return nil`). *)
From Teleport Require Import Base.Bytes Base.Outcome Base.AList Model.Auth Model.AuthCheck
     Proofs.Auth Proofs.AuthBranches Proofs.AuthPacket.
From Teleport Require Model.Packet.

Section C06_packet.
  Variable PP : P.params.                  (* the external functions of the packet-core model: ARBITRARY *)
  Variable env : N.                        (* block time / light-client stores *)
  Variable tss_addr : bytes -> bytes.      (* TssAddress of the TSS client state stored under a chain name *)
  Hypothesis tss_verify : forall name ct kind h proof src dst seq v,
    P.is_tss ct = true ->
    P.client_verify PP env name ct kind h proof src dst seq v = bytes_eqb proof (tss_addr name).

  Notation plow := (plow PP env tss_addr).
  Notation related := (related).
  Notation agree := (agree).

  (** MsgRecvPacket: for every state [s] of the authorization model whose registry is the packet-core
      state's relayer table, every message and every behaviour [cb] of the EVM callback. *)
  Theorem C06_packet_recv_refines : forall s pm cb,
    related s ->
    agree (handle_recv P.cstate unit PK AK plow s (recv_view PP pm cb))
          (P.recv_handler PP env (low P.cstate s) pm cb) s.
  Proof. exact (recv_refines PP env tss_addr tss_verify). Qed.

  (** MsgAcknowledgement *)
  Theorem C06_packet_ack_refines : forall s pm cb1 cb2 cb3,
    related s ->
    agree (handle_ack P.cstate unit PK AK (P.equal_fold PP) (bech_ok PP) plow s (ack_view PP pm (cb1, cb2, cb3)))
          (P.ack_handler PP env (low P.cstate s) pm cb1 cb2 cb3) s.
  Proof. exact (ack_refines PP env tss_addr tss_verify). Qed.

  (** On the packet-core state itself: an accepted RecvPacket implies that the signer's record in the
      relayer table lists the packet's source chain (first index i), that for a TSS source the signer
      is the TSS address, that the relayer table is unchanged, and that the new state is the keeper's
      (packet relayed onwards) or WriteAcknowledgement of the packed acknowledgement
      (code, result, message, Addresses[i], fee option of the packet). *)
  Theorem C06_packet_core_recv_sound : forall c pm cb c',
    P.recv_handler PP env c pm cb = Ok c' ->
    let p := pkt_of PP (P.rm_packet pm) in
    exists chains addrs i relayer,
      aget (P.rm_signer pm) (P.st_relayers c) = Some (chains, addrs) /\
      first_index chains (P.p_src p) = Some i /\ nth_error addrs i = Some relayer /\
      (forall ct, aget (P.p_src p) (P.st_clients c) = Some ct -> P.is_tss ct = true -> P.rm_signer pm = tss_addr (P.p_src p)) /\
      P.st_relayers c' = P.st_relayers c /\
      (P.recv_keeper PP env c pm = Ok c' \/
       exists d code res mg bz,
         P.pack_ack PP (P.mkAck code res mg relayer (P.p_fee p)) = Some bz /\ P.write_ack PP d p bz = Ok c').
  Proof. exact (packet_core_recv_sound PP env tss_addr tss_verify). Qed.
End C06_packet.

Print Assumptions C06_packet_recv_refines.
Print Assumptions C06_packet_ack_refines.
Print Assumptions C06_packet_core_recv_sound.

(** ** Non-vacuity: a concrete packet-core instance satisfying [tss_verify] (toy codecs: the first byte
    of the packet bytes selects the source chain, 'e' = eth-chain (light client), 't' = tss-chain (TSS);
    destination = this chain "teleport"; sequence = length; an acknowledgement packs to its Relayer
    field, sha256 x = 0 :: x — so the stored acknowledgement hash SHOWS the relayer). *)
Definition t_decode (bz : bytes) : P.packet * bool :=
  match bz with
  | x65 :: _ => (P.mkPacket (B "eth-chain") (B "teleport") (N.of_nat (length bz)) (B "sender") [x01] [] [] 0, false)
  | x74 :: _ => (P.mkPacket (B "tss-chain") (B "teleport") (N.of_nat (length bz)) (B "sender") [x01] [] [] 0, false)
  | _ => (P.mkPacket [] [] 0 [] [] [] [] 0, true)
  end.

Definition tP : P.params :=
  P.mkParams (fun s d q => B "receipts/" ++ s) (fun s d q => B "acks/" ++ s) (fun s d q => B "commitments/" ++ s)
             (fun s d => B "seq/" ++ s ++ d) (fun _ => true)
             t_decode (fun p => Some (P.p_src p ++ P.p_dst p)) (fun x => x00 :: x)
             (fun _ => None) (fun a => Some (P.a_relayer a))
             (fun env name ct kind h proof src dst seq v => if P.is_tss ct then bytes_eqb proof (B "tss-account") else true)
             (fun s => Some s) ascii_fold_eq.

Lemma tP_tss_verify : forall name ct kind h proof src dst seq v,
  P.is_tss ct = true -> P.client_verify tP 0%N name ct kind h proof src dst seq v = bytes_eqb proof ((fun _ => B "tss-account") name).
Proof. intros. cbn. rewrite H. reflexivity. Qed.

Definition t_c0 : P.cstate :=
  P.mkState [] [(B "eth-chain", 1%N); (B "tss-chain", 0%N)] (B "teleport")
            [(B "alice", ([B "eth-chain"], [B "0xA1"])); (B "tss-account", ([B "tss-chain"], [B "0xT1"]))]
            (P.mkApp [] []).
Definition t_fail : P.cbres := P.mkCb true [] None.                       (* the callback fails as a whole *)
Definition t_recv (bz signer : bytes) : P.recv_msg := P.mkRecv bz (B "proof") (0%N, 1%N) signer.

(** alice's eth packet with a failing callback is accepted and the acknowledgement stored names 0xA1;
    her TSS-chain packet is rejected, the TSS account's is accepted (0xT1); the theorem's premise holds
    of this instance, so its conclusion applies to these runs. *)
Example C06_packet_nonvacuous :
  (exists c', P.recv_handler tP 0%N t_c0 (t_recv (B "e1") (B "alice")) t_fail = Ok c' /\
              aget (B "acks/eth-chain") (P.st_store c') = Some (x00 :: B "0xA1")) /\
  P.recv_handler tP 0%N t_c0 (t_recv (B "t1") (B "alice")) t_fail = Err /\
  (exists c', P.recv_handler tP 0%N t_c0 (t_recv (B "t1") (B "tss-account")) t_fail = Ok c' /\
              aget (B "acks/tss-chain") (P.st_store c') = Some (x00 :: B "0xT1")) /\
  (forall pm cb c', P.recv_handler tP 0%N t_c0 pm cb = Ok c' -> P.st_relayers c' = P.st_relayers t_c0).
Proof.
  split; [eexists; split; vm_compute; reflexivity|].
  split; [vm_compute; reflexivity|].
  split; [eexists; split; vm_compute; reflexivity|].
  intros pm cb c' H.
  destruct (C06_packet_core_recv_sound tP 0%N (fun _ => B "tss-account") tP_tss_verify _ _ _ _ H)
    as [chains [addrs [i [relayer [_ [_ [_ [_ [R _]]]]]]]]]. exact R.
Qed.
