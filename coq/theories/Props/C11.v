(** C11 — Coin/ERC-20 conversion moves the exact amount and stays fully backed.
    Only statements here; proofs are in Proofs/Convert*.v.  The model (Model/Convert.v) is parametrised by an
    ORACLE for every token contract the module did not deploy itself: a type [X] of adversary states,
    [xcall x contract caller call] giving post-state / success / first return word / log kinds of each call, and
    [xcontract] (is there code).  Every theorem below quantifies over all oracles, all module addresses, all
    states and all messages / histories. *)
From Teleport Require Import Base.Bytes Base.Outcome Model.Convert Model.ConvertTokens Model.ConvertCheck
  Proofs.ConvertBase Proofs.ConvertExact Proofs.ConvertTokensLemmas Proofs.ConvertBacking Proofs.ConvertVoucher
  Proofs.ConvertHook Proofs.ConvertPlain Proofs.ConvertAbi Proofs.ConvertGap Proofs.ConvertMonitor Gen.Erc20AbiGen.
Local Open Scope Z_scope.

(** * Exact amount or nothing *)

(** A message that fails — error or recovered panic, including a failed ValidateBasic — changes nothing
    (state EQUAL; the rollback is BaseApp's, modelled by [deliver] and validated by the correspondence run). *)
Theorem C11_failure_changes_nothing :
  forall X xcall xcontract MODULE (s : state X) m (s' : state X) c,
    deliver xcall xcontract MODULE s m = (s', c) -> c <> 0%nat -> s' = s.
Proof. exact deliver_failure_changes_nothing. Qed.
Print Assumptions C11_failure_changes_nothing.

(** A successful MsgConvertCoin (flows 1.1 and 2.2).  [p] is the pair the gate resolved.  If the pair's contract
    has self-destructed the ONLY effect is the deletion of the pair.  Otherwise: the sender's bank balance of the
    denomination drops by exactly [a], the module account escrows exactly [a] (module-owned pair) or the supply
    drops by exactly [a] (external pair: escrowed then burnt), NO other bank balance and no other supply moves,
    parameters / registry / flags are untouched, no account is created (the module account exists), and the
    token contracts are in the state produced by exactly: read balanceOf(receiver) [external pair: and
    balanceOf(module)], mint resp. transfer [a] to the receiver, read again — the receiver's balance exactly [a]
    above [external pair: and the module's exactly [a] below] the first read. *)
Theorem C11_convert_coin_exact :
  forall X xcall xcontract MODULE (s : state X) m (s' : state X) p,
    deliver xcall xcontract MODULE s (MCC m) = (s', 0%nat) -> cc_pair s m = Ok p ->
    let d := cc_denom m in let a := cc_amount m in let u := cc_sender m in let r := hex_to_addr (cc_receiver m) in
    let c := p_erc20 p in
    if is_contract xcontract s c then
      (p_owner p = 1 \/ p_owner p = 2) /\ 0 < a /\ a <= bget (s_bank s) u d /\
      bank_shift s s' (fun x y => ind ((x =? u) && bytes_eqb y d) (- a)
                                  + ind ((p_owner p =? 1) && (x =? MODULE) && bytes_eqb y d) a) /\
      supply_shift s s' (fun y => ind ((p_owner p =? 2) && bytes_eqb y d) (- a)) /\
      same_gates s s' /\ accts_plus s s' MODULE /\
      exists res,
        (if p_owner p =? 1
         then token_effect xcall MODULE (s_tokens s) (s_tokens s') c MODULE (CMint r a) r a res
         else token_effect2 xcall MODULE (s_tokens s) (s_tokens s') c MODULE (CTransfer r a) r a MODULE (- a) res) /\
        (p_owner p = 2 -> unpack_bool (cr_ret res) = Some true /\ approval_check (cr_logs res) = Ok tt)
    else s' = delete_pair s p.
Proof. exact convert_coin_exact. Qed.
Print Assumptions C11_convert_coin_exact.

(** A successful MsgConvertERC20 (flows 1.2 and 2.1): the receiver's bank balance grows by exactly [a]; for a
    module-owned pair the module account releases exactly [a], for an external pair the supply grows by exactly
    [a]; nothing else in the bank moves; the receiver is not blocked; at most the receiver's account is created;
    token side: read balanceOf(sender) / burnCoins(sender, a) by the module / read again, exactly [a] lower —
    resp. read balanceOf(module) / transfer(module, a) by the SENDER / read again, exactly [a] higher, the
    transfer returned true and emitted no Approval. *)
Theorem C11_convert_erc20_exact :
  forall X xcall xcontract MODULE (s : state X) m (s' : state X) p,
    deliver xcall xcontract MODULE s (MCE m) = (s', 0%nat) -> ce_pair s m = Ok p ->
    let d := ce_denom m in let a := ce_amount m in let u := hex_to_addr (ce_sender m) in let r := ce_receiver m in
    let c := p_erc20 p in
    if is_contract xcontract s c then
      (p_owner p = 1 \/ p_owner p = 2) /\ 0 < a /\ zmem r (s_blocked s) = false /\
      bank_shift s s' (fun x y => ind ((x =? r) && bytes_eqb y d) a
                                  + ind ((p_owner p =? 1) && (x =? MODULE) && bytes_eqb y d) (- a)) /\
      supply_shift s s' (fun y => ind ((p_owner p =? 2) && bytes_eqb y d) a) /\
      same_gates s s' /\ accts_plus s s' r /\
      exists res,
        (if p_owner p =? 1
         then token_effect xcall MODULE (s_tokens s) (s_tokens s') c MODULE (CBurnCoins u a) u (- a) res
         else token_effect xcall MODULE (s_tokens s) (s_tokens s') c u (CTransfer MODULE a) MODULE a res) /\
        (p_owner p = 2 -> unpack_bool (cr_ret res) = Some true /\ approval_check (cr_logs res) = Ok tt)
    else s' = delete_pair s p.
Proof. exact convert_erc20_exact. Qed.
Print Assumptions C11_convert_erc20_exact.

(** On a contract deployed by the module (ERC20MinterBurnerDecimals semantics) the token side of flow 1.1 is,
    explicitly: the receiver's token balance +a, totalSupply +a, every other holder, every allowance, every
    other module contract and the whole external world unchanged. *)
Theorem C11_module_token_mint_ledger :
  forall X xcall MODULE (tk tk' : tokens X) c r a res t,
    mfind X tk c = Some t -> token_effect xcall MODULE tk tk' c MODULE (CMint r a) r a res ->
    exists t', mfind X tk' c = Some t' /\
      (forall x, zget (st_bal t') x = zget (st_bal t) x + ind (x =? r) a) /\
      st_total t' = st_total t + a /\ st_allow t' = st_allow t /\
      (forall c', c' <> c -> mfind X tk' c' = mfind X tk c') /\ snd tk' = snd tk.
Proof. exact mint_ledger. Qed.
Print Assumptions C11_module_token_mint_ledger.

(** ... and of flow 1.2: the sender's token balance -a (it had at least a), totalSupply -a, nothing else. *)
Theorem C11_module_token_burn_ledger :
  forall X xcall MODULE (tk tk' : tokens X) c u a res t,
    mfind X tk c = Some t -> token_effect xcall MODULE tk tk' c MODULE (CBurnCoins u a) u (- a) res ->
    exists t', mfind X tk' c = Some t' /\ a <= zget (st_bal t) u /\
      (forall x, zget (st_bal t') x = zget (st_bal t) x + ind (x =? u) (- a)) /\
      st_total t' = st_total t - a /\ st_allow t' = st_allow t /\
      (forall c', c' <> c -> mfind X tk' c' = mfind X tk c') /\ snd tk' = snd tk.
Proof. exact burn_ledger. Qed.
Print Assumptions C11_module_token_burn_ledger.

(** * Gates: disabled module / disabled pair / blocked receiver / send-disabled coin *)

(** every successful conversion passed all gates ... *)
Theorem C11_success_passed_gates :
  forall X xcall xcontract MODULE (s : state X) m (s' : state X),
    deliver xcall xcontract MODULE s m = (s', 0%nat) ->
    validate_basic m = true /\ s_params s = true /\
    exists p, match m with MCC c => cc_pair s c | MCE c => ce_pair s c end = Ok p /\
      p_enabled p = true /\
      let receiver := match m with MCC c => hex_to_addr (cc_receiver c) | MCE c => ce_receiver c end in
      let sender := match m with MCC c => cc_sender c | MCE c => hex_to_addr (ce_sender c) end in
      let denom := match m with MCC c => cc_denom c | MCE c => ce_denom c end in
      zmem receiver (s_blocked s) = false /\ (sender = receiver \/ send_enabled s denom = true) /\
      get_pair s (get_denom_map s denom) = Some p.
Proof. exact deliver_ok_gates. Qed.
Print Assumptions C11_success_passed_gates.

(** ... and, directly: refused (class error, state unchanged) while the module is disabled, *)
Theorem C11_disabled_module_refused :
  forall X xcall xcontract MODULE (s : state X) m,
    s_params s = false -> deliver xcall xcontract MODULE s m = (s, 1%nat).
Proof. exact disabled_module_refused. Qed.
Print Assumptions C11_disabled_module_refused.

(** while the pair is disabled, *)
Theorem C11_disabled_pair_refused :
  forall X xcall xcontract MODULE (s : state X) m p,
    get_pair s (token_pair_id s (match m with MCC c => cc_denom c | MCE c => ce_contract c end)) = Some p ->
    p_enabled p = false -> deliver xcall xcontract MODULE s m = (s, 1%nat).
Proof. exact disabled_pair_refused. Qed.
Print Assumptions C11_disabled_pair_refused.

(** when the receiver is a blocked address (never paid out to), *)
Theorem C11_blocked_receiver_refused :
  forall X xcall xcontract MODULE (s : state X) m,
    zmem (match m with MCC c => hex_to_addr (cc_receiver c) | MCE c => ce_receiver c end) (s_blocked s) = true ->
    deliver xcall xcontract MODULE s m = (s, 1%nat).
Proof. exact blocked_receiver_refused. Qed.
Print Assumptions C11_blocked_receiver_refused.

(** and to another address while sending the coin is disabled. *)
Theorem C11_send_disabled_refused :
  forall X xcall xcontract MODULE (s : state X) m,
    (match m with MCC c => cc_sender c | MCE c => hex_to_addr (ce_sender c) end) <>
    (match m with MCC c => hex_to_addr (cc_receiver c) | MCE c => ce_receiver c end) ->
    send_enabled s (match m with MCC c => cc_denom c | MCE c => ce_denom c end) = false ->
    deliver xcall xcontract MODULE s m = (s, 1%nat).
Proof. exact send_disabled_refused. Qed.
Print Assumptions C11_send_disabled_refused.

(** * The ICS-20 hook (keeper/ibc_hook.go OnRecvPacket): ConvertCoin for the receiver of the packet, called
    directly (no ValidateBasic, no BaseApp) on a cache branch.  [hook_recv s r d a] is the hook from the point
    where the packet decoded to denomination [d], amount [a] and the 20-byte receiver [r] (Model/Convert.v). *)

(** The message the hook builds carries the receiver as Address.Hex(); ConvertCoin parses it back to [r]. *)
Theorem C11_hook_receiver_roundtrip : forall r, 0 <= r < 2 ^ 160 -> hex_to_addr (hex_of_addr r) = r.
Proof. exact hex_roundtrip. Qed.
Print Assumptions C11_hook_receiver_roundtrip.

(** Whatever made the hook not convert — unregistered denomination, sdk.NewCoin panic, any error or panic of
    ConvertCoin at any point (after the escrow step included) — nothing changed (state EQUAL). *)
Theorem C11_hook_all_or_nothing :
  forall X xcall xcontract MODULE (s : state X) r d a (s' : state X) c,
    hook_recv xcall xcontract MODULE s r d a = (s', c) -> c <> 0%nat -> s' = s.
Proof. exact hook_failure_changes_nothing. Qed.
Print Assumptions C11_hook_all_or_nothing.

(** When it converted, every gate was open for the receiver (module enabled, denomination registered, pair enabled,
    receiver not blocked) ... *)
Theorem C11_hook_passed_gates :
  forall X xcall xcontract MODULE (s : state X) r d a (s' : state X),
    hook_recv xcall xcontract MODULE s r d a = (s', 0%nat) -> 0 <= r < 2 ^ 160 ->
    s_params s = true /\ denom_registered s d = true /\
    exists p, cc_pair s (hook_msg r d a) = Ok p /\ p_enabled p = true /\ zmem r (s_blocked s) = false /\
      get_pair s (get_denom_map s d) = Some p.
Proof. exact hook_ok_gates. Qed.
Print Assumptions C11_hook_passed_gates.

(** ... and exactly [a] moved: out of the receiver's OWN coins of [d] (into the escrow / out of the supply), into the
    token balance of the receiver's EVM address; nothing else (the statement of [C11_convert_coin_exact] with
    sender = receiver = r). *)
Theorem C11_hook_exact :
  forall X xcall xcontract MODULE (s : state X) r d a (s' : state X) p,
    hook_recv xcall xcontract MODULE s r d a = (s', 0%nat) -> 0 <= r < 2 ^ 160 -> cc_pair s (hook_msg r d a) = Ok p ->
    let c := p_erc20 p in
    if is_contract xcontract s c then
      (p_owner p = 1 \/ p_owner p = 2) /\ 0 < a /\ a <= bget (s_bank s) r d /\
      bank_shift s s' (fun x y => ind ((x =? r) && bytes_eqb y d) (- a)
                                  + ind ((p_owner p =? 1) && (x =? MODULE) && bytes_eqb y d) a) /\
      supply_shift s s' (fun y => ind ((p_owner p =? 2) && bytes_eqb y d) (- a)) /\
      same_gates s s' /\ accts_plus s s' MODULE /\
      exists res,
        (if p_owner p =? 1
         then token_effect xcall MODULE (s_tokens s) (s_tokens s') c MODULE (CMint r a) r a res
         else token_effect2 xcall MODULE (s_tokens s) (s_tokens s') c MODULE (CTransfer r a) r a MODULE (- a) res) /\
        (p_owner p = 2 -> unpack_bool (cr_ret res) = Some true /\ approval_check (cr_logs res) = Ok tt)
    else s' = delete_pair s p.
Proof. exact hook_exact. Qed.
Print Assumptions C11_hook_exact.

(** * The model's token interface is the deployed contract's, the model's EVM calls are the code's.
    [erc20_abi] and [erc20_call_sites] are REGENERATED on every run (tools/gotocoq/erc20abi) from the ABI embedded into
    syscontracts.ERC20MinterBurnerDecimalsJSON and from x/aggregate/keeper/msg_server.go.
    (1) every call of the model's alphabet ([call]: what the module and anybody else can do to a token contract) is a
        function of that ABI with the argument types, result and mutability the model assumes;
    (2) every state-changing function of that ABI is in the alphabet, or is role-gated administration (pause, unpause,
        grantRole, revokeRole, renounceRole: for a module-deployed contract only the module account holds the roles and it
        never calls them) — so [OTokenCall] ranges over everything a third party can do to a module-deployed contract;
    (3) the (method, from) pairs of the EVM calls in msg_server.go are exactly the model's: balanceOf / mint /
        burnCoins / transfer FROM the module, transfer FROM the message's sender. *)
Theorem C11_token_interface_tied :
  (forall cl, exists ins outs mut,
      abi_find (call_method cl) = Some (ins, (outs, mut)) /\
      ins = call_inputs cl /\ outs = call_outputs cl /\ mut = call_mutates cl) /\
  (forall name ins outs, In (name, (ins, (outs, true))) erc20_abi -> In name mutator_names \/ In name role_gated) /\
  (forall site, In site go_sites <-> In site model_sites).
Proof. exact token_interface_tied. Qed.
Print Assumptions C11_token_interface_tied.

(** * Backing of the contracts deployed by the module
    [Backed s]: for EVERY contract c deployed by the module, totalSupply(c) <= Σ over the pairs (owner = module,
    contract = c) of Σ over the pair's denominations d of the coins of d held by the module account.
    It is "<=", not "=": holders may burn their own tokens (ERC20Burnable.burn) and anybody may send coins to
    the module account; both only widen the gap ([C11_backing_can_be_strict] below).
    The invariant holds over EVERY history of messages (both directions, all four flows, any number of pairs /
    denominations per pair / accounts / amounts, any external contracts), ICS-20 packets reaching the hook,
    Ethereum transactions calling any token contract, bank sends, coins minted by other modules, governance toggles
    and parameter changes — provided no operation is signed by the module account (nobody has its key; the hook
    never runs for it, see [signer]) and the registry is well formed ([WF], property C12). *)
Theorem C11_native_coin_backing :
  forall X xcall xcontract MODULE (l : list op) (s : state X),
    Forall (not_module_signed MODULE) l -> WF s -> Backed MODULE s ->
    WF (run xcall xcontract MODULE s l) /\ Backed MODULE (run xcall xcontract MODULE s l).
Proof. intros X xcall xcontract MODULE l s F W B. apply inv_run; [exact F | split; assumption]. Qed.
Print Assumptions C11_native_coin_backing.

(** Stronger, for conversions themselves: a conversion — MsgConvertCoin / MsgConvertERC20 delivered by BaseApp or an
    ICS-20 packet handled by the hook, through ANY pair, succeeding or failing — leaves the gap
    backing − totalSupply of EVERY module-deployed contract EXACTLY unchanged: conversions neither create unbacked
    tokens nor strand escrowed coins.  (No assumption that the module account is a blocked address: flow 1.2 cannot
    pay out to the module account itself — its coin-balance check fails — and the vouchers flow 2.1 may mint to it
    back no module contract.)  The gap moves only through what third parties do (burning their own tokens, sending
    or minting coins to the module account).  [not_module_signed] is necessary (Refuted/C11_refuted.v). *)
Theorem C11_conversions_preserve_gap :
  forall X xcall xcontract MODULE (s : state X) (o : op),
    is_conversion o -> not_module_signed MODULE o -> WF s ->
    forall c t', find_mtok (step xcall xcontract MODULE s o) c = Some t' ->
      exists t, find_mtok s c = Some t /\
        backing MODULE (step xcall xcontract MODULE s o) c - st_total t' = backing MODULE s c - st_total t.
Proof. exact conversion_preserves_gap. Qed.
Print Assumptions C11_conversions_preserve_gap.

(** * Backing of the voucher of an external pair
    [VBacked MODULE ledger s]: for every pair (owner = external) listing ONLY its voucher v whose contract is not
    one of the module's, supply(v) <= ledger(contract, module).  Holds over every history under two hypotheses
    on the external contracts: [honest_view] (balanceOf is a view of [ledger]) and [others_cannot_debit] (no
    successful call lowers the module's balance in any contract — EXCEPT the module's own transfer in the called
    contract, about which nothing is assumed: since the repair c5eeeaa the code compares the module's balance
    before and after; before it, a token charging the sender a fee broke the invariant, Refuted/C11_refuted.v).
    Both hypotheses are necessary (Refuted/C11_refuted.v: a misreporting token; a user-deployed
    ERC20MinterBurnerDecimals whose deployer burns the module's escrow) and cannot be established by the module (it
    can only ask the contract); both are satisfiable ([C11_voucher_hypotheses_satisfiable]).  Coins created by other
    modules ([OEnvMint]) are of denominations that are not named "aggregate/..." ([no_voucher_mint]; the vouchers
    are, [VNamed]: RegisterERC20 names them types.CreateDenom(address)). *)
Theorem C11_voucher_backing :
  forall X xcall xcontract MODULE (ledger : X -> Z -> Z -> Z),
    honest_view xcall ledger -> others_cannot_debit xcall MODULE ledger ->
    forall (l : list op) (s : state X),
      Forall (not_module_signed MODULE) l -> Forall no_voucher_mint l ->
      WFv s -> VNamed s -> VBacked MODULE ledger s ->
      WFv (run xcall xcontract MODULE s l) /\ VNamed (run xcall xcontract MODULE s l) /\
      VBacked MODULE ledger (run xcall xcontract MODULE s l).
Proof.
  intros X xcall xcontract MODULE ledger HV ND l s F NV W VN B.
  destruct (inv_v_run X xcall xcontract MODULE ledger HV ND l s F NV VN (conj W B)) as [[W' B'] VN'].
  split; [exact W'|]. split; [exact VN' | exact B'].
Qed.
Print Assumptions C11_voucher_backing.

(** * Monitor soundness (partial).  The monitors of Model/ConvertCheck.v are evaluated on observations of the REAL
    code; their bank requirement (kind 28: every balance moved by exactly the listed deltas) and supply requirement
    (kind 29) accept every successful message of the MODEL — so a failure of those monitors on a trace means the
    trace is not the model's.  (Gate kinds 22–25 are the converse of [C11_success_passed_gates]; token kinds 30/31
    compare observation lists and are validated on the explored traces only.) *)
Theorem C11_monitor_accepts_model_convert_coin :
  forall X xcall xcontract MODULE (s : state X) m (s' : state X) p,
    deliver xcall xcontract MODULE s (MCC m) = (s', 0%nat) -> cc_pair s m = Ok p ->
    is_contract xcontract s (p_erc20 p) = true ->
    let modown := p_owner p =? 1 in
    bank_delta_ok_m (s_bank s) (s_bank s')
      (mon_bank_deltas MODULE true modown (cc_sender m) (hex_to_addr (cc_receiver m)) (cc_denom m) (cc_amount m)) = true /\
    supply_delta_ok_m (s_supply s) (s_supply s') (cc_denom m) (mon_supply_delta true modown (cc_amount m)) = true.
Proof. exact mon_bank_supply_sound_cc. Qed.
Print Assumptions C11_monitor_accepts_model_convert_coin.

Theorem C11_monitor_accepts_model_convert_erc20 :
  forall X xcall xcontract MODULE (s : state X) m (s' : state X) p,
    deliver xcall xcontract MODULE s (MCE m) = (s', 0%nat) -> ce_pair s m = Ok p ->
    is_contract xcontract s (p_erc20 p) = true ->
    let modown := p_owner p =? 1 in
    bank_delta_ok_m (s_bank s) (s_bank s')
      (mon_bank_deltas MODULE false modown (hex_to_addr (ce_sender m)) (ce_receiver m) (ce_denom m) (ce_amount m)) = true /\
    supply_delta_ok_m (s_supply s) (s_supply s') (ce_denom m) (mon_supply_delta false modown (ce_amount m)) = true.
Proof. exact mon_bank_supply_sound_ce. Qed.
Print Assumptions C11_monitor_accepts_model_convert_erc20.

(** * Non-vacuity: a concrete reachable history (module pair with two denominations, an external AdvToken
    pair, three users) on which the hypotheses hold, conversions in all four flows succeed, and after a holder
    burnt 5 tokens the module contract's supply (45) is strictly below its escrow (30 + 20). *)
Definition ex_M : Z := 1000.
Definition ex_tokA : Z := 2000.     (* module-deployed *)
Definition ex_tokB : Z := 0xAd00000000000000000000000000000000000a01.   (* external AdvToken, honest configuration *)
Definition ex_idA : bytes := B "idA".
Definition ex_idB : bytes := B "idB".
Definition ex_vB : bytes := B "aggregate/0xAd00000000000000000000000000000000000a01".
Definition ex_u1 : Z := 0x1111111111111111111111111111111111111111.
Definition ex_u2 : Z := 0x2222222222222222222222222222222222222222.
Definition ex_u1s : bytes := B "0x1111111111111111111111111111111111111111".
Definition ex_u2s : bytes := B "0x2222222222222222222222222222222222222222".
Definition ex_pairA : pair := {| p_id := ex_idA; p_erc20 := ex_tokA; p_denoms := [B "acoin"; B "bcoin"]; p_enabled := true; p_owner := 1 |}.
Definition ex_pairB : pair := {| p_id := ex_idB; p_erc20 := ex_tokB; p_denoms := [ex_vB]; p_enabled := true; p_owner := 2 |}.
Definition ex_start : state xstate :=
  {| s_params := true; s_evm_call := true;
     s_pairs := [(ex_idA, ex_pairA); (ex_idB, ex_pairB)];
     s_erc20 := [(ex_tokA, ex_idA); (ex_tokB, ex_idB)];
     s_denom := [(B "acoin", ex_idA); (B "bcoin", ex_idA); (ex_vB, ex_idB)];
     s_bank := [((ex_u1, B "acoin"), 100); ((ex_u2, B "bcoin"), 100)];
     s_supply := [(B "acoin", 100); (B "bcoin", 100)];
     s_blocked := [ex_M]; s_send_default := true; s_send := [];
     s_accts := [ex_M; ex_u1; ex_u2];
     s_mtok := [(ex_tokA, {| st_bal := []; st_total := 0; st_allow := [] |})];
     s_ext := [(ex_tokB, {| et_kind := 5; et_owner := ex_u1; et_alive := true;
                            et_std := {| st_bal := []; st_total := 0; st_allow := [] |}; et_store := [(ex_u2, 500)] |})] |}.
Definition ex_history : list op :=
  [ OMsg (MCC {| cc_denom := B "acoin"; cc_amount := 30; cc_receiver := ex_u2s; cc_sender := ex_u1; cc_sender_ok := true |});
    OMsg (MCC {| cc_denom := B "bcoin"; cc_amount := 40; cc_receiver := ex_u2s; cc_sender := ex_u2; cc_sender_ok := true |});
    OMsg (MCE {| ce_contract := B "0x00000000000000000000000000000000000007d0"; ce_amount := 20; ce_receiver := ex_u1;
                 ce_receiver_ok := true; ce_sender := ex_u2s; ce_denom := B "bcoin" |});
    OTokenCall ex_tokA ex_u2 (CBurn 5);
    OMsg (MCE {| ce_contract := B "0xAd00000000000000000000000000000000000a01"; ce_amount := 70; ce_receiver := ex_u2;
                 ce_receiver_ok := true; ce_sender := ex_u2s; ce_denom := ex_vB |});
    OMsg (MCC {| cc_denom := ex_vB; cc_amount := 30; cc_receiver := ex_u1s; cc_sender := ex_u2; cc_sender_ok := true |});
    (* an ICS-20 transfer credits 7 acoin to u1 and the hook converts them; a second packet for 1000 finds too few *)
    OEnvMint ex_u1 (B "acoin") 7;
    OHook ex_u1 (B "acoin") 7;
    OHook ex_u1 (B "acoin") 1000 ].

(** outcome classes of the messages / calls of a history *)
Fixpoint ex_classes (s : state xstate) (l : list op) : list nat :=
  match l with
  | [] => []
  | o :: l' =>
      (match o with
       | OMsg m => snd (deliver xcall0 xcontract0 ex_M s m)
       | OTokenCall c k cl => snd (token_call xcall0 ex_M s c k cl)
       | OHook r d a => snd (hook_recv xcall0 xcontract0 ex_M s r d a)
       | OEnvMint t d a => snd (env_mint s t d a)
       | _ => 0%nat
       end) :: ex_classes (step xcall0 xcontract0 ex_M s o) l'
  end.
Definition ex_ledger (x : xstate) (c h : Z) : Z :=
  match afind Z.eqb x c with Some t => zget (et_store t) h | None => 0 end.

Example C11_backing_can_be_strict :
  let s := run xcall0 xcontract0 ex_M ex_start ex_history in
  Forall (not_module_signed ex_M) ex_history /\
  (* everything succeeded, except the hook's second conversion (1000 > balance): class 1, swallowed *)
  ex_classes ex_start ex_history = [0; 0; 0; 0; 0; 0; 0; 0; 1]%nat /\
  option_map st_total (find_mtok s ex_tokA) = Some 52 /\
  bget (s_bank s) ex_M (B "acoin") = 37 /\ bget (s_bank s) ex_M (B "bcoin") = 20 /\
  backing ex_M s ex_tokA = 57 /\
  sget (s_supply s) ex_vB = 40 /\ ex_ledger (s_ext s) ex_tokB ex_M = 40.
Proof.
  cbv zeta. split.
  { repeat constructor; unfold not_module_signed; cbn; intro H; inversion H. }
  repeat split; vm_compute; reflexivity.
Qed.

(** * The hypotheses of [C11_voucher_backing] are satisfiable: a plain ERC-20 (balanceOf / transfer,
    Model/ConvertTokens.v [plain_call]) as the external contract.  On a concrete history (two conversions into
    vouchers, one back, a transfer between holders, an ICS-20 credit of another denomination) every hypothesis
    holds, every step succeeds and 60 vouchers end up backed by exactly 60 escrowed tokens. *)
Definition px_tok : Z := 0xbD00000000000000000000000000000000000b02.
Definition px_v : bytes := B "aggregate/0xbD00000000000000000000000000000000000b02".
Definition px_toks : bytes := B "0xbD00000000000000000000000000000000000b02".
Definition px_pair : pair := {| p_id := ex_idB; p_erc20 := px_tok; p_denoms := [px_v]; p_enabled := true; p_owner := 2 |}.
Definition px_start : state pstate :=
  {| s_params := true; s_evm_call := true;
     s_pairs := [(ex_idB, px_pair)]; s_erc20 := [(px_tok, ex_idB)]; s_denom := [(px_v, ex_idB)];
     s_bank := []; s_supply := []; s_blocked := [ex_M]; s_send_default := true; s_send := [];
     s_accts := [ex_M; ex_u1; ex_u2]; s_mtok := [];
     s_ext := [(px_tok, [(ex_u1, 300); (ex_u2, 500)])] |}.
Definition px_history : list op :=
  [ OMsg (MCE {| ce_contract := px_toks; ce_amount := 70; ce_receiver := ex_u2; ce_receiver_ok := true;
                 ce_sender := ex_u2s; ce_denom := px_v |});
    OMsg (MCE {| ce_contract := px_toks; ce_amount := 20; ce_receiver := ex_u2; ce_receiver_ok := true;
                 ce_sender := ex_u1s; ce_denom := px_v |});
    OTokenCall px_tok ex_u2 (CTransfer ex_u1 5);
    OEnvMint ex_u1 (B "ibc/27394FB092D2ECCD56123C74F36E4C1F926001CEADA9CA97EA622B25F41E5EB2") 9;
    OMsg (MCC {| cc_denom := px_v; cc_amount := 30; cc_receiver := ex_u1s; cc_sender := ex_u2; cc_sender_ok := true |}) ].
Fixpoint px_classes (s : state pstate) (l : list op) : list nat :=
  match l with
  | [] => []
  | o :: l' =>
      (match o with
       | OMsg m => snd (deliver plain_call plain_contract ex_M s m)
       | OTokenCall c k cl => snd (token_call plain_call ex_M s c k cl)
       | OEnvMint t d a => snd (env_mint s t d a)
       | _ => 0%nat
       end) :: px_classes (step plain_call plain_contract ex_M s o) l'
  end.

Example C11_voucher_hypotheses_satisfiable :
  honest_view plain_call plain_ledger /\ others_cannot_debit plain_call ex_M plain_ledger /\
  Forall (not_module_signed ex_M) px_history /\ Forall no_voucher_mint px_history /\
  WFv px_start /\ VNamed px_start /\ VBacked ex_M plain_ledger px_start /\
  let s := run plain_call plain_contract ex_M px_start px_history in
  px_classes px_start px_history = [0; 0; 0; 0; 0]%nat /\
  sget (s_supply s) px_v = 60 /\ plain_ledger (s_ext s) px_tok ex_M = 60 /\
  plain_ledger (s_ext s) px_tok ex_u1 = 315 /\ VBacked ex_M plain_ledger s.
Proof.
  assert (W : WFv px_start).
  { split; [split; [|split; [|split]]|]; cbn [px_start s_pairs s_denom map fst].
    - repeat constructor. intros [].
    - intros id p [H|[]]. inversion H; subst. cbn [px_pair p_id p_denoms]. split; [reflexivity|].
      split; [repeat constructor; intros []|]. intros d [<-|[]]. vm_compute. reflexivity.
    - intros d p H. cbn [aget] in H. destruct (bytes_eqb px_v d) eqn:E.
      + apply bytes_eqb_eq in E; subst d. vm_compute in H. inversion H; subst. left; reflexivity.
      + vm_compute in H. discriminate.
    - intros p [H|[]]. inversion H.
    - intros id p id' p' [H|[]] [H'|[]]. inversion H; inversion H'; subst. reflexivity. }
  assert (VN : VNamed px_start).
  { intros id p v [H|[]] _ D. inversion H; subst. cbn in D. inversion D; subst. vm_compute. reflexivity. }
  assert (VB : VBacked ex_M plain_ledger px_start).
  { intros id p v [H|[]] _ D _. inversion H; subst. cbn in D. inversion D; subst. vm_compute. discriminate. }
  assert (F : Forall (not_module_signed ex_M) px_history).
  { repeat constructor; unfold not_module_signed; cbn; intro H; inversion H. }
  assert (NV : Forall no_voucher_mint px_history).
  { repeat constructor. }
  split; [exact plain_honest_view|]. split; [exact (plain_others_cannot_debit ex_M)|].
  repeat (split; [assumption|]). cbv zeta.
  split; [vm_compute; reflexivity|]. split; [vm_compute; reflexivity|]. split; [vm_compute; reflexivity|].
  split; [vm_compute; reflexivity|].
  exact (proj2 (proj2 (C11_voucher_backing pstate plain_call plain_contract ex_M plain_ledger plain_honest_view
                         (plain_others_cannot_debit ex_M) px_history px_start F NV W VN VB))).
Qed.
