(** C15 - No panic outside transaction recovery (no chain halt).
    Code that runs outside per-transaction panic recovery - BeginBlock logic, the execution of passed
    governance proposals by gov.EndBlocker, InitGenesis of a validated genesis - returns (success or
    ordinary error) for every input the stateless validation accepts, in every module state.
    Only statements here; proofs are in Proofs/Halt.v, Proofs/HaltAgg.v, Proofs/HaltSites.v. *)
From Coq Require Import String.
From Teleport Require Import Base.Bytes Base.Outcome Model.Rvesting Model.RvestingCheck Proofs.Rvesting.
From Teleport Require Import Model.HaltGuardIR Gen.HaltGuardsGen Proofs.HaltGuards.
From Teleport Require Import Model.Halt Model.HaltAgg Model.HaltCheck Proofs.Halt Proofs.HaltAgg Proofs.HaltSites.
Local Open Scope N_scope.

(** ** xibc client proposals (CreateClient / UpgradeClient / ToggleClient / RegisterRelayer over the
    four client types).  For EVERY block time, EVERY module state (the model does not restrict the
    stored client state, consensus states or recent-signer keys in any way - in particular every state a
    validated genesis can import) and EVERY proposal accepted by decoding + ValidateBasic, the handler
    of /repo HEAD returns Ok or Err - never Panic. *)
Theorem validated_never_panics_xibc_proposal : forall now native s p,
  xprop_validate p = Ok tt -> handle_xprop now head_strict native s p <> Panic.
Proof. exact handle_xprop_strict_safe. Qed.
Print Assumptions validated_never_panics_xibc_proposal.

(** Before 0d61436 (recent-signer keys indexed without a length check; finding
    bsc-upgrade-malformed-signer-key, found by this check) the statement needed the state invariant
    "every key under the recentSingers prefix has a separator", which the handlers keep but a validated
    genesis can break (Refuted/C15_refuted.v). *)
Theorem validated_never_panics_xibc_proposal_old_parser : forall now native s p,
  xprop_validate p = Ok tt -> xstate_wf s ->
  handle_xprop now false native s p <> Panic /\ (forall s', handle_xprop now false native s p = Ok s' -> xstate_wf s').
Proof.
  intros now native s p Hv Hwf. pose proof (handle_xprop_safe now native s p Hv Hwf) as H. split.
  - eapply osafe_not_panic; exact H.
  - intros s' E. rewrite E in H. exact H.
Qed.
Print Assumptions validated_never_panics_xibc_proposal_old_parser.

(** The four handlers separately (same statement restricted to one proposal type). *)
Theorem validated_never_panics_create_client : forall now native s t d chain cs k,
  xprop_validate (PCreate t d chain cs k) = Ok tt -> handle_xprop now head_strict native s (PCreate t d chain cs k) <> Panic.
Proof. intros. eapply validated_never_panics_xibc_proposal; eassumption. Qed.
Print Assumptions validated_never_panics_create_client.

Theorem validated_never_panics_upgrade_client : forall now native s t d chain cs k,
  xprop_validate (PUpgrade t d chain cs k) = Ok tt -> handle_xprop now head_strict native s (PUpgrade t d chain cs k) <> Panic.
Proof. intros. eapply validated_never_panics_xibc_proposal; eassumption. Qed.
Print Assumptions validated_never_panics_upgrade_client.

Theorem validated_never_panics_toggle_client : forall now native s t d chain cs k,
  xprop_validate (PToggle t d chain cs k) = Ok tt -> handle_xprop now head_strict native s (PToggle t d chain cs k) <> Panic.
Proof. intros. eapply validated_never_panics_xibc_proposal; eassumption. Qed.
Print Assumptions validated_never_panics_toggle_client.

(** RegisterRelayer stores the relayer under its address: the handler panics on an EMPTY address (prefix store:
    "key is nil"); ValidateBasic excludes it because sdk.AccAddressFromBech32 refuses blank strings - for every
    answer [dec] of the bech32 decoder. *)
Theorem validated_never_panics_register_relayer : forall now native s t d a dec chains n,
  xprop_validate (PRelayer t d a dec chains n) = Ok tt -> handle_xprop now head_strict native s (PRelayer t d a dec chains n) <> Panic.
Proof. intros. eapply validated_never_panics_xibc_proposal; eassumption. Qed.
Print Assumptions validated_never_panics_register_relayer.

(** ... and the guard is needed: without validation the handler does panic (the theorem above is not true by
    construction of the model). *)
Example register_relayer_unvalidated_panics : forall now native s,
  handle_xprop now head_strict native s (PRelayer (B "t") 1 [] false [B "chain-a"] 1) = Panic /\
  xprop_validate (PRelayer (B "t") 1 [] true [B "chain-a"] 1) = Err.
Proof. intros. split; reflexivity. Qed.

(** a9e74e1: a CreateClient proposal for the chain's OWN name is refused (ordinary error) - also when the name was
    never set: Keeper.GetChainName then returns the empty string, which no validated chain name equals. *)
Theorem create_client_own_name_refused : forall now native s t d cs k,
  xprop_validate (PCreate t d native cs k) = Ok tt -> handle_xprop now head_strict native s (PCreate t d native cs k) = Err.
Proof.
  intros now native s t d cs k _. unfold handle_xprop, handle_xprop_gen. cbn [negb andb].
  rewrite (proj2 (bytes_eqb_eq native native) eq_refl). reflexivity.
Qed.
Print Assumptions create_client_own_name_refused.

Theorem unset_chain_name_never_matches : forall t d chain cs k,
  xprop_validate (PCreate t d chain cs k) = Ok tt -> chain <> [].
Proof.
  intros t d chain cs k H E. subst. cbn in H. unfold client_prop_validate in H.
  destruct (is_wrong cs || is_wrong k); [discriminate|]. destruct (negb (abstract_ok t d)); [discriminate|].
  cbn in H. discriminate.
Qed.
Print Assumptions unset_chain_name_never_matches.

(** aa5560b: ETH Initialize / UpgradeState compare the consensus state's root with the header's state root
    (checkConsensusRoot); the comparison converts the header (header.ToEthHeader() -> BytesToBloom), which cannot
    panic for a validated client state - for EVERY consensus state - and a differing root is an ordinary error. *)
Theorem eth_check_consensus_root_never_panics : forall hd tr k,
  validate_eth hd tr = Ok tt -> eth_check_root hd k <> Panic.
Proof. intros hd tr k Hv. eapply osafe_not_panic. eapply eth_check_root_safe; exact Hv. Qed.
Print Assumptions eth_check_consensus_root_never_panics.

(** ... and without the validation it can (the guard is needed: bloom of 257 bytes). *)
Example eth_check_consensus_root_unvalidated_panics :
  eth_check_root {| hd_height := mkH 0 0; hd_extra_len := 0; hd_mix := []; hd_uncle := []; hd_root := []; hd_diff := [];
                    hd_bloom_len := 257; hd_nonce_len := 0; hd_gas_limit := 1; hd_gas_used := 0 |} (ConsETH 1 []) = Panic.
Proof. reflexivity. Qed.

(** Whole histories: from ANY module state, any sequence of validated proposals executed the way
    gov.EndBlocker does (state kept on success, discarded on error, no recover) runs to the end. *)
Theorem validated_history_never_halts : forall now native ps s,
  (forall p, In p ps -> xprop_validate p = Ok tt) -> exists s', run_gov_head now native s ps = Ok s'.
Proof. exact run_gov_head_safe. Qed.
Print Assumptions validated_history_never_halts.

(** InitGenesis of a validated xibc genesis followed by any sequence of validated proposals: the state the
    handlers find is the one InitGenesis wrote ([gx_state] and the chain's own name [gx_native], compared with the
    real stores by the correspondence). *)
Theorem validated_genesis_then_history_never_halts : forall now g ps,
  gx_validate g = Ok tt -> (forall p, In p ps -> xprop_validate p = Ok tt) ->
  gx_init g = Ok tt /\ exists s', run_gov_head now (gx_native g) (gx_state g) ps = Ok s'.
Proof. intros now g ps Hg Hp. split; [eapply gx_init_safe; [exact Hg | left; reflexivity] | apply run_gov_head_safe; exact Hp]. Qed.
Print Assumptions validated_genesis_then_history_never_halts.

(** Initialize / UpgradeState of a validated client state, for every client store and every consensus
    state (any type). *)
Theorem validated_never_panics_initialize : forall st cs k,
  validate_client cs = Ok tt -> initialize_gen false st cs k <> Panic.
Proof. intros st cs k Hv. eapply osafe_not_panic. apply initialize_nopanic; assumption. Qed.
Print Assumptions validated_never_panics_initialize.

Theorem validated_never_panics_upgrade_state : forall now st cs k,
  validate_client cs = Ok tt -> upgrade_state_gen now head_strict false st cs k <> Panic.
Proof. intros now st cs k Hv. eapply osafe_not_panic. apply upgrade_state_strict_nopanic; assumption. Qed.
Print Assumptions validated_never_panics_upgrade_state.

(** ** aggregate proposals: for every oracle (module state with the pair invariant, bank state, EVM
    behaviour) a proposal accepted by ValidateBasic is executed without reaching a panic site, and every
    token pair it stores has a denomination (the invariant is kept). *)
Theorem validated_never_panics_aggregate_proposal : forall e p,
  aprop_validate p = Ok tt -> aenv_wf e ->
  handle_aprop e p <> Panic /\ (forall ws, handle_aprop e p = Ok ws -> Forall pair_wf ws).
Proof.
  intros e p Hv Hwf. pose proof (handle_aprop_safe e p Hv Hwf) as H. split.
  - eapply osafe_not_panic; exact H.
  - intros ws E. rewrite E in H. exact H.
Qed.
Print Assumptions validated_never_panics_aggregate_proposal.

(** The invariant [aenv_wf] is not an assumption about reachable states: InitGenesis of a validated aggregate
    genesis establishes it (every environment whose readable pairs are the listed ones) ... *)
Theorem validated_aggregate_genesis_establishes_invariant : forall l e,
  ga_validate l = Ok tt ->
  (forall id p, e_pair e id = Some p -> exists q, In q l /\ p_denoms p = gp_denoms q) -> aenv_wf e.
Proof. exact ga_validate_establishes_wf. Qed.
Print Assumptions validated_aggregate_genesis_establishes_invariant.

(** ... and every history of validated proposals keeps it and never panics: between two proposals every oracle
    (bank, EVM, parameters) may change arbitrarily; the token pairs readable afterwards are those readable
    before or written by the step ([achain]). *)
Theorem validated_aggregate_history_never_halts : forall l e,
  aenv_wf e -> (forall p e', In (p, e') l -> aprop_validate p = Ok tt) -> achain e l -> arun_no_panic e l.
Proof. exact aggregate_history_safe. Qed.
Print Assumptions validated_aggregate_history_never_halts.

(** ** rvesting parameters: every reward list accepted by validatePerBlockReward (whatever EnableVesting
    is) lets BeginBlocker return, for every non-negative pool. *)
Theorem validated_never_panics_rvesting_params : forall p s,
  validate_rewards (rewards p) = true -> pool_ok s -> begin_block p s <> Panic.
Proof. exact begin_block_validated_no_panic. Qed.
Print Assumptions validated_never_panics_rvesting_params.

(** ** InitGenesis of validated genesis states *)

(** xibc (client + packet genesis): unconditional since GenesisState.Validate validates the relayers
    (d9df21a, repair delivered by this check: finding xibc-genesis-relayer-empty-address). *)
Theorem validated_never_panics_xibc_genesis : forall g, gx_validate g = Ok tt -> gx_init g = Ok tt.
Proof. intros g H. eapply gx_init_safe; [exact H | left; reflexivity]. Qed.
Print Assumptions validated_never_panics_xibc_genesis.

(** The validation of the pinned commit needed the hypothesis that no relayer address is empty
    (Refuted/C15_refuted.v: it is necessary). *)
Theorem validated_never_panics_xibc_genesis_old : forall g,
  gx_validate_old g = Ok tt -> relayers_nonempty g -> gx_init g = Ok tt.
Proof. intros g H R. eapply gx_init_safe; [exact H | right; exact R]. Qed.
Print Assumptions validated_never_panics_xibc_genesis_old.

Theorem validated_never_panics_aggregate_genesis : forall l, ga_validate l = Ok tt -> ga_init l = Ok tt.
Proof. exact ga_init_safe. Qed.
Print Assumptions validated_never_panics_aggregate_genesis.

(** rvesting: under the hypothesis that the funding account holds the initial reward (cross-module
    consistency with the bank genesis that no stateless validation can see; finding
    rvesting-genesis-unfunded-from). *)
Theorem validated_never_panics_rvesting_genesis : forall g,
  gr_validate g = Ok tt -> (gr_from_empty g = true \/ covers (gr_from_bal g) (gr_init g) = true) -> gr_init_genesis g = Ok tt.
Proof. exact gr_init_safe. Qed.
Print Assumptions validated_never_panics_rvesting_genesis.

(** ** The regenerated guards of the validation functions (Gen/HaltGuardsGen.v, from the Go source on every run)
    imply every bound the proofs above use: Epoch <> 0, len(Extra) >= extraVanity+extraSeal, bloom / nonce within
    their arrays, ecrecover's length test, non-empty metadata keys, token pairs with a denomination, acknowledgements /
    commitments with data; and the model supplies every field they mention. *)
Theorem C15_validation_guards_sufficient : failed_guard_obligations = [].
Proof. exact guard_obligations_hold. Qed.
Print Assumptions C15_validation_guards_sufficient.

(** What the theorems above rest on, stated directly on the regenerated guards: for EVERY environment in which a
    guard list did not reject, the bound holds. *)
Theorem bsc_validation_bounds : forall hd cid epoch tr,
  validate_bsc hd cid epoch tr = Ok tt ->
  epoch <> 0 /\ bsc_extra_vanity + bsc_extra_seal <= hd_extra_len hd /\
  hd_bloom_len hd <= bsc_bloom_byte_length /\ hd_nonce_len hd <= bsc_nonce_byte_length.
Proof. exact validate_bsc_facts. Qed.
Print Assumptions bsc_validation_bounds.

(** ** Every inventoried potential panic site of the reachable code is mapped to its guard. *)
Theorem C15_panic_sites_covered : uncovered_sites = [].
Proof. vm_compute. reflexivity. Qed.
Print Assumptions C15_panic_sites_covered.

(** ** The executable monitor accepts every step of the model. *)
Theorem C15_monitor_sound : forall now native s p i,
  mon_steps i [(oclass (xprop_validate p), oclass (handle_xprop now head_strict native s p))] = [].
Proof. intros; apply mon_steps_sound_x_strict. Qed.
Print Assumptions C15_monitor_sound.

(** ** Non-vacuity: validated proposals of all four client types exist, and a history that creates,
    upgrades and toggles clients runs through in the model. *)
Definition ex_header (h : N) (extra : N) : header :=
  {| hd_height := mkH 0 h; hd_extra_len := extra; hd_mix := []; hd_uncle := uncle_hash; hd_root := B "state-root"; hd_diff := [x02];
     hd_bloom_len := 256; hd_nonce_len := 8; hd_gas_limit := 30000000; hd_gas_used := 1 |}.
Definition ex_tm : client_state := CsTM (B "testchain-1") 1 3 1209600000000000 1814400000000000 10000000000 (mkH 1 10) 2.
Definition ex_bsc : client_state := CsBSC (ex_header 200 137) 56 200 1000 true.
Definition ex_eth : client_state := CsETH (ex_header 100 10) 1000.
Definition ex_tss : client_state := CsTSS true.

Example C15_nonvacuous :
  let ps := [PCreate (B "t") 1 (B "chain-a") (AnyVal ex_tm) (AnyVal (ConsTM 1700000000));
             PUpgrade (B "t") 1 (B "chain-a") (AnyVal ex_tm) (AnyVal (ConsTM 1700000000));
             PToggle (B "t") 1 (B "chain-a") (AnyVal ex_bsc) (AnyVal (ConsBSC 5));
             PUpgrade (B "t") 1 (B "chain-a") (AnyVal ex_bsc) (AnyVal (ConsBSC 6));
             PToggle (B "t") 1 (B "chain-a") (AnyVal ex_eth) (AnyVal (ConsETH 7 (B "state-root")));
             PToggle (B "t") 1 (B "chain-a") (AnyVal ex_tss) (AnyVal ConsTSS);
             PRelayer (B "t") 1 (B "teleport1qyqszqgpqyqszqgpqyqszqgpqyqszqgp5qvjlt") true [B "chain-a"] 1] in
  forallb (fun p => Nat.eqb (oclass (xprop_validate p)) 0) ps = true /\
  match run_gov_head 1767225600 (B "teleport") [] ps with
  | Ok s => option_map client_type (c_client (xget s (B "chain-a"))) = Some TTSS
  | _ => False
  end /\
  (* every step really executed (returned Ok, not a swallowed Err) *)
  forallb (fun n => Nat.eqb n 0)
    (fst (fold_left (fun acc p => let '(l, s) := acc in
                       match handle_xprop 1767225600 head_strict (B "teleport") s p with Ok s' => (l ++ [0%nat], s') | _ => (l ++ [1%nat], s) end)
                    ps ([], []))) = true.
Proof. vm_compute. repeat split; reflexivity. Qed.
