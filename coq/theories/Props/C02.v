(** C02 — Authenticity: only what the counterparty committed is received or acked.
    Only statements; proofs in Proofs/PacketC02.v.  [client_verify P env name ctype kind height proof src dst seq
    value] is the verification function of the light client stored under [name] (VerifyPacketCommitment for kind 0,
    VerifyPacketAcknowledgement for kind 1) — an arbitrary oracle here; what it guarantees for Tendermint / BSC /
    ETH clients (consensus state accepted by the client at that height, ICS-23 / MPT membership) is C07 / C08. *)
From Teleport Require Import Base.Bytes Base.Outcome Base.AList Model.Packet Model.PacketKeys
     Proofs.Packet Proofs.PacketC02 Proofs.PacketClients Proofs.PacketKeys Proofs.PacketExamples.
From Teleport Require Import Model.PacketClients.
Local Open Scope N_scope.

(** An accepted receive: the packet bytes decode without error to a valid packet p addressed to / from this chain,
    no receipt existed, a client is stored for p's SOURCE chain and that client verified, at the message's proof
    height, with the message's proof (the signer for a TSS client), exactly the commitment path arguments
    (p.src, p.dst, p.seq) and exactly the value sha256(abi_pack p). *)
Theorem C02_recv_accepted_verified : forall P env s m cb s',
  exec P env s (ARecv m cb) = Ok s' -> recv_verified P env s m.
Proof. exact recv_accepted_verified. Qed.
Print Assumptions C02_recv_accepted_verified.

(** An accepted acknowledgement: this chain still stores, under p's triple, exactly sha256(abi_pack p); a client is
    stored for p's DESTINATION chain and verified exactly (ack path arguments, sha256(ack bytes)) at the message's
    proof height.  (sha256 never returns the empty string: bytes.Equal(nil, []) would hold — the hypothesis is
    necessary for the faithful model: Refuted/C02_shaempty.v.) *)
Theorem C02_ack_accepted_verified : forall P, (forall x, sha256 P x <> []) -> forall env s m cb1 cb2 cb3 s',
  exec P env s (AAck m cb1 cb2 cb3) = Ok s' -> ack_verified P env s m.
Proof. exact ack_accepted_verified. Qed.
Print Assumptions C02_ack_accepted_verified.

(** Every message that is not accepted leaves the whole state equal. *)
Theorem C02_rejected_unchanged : forall P s o, snd (step P s o) = false -> fst (step P s o) = s.
Proof. exact rejected_unchanged. Qed.
Print Assumptions C02_rejected_unchanged.

(** Every receive / acknowledgement for which the above does not hold is rejected without a state change. *)
Theorem C02_unverified_recv_rejected : forall P env s m cb,
  ~ recv_verified P env s m -> step P s (env, ARecv m cb) = (s, false).
Proof. exact unverified_recv_rejected. Qed.
Print Assumptions C02_unverified_recv_rejected.

Theorem C02_unverified_ack_rejected : forall P, (forall x, sha256 P x <> []) -> forall env s m cb1 cb2 cb3,
  ~ ack_verified P env s m -> step P s (env, AAck m cb1 cb2 cb3) = (s, false).
Proof. exact unverified_ack_rejected. Qed.
Print Assumptions C02_unverified_ack_rejected.

(** The stateless stage in front of the handlers (types/msgs.go ValidateBasic, run by BaseApp before any handler): a
    delivered receive / acknowledgement that is accepted has a non-zero proof height, a signer that is a bech32
    account address, packet bytes that decode WITHOUT error to a packet passing Packet.ValidateBasic, and (for an
    acknowledgement) non-empty acknowledgement bytes; everything else is rejected without a state change. *)
Theorem C02_accepted_passed_basic : forall P s env a,
  snd (step P s (env, a)) = true -> msg_basic P a = true /\ exec P env s a = Ok (fst (step P s (env, a))).
Proof.
  intros P s env a H. unfold step in *. cbn [fst snd] in *.
  destruct (deliver P env s a) as [s'| |] eqn:D; cbn in H; try discriminate.
  split; [exact (deliver_basic _ _ _ _ _ D) | exact (deliver_ok _ _ _ _ _ D)].
Qed.
Print Assumptions C02_accepted_passed_basic.

Theorem C02_not_basic_rejected : forall P s env a, msg_basic P a = false -> step P s (env, a) = (s, false).
Proof. intros P s env a H. unfold step, deliver. cbn [fst snd]. rewrite H. reflexivity. Qed.
Print Assumptions C02_not_basic_rejected.

(** "… against a consensus state it accepted ITSELF at the stated proof height", across governance operations
    (client-store layer Model/PacketClients.v: [cstore] = the heights of the consensus states the client INSTANCE stored
    under a name holds — written by its creation, its updates and upgrades; a ToggleClient clears the client store, so
    the new instance holds none of the old heights).  An accepted receive / acknowledgement through a proof-verifying
    (non-TSS) client is verified as above AND its proof height is one the PRESENT instance accepted. *)
Theorem C02_recv_at_accepted_height : forall P env s cs m cb s',
  deliver2 P env s cs (ARecv m cb) = Ok s' ->
  recv_verified P env s m /\
  forall ct, aget (p_src (fst (decode P (rm_packet m)))) (st_clients s) = Some ct -> is_tss ct = false ->
             In (rm_height m) (heights_of cs (p_src (fst (decode P (rm_packet m))))).
Proof. exact recv_at_accepted_height. Qed.
Print Assumptions C02_recv_at_accepted_height.

Theorem C02_ack_at_accepted_height : forall P, (forall x, sha256 P x <> []) -> forall env s cs m cb1 cb2 cb3 s',
  deliver2 P env s cs (AAck m cb1 cb2 cb3) = Ok s' ->
  ack_verified P env s m /\
  forall ct, aget (p_dst (fst (decode P (am_packet m)))) (st_clients s) = Some ct -> is_tss ct = false ->
             In (am_height m) (heights_of cs (p_dst (fst (decode P (am_packet m))))).
Proof. exact ack_at_accepted_height. Qed.
Print Assumptions C02_ack_at_accepted_height.

(** After an accepted ToggleClient the client holds exactly the consensus states the new instance wrote — none of the
    old ones — and a message whose proof height only an EARLIER instance accepted is rejected, state equal. *)
Theorem C02_toggle_forgets_old_heights : forall P env s cs n c ok w s' cs',
  step2 P (s, cs) ((env, AToggleClient n c ok), w) = ((s', cs'), true) -> heights_of cs' n = w.
Proof. exact toggle_forgets_old_heights. Qed.
Print Assumptions C02_toggle_forgets_old_heights.

Theorem C02_recv_at_forgotten_height_rejected : forall P env s cs m cb ct,
  aget (p_src (fst (decode P (rm_packet m)))) (st_clients s) = Some ct -> is_tss ct = false ->
  ~ In (rm_height m) (heights_of cs (p_src (fst (decode P (rm_packet m))))) ->
  forall w, step2 P (s, cs) ((env, ARecv m cb), w) = ((s, cs), false).
Proof. exact recv_at_forgotten_height_rejected. Qed.
Print Assumptions C02_recv_at_forgotten_height_rejected.

Theorem C02_ack_at_forgotten_height_rejected : forall P env s cs m cb1 cb2 cb3 ct,
  aget (p_dst (fst (decode P (am_packet m)))) (st_clients s) = Some ct -> is_tss ct = false ->
  ~ In (am_height m) (heights_of cs (p_dst (fst (decode P (am_packet m))))) ->
  forall w, step2 P (s, cs) ((env, AAck m cb1 cb2 cb3), w) = ((s, cs), false).
Proof. exact ack_at_forgotten_height_rejected. Qed.
Print Assumptions C02_ack_at_forgotten_height_rejected.

(** The layer only rejects more: the packet state it reaches is the one the packet model reaches on the accepted
    operations, so every theorem over [run] (C01 C04 C05) holds of the layered model too. *)
Theorem C02_layer_refines_packet_model : forall P l sc, fst (run2 P sc l) = run P (fst sc) (accepted2 P sc l).
Proof. exact run2_as_run. Qed.
Print Assumptions C02_layer_refines_packet_model.

(** Corollary (altered messages): if the client does not verify the commitment RECOMPUTED from the altered
    message (altered packet fields change the path arguments and/or sha256(abi_pack p); an altered proof or height
    changes the oracle's arguments), the message is rejected without a state change. *)
Theorem C02_altered_recv_rejected : forall P env s m cb,
  (forall ct bz, aget (p_src (fst (decode P (rm_packet m)))) (st_clients s) = Some ct ->
                 abi_pack P (fst (decode P (rm_packet m))) = Some bz ->
                 client_verify P env (p_src (fst (decode P (rm_packet m)))) ct kind_commit (rm_height m)
                   (if is_tss ct then rm_signer m else rm_proof m)
                   (p_src (fst (decode P (rm_packet m)))) (p_dst (fst (decode P (rm_packet m))))
                   (p_seq (fst (decode P (rm_packet m)))) (sha256 P bz) = false) ->
  step P s (env, ARecv m cb) = (s, false).
Proof. exact altered_recv_rejected. Qed.
Print Assumptions C02_altered_recv_rejected.

Theorem C02_altered_ack_rejected : forall P, (forall x, sha256 P x <> []) -> forall env s m cb1 cb2 cb3,
  (forall ct bz, aget (p_dst (fst (decode P (am_packet m)))) (st_clients s) = Some ct ->
                 abi_pack P (fst (decode P (am_packet m))) = Some bz ->
                 sget (ckey P (triple_of (fst (decode P (am_packet m))))) s = Some (sha256 P bz) ->
                 client_verify P env (p_dst (fst (decode P (am_packet m)))) ct kind_ack (am_height m)
                   (if is_tss ct then am_signer m else am_proof m)
                   (p_src (fst (decode P (am_packet m)))) (p_dst (fst (decode P (am_packet m))))
                   (p_seq (fst (decode P (am_packet m)))) (sha256 P (am_ack m)) = false) ->
  step P s (env, AAck m cb1 cb2 cb3) = (s, false).
Proof. exact altered_ack_rejected. Qed.
Print Assumptions C02_altered_ack_rejected.

(** Non-vacuity: with an oracle that verifies only proof "good", the same message is accepted with the good proof
    and rejected (state equal) with any other proof; with the all-accepting oracle of [exP] it is accepted. *)
Definition exP_strict : params :=
  mkParams k_receipt k_ack k_commitment k_nextseq k_valid (decode exP) (abi_pack exP) (sha256 exP) (decode_ack exP)
           (pack_ack exP) (fun _ _ _ _ _ proof _ _ _ _ => bytes_eqb proof (B "good")) (bech32_decode exP) (equal_fold exP).

Example C02_nonvacuous :
  is_ok (exec exP_strict 1 exB (ARecv (mkRecv (pkt x61 x62 3) (B "good") (0, 5) (B "rel")) cb_ok)) = true /\
  step exP_strict exB (1, ARecv (mkRecv (pkt x61 x62 3) (B "forged") (0, 5) (B "rel")) cb_ok) = (exB, false) /\
  is_ok (exec exP 1 exB (ARecv (recv_of (pkt x61 x62 3)) cb_ok)) = true.
Proof. vm_compute. repeat split; reflexivity. Qed.
