(** C16 — ICS-20 middleware is transparent: acks survive, conversion is atomic.
    Only statements here; proofs are in Proofs/Ics20.v and Proofs/Ics20Convert.v.

    In every theorem the wrapped ICS-20 application [transfer_recv], the JSON codec [decode], sdk.NewIntFromString
    [parse_int], sdk.AccAddressFromBech32 [from_bech32] and [sha256] are universally quantified oracles; the
    generic theorems also quantify over the state type, the registry test and the conversion function.  Results of
    the middleware are triples (state, returned acknowledgement — None = Go nil —, hook path — None = hook not called). *)
From Coq Require Import List ZArith Bool.
From Teleport Require Import Base.Bytes Base.Outcome Model.Ics20 Model.Ics20Check Model.Ics20Transfer Proofs.Ics20
  Proofs.Ics20Convert Proofs.Ics20EndToEnd Proofs.Ics20Toy Proofs.Ics20Source Gen.Ics20HookGen.
Import ListNotations.
Local Open Scope Z_scope.

(** ** The model's hook is the one the Go source describes.
    tools/gotocoq/ics20hook executes Keeper.OnRecvPacket, the callbacks of IBCMiddleware and those of ibc.Module
    SYMBOLICALLY on the Go AST (closures and same-package helpers inlined, nil-ness of errors tracked per path) and
    regenerates their decision trees: tests classified by data flow, ConvertCoin with its context and message, write(),
    what every path returns, the arguments of IBCDenom; Proofs/Ics20Source.v flattens the hook's tree to its guard
    list and normalises it ([shape_of]) to the two parameters of the hook model, and the model instantiated with THOSE
    parameters is the [hook] all theorems below are about.  A `return nil` on a path, a dropped guard, a conversion on
    the parent context, a write() before the error test, a message with another amount / denomination / receiver, a
    hook called after a failed transfer breaks this obligation; renaming, deleting the dead IBCDenom error branch,
    reordering the guards, moving code into closures / helper functions, `switch` for `if`, nested for early-return
    forms do not. *)
Theorem C16_source_is_model :
  src_shape_ok = true /\
  forall state sha256 decode parse_int from_bech32 is_registered convert,
    hook_from_source state sha256 decode parse_int from_bech32 is_registered convert
    = hook state sha256 decode parse_int from_bech32 is_registered convert.
Proof. split; [vm_compute; reflexivity|intros; reflexivity]. Qed.
Print Assumptions C16_source_is_model.

(** the normal form the regenerated decision trees have, spelled out: the hook is the comb "decode error / amount /
    receiver length / [dead IBCDenom error] / not registered -> return ack; ConvertCoin on the cache context with the
    message built from the packet; its error -> return ack; write(); return ack", the middleware and ibc.Module are the
    expected trees *)
Theorem C16_source_shape :
  shape_of (flatten src_hook) = Some (true, SrcAck) /\ src_hook_ack_reassigned = false /\ src_hook_denom_from_dest = true /\
  src_mw_recv = expected_mw_recv /\ src_mw_ack = expected_mw_ack /\ src_mw_timeout_inherited = true /\
  src_keeper_ack_noop = true /\
  src_module_recv = expected_module_recv /\ src_module_ack = expected_module_err /\ src_module_timeout = expected_module_err.
Proof. vm_compute. repeat split; reflexivity. Qed.
Print Assumptions C16_source_shape.

(** ** Transparency *)

(** For ALL packets and ALL states: whenever the middleware returns, the acknowledgement it returns is exactly
    (same success flag, same bytes) the one the wrapped transfer application produced — never nil. *)
Theorem C16_middleware_transparent :
  forall state sha256 decode parse_int from_bech32 is_registered convert transfer_recv st pkt st2 oa hp,
  middleware state sha256 decode parse_int from_bech32 is_registered convert transfer_recv st pkt = Ok (st2, oa, hp) ->
  exists st1 a, transfer_recv st pkt = Ok (st1, a) /\ oa = Some a.
Proof. exact middleware_transparent. Qed.
Print Assumptions C16_middleware_transparent.

(** ... and it does return whenever the wrapped application does: the hook adds no panic (sdk.NewCoin, ConvertCoin)
    given that the transfer application acknowledges success only for a decodable packet with a positive amount
    (ibc-go: ValidateBasic), sha256 yields 32 bytes and ConvertCoin does not panic. *)
Theorem C16_middleware_no_new_panic :
  forall state sha256 decode parse_int from_bech32 is_registered convert transfer_recv,
  transfer_sound state decode parse_int transfer_recv ->
  (forall x, length (sha256 x) = 32%nat) ->
  (forall st m, convert st m <> Panic) ->
  forall st pkt st1 a, transfer_recv st pkt = Ok (st1, a) ->
  exists st2 hp,
    middleware state sha256 decode parse_int from_bech32 is_registered convert transfer_recv st pkt = Ok (st2, Some a, hp).
Proof. exact middleware_no_new_panic. Qed.
Print Assumptions C16_middleware_no_new_panic.

(** The same with hypotheses about THIS packet and the state the wrapped application left only (the form that applies
    to conversions which can panic on other states) ... *)
Theorem C16_middleware_no_new_panic_at :
  forall state sha256 decode parse_int from_bech32 is_registered convert transfer_recv st pkt st1 a,
  transfer_recv st pkt = Ok (st1, a) ->
  (ack_success a = true ->
   exists d amt, decode (pk_data pkt) = Some d /\ parse_int (fd_amount d) = Some amt /\ 0 < amt /\
     length (sha256 (denom_prefix (pk_dport pkt) (pk_dchan pkt) ++ fd_denom d)) = 32%nat /\
     convert st1 (hook_msg sha256 from_bech32 pkt d amt) <> Panic) ->
  exists st2 hp,
    middleware state sha256 decode parse_int from_bech32 is_registered convert transfer_recv st pkt = Ok (st2, Some a, hp).
Proof. exact middleware_no_new_panic_at. Qed.
Print Assumptions C16_middleware_no_new_panic_at.

(** ... instantiated with the model of ConvertCoin (which DOES panic: 256-bit overflow of the escrow balance, supply
    underflow in BurnCoins): the concrete stack returns whenever the wrapped application does, on every state whose
    balances of the hook's denomination fit 256 bits and are covered by the supply (bank invariants). *)
Theorem C16_concrete_no_new_panic :
  forall MODULE sha256 decode parse_int from_bech32 transfer_recv st pkt st1 a,
  transfer_sound cstate decode parse_int transfer_recv ->
  (forall x, length (sha256 x) = 32%nat) ->
  transfer_recv st pkt = Ok (st1, a) ->
  (forall d amt, decode (pk_data pkt) = Some d -> parse_int (fd_amount d) = Some amt ->
     let m := hook_msg sha256 from_bech32 pkt d amt in
     bal st1 MODULE (cm_denom m) + bal st1 (cm_sender m) (cm_denom m) < W256 /\
     bal st1 (cm_sender m) (cm_denom m) <= get1 (c_supply st1) (cm_denom m)) ->
  exists st2 hp,
    middleware cstate sha256 decode parse_int from_bech32 c_is_registered (convert_coin MODULE) transfer_recv st pkt
    = Ok (st2, Some a, hp).
Proof. exact concrete_no_new_panic. Qed.
Print Assumptions C16_concrete_no_new_panic.

(** Conversely, for ALL packets and states: a panic of the middleware is the wrapped application's own, or comes from
    the hook after a SUCCESSFUL transfer of a REGISTERED denomination: sdk.NewCoin (negative amount / invalid
    denomination) or ConvertCoin itself. *)
Theorem C16_middleware_panic_only_from_hook :
  forall state sha256 decode parse_int from_bech32 is_registered convert transfer_recv st pkt,
  middleware state sha256 decode parse_int from_bech32 is_registered convert transfer_recv st pkt = Panic ->
  transfer_recv st pkt = Panic \/
  exists st1 a d amt, transfer_recv st pkt = Ok (st1, a) /\ ack_success a = true /\
    decode (pk_data pkt) = Some d /\ parse_int (fd_amount d) = Some amt /\
    is_registered st1 (cm_denom (hook_msg sha256 from_bech32 pkt d amt)) = true /\
    (amt < 0 \/ valid_denom (cm_denom (hook_msg sha256 from_bech32 pkt d amt)) = false \/
     convert st1 (hook_msg sha256 from_bech32 pkt d amt) = Panic).
Proof. exact middleware_panic_inv. Qed.
Print Assumptions C16_middleware_panic_only_from_hook.

(** The middleware returns an error exactly when the wrapped application does. *)
Theorem C16_middleware_err_iff :
  forall state sha256 decode parse_int from_bech32 is_registered convert transfer_recv st pkt,
  middleware state sha256 decode parse_int from_bech32 is_registered convert transfer_recv st pkt = Err <->
  transfer_recv st pkt = Err.
Proof. exact middleware_err_iff. Qed.
Print Assumptions C16_middleware_err_iff.

(** A failed transfer (error acknowledgement) passes through untouched: the keeper hook is not called at all, the
    state is the wrapped application's, the error acknowledgement keeps its bytes. *)
Theorem C16_failed_transfer_passthrough :
  forall state sha256 decode parse_int from_bech32 is_registered convert transfer_recv st pkt st1 a,
  transfer_recv st pkt = Ok (st1, a) -> ack_success a = false ->
  middleware state sha256 decode parse_int from_bech32 is_registered convert transfer_recv st pkt = Ok (st1, Some a, None).
Proof. exact failed_transfer_passthrough. Qed.
Print Assumptions C16_failed_transfer_passthrough.

(** What ibc-go core commits for the packet: the commitment of the TRANSFER application's acknowledgement — the very
    value core would commit around the bare transfer module — and after an error acknowledgement the state before
    the packet. *)
Theorem C16_core_commits_transfer_ack :
  forall state sha256 decode parse_int from_bech32 is_registered convert transfer_recv st pkt st' oc,
  core_recv state sha256 (middleware state sha256 decode parse_int from_bech32 is_registered convert transfer_recv) st pkt
    = Ok (st', oc) ->
  exists st1 a, transfer_recv st pkt = Ok (st1, a) /\ ack_bytes a <> [] /\
    oc = Some (sha256 (ack_bytes a)) /\
    (ack_success a = false -> st' = st) /\
    exists st'', core_recv state sha256 (bare state transfer_recv) st pkt = Ok (st'', oc).
Proof. exact core_commits_transfer_ack. Qed.
Print Assumptions C16_core_commits_transfer_ack.

(** Conversely: an acknowledgement that core would commit around the bare module is committed around the middleware. *)
Theorem C16_core_same_ack_as_bare :
  forall state sha256 decode parse_int from_bech32 is_registered convert transfer_recv st pkt sb oc st2 oa hp,
  core_recv state sha256 (bare state transfer_recv) st pkt = Ok (sb, oc) ->
  middleware state sha256 decode parse_int from_bech32 is_registered convert transfer_recv st pkt = Ok (st2, oa, hp) ->
  exists sm, core_recv state sha256
               (middleware state sha256 decode parse_int from_bech32 is_registered convert transfer_recv) st pkt = Ok (sm, oc)
             /\ oc <> None.
Proof. exact core_same_ack_as_bare. Qed.
Print Assumptions C16_core_same_ack_as_bare.

(** Histories: in EVERY history of received packets (each MsgRecvPacket its own transaction), from EVERY initial
    state, each packet that core processes is committed with the transfer application's acknowledgement for the state
    that packet met — the commitment core would store around the bare module in that state; an error
    acknowledgement leaves the state the packet met; no processed packet is left without acknowledgement. *)
Theorem C16_history_acks :
  forall state sha256 decode parse_int from_bech32 is_registered convert transfer_recv pkts st s p st' oc,
  In (s, p, Ok (st', oc))
     (core_history state sha256
        (middleware state sha256 decode parse_int from_bech32 is_registered convert transfer_recv) st pkts) ->
  exists st1 a, transfer_recv s p = Ok (st1, a) /\ ack_bytes a <> [] /\
    oc = Some (sha256 (ack_bytes a)) /\
    (ack_success a = false -> st' = s) /\
    exists st'', core_recv state sha256 (bare state transfer_recv) s p = Ok (st'', oc).
Proof. exact history_acks. Qed.
Print Assumptions C16_history_acks.

Theorem C16_history_no_silent_packet :
  forall state sha256 decode parse_int from_bech32 is_registered convert transfer_recv pkts st s p st',
  ~ In (s, p, Ok (st', None))
       (core_history state sha256
          (middleware state sha256 decode parse_int from_bech32 is_registered convert transfer_recv) st pkts).
Proof. exact history_no_silent_packet. Qed.
Print Assumptions C16_history_no_silent_packet.

(** OnAcknowledgementPacket and OnTimeoutPacket are the wrapped application's. *)
Theorem C16_callbacks_transparent :
  forall state (app_ack : state -> packet -> bytes -> outcome state) (app_to : state -> packet -> outcome state) st pkt a,
  on_ack_gen state app_ack st pkt a = app_ack st pkt a /\ on_timeout_gen state app_to st pkt = app_to st pkt.
Proof. intros. split; [apply on_ack_transparent|apply on_timeout_transparent]. Qed.
Print Assumptions C16_callbacks_transparent.

(** ** Atomicity *)

(** Structural form, any conversion function: after the middleware the state is bit for bit the wrapped application's,
    or it is ConvertCoin's successful result on that state for (voucher of the packet, packet amount, 20-byte receiver). *)
Theorem C16_middleware_state :
  forall state sha256 decode parse_int from_bech32 is_registered convert transfer_recv st pkt st1 a st2 oa hp,
  transfer_recv st pkt = Ok (st1, a) ->
  middleware state sha256 decode parse_int from_bech32 is_registered convert transfer_recv st pkt = Ok (st2, oa, hp) ->
  (st2 = st1 /\ hp <> Some HConverted) \/
  (hp = Some HConverted /\ ack_success a = true /\ exists d amt,
     decode (pk_data pkt) = Some d /\ parse_int (fd_amount d) = Some amt /\ 0 <= amt /\
     length (hook_receiver from_bech32 d) = 20%nat /\
     is_registered st1 (cm_denom (hook_msg sha256 from_bech32 pkt d amt)) = true /\
     convert st1 (hook_msg sha256 from_bech32 pkt d amt) = Ok st2).
Proof. exact middleware_state. Qed.
Print Assumptions C16_middleware_state.

(** With the model of ConvertCoin (standard tokens), for ALL packets, registries, bank and token states: after the
    middleware EXACTLY one of three holds ([after_middleware]):
    - the state is the wrapped application's, bit for bit (vouchers untouched in the receiver's account);
    - the registered contract had self-destructed: every balance, supply and token balance is the wrapped
      application's, only the dead pair is unregistered;
    - full conversion ([full_conversion], against the whole state): the receiver's vouchers decrease by exactly the
      packet amount, the SAME 20-byte address holds exactly that many more tokens, the vouchers are escrowed in the
      module account (module-owned contract) or burned against tokens released from the module's holdings (external
      contract); every other balance, supply, token balance, total supply, the registry and the parameters are
      unchanged. *)
Theorem C16_conversion_atomic :
  forall MODULE sha256 decode parse_int from_bech32 transfer_recv st pkt st1 a st2 oa hp,
  length MODULE = 20%nat ->
  transfer_recv st pkt = Ok (st1, a) ->
  mem1 MODULE (c_blocked st1) = true ->
  middleware cstate sha256 decode parse_int from_bech32 c_is_registered (convert_coin MODULE) transfer_recv st pkt
    = Ok (st2, oa, hp) ->
  after_middleware MODULE sha256 decode parse_int from_bech32 pkt st1 st2 hp.
Proof. exact conversion_atomic. Qed.
Print Assumptions C16_conversion_atomic.

(** ConvertCoin returning nil error is the full conversion or the removal of a dead pair — nothing in between. *)
Theorem C16_convert_exact_or_nothing :
  forall MODULE s m s',
  cm_sender m <> MODULE -> cm_receiver m <> MODULE ->
  convert_coin MODULE s m = Ok s' ->
  exists id p, minting_enabled s m = Some (id, p) /\
    ((mem1 (cp_erc20 p) (c_code s) = false /\ s' = delete_pair s id p) \/
     (mem1 (cp_erc20 p) (c_code s) = true /\ full_conversion MODULE s m p s')).
Proof. exact convert_coin_spec. Qed.
Print Assumptions C16_convert_exact_or_nothing.

(** ConvertCoin does not panic on states respecting the bank invariants (256-bit balances, supply covers holdings). *)
Theorem C16_convert_coin_no_panic :
  forall MODULE s m,
  bal s MODULE (cm_denom m) + bal s (cm_sender m) (cm_denom m) < W256 ->
  bal s (cm_sender m) (cm_denom m) <= get1 (c_supply s) (cm_denom m) ->
  convert_coin MODULE s m <> Panic.
Proof. exact convert_coin_no_panic. Qed.
Print Assumptions C16_convert_coin_no_panic.

(** ** End to end: the middleware around the CONCRETE model of ibc-go's transfer application (Model/Ics20Transfer.v:
    ValidateBasic, ReceiveEnabled, bech32, returning tokens released from the channel escrow / vouchers minted by the
    transfer module and paid out, blocked addresses, 256-bit panics, no rollback inside the application).  No
    state-transforming oracle is left: [decode], [parse_int], [from_bech32], [sha256], [denom_ok]
    (ValidatePrefixedDenom) are pure string functions, [err_ack] the bytes of the error acknowledgement. *)

(** the concrete transfer application meets the oracle hypothesis of the no-panic theorems *)
Theorem C16_transfer_model_sound :
  forall sha256 decode parse_int from_bech32 denom_ok err_ack recv_enabled TMODULE escrow_of,
  transfer_sound cstate decode parse_int
    (ctransfer sha256 decode parse_int from_bech32 denom_ok err_ack recv_enabled TMODULE escrow_of).
Proof. exact ctransfer_sound. Qed.
Print Assumptions C16_transfer_model_sound.

(** For ALL packets and ALL states in which the two module accounts are blocked addresses (app.go BlockedAddrs):
    whenever the stack returns, the acknowledgement is the transfer application's — the error acknowledgement, and
    then the hook did not run, or {"result":"AQ=="}; after a result acknowledgement the transfer application credited
    the receiver exactly the packet amount ([minted] vouchers / coins [released] from the channel escrow) and changed
    NOTHING else, and the middleware then left that state alone or performed the full conversion of exactly that
    amount ([after_middleware]). *)
Theorem C16_end_to_end :
  forall MODULE sha256 decode parse_int from_bech32 denom_ok err_ack recv_enabled TMODULE escrow_of st pkt st2 oa hp,
  length MODULE = 20%nat ->
  mem1 MODULE (c_blocked st) = true -> mem1 TMODULE (c_blocked st) = true ->
  full_stack MODULE sha256 decode parse_int from_bech32 denom_ok err_ack recv_enabled TMODULE escrow_of st pkt
    = Ok (st2, oa, hp) ->
  exists st1 a,
    ctransfer sha256 decode parse_int from_bech32 denom_ok err_ack recv_enabled TMODULE escrow_of st pkt = Ok (st1, a) /\
    oa = Some a /\
    (ack_success a = false -> st2 = st1 /\ hp = None /\ ack_bytes a = err_ack pkt) /\
    (ack_success a = true ->
     ack_bytes a = result_ack_bytes /\
     after_middleware MODULE sha256 decode parse_int from_bech32 pkt st1 st2 hp /\
     exists d amt r,
       decode (pk_data pkt) = Some d /\ parse_int (fd_amount d) = Some amt /\ from_bech32 (fd_receiver d) = Some r /\
       0 < amt /\ mem1 r (c_blocked st) = false /\
       let g := received_denom sha256 pkt d in
       if receiver_chain_is_source (pk_sport pkt) (pk_schan pkt) (fd_denom d)
       then escrow_of (pk_dport pkt) (pk_dchan pkt) = r \/
            released st st1 (escrow_of (pk_dport pkt) (pk_dchan pkt)) r g amt
       else minted st st1 r g amt).
Proof. exact end_to_end. Qed.
Print Assumptions C16_end_to_end.

(** The property in its own words (vouchers minted here): after a result acknowledgement, relative to the state BEFORE
    the packet, either the receiver holds exactly [amt] more vouchers and no token balance, total supply or module
    holding changed — or the receiver's voucher balance is what it was, the receiver's own 20-byte address holds exactly
    [amt] more tokens of the registered contract and the [amt] vouchers are escrowed in the aggregate module account
    (module-owned contract) or were burned against tokens released from the module's holdings (external contract). *)
Theorem C16_receiver_gets_vouchers_or_tokens :
  forall MODULE sha256 decode parse_int from_bech32 denom_ok err_ack recv_enabled TMODULE escrow_of
         st pkt st2 a hp d amt r,
  length MODULE = 20%nat ->
  mem1 MODULE (c_blocked st) = true -> mem1 TMODULE (c_blocked st) = true ->
  full_stack MODULE sha256 decode parse_int from_bech32 denom_ok err_ack recv_enabled TMODULE escrow_of st pkt
    = Ok (st2, Some a, hp) ->
  ack_success a = true ->
  decode (pk_data pkt) = Some d -> parse_int (fd_amount d) = Some amt -> from_bech32 (fd_receiver d) = Some r ->
  receiver_chain_is_source (pk_sport pkt) (pk_schan pkt) (fd_denom d) = false ->
  let v := ibc_denom sha256 (pk_dport pkt) (pk_dchan pkt) (fd_denom d) in
  0 < amt /\ r <> MODULE /\
  ((bal st2 r v = bal st r v + amt /\ get1 (c_supply st2) v = get1 (c_supply st) v + amt /\
    bal st2 MODULE v = bal st MODULE v /\ c_tokens st2 = c_tokens st /\ c_tok_total st2 = c_tok_total st /\
    hp <> None) \/
   (hp = Some HConverted /\ length r = 20%nat /\ bal st2 r v = bal st r v /\
    exists id p, find1 (c_denom_idx st) v = Some id /\ find1 (c_pairs st) id = Some p /\
      let c := cp_erc20 p in
      tok st2 c r = tok st c r + amt /\
      ((cp_owner p = 1%nat /\ bal st2 MODULE v = bal st MODULE v + amt /\
        get1 (c_supply st2) v = get1 (c_supply st) v + amt /\
        get1 (c_tok_total st2) c = get1 (c_tok_total st) c + amt /\ tok st2 c MODULE = tok st c MODULE) \/
       (cp_owner p = 2%nat /\ bal st2 MODULE v = bal st MODULE v /\
        get1 (c_supply st2) v = get1 (c_supply st) v /\
        get1 (c_tok_total st2) c = get1 (c_tok_total st) c /\ tok st2 c MODULE = tok st c MODULE - amt)))).
Proof. exact receiver_gets_vouchers_or_tokens. Qed.
Print Assumptions C16_receiver_gets_vouchers_or_tokens.

(** ** Returning native coins *)

(** For a packet that returns tokens to this chain the hook still hashes destPort/destChannel/denom; that
    denomination is never the one the transfer application releases (barring a sha256 collision between the two
    strings, one strictly longer than the other) ... *)
Theorem C16_returning_denoms_differ :
  forall sha256 pkt d,
  receiver_chain_is_source (pk_sport pkt) (pk_schan pkt) (fd_denom d) = true ->
  sha256 (denom_prefix (pk_dport pkt) (pk_dchan pkt) ++ fd_denom d) <>
  sha256 (skipn (length (denom_prefix (pk_sport pkt) (pk_schan pkt))) (fd_denom d)) ->
  ibc_denom sha256 (pk_dport pkt) (pk_dchan pkt) (fd_denom d) <> received_denom sha256 pkt d.
Proof. exact returning_denoms_differ. Qed.
Print Assumptions C16_returning_denoms_differ.

(** ... the transfer application can never have minted it over this channel (a packet carrying that trace would
    itself be a returning one) ... *)
Theorem C16_returning_preimage_never_minted :
  forall pkt d pkt' d',
  pk_sport pkt' = pk_sport pkt -> pk_schan pkt' = pk_schan pkt ->
  pk_dport pkt' = pk_dport pkt -> pk_dchan pkt' = pk_dchan pkt ->
  receiver_chain_is_source (pk_sport pkt) (pk_schan pkt) (fd_denom d) = true ->
  denom_prefix (pk_dport pkt') (pk_dchan pkt') ++ fd_denom d' = denom_prefix (pk_dport pkt) (pk_dchan pkt) ++ fd_denom d ->
  receiver_chain_is_source (pk_sport pkt') (pk_schan pkt') (fd_denom d') = true.
Proof. exact returning_preimage_never_minted. Qed.
Print Assumptions C16_returning_preimage_never_minted.

(** ... and whatever the registry says, coins of any denomination other than the hook's — in particular the
    released native coins — are untouched in every account. *)
Theorem C16_other_denominations_untouched :
  forall MODULE sha256 decode parse_int from_bech32 transfer_recv st pkt st1 a st2 oa hp acct g,
  length MODULE = 20%nat ->
  transfer_recv st pkt = Ok (st1, a) -> mem1 MODULE (c_blocked st1) = true ->
  middleware cstate sha256 decode parse_int from_bech32 c_is_registered (convert_coin MODULE) transfer_recv st pkt
    = Ok (st2, oa, hp) ->
  (forall d amt, decode (pk_data pkt) = Some d -> parse_int (fd_amount d) = Some amt ->
                 g <> cm_denom (hook_msg sha256 from_bech32 pkt d amt)) ->
  bal st2 acct g = bal st1 acct g.
Proof. exact other_denominations_untouched. Qed.
Print Assumptions C16_other_denominations_untouched.

(** the hook's denomination for the non-returning case IS the voucher the transfer application mints: both are
    ParseDenomTrace(destPort/destChannel/denom).IBCDenom(), and that is always "ibc/" + HEX(sha256(..)) *)
Theorem C16_hook_denom_is_voucher :
  forall sha256 pkt d,
  receiver_chain_is_source (pk_sport pkt) (pk_schan pkt) (fd_denom d) = false ->
  received_denom sha256 pkt d = ibc_denom sha256 (pk_dport pkt) (pk_dchan pkt) (fd_denom d) /\
  ibc_denom sha256 (pk_dport pkt) (pk_dchan pkt) (fd_denom d) =
    ibc_slash ++ hex_upper (sha256 (denom_prefix (pk_dport pkt) (pk_dchan pkt) ++ fd_denom d)).
Proof. intros sha256 pkt d H. split; [unfold received_denom; rewrite H; reflexivity|apply ibc_denom_shape]. Qed.
Print Assumptions C16_hook_denom_is_voucher.

(** ** Monitor soundness: the executable atomicity check applied to the implementation's observed balances accepts
    every step of the model. *)
Theorem C16_monitor_sound :
  forall MODULE sha256 decode parse_int from_bech32 pkt st1 st2 hp g rest,
  after_middleware MODULE sha256 decode parse_int from_bech32 pkt st1 st2 hp ->
  forall d amt, decode (pk_data pkt) = Some d -> parse_int (fd_amount d) = Some amt ->
  let m := hook_msg sha256 from_bech32 pkt d amt in
  cm_sender m <> MODULE ->
  forall owner c,
    (forall id p, minting_enabled st1 m = Some (id, p) -> cp_owner p = owner /\ cp_erc20 p = c) ->
    let b := proj MODULE (cm_sender m) (cm_denom m) g c rest st1 in
    let s := proj MODULE (cm_sender m) (cm_denom m) g c rest st2 in
    snap_funds_eqb b s || full_conversion_obs owner false amt b s = true.
Proof. exact monitor_sound. Qed.
Print Assumptions C16_monitor_sound.

(** ... and the stronger check applied to the DIRECT call of the keeper hook (monitor kind 72: funds untouched and then
    the registry untouched unless the contract is dead, or a full conversion credited to a 20-byte receiver). *)
Theorem C16_monitor_sound_direct_hook :
  forall MODULE sha256 decode parse_int from_bech32 pkt st1 st2 hp g rest,
  after_middleware MODULE sha256 decode parse_int from_bech32 pkt st1 st2 hp ->
  forall d amt, decode (pk_data pkt) = Some d -> parse_int (fd_amount d) = Some amt ->
  let m := hook_msg sha256 from_bech32 pkt d amt in
  cm_sender m <> MODULE ->
  forall owner c,
    (forall id p, minting_enabled st1 m = Some (id, p) -> cp_owner p = owner /\ cp_erc20 p = c) ->
    let b := proj MODULE (cm_sender m) (cm_denom m) g c rest st1 in
    let s := proj MODULE (cm_sender m) (cm_denom m) g c rest st2 in
    (snap_funds_eqb b s &&
     (negb (mem1 c (c_code st1)) || (Bool.eqb (sn_indexed b) (sn_indexed s) && Bool.eqb (sn_pair b) (sn_pair s)))) ||
    (full_conversion_obs owner false amt b s && Nat.eqb (length (cm_sender m)) 20) = true.
Proof. exact monitor_sound_strong. Qed.
Print Assumptions C16_monitor_sound_direct_hook.

(** ** Non-vacuity: concrete states in which each outcome occurs (Proofs/Ics20Toy.v: receiver holds 5 vouchers, the
    packet delivers 100).  View = (receiver's vouchers, module's vouchers, voucher supply, receiver's tokens, module's
    tokens, returned ack success, hook path code). *)
Example C16_ex_full_conversion_module_owned :
  view (toy_mw data_mint (Some RCV) (world 1 VOUCHER RCV 0 true) pkt0) RCV RCV VOUCHER
  = Some (5, 100, 105, 100, 0, Some true, Some 5%nat).
Proof. vm_compute. reflexivity. Qed.

Example C16_ex_full_conversion_external :
  view (toy_mw data_mint (Some RCV) (world 2 VOUCHER RCV 100 true) pkt0) RCV RCV VOUCHER
  = Some (5, 0, 5, 100, 0, Some true, Some 5%nat).
Proof. vm_compute. reflexivity. Qed.

(** external token, module one token short: the escrow is rolled back, 105 vouchers stay with the receiver *)
Example C16_ex_rollback :
  view (toy_mw data_mint (Some RCV) (world 2 VOUCHER RCV 99 true) pkt0) RCV RCV VOUCHER
  = Some (105, 0, 105, 0, 99, Some true, Some 4%nat).
Proof. vm_compute. reflexivity. Qed.

Example C16_ex_selfdestructed_pair_removed :
  view (toy_mw data_mint (Some RCV) (world 1 VOUCHER RCV 0 false) pkt0) RCV RCV VOUCHER
  = Some (105, 0, 105, 0, 0, Some true, Some 5%nat) /\
  match toy_mw data_mint (Some RCV) (world 1 VOUCHER RCV 0 false) pkt0 with
  | Ok (s, _, _) => c_is_registered s VOUCHER = false
  | _ => False
  end.
Proof. vm_compute. split; reflexivity. Qed.

(** 32-byte receiver (interchain account): vouchers stay, nothing is credited to the truncated address *)
Example C16_ex_long_receiver_not_converted :
  view (toy_mw data_mint (Some RCV32) (world 1 VOUCHER RCV32 0 true) pkt0) RCV32 (evm_addr RCV32) VOUCHER
  = Some (105, 0, 105, 0, 0, Some true, Some 6%nat).
Proof. vm_compute. reflexivity. Qed.

Example C16_ex_unregistered :
  view (toy_mw data_mint (Some RCV) unregistered_world pkt0) RCV RCV VOUCHER
  = Some (100, 0, 100, 0, 0, Some true, Some 3%nat).
Proof. vm_compute. reflexivity. Qed.

(** failed transfer: error acknowledgement returned as is, hook not called; core keeps the state before the packet *)
Example C16_ex_failed_transfer :
  view (toy_mw data_mint None (world 1 VOUCHER RCV 0 true) pkt0) RCV RCV VOUCHER
  = Some (5, 0, 5, 0, 0, Some false, None) /\
  core_recv cstate toy_sha (toy_mw data_mint None) (world 1 VOUCHER RCV 0 true) pkt0
  = Ok (world 1 VOUCHER RCV 0 true, Some (toy_sha (ack_bytes err_ack))).
Proof. vm_compute. split; reflexivity. Qed.

(** returning native coins: 100 atele released to the receiver, hook finds its (different) denomination unregistered *)
Example C16_ex_returning_native :
  view (toy_mw data_return (Some RCV) (world 1 VOUCHER RCV 0 true) pkt0) RCV RCV (B "atele")
  = Some (100, 0, 1000, 0, 0, Some true, Some 3%nat).
Proof. vm_compute. reflexivity. Qed.

(** the hypotheses of [C16_conversion_atomic] hold in the example world, and core commits the success ack *)
Example C16_ex_core_commits :
  length MOD = 20%nat /\ mem1 MOD (c_blocked (world 1 VOUCHER RCV 0 true)) = true /\
  match core_recv cstate toy_sha (toy_mw data_mint (Some RCV)) (world 1 VOUCHER RCV 0 true) pkt0 with
  | Ok (s, oc) => oc = Some (toy_sha (ack_bytes ok_ack)) /\ tok s CTR RCV = 100
  | _ => False
  end.
Proof. vm_compute. repeat split; reflexivity. Qed.

(** the whole stack with the concrete transfer application: vouchers minted and converted (module-owned), minted and
    converted against the module's holdings (external), minted and left alone after a rolled-back conversion; receive
    disabled / blocked receiver: error acknowledgement (a blocked receiver leaves the minted coins with the transfer
    module account ON THE BRANCH — ibc-go core drops it); returning native coins released from the channel escrow.
    The hypotheses of [C16_end_to_end] hold in these worlds. *)
Example C16_ex_end_to_end :
  let w := block_also TMOD (world 1 VOUCHER RCV 0 true) in
  length MOD = 20%nat /\ mem1 MOD (c_blocked w) = true /\ mem1 TMOD (c_blocked w) = true /\
  view (toy_full data_mint (Some RCV) true w pkt0) RCV RCV VOUCHER = Some (5, 100, 105, 100, 0, Some true, Some 5%nat) /\
  view (toy_full data_mint (Some RCV) true (block_also TMOD (world 2 VOUCHER RCV 100 true)) pkt0) RCV RCV VOUCHER
    = Some (5, 0, 5, 100, 0, Some true, Some 5%nat) /\
  view (toy_full data_mint (Some RCV) true (block_also TMOD (world 2 VOUCHER RCV 99 true)) pkt0) RCV RCV VOUCHER
    = Some (105, 0, 105, 0, 99, Some true, Some 4%nat) /\
  view (toy_full data_mint (Some RCV) false w pkt0) RCV RCV VOUCHER = Some (5, 0, 5, 0, 0, Some false, None) /\
  view (toy_full data_mint (Some MOD) true w pkt0) TMOD RCV VOUCHER = Some (100, 0, 105, 0, 0, Some false, None) /\
  core_recv cstate toy_sha (toy_full data_mint (Some MOD) true) w pkt0 = Ok (w, Some (toy_sha (ack_bytes err_ack))) /\
  view (toy_full data_return (Some RCV) true w pkt0) RCV RCV (B "atele") = Some (100, 0, 1000, 0, 0, Some true, Some 3%nat).
Proof. vm_compute. repeat split; reflexivity. Qed.

(** a history of three packets through core: converted, rolled back after the module ran out of tokens, receive to a
    blocked address — every one acknowledged with the transfer application's acknowledgement *)
Example C16_ex_history :
  map (fun x => match snd x with Ok (_, oc) => oc | _ => None end)
      (core_history cstate toy_sha (toy_mw data_mint (Some RCV)) (world 2 VOUCHER RCV 150 true) [pkt0; pkt0]) =
  [Some (toy_sha (ack_bytes ok_ack)); Some (toy_sha (ack_bytes ok_ack))] /\
  match core_history cstate toy_sha (toy_mw data_mint (Some RCV)) (world 2 VOUCHER RCV 150 true) [pkt0; pkt0] with
  | [(_, _, Ok (s1, _)); (_, _, Ok (s2, _))] =>
      (tok s1 CTR RCV, bal s1 RCV VOUCHER, tok s2 CTR RCV, bal s2 RCV VOUCHER) = (100, 5, 100, 105)
  | _ => False
  end.
Proof. vm_compute. split; reflexivity. Qed.
