(** C08 -- tie of the model to definitions REGENERATED from the Go source on every run: the slot-index constants (Gen/EvmProofSchemaGen.v, tools/gotocoq/evmproof).
    One file per regenerated item (Props/C08_schema_*.v), apart from Props/C08.v: the theorems about the model build
    whatever the translators produce, and an item a translator could not determine breaks exactly the obligations that
    read it. *)
From Teleport Require Import Base.Bytes Base.Outcome Model.EvmProof Proofs.EvmProofRlp Proofs.EvmProofSchema.
From Teleport Require Gen.EvmProofSchemaGen.
Import EvmProofSchemaGen.
Local Open Scope N_scope.

(** [pad32_208] of the model is [common.LeftPadBytes(big.NewInt(paramsIndex).Bytes(), paramsLenght)] of the regenerated
    constants of both client packages (208 and 32) *)
Theorem C08_slot_padding_from_go_source :
  pad32_208 = slot_pad eth_paramsIndex eth_paramsLenght /\ pad32_208 = slot_pad bsc_paramsIndex bsc_paramsLenght.
Proof. split; apply slot_pad_generic; vm_compute; reflexivity. Qed.
Print Assumptions C08_slot_padding_from_go_source.
