(** C08 -- tie of the model to definitions REGENERATED from the Go source on every run: the account tuple and its wiring (Gen/EvmProofSchemaGen.v, tools/gotocoq/evmproof).
    One file per regenerated item (Props/C08_schema_*.v), apart from Props/C08.v: the theorems about the model build
    whatever the translators produce, and an item a translator could not determine breaks exactly the obligations that
    read it. *)
From Teleport Require Import Base.Bytes Base.Outcome Model.EvmProof Proofs.EvmProofRlp Proofs.EvmProofSchema.
From Teleport Require Gen.EvmProofSchemaGen.
Import EvmProofSchemaGen.
Local Open Scope N_scope.

(** field order / types of [ProofAccount] (= the RLP list) and how [verifyMerkleProof] -- or whatever helper it calls --
    computes each field from the proof record, for both client packages *)
Theorem C08_account_schema_matches_go_source :
  account_schema_ok eth_ProofAccount_fields eth_account_wiring = true /\
  account_schema_ok bsc_ProofAccount_fields bsc_account_wiring = true.
Proof. split; vm_compute; reflexivity. Qed.
Print Assumptions C08_account_schema_matches_go_source.

(** hence [rlp_account (account_of_record r)] of the model is the interpretation (a struct is the RLP list of its fields
    in declaration order; [*big.Int] = minimal big-endian string, [common.Hash] = 32-byte string) of the regenerated
    schema and wiring, for every proof record, in both copies *)
Theorem C08_account_encoding_from_go_source :
  (exists s, schema_sem eth_ProofAccount_fields eth_account_wiring = Some s /\
             forall r, rlp_account_of_sem s r = Some (rlp_account (account_of_record r))) /\
  (exists s, schema_sem bsc_ProofAccount_fields bsc_account_wiring = Some s /\
             forall r, rlp_account_of_sem s r = Some (rlp_account (account_of_record r))).
Proof. split; apply account_encoding_generic; vm_compute; reflexivity. Qed.
Print Assumptions C08_account_encoding_from_go_source.
