(** C12, tie to the source, item 3: the Owner constants are the model's.  If this file does not build, only this
    obligation is broken. *)
From Teleport Require Import Base.Bytes Base.Outcome Base.AList Model.Registry Gen.RegistryGen Proofs.RegistrySource.

Theorem C12_source_owners : owners_ok owner_values = true.
Proof. vm_compute. reflexivity. Qed.
Print Assumptions C12_source_owners.
