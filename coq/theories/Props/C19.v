(** C19 — Canonical loss-free packet encoding; injective, parseable store keys.
    Only statements here; proofs are in Base/Fmt.v, Proofs/Keys*.v, Proofs/Abi*.v.
    Format terms (Gen/KeysGen.v) and ABI schemas (Gen/AbiSchemaGen.v) are
    regenerated from the Go source on every run. *)
From Teleport Require Import Base.Bytes Base.Outcome Base.Fmt Base.AbiSchema Gen.KeysGen Gen.KeysIterGen Gen.AbiSchemaGen
  Model.Keys Model.Abi Model.EncodingCheck
  Proofs.Keys Proofs.KeysParse Proofs.KeysExact Proofs.KeysIter Proofs.Abi Proofs.AbiRoundtrip Proofs.AbiNormal Proofs.AbiInst Proofs.EncodingMonitor.
Local Open Scope N_scope.

(** * Store keys *)

(** The canonical parser of a well-formed format inverts rendering, for all valid arguments. *)
Theorem C19_parse_render : forall f a, wf f = true -> valid f a = true -> parse f (render f a) = Some (binds f a).
Proof. exact parse_render. Qed.
Print Assumptions C19_parse_render.

(** Generic injectivity: the side condition [key_ok] is a closed Boolean on the regenerated term. *)
Theorem C19_key_inj : forall f sg a b,
  key_ok f sg = true -> args_ok sg a = true -> args_ok sg b = true -> render f a = render f b -> a = b.
Proof. exact key_inj. Qed.
Print Assumptions C19_key_inj.

(** Two different (source, destination, sequence) triples of valid chain names
    and any uint64 sequence never map to the same receipt / acknowledgement /
    commitment / relayer key. *)
Theorem C19_packet_receipt_key_inj : forall t1 t2,
  valid_triple t1 = true -> valid_triple t2 = true -> packet_receipt_key t1 = packet_receipt_key t2 -> t1 = t2.
Proof. exact packet_receipt_key_inj. Qed.
Print Assumptions C19_packet_receipt_key_inj.

Theorem C19_packet_ack_key_inj : forall t1 t2,
  valid_triple t1 = true -> valid_triple t2 = true -> packet_ack_key t1 = packet_ack_key t2 -> t1 = t2.
Proof. exact packet_ack_key_inj. Qed.
Print Assumptions C19_packet_ack_key_inj.

Theorem C19_packet_commitment_key_inj : forall t1 t2,
  valid_triple t1 = true -> valid_triple t2 = true -> packet_commitment_key t1 = packet_commitment_key t2 -> t1 = t2.
Proof. exact packet_commitment_key_inj. Qed.
Print Assumptions C19_packet_commitment_key_inj.

Theorem C19_packet_relayer_key_inj : forall t1 t2,
  valid_triple t1 = true -> valid_triple t2 = true -> packet_relayer_key t1 = packet_relayer_key t2 -> t1 = t2.
Proof. exact packet_relayer_key_inj. Qed.
Print Assumptions C19_packet_relayer_key_inj.

Theorem C19_next_seq_send_key_inj : forall s1 d1 s2 d2,
  valid_chain_name s1 = true -> valid_chain_name d1 = true -> valid_chain_name s2 = true -> valid_chain_name d2 = true ->
  next_seq_send_key s1 d1 = next_seq_send_key s2 d2 -> s1 = s2 /\ d1 = d2.
Proof. exact next_seq_send_key_inj. Qed.
Print Assumptions C19_next_seq_send_key_inj.

(** Two different consensus heights (ALL uint64 revision numbers and heights)
    never map to the same key — relative to the client store and in the xibc store. *)
Theorem C19_consensus_state_key_inj : forall h1 h2,
  valid_height h1 = true -> valid_height h2 = true -> consensus_state_key h1 = consensus_state_key h2 -> h1 = h2.
Proof. exact consensus_state_key_inj. Qed.
Print Assumptions C19_consensus_state_key_inj.

Theorem C19_full_consensus_state_key_inj : forall n1 h1 n2 h2,
  valid_chain_name n1 = true -> valid_chain_name n2 = true -> valid_height h1 = true -> valid_height h2 = true ->
  full_consensus_state_key n1 h1 = full_consensus_state_key n2 h2 -> n1 = n2 /\ h1 = h2.
Proof. exact full_consensus_state_key_inj. Qed.
Print Assumptions C19_full_consensus_state_key_inj.

Theorem C19_client_metadata_keys_inj : forall h1 h2, valid_height h1 = true -> valid_height h2 = true ->
  (tm_processed_time_key h1 = tm_processed_time_key h2 -> h1 = h2) /\
  (tm_iteration_key h1 = tm_iteration_key h2 -> h1 = h2) /\
  (bsc_recent_signer_key h1 = bsc_recent_signer_key h2 -> h1 = h2).
Proof.
  intros h1 h2 V1 V2. repeat split;
    [apply tm_processed_time_key_inj | apply tm_iteration_key_inj | apply bsc_recent_signer_key_inj]; assumption.
Qed.
Print Assumptions C19_client_metadata_keys_inj.

(** The pre-images of the EVM storage-proof keys (keccak256 of them is the key) are injective. *)
Theorem C19_evm_proof_key_preimage_inj : forall t1 t2,
  valid_triple t1 = true -> valid_triple t2 = true ->
  (render bsc_ProofKeyConstructor_GetPacketCommitmentProofKey_preimage (triple_args t1) =
   render bsc_ProofKeyConstructor_GetPacketCommitmentProofKey_preimage (triple_args t2) -> t1 = t2) /\
  (render bsc_ProofKeyConstructor_GetAckProofKey_preimage (triple_args t1) =
   render bsc_ProofKeyConstructor_GetAckProofKey_preimage (triple_args t2) -> t1 = t2) /\
  (render eth_ProofKeyConstructor_GetPacketCommitmentProofKey_preimage (triple_args t1) =
   render eth_ProofKeyConstructor_GetPacketCommitmentProofKey_preimage (triple_args t2) -> t1 = t2) /\
  (render eth_ProofKeyConstructor_GetAckProofKey_preimage (triple_args t1) =
   render eth_ProofKeyConstructor_GetAckProofKey_preimage (triple_args t2) -> t1 = t2).
Proof. exact evm_proof_key_preimage_inj. Qed.
Print Assumptions C19_evm_proof_key_preimage_inj.

(** Keys of different families never collide (xibc store; one client's store). *)
Theorem C19_key_families_disjoint : forall i j f sf g sg a b, i <> j ->
  nth_error key_families i = Some (f, sf) -> nth_error key_families j = Some (g, sg) ->
  args_ok sf a = true -> args_ok sg b = true -> render f a <> render g b.
Proof. exact key_families_disjoint. Qed.
Print Assumptions C19_key_families_disjoint.

Theorem C19_client_store_families_disjoint : forall i j f sf g sg a b, i <> j ->
  nth_error client_store_families i = Some (f, sf) -> nth_error client_store_families j = Some (g, sg) ->
  args_ok sf a = true -> args_ok sg b = true -> render f a <> render g b.
Proof. exact client_store_families_disjoint. Qed.
Print Assumptions C19_client_store_families_disjoint.

(** A prefix iterator selects every key of its own family and none of another — for ALL arguments. *)
Theorem C19_iterator_prefix_exact : forall p own i f sf a,
  In (p, own) iterator_prefixes -> nth_error key_families i = Some (f, sf) ->
  is_prefix p (render f a) = if existsb (Nat.eqb i) own then true else false.
Proof. exact iterator_prefix_exact. Qed.
Print Assumptions C19_iterator_prefix_exact.

(** * Every stored key is read back as what it was written for (the parsers of /repo HEAD) *)

Theorem C19_packet_key_parse_roundtrip : forall t, valid_triple t = true ->
  iterate_hashes_parse (packet_receipt_key t) = Ok t /\
  iterate_hashes_parse (packet_ack_key t) = Ok t /\
  iterate_hashes_parse (packet_commitment_key t) = Ok t.
Proof.
  intros t V. repeat split;
    [apply receipt_key_parse_roundtrip | apply ack_key_parse_roundtrip | apply commitment_key_parse_roundtrip]; exact V.
Qed.
Print Assumptions C19_packet_key_parse_roundtrip.

Theorem C19_next_seq_key_parse_roundtrip : forall s d,
  valid_chain_name s = true -> valid_chain_name d = true -> parse_path (next_seq_send_key s d) = Ok (s, d).
Proof. exact next_seq_key_parse_roundtrip. Qed.
Print Assumptions C19_next_seq_key_parse_roundtrip.

(** genesis export: IterateConsensusStates — ALL revision numbers and heights (D7 repaired) *)
Theorem C19_consensus_key_parse_roundtrip : forall name h,
  valid_chain_name name = true -> valid_height h = true ->
  iter_consensus_states (full_consensus_state_key name h) = Got (name, h).
Proof. exact consensus_key_parse_roundtrip. Qed.
Print Assumptions C19_consensus_key_parse_roundtrip.

Theorem C19_consensus_iterator_skips_others : forall name h,
  valid_chain_name name = true ->
  iter_consensus_states (full_client_state_key name) = Skip /\
  iter_consensus_states (client_store_prefix name ++ tm_processed_time_key h) = Skip /\
  iter_consensus_states (client_store_prefix name ++ tm_iteration_key h) = Skip.
Proof. exact iter_consensus_states_skips_others. Qed.
Print Assumptions C19_consensus_iterator_skips_others.

(** IterateClients: every client state key, and no consensus state key whatever its height *)
Theorem C19_client_key_parse_roundtrip : forall name h,
  valid_chain_name name = true ->
  iter_clients (full_client_state_key name) = Got name /\ iter_clients (full_consensus_state_key name h) = Skip.
Proof.
  intros name h V. split; [apply client_key_parse_roundtrip | apply iter_clients_skips_consensus]; exact V.
Qed.
Print Assumptions C19_client_key_parse_roundtrip.

(** the iterators on ANY key under a client's prefix *)
Theorem C19_client_store_iterators : forall name path, valid_chain_name name = true ->
  iter_consensus_states (client_store_prefix name ++ path) =
    match parse_consensus_state_key path with Some h => Got (name, h) | None => Skip end /\
  iter_clients (client_store_prefix name ++ path) = if bytes_eqb path host_KeyClientState then Got name else Skip.
Proof.
  intros name path V. pose proof (valid_chain_name_no_sep _ V) as H.
  split; [apply iter_consensus_states_on_client_key | apply iter_clients_on_client_key]; exact H.
Qed.
Print Assumptions C19_client_store_iterators.

(** exactness: a key is read as the consensus state of h IF AND ONLY IF it is the key written for h —
    whatever else is stored under the client's prefix *)
Theorem C19_consensus_iterator_exact : forall name path n h,
  valid_chain_name name = true ->
  (iter_consensus_states (client_store_prefix name ++ path) = Got (n, h)
   <-> (n = name /\ path = consensus_state_key h /\ valid_height h = true)).
Proof. exact consensus_iterator_exact. Qed.
Print Assumptions C19_consensus_iterator_exact.

Theorem C19_clients_iterator_exact : forall name path n,
  valid_chain_name name = true ->
  (iter_clients (client_store_prefix name ++ path) = Got n <-> (n = name /\ path = client_state_key)).
Proof. exact clients_iterator_exact. Qed.
Print Assumptions C19_clients_iterator_exact.

(** the Split-based parser of before the D7 repair agrees with the fixed-offset one exactly when the 16
    height bytes contain no separator byte *)
Theorem C19_old_parser_agrees_without_sep : forall name h,
  valid_chain_name name = true -> valid_height h = true ->
  no_sep (be_bytes 8 (rev_number h) ++ be_bytes 8 (rev_height h)) = true ->
  iter_consensus_states_old (full_consensus_state_key name h) = Ok (iter_consensus_states (full_consensus_state_key name h)).
Proof. exact old_parser_agrees_without_sep. Qed.
Print Assumptions C19_old_parser_agrees_without_sep.

Theorem C19_processed_time_key_roundtrip : forall h,
  iter_processed_time (tm_processed_time_key h) = Got (tm_processed_time_key h) /\
  (valid_height h = true -> iter_processed_time (consensus_state_key h) = Skip).
Proof. exact processed_time_key_roundtrip. Qed.
Print Assumptions C19_processed_time_key_roundtrip.

Theorem C19_evm_consensus_key_roundtrip : forall h,
  valid_height h = true -> iter_evm_consensus (consensus_state_key h) = Ok (Got h).
Proof. exact evm_consensus_key_roundtrip. Qed.
Print Assumptions C19_evm_consensus_key_roundtrip.

Theorem C19_tm_iteration_key_roundtrip : forall h,
  valid_height h = true -> tm_height_from_iteration_key (tm_iteration_key h) = Ok h.
Proof. exact tm_iteration_key_roundtrip. Qed.
Print Assumptions C19_tm_iteration_key_roundtrip.

Theorem C19_bsc_signer_key_roundtrip : forall h,
  valid_height h = true -> bsc_signer_height_parse (bsc_recent_signer_key h) = Ok h.
Proof. exact bsc_signer_key_roundtrip. Qed.
Print Assumptions C19_bsc_signer_key_roundtrip.

(** * EVERY iterator of a client's prefix store is exact over the whole family universe

    Universe = the key families a light client writes into its store
    ([client_store_families]) with ALL valid arguments (all 2^128 binary
    heights, whatever their bytes spell).  [visit_*] = what the loop of the Go
    iterator does with one stored key: visited only under the literal prefix
    handed to KVStorePrefixIterator, then the filter / parser of the loop body. *)

(** WHICH prefix each Go iterator scans is regenerated from the source
    (Gen/KeysIterGen.v); every regenerated prefix selects every key of its own
    families and no key of any other — for ALL arguments (side condition
    [regen_ok]: a closed Boolean on the regenerated terms) *)
Theorem C19_regen_prefix_exact : forall fams l owns, regen_ok fams l owns = true ->
  forall p own i f sf a, In (p, own) (combine (prefixes_of l) owns) -> nth_error fams i = Some (f, sf) ->
    is_prefix p (render f a) = existsb (Nat.eqb i) own.
Proof. exact regen_prefix_exact. Qed.
Print Assumptions C19_regen_prefix_exact.

(** the iterators of the xibc store: IterateConsensusStates, IterateClients, GetAllRelayers, GetAllPacketSendSeqs,
    IteratePacketCommitment / Receipt / Acknowledgement — each visits exactly its own key families *)
Theorem C19_xibc_iterators_exact : forall l own, In (l, own)
    [ (iterprefix_clientkeeper_IterateConsensusStates, [5%nat; 6%nat]); (iterprefix_clientkeeper_IterateClients, [5%nat; 6%nat]);
      (iterprefix_clientkeeper_GetAllRelayers, [8%nat]); (iterprefix_packetkeeper_GetAllPacketSendSeqs, [4%nat]);
      (iterprefix_packetkeeper_IteratePacketCommitment, [2%nat]); (iterprefix_packetkeeper_IteratePacketReceipt, [0%nat]);
      (iterprefix_packetkeeper_IteratePacketAcknowledgement, [1%nat]) ] ->
  forall i f sf a, nth_error key_families i = Some (f, sf) ->
    prefix_any (prefixes_of l) (render f a) = existsb (Nat.eqb i) own.
Proof. exact xibc_iterators_exact. Qed.
Print Assumptions C19_xibc_iterators_exact.

(** ... and over whole stores: among the stored keys of the nine families of the
    xibc store every keeper iterator visits exactly the keys of its own families *)
Theorem C19_xibc_iteration_exact : forall l own, In (l, own)
    [ (iterprefix_clientkeeper_IterateConsensusStates, [5%nat; 6%nat]); (iterprefix_clientkeeper_IterateClients, [5%nat; 6%nat]);
      (iterprefix_clientkeeper_GetAllRelayers, [8%nat]); (iterprefix_packetkeeper_GetAllPacketSendSeqs, [4%nat]);
      (iterprefix_packetkeeper_IteratePacketCommitment, [2%nat]); (iterprefix_packetkeeper_IteratePacketReceipt, [0%nat]);
      (iterprefix_packetkeeper_IteratePacketAcknowledgement, [1%nat]) ] ->
  forall ks, family_store_in key_families ks ->
  forall k, In k (keys_with_prefixes (prefixes_of l) ks) <-> In k ks /\ exists i, In i own /\ family_key_in key_families i k.
Proof. exact xibc_iteration_exact. Qed.
Print Assumptions C19_xibc_iteration_exact.

(** GetAllPacketCommitments: every key it visits is a commitment key and is read as the triple it was written for *)
Theorem C19_commitments_read_back : forall ks, family_store_in key_families ks ->
  forall k, In k (keys_with_prefixes (prefixes_of iterprefix_packetkeeper_IteratePacketCommitment) ks) ->
    exists t, valid_triple_args t /\ k = packet_commitment_key t /\ iterate_hashes_parse k = Ok t.
Proof. exact commitments_read_back. Qed.
Print Assumptions C19_commitments_read_back.

(** tendermint IterateProcessedTime hands out a stored key iff it is a processed-time key (family 2) *)
Theorem C19_processed_time_iterator_exact : forall i f sf a,
  nth_error client_store_families i = Some (f, sf) -> args_ok sf a = true ->
  visit_processed_time (render f a) = if Nat.eqb i 2 then Got (render f a) else Skip.
Proof. exact processed_time_iterator_exact. Qed.
Print Assumptions C19_processed_time_iterator_exact.

(** bsc / eth IterateConsensusStateAscending: exactly the consensus-state keys (family 1), each as its height *)
Theorem C19_evm_consensus_iterator_exact : forall l,
  In l [iterprefix_bsc_IterateConsensusStateAscending; iterprefix_eth_IterateConsensusStateAscending] ->
  forall i f sf a, nth_error client_store_families i = Some (f, sf) -> args_ok sf a = true ->
  visit_evm_consensus l (render f a) =
    if Nat.eqb i 1 then Ok (Got {| rev_number := get_n a 0; rev_height := get_n a 1 |}) else Ok Skip.
Proof. exact evm_consensus_iterator_exact. Qed.
Print Assumptions C19_evm_consensus_iterator_exact.

(** tendermint IterateConsensusStateAscending: exactly the iteration keys (family 3) *)
Theorem C19_tm_iteration_iterator_exact : forall i f sf a,
  nth_error client_store_families i = Some (f, sf) -> args_ok sf a = true ->
  visit_tm_iteration (render f a) =
    if Nat.eqb i 3 then Ok (Got {| rev_number := get_n a 0; rev_height := get_n a 1 |}) else Ok Skip.
Proof. exact tm_iteration_iterator_exact. Qed.
Print Assumptions C19_tm_iteration_iterator_exact.

(** bsc GetRecentSigners / DeleteAllSigner: exactly the recent-signer keys (family 4) *)
Theorem C19_bsc_signers_iterator_exact : forall l, In l [iterprefix_bsc_GetRecentSigners; iterprefix_bsc_DeleteAllSigner] ->
  forall i f sf a, nth_error client_store_families i = Some (f, sf) -> args_ok sf a = true ->
  visit_bsc_signers l (render f a) =
    if Nat.eqb i 4 then Ok (Got {| rev_number := get_n a 0; rev_height := get_n a 1 |}) else Ok Skip.
Proof. exact bsc_signers_iterator_exact. Qed.
Print Assumptions C19_bsc_signers_iterator_exact.

(** ExportMetadata (hence GetAllClientMetadata) on any store made of family keys:
    exactly the metadata entries of the client type, and each once *)
Theorem C19_tm_export_exact : forall ks, family_store ks ->
  forall k, In k (tm_export_keys ks) <-> In k ks /\ (family_key 2 k \/ family_key 3 k).
Proof. exact tm_export_exact. Qed.
Print Assumptions C19_tm_export_exact.

Theorem C19_bsc_export_exact : forall ks, family_store ks ->
  forall k, In k (bsc_export_keys ks) <-> In k ks /\ (family_key 4 k \/ family_key 5 k).
Proof. exact bsc_export_exact. Qed.
Print Assumptions C19_bsc_export_exact.

Theorem C19_eth_export_exact : forall ks, family_store ks ->
  forall k, In k (eth_export_keys ks) <-> In k ks /\ (family_key 6 k \/ family_key 7 k).
Proof. exact eth_export_exact. Qed.
Print Assumptions C19_eth_export_exact.

Theorem C19_export_nodup : forall ks, NoDup ks ->
  NoDup (tm_export_keys ks) /\ NoDup (bsc_export_keys ks) /\ NoDup (eth_export_keys ks).
Proof. intros ks N. repeat split; [apply tm_export_nodup | apply bsc_export_nodup | apply eth_export_nodup]; exact N. Qed.
Print Assumptions C19_export_nodup.

(** a key belongs to at most one family (so "family_key i k" above is unambiguous) *)
Theorem C19_family_key_unique : forall i j k, family_key i k -> family_key j k -> i = j.
Proof. exact family_key_unique. Qed.
Print Assumptions C19_family_key_unique.

(** packet keeper IteratePacketCommitmentByPath(src, dst): a commitment key is
    visited iff it was written for exactly that source and destination; no key
    of another family of the xibc store is visited *)
Theorem C19_commitment_by_path_exact : forall s d t,
  valid_chain_name s = true -> valid_chain_name d = true -> valid_triple t = true ->
  is_prefix (commitment_path_prefix s d) (packet_commitment_key t) = bytes_eqb s (t_src t) && bytes_eqb d (t_dst t).
Proof. exact commitment_by_path_exact. Qed.
Print Assumptions C19_commitment_by_path_exact.

Theorem C19_commitment_by_path_other_families : forall s d i f sf a,
  nth_error key_families i = Some (f, sf) -> i <> 2%nat ->
  is_prefix (commitment_path_prefix s d) (render f a) = false.
Proof. exact commitment_by_path_other_families. Qed.
Print Assumptions C19_commitment_by_path_other_families.

(** * ABI encoding *)

(** go-ethereum's decoder inverts the head/tail encoder for every list of typed values *)
Theorem C19_abi_unpack_pack : forall ts vs,
  typed_vals ts vs = true -> lenN (abi_pack vs) < two63 -> abi_unpack ts (abi_pack vs) = Ok vs.
Proof. exact abi_unpack_pack. Qed.
Print Assumptions C19_abi_unpack_pack.

(** ABIDecode (ABIPack v) = v for every struct value with well-formed UTF-8
    strings, arbitrary byte strings and the full uint64 range — for every schema
    satisfying the decidable condition (encodings shorter than 2^63 bytes) *)
Theorem C19_abi_roundtrip : forall sc v,
  schema_ok sc = true -> struct_val_ok sc v = true -> strings_valid v = true ->
  exists bz, encode sc v = Ok bz /\ (lenN bz < two63 -> decode sc bz = Ok v).
Proof. exact schema_roundtrip. Qed.
Print Assumptions C19_abi_roundtrip.

(** the five regenerated schemas: round trip when [schema_ok] computes to true,
    a concrete lost value otherwise (see Proofs/AbiInst.v, Props/C19State.v) *)
Theorem C19_packet_tuple : tuple_statement packet_schema.
Proof. exact packet_tuple. Qed.
Print Assumptions C19_packet_tuple.
Theorem C19_ack_tuple : tuple_statement ack_schema.
Proof. exact ack_tuple. Qed.
Print Assumptions C19_ack_tuple.
Theorem C19_transfer_data_tuple : tuple_statement transfer_data_schema.
Proof. exact transfer_data_tuple. Qed.
Print Assumptions C19_transfer_data_tuple.
Theorem C19_call_data_tuple : tuple_statement call_data_schema.
Proof. exact call_data_tuple. Qed.
Print Assumptions C19_call_data_tuple.
Theorem C19_result_tuple : tuple_statement result_schema.
Proof. exact result_tuple. Qed.
Print Assumptions C19_result_tuple.

(** re-encoding what was decoded from a canonical encoding returns the same bytes *)
Theorem C19_abi_canonical : forall sc v bz,
  schema_ok sc = true -> struct_val_ok sc v = true -> strings_valid v = true ->
  encode sc v = Ok bz -> lenN bz < two63 ->
  exists v', decode sc bz = Ok v' /\ encode sc v' = Ok bz.
Proof. exact schema_canonical. Qed.
Print Assumptions C19_abi_canonical.

Theorem C19_encode_injective : forall sc v w bz,
  schema_ok sc = true -> struct_val_ok sc v = true -> strings_valid v = true ->
  struct_val_ok sc w = true -> strings_valid w = true ->
  encode sc v = Ok bz -> encode sc w = Ok bz -> lenN bz < two63 -> v = w.
Proof. exact encode_injective. Qed.
Print Assumptions C19_encode_injective.

(** ABIDecode on ANY accepted input (go-ethereum's decoder also accepts non-canonical
    encodings): the result is a well-typed struct value IN the property's domain
    (its strings are well-formed UTF-8), and it is normalised —
    its canonical re-encoding decodes to the same value *)
Theorem C19_decode_typed : forall sc bz v, decode sc bz = Ok v -> struct_val_ok sc v = true.
Proof. exact decode_typed. Qed.
Print Assumptions C19_decode_typed.

Theorem C19_decode_in_domain : forall sc bz v, decode sc bz = Ok v -> strings_valid v = true.
Proof. exact decode_strings_valid. Qed.
Print Assumptions C19_decode_in_domain.

Theorem C19_decode_normalises : forall sc bz v,
  schema_ok sc = true -> decode sc bz = Ok v ->
  exists bz', encode sc v = Ok bz' /\ (lenN bz' < two63 -> decode sc bz' = Ok v).
Proof. exact decode_normalises. Qed.
Print Assumptions C19_decode_normalises.

(** re-encoding the decoded value returns the SAME bytes exactly when the input is canonical *)
Theorem C19_reencode_same_iff_canonical : forall sc bz v, decode sc bz = Ok v ->
  (encode sc v = Ok bz <-> exists w, struct_val_ok sc w = true /\ encode sc w = Ok bz /\ decode sc bz = Ok w).
Proof. exact reencode_same_iff_canonical. Qed.
Print Assumptions C19_reencode_same_iff_canonical.

(** different packets have different commitments — or an explicit sha256 collision *)
Theorem C19_commit_injective : forall (sha256 : bytes -> bytes) sc v w c,
  schema_ok sc = true -> struct_val_ok sc v = true -> strings_valid v = true ->
  struct_val_ok sc w = true -> strings_valid w = true ->
  commit sha256 sc v = Ok c -> commit sha256 sc w = Ok c ->
  (forall bz, encode sc v = Ok bz -> lenN bz < two63) ->
  v = w \/ exists x y, x <> y /\ sha256 x = sha256 y /\ encode sc v = Ok x /\ encode sc w = Ok y.
Proof. exact commit_injective. Qed.
Print Assumptions C19_commit_injective.

(** the JSON step is the identity exactly on well-formed UTF-8 (how invalid UTF-8 is excluded) *)
Theorem C19_json_string_valid : forall s, utf8_valid s = true -> json_string s = s.
Proof. exact json_string_valid. Qed.
Print Assumptions C19_json_string_valid.

(** the monitor evaluated on implementation traces demands exactly the theorems' conclusion *)
Theorem C19_monitor_sound : forall ty v bz, case_monitor (CAbi ty v 0 bz 0 v 0 bz true) = [].
Proof. exact abi_monitor_sound. Qed.
Print Assumptions C19_monitor_sound.

Theorem C19_abiraw_monitor_sound : forall ty inp d r, case_monitor (CAbiRaw ty inp 0 d 0 r 0 d) = [].
Proof. exact abiraw_monitor_sound. Qed.
Print Assumptions C19_abiraw_monitor_sound.

(** * Non-vacuity *)

Example C19_nonvacuous_keys :
  let t := {| t_src := B "teleport-1"; t_dst := B "bsc#[<56>]"; t_seq := 18446744073709551615 |} in
  valid_triple t = true /\
  packet_commitment_key t = B "commitments/teleport-1/bsc#[<56>]/sequences/18446744073709551615" /\
  iterate_hashes_parse (packet_commitment_key t) = Ok t /\
  valid_height {| rev_number := 47; rev_height := 12032 |} = true /\
  iter_consensus_states (full_consensus_state_key (B "eth") {| rev_number := 47; rev_height := 12032 |})
    = Got (B "eth", {| rev_number := 47; rev_height := 12032 |}).
Proof. vm_compute. repeat split; reflexivity. Qed.
Print Assumptions C19_nonvacuous_keys.

(** the adversarial heights are in the theorems' domain: a consensus state at
    revision 0x00002f70726f6365 ("..\/proce"), height 0x7373656454696d65
    ("ssedTime") has a key that ENDS in "/processedTime" — and is skipped; the
    processed time stored for the same height is handed out *)
Example C19_nonvacuous_adversarial_height :
  let h := {| rev_number := 52160002745189; rev_height := 8319104418270768485 |} in
  valid_height h = true /\
  has_suffix tm_KeyProcessedTime (consensus_state_key h) = true /\
  visit_processed_time (consensus_state_key h) = Skip /\
  visit_processed_time (tm_processed_time_key h) = Got (tm_processed_time_key h) /\
  visit_evm_consensus iterprefix_bsc_IterateConsensusStateAscending (consensus_state_key h) = Ok (Got h) /\
  tm_export_keys [client_state_key; consensus_state_key h; tm_processed_time_key h; tm_iteration_key h]
    = [tm_processed_time_key h; tm_iteration_key h].
Proof. vm_compute. repeat split; reflexivity. Qed.
Print Assumptions C19_nonvacuous_adversarial_height.

Example C19_nonvacuous_abi :
  let p := [FS (B "teleport"); FS (B "bsc"); FU 18446744073709551615; FS [xe2; x82; xac]; FB [x2f; x00]; FB []; FS []; FU 7] in
  struct_val_ok packet_schema p = true /\ strings_valid p = true /\ schema_ok packet_schema = true /\
  match encode packet_schema p with Ok bz => decode packet_schema bz = Ok p /\ length bz = 608%nat | _ => False end.
Proof. vm_compute. repeat split; reflexivity. Qed.
Print Assumptions C19_nonvacuous_abi.
