(** C19 — obligations on the CURRENT state of the regenerated terms: every ABI
    schema passes [schema_ok] (so each [tuple_statement] of Props/C19.v IS the
    round trip), every key builder passes [key_ok].  A harmful change of the Go
    source (renamed json tag / tuple component, dropped separator) breaks
    exactly these. *)
From Teleport Require Import Base.Bytes Base.Outcome Base.Fmt Base.AbiSchema Gen.KeysGen Gen.AbiSchemaGen
  Model.Keys Model.Abi Model.EncodingCheck Proofs.AbiInst.
Local Open Scope N_scope.

Theorem C19_all_schemas_ok : schema_states = [true; true; true; true; true].
Proof. vm_compute. reflexivity. Qed.
Print Assumptions C19_all_schemas_ok.

Theorem C19_all_keys_ok : forallb (fun b => b) key_states = true.
Proof. vm_compute. reflexivity. Qed.
Print Assumptions C19_all_keys_ok.

Theorem C19_packet_roundtrip : roundtrip_statement packet_schema.
Proof. apply roundtrip_generic. vm_compute. reflexivity. Qed.
Print Assumptions C19_packet_roundtrip.

(** D14 repaired: the acknowledgement (FeeOption included) survives the round trip *)
Theorem C19_ack_roundtrip : roundtrip_statement ack_schema.
Proof. apply roundtrip_generic. vm_compute. reflexivity. Qed.
Print Assumptions C19_ack_roundtrip.

Theorem C19_transfer_data_roundtrip : roundtrip_statement transfer_data_schema.
Proof. apply roundtrip_generic. vm_compute. reflexivity. Qed.
Print Assumptions C19_transfer_data_roundtrip.

Theorem C19_call_data_roundtrip : roundtrip_statement call_data_schema.
Proof. apply roundtrip_generic. vm_compute. reflexivity. Qed.
Print Assumptions C19_call_data_roundtrip.

Theorem C19_result_roundtrip : roundtrip_statement result_schema.
Proof. apply roundtrip_generic. vm_compute. reflexivity. Qed.
Print Assumptions C19_result_roundtrip.
