(** C20 — Reward vesting releases min(reward, remaining) and conserves supply.
    Only statements here; proofs are in Proofs/Rvesting.v. *)
From Teleport Require Import Base.Bytes Base.Outcome Model.Rvesting Model.RvestingCheck Proofs.Rvesting.
Local Open Scope Z_scope.

(** Enabled, parameters accepted by validation, non-negative pool: BeginBlocker
    returns (no panic) and for EVERY denomination exactly
    min(per-block reward, remaining pool) moves pool -> fee collector; all other
    balances and the supply are untouched. *)
Theorem C20_vest_step_exact : forall p s,
  enable p = true -> validate_rewards (rewards p) = true -> pool_ok s ->
  exists s', begin_block p s = Ok s' /\
    (forall d, get (pool s') d = get (pool s) d - Z.min (reward_of (rewards p) d) (get (pool s) d)) /\
    (forall d, get (fee s') d = get (fee s) d + Z.min (reward_of (rewards p) d) (get (pool s) d)) /\
    others s' = others s /\ supply s' = supply s.
Proof. exact begin_block_enabled. Qed.
Print Assumptions C20_vest_step_exact.

(** Disabled: nothing moves (for any parameters, validated or not). *)
Theorem C20_disabled_noop : forall p s, enable p = false -> begin_block p s = Ok s.
Proof. exact begin_block_disabled. Qed.
Print Assumptions C20_disabled_noop.

(** Empty pool for a denomination: nothing of it moves. *)
Theorem C20_empty_pool_noop : forall p s s' d,
  pool_ok s -> step_spec p s s' ->
  forallb (fun c => valid_denom (fst c) && (0 <=? snd c)) (rewards p) = true ->
  get (pool s) d = 0 -> get (pool s') d = 0 /\ get (fee s') d = get (fee s) d.
Proof. exact step_spec_empty. Qed.
Print Assumptions C20_empty_pool_noop.

(** Every block history with arbitrary (validated-by-the-code) parameter
    changes between blocks: never panics, the pool never goes negative,
    pool + fee collector is conserved per denomination, the pool only
    decreases, the collector only increases, everything else and the supply
    are constant. *)
Theorem C20_history : forall bs p s,
  params_ok p -> pool_ok s ->
  exists p' s', run bs p s = Ok (p', s') /\ params_ok p' /\ pool_ok s' /\
    (forall d, total s' d = total s d) /\
    (forall d, get (pool s') d <= get (pool s) d) /\
    (forall d, get (fee s) d <= get (fee s') d) /\
    others s' = others s /\ supply s' = supply s.
Proof. exact run_invariant. Qed.
Print Assumptions C20_history.

(** The executable monitor applied to implementation traces accepts every step
    of the model. *)
Theorem C20_monitor_sound : forall p s s' ds,
  pool_ok s ->
  forallb (fun c => valid_denom (fst c) && (0 <=? snd c)) (rewards p) = true ->
  (if enable p then step_spec p s s' else s' = s) ->
  check_amounts p ds (proj (pool s) ds) (proj (fee s) ds) (proj (pool s') ds) (proj (fee s') ds) = true.
Proof. exact check_amounts_sound. Qed.
Print Assumptions C20_monitor_sound.

(** Non-vacuity: a concrete state and parameter set meeting the hypotheses, a
    pool that runs dry over three blocks (7 -> 2 -> 0 -> 0 with reward 5). *)
Example C20_nonvacuous :
  let p := {| enable := true; rewards := [(B "atele", 5); (B "stake", 1)] |} in
  let s := {| pool := [(B "atele", 7)]; fee := []; others := []; supply := [(B "atele", 7)] |} in
  validate_rewards (rewards p) = true /\
  match run [ {| set_enable := None; set_rewards := None |};
              {| set_enable := None; set_rewards := None |};
              {| set_enable := None; set_rewards := None |} ] p s with
  | Ok (_, s') => get (pool s') (B "atele") = 0 /\ get (fee s') (B "atele") = 7
  | _ => False
  end.
Proof. vm_compute. repeat split; reflexivity. Qed.
