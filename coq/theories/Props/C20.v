(** C20 — Reward vesting releases min(reward, remaining) and conserves supply.
    Only statements here; proofs are in Proofs/Rvesting.v. *)
From Teleport Require Import Base.Bytes Base.Outcome Model.Rvesting Model.RvestingCheck Proofs.Rvesting.
From Teleport Require Import Model.RvestingIR Model.RvestingBank Model.RvestingParams Model.RvestingWorld Model.RvestingCode
  Model.RvestingWorldCheck Proofs.RvestingBank Proofs.RvestingParams Proofs.RvestingWorld Proofs.RvestingRefine Proofs.RvestingCode
  Proofs.RvestingMonitor.
Local Open Scope Z_scope.

(** Enabled, parameters accepted by validation, non-negative pool: BeginBlocker
    returns (no panic) and for EVERY denomination exactly
    min(per-block reward, remaining pool) moves pool -> fee collector; all other
    balances and the supply are untouched. *)
Theorem C20_vest_step_exact : forall p s,
  enable p = true -> validate_rewards (rewards p) = true -> pool_ok s ->
  exists s', begin_block p s = Ok s' /\
    (forall d, get (pool s') d = get (pool s) d - Z.min (reward_of (rewards p) d) (get (pool s) d)) /\
    (forall d, get (fee s') d = get (fee s) d + Z.min (reward_of (rewards p) d) (get (pool s) d)) /\
    others s' = others s /\ supply s' = supply s.
Proof. exact begin_block_enabled. Qed.
Print Assumptions C20_vest_step_exact.

(** Disabled: nothing moves (for any parameters, validated or not). *)
Theorem C20_disabled_noop : forall p s, enable p = false -> begin_block p s = Ok s.
Proof. exact begin_block_disabled. Qed.
Print Assumptions C20_disabled_noop.

(** Empty pool for a denomination: nothing of it moves. *)
Theorem C20_empty_pool_noop : forall p s s' d,
  pool_ok s -> step_spec p s s' ->
  forallb (fun c => valid_denom (fst c) && (0 <=? snd c)) (rewards p) = true ->
  get (pool s) d = 0 -> get (pool s') d = 0 /\ get (fee s') d = get (fee s) d.
Proof. exact step_spec_empty. Qed.
Print Assumptions C20_empty_pool_noop.

(** Every block history with arbitrary (validated-by-the-code) parameter
    changes between blocks: never panics, the pool never goes negative,
    pool + fee collector is conserved per denomination, the pool only
    decreases, the collector only increases, everything else and the supply
    are constant. *)
Theorem C20_history : forall bs p s,
  params_ok p -> pool_ok s ->
  exists p' s', run bs p s = Ok (p', s') /\ params_ok p' /\ pool_ok s' /\
    (forall d, total s' d = total s d) /\
    (forall d, get (pool s') d <= get (pool s) d) /\
    (forall d, get (fee s) d <= get (fee s') d) /\
    others s' = others s /\ supply s' = supply s.
Proof. exact run_invariant. Qed.
Print Assumptions C20_history.

(** The executable monitor applied to implementation traces accepts every step
    of the model. *)
Theorem C20_monitor_sound : forall p s s' ds,
  pool_ok s ->
  forallb (fun c => valid_denom (fst c) && (0 <=? snd c)) (rewards p) = true ->
  (if enable p then step_spec p s s' else s' = s) ->
  check_amounts p ds (proj (pool s) ds) (proj (fee s) ds) (proj (pool s') ds) (proj (fee s') ds) = true.
Proof. exact check_amounts_sound. Qed.
Print Assumptions C20_monitor_sound.

(** * Strengthened single-module statements (audit) *)

(** The pool holds none of the reward denominations (in particular: the pool is empty): for validated
    parameters, enabled or not, BeginBlocker returns THE SAME STATE. *)
Theorem C20_empty_pool_state_equal : forall p s,
  validate_rewards (rewards p) = true -> pool_ok s ->
  (forall d, In d (map fst (rewards p)) -> get (pool s) d = 0) ->
  begin_block p s = Ok s.
Proof. exact begin_block_empty_noop. Qed.
Print Assumptions C20_empty_pool_state_equal.

(** EVERY block of EVERY history (any split bs1 ++ b :: bs2) is exact for the parameters in force at that
    block: enabled => min(reward, pool) per denomination and nothing else, disabled => state equal. *)
Theorem C20_every_block_exact : forall bs1 b bs2 p s,
  params_ok p -> pool_ok s ->
  exists p1 s1 s2, run bs1 p s = Ok (p1, s1) /\ params_ok p1 /\ pool_ok s1 /\
    begin_block (apply_change p1 b) s1 = Ok s2 /\
    (if enable (apply_change p1 b) then step_spec (apply_change p1 b) s1 s2 else s2 = s1) /\
    run (bs1 ++ b :: bs2) p s = run bs2 (apply_change p1 b) s2.
Proof. exact run_every_block_exact. Qed.
Print Assumptions C20_every_block_exact.

(** Closed form of the schedule, pool running dry included: after n blocks under constant enabled parameters
    the pool holds max(0, pool - n * reward) of every denomination and the difference is in the fee collector. *)
Theorem C20_schedule_closed_form : forall n p s,
  enable p = true -> params_ok p -> pool_ok s ->
  exists s', run (repeat noop_block n) p s = Ok (p, s') /\
    (forall d, get (pool s') d = Z.max 0 (get (pool s) d - Z.of_nat n * reward_of (rewards p) d)) /\
    (forall d, get (fee s') d = get (fee s) d + (get (pool s) d - get (pool s') d)) /\
    others s' = others s /\ supply s' = supply s.
Proof. exact run_closed_form. Qed.
Print Assumptions C20_schedule_closed_form.

(** A positive reward drains the pool of that denomination in finitely many blocks, everything ending in the
    fee collector. *)
Theorem C20_pool_drains : forall p s d,
  enable p = true -> params_ok p -> pool_ok s -> 0 < reward_of (rewards p) d ->
  exists n s', run (repeat noop_block n) p s = Ok (p, s') /\ get (pool s') d = 0 /\
               get (fee s') d = get (fee s) d + get (pool s) d.
Proof. exact pool_drains. Qed.
Print Assumptions C20_pool_drains.

(** * The source tree: terms regenerated by tools/gotocoq/rvesting (Gen/RvestingGen.v) *)

(** Every decidable condition the theorems below rely on holds of the regenerated terms: guards of
    validatePerBlockReward, ParamSetPairs, Params.validate, DefaultParams, ValidateGenesis, InitGenesis,
    ExportGenesis, sender/recipient of SendVestedCoins = module account rvesting / the fee collector that
    distribution sweeps, no Minter/Burner permission and a supply-neutral BankKeeper interface, BeginBlocker order
    rvesting < distribution, InitGenesis order auth, bank < rvesting, pool not allowed to receive. *)
Theorem C20_code_conditions : all_conditions code_ok = true.
Proof. exact code_conditions_hold. Qed.
Print Assumptions C20_code_conditions.

(** validatePerBlockReward AS WRITTEN IN THE SOURCE (interpreted guard list) is [validate_rewards]; an absent
    amount is rejected; it never panics. *)
Theorem C20_validation_is_model : forall l,
  code_validate l = Ok (match strip_coins l with Some r => validate_rewards r | None => false end).
Proof. exact code_validate_total. Qed.
Print Assumptions C20_validation_is_model.

(** DefaultParams of the source pass validation and are what a fresh params store holds. *)
Theorem C20_default_params_valid :
  params_ok code_default_params /\ exists s, default_store = Ok s /\ code_get_params s = Ok code_default_params.
Proof. exact code_default_ok. Qed.
Print Assumptions C20_default_params_valid.

(** * World level: all accounts, stored supply, params subspace; other modules act between blocks *)

(** Every operation - BeginBlocker, whole block, parameter change on a registered key (accepted or rejected),
    SendCoins / MintCoins / BurnCoins by anybody (accepted or rejected) - returns (no panic) and keeps:
    sum of all balances = stored supply, no negative balance, validated parameters in the store.  Only mint and
    burn change the supply. *)
Theorem C20_world_step : forall op w,
  code_inv w -> code_op_known op ->
  exists w', code_step op w = Ok w' /\ code_inv w' /\ (is_mint_burn op = false -> w_sup w' = w_sup w).
Proof. exact code_step_inv. Qed.
Print Assumptions C20_world_step.

Theorem C20_world_mint_burn_exact : forall op w w',
  code_inv w -> code_step op w = Ok w' ->
  match op with
  | WMint _ l => w' = w \/ forall d, get (w_sup w') d = get (w_sup w) d + vtotal l d
  | WBurn _ l => w' = w \/ forall d, get (w_sup w') d = get (w_sup w) d - vtotal l d
  | _ => True
  end.
Proof. exact code_step_mint_burn. Qed.
Print Assumptions C20_world_mint_burn_exact.

(** Histories interleaving BeginBlockers / blocks with arbitrary bank operations of other modules and
    parameter changes: never a panic, invariant kept, and without mint/burn the stored supply is unchanged. *)
Theorem C20_world_history : forall ops w,
  code_inv w -> Forall code_op_known ops ->
  exists w', code_run ops w = Ok w' /\ code_inv w' /\
    (forallb (fun op => negb (is_mint_burn op)) ops = true -> w_sup w' = w_sup w).
Proof. exact code_run_inv. Qed.
Print Assumptions C20_world_history.

(** After ANY such history the next BeginBlocker returns and moves, for every denomination, exactly
    [expected_move] (the monitor's min(reward, pool) / 0 when disabled) from the pool to the fee collector;
    every other account, the supply, the params store and the height are untouched. *)
Theorem C20_world_begin_exact : forall ops w w1 p,
  code_inv w -> Forall code_op_known ops -> code_run ops w = Ok w1 -> code_get_params (w_ps w1) = Ok p ->
  exists w2, code_step WBegin w1 = Ok w2 /\
    (forall d, get (acct (w_accts w2) A_POOL) d =
               get (acct (w_accts w1) A_POOL) d - expected_move p (get (acct (w_accts w1) A_POOL) d) d) /\
    (forall d, get (acct (w_accts w2) A_FEE) d =
               get (acct (w_accts w1) A_FEE) d + expected_move p (get (acct (w_accts w1) A_POOL) d) d) /\
    (forall i, i <> A_POOL -> i <> A_FEE -> acct (w_accts w2) i = acct (w_accts w1) i) /\
    w_sup w2 = w_sup w1 /\ w_ps w2 = w_ps w1 /\ w_height w2 = w_height w1.
Proof. exact code_run_begin_exact_spec. Qed.
Print Assumptions C20_world_begin_exact.

(** A whole BeginBlock in app.go's module order (rvesting, then distribution whose AllocateTokens sweeps the
    fee collector when height > 1): the pool loses exactly [expected_move]; at height > 1 the fee collector ends
    empty and the distribution account gained (old fee collector balance + vested amount); supply unchanged. *)
Theorem C20_block_exact : forall w p,
  code_inv w -> code_get_params (w_ps w) = Ok p -> 0 <= w_height w ->
  exists w', code_step WBlock w = Ok w' /\ code_inv w' /\
    (forall d, get (acct (w_accts w') A_POOL) d =
               get (acct (w_accts w) A_POOL) d - expected_move p (get (acct (w_accts w) A_POOL) d) d) /\
    (w_height w = 0 ->
       (forall d, get (acct (w_accts w') A_FEE) d =
                  get (acct (w_accts w) A_FEE) d + expected_move p (get (acct (w_accts w) A_POOL) d) d) /\
       acct (w_accts w') A_DISTR = acct (w_accts w) A_DISTR) /\
    (0 < w_height w ->
       (forall d, get (acct (w_accts w') A_FEE) d = 0) /\
       (forall d, get (acct (w_accts w') A_DISTR) d =
                  get (acct (w_accts w) A_DISTR) d + get (acct (w_accts w) A_FEE) d
                  + expected_move p (get (acct (w_accts w) A_POOL) d) d)) /\
    (forall i, i <> A_POOL -> i <> A_FEE -> i <> A_DISTR -> acct (w_accts w') i = acct (w_accts w) i) /\
    w_sup w' = w_sup w /\ w_ps w' = w_ps w /\ w_height w' = w_height w + 1.
Proof. exact code_block_exact. Qed.
Print Assumptions C20_block_exact.

(** Refinement between the layers: every single-module history of Model/Rvesting.v ([run]: the object of the
    first group of theorems) IS the world history made of the corresponding params-subspace updates (under the
    keys regenerated from the source) and BeginBlockers, projected on pool / fee collector / parameters. *)
Theorem C20_refinement : forall bs w p s p' s',
  code_agrees w p s -> run bs p s = Ok (p', s') ->
  exists w', code_run (flat_map code_block_ops bs) w = Ok w' /\ code_agrees w' p' s'.
Proof. exact code_run_refines. Qed.
Print Assumptions C20_refinement.

(** * Genesis (keeper.InitGenesis / ExportGenesis interpreted from the regenerated statement lists) *)

(** A returning InitGenesis keeps sum of balances = supply, non-negative balances, and the supply itself. *)
Theorem C20_genesis_conserves : forall g w w',
  bank_ok (w_accts w) (w_sup w) -> code_init_genesis g w = Ok w' ->
  bank_ok (w_accts w') (w_sup w') /\ w_sup w' = w_sup w /\ w_height w' = w_height w.
Proof. exact code_init_conserves. Qed.
Print Assumptions C20_genesis_conserves.

(** The `from` account funding: exactly InitReward moves from it to the pool and nothing else changes. *)
Theorem C20_genesis_funding : forall g i w w',
  g_from g = FromAcct i -> i <> A_POOL -> code_init_genesis g w = Ok w' ->
  (forall d, get (acct (w_accts w') A_POOL) d = get (acct (w_accts w) A_POOL) d + vtotal (g_init g) d) /\
  (forall d, get (acct (w_accts w') i) d = get (acct (w_accts w) i) d - vtotal (g_init g) d) /\
  (forall k, k <> A_POOL -> k <> i -> acct (w_accts w') k = acct (w_accts w) k).
Proof. exact code_genesis_funding. Qed.
Print Assumptions C20_genesis_funding.

(** Round trip: whatever InitGenesis imported, the stored parameters are validated ones, ExportGenesis returns
    the same parameters with From "" and no InitReward, that export passes ValidateGenesis, and importing it
    again moves nothing, keeps the supply and exports the same state. *)
Theorem C20_genesis_round_trip : forall g w w',
  code_init_genesis g w = Ok w' ->
  (exists r, g_rewards g = lift_coins r /\ validate_rewards r = true /\
             code_get_params (w_ps w') = Ok {| enable := g_enable g; rewards := r |}) /\
  code_export_genesis w' = Ok (plain_export g) /\
  code_validate_genesis (plain_export g) = Ok true /\
  exists w2, code_init_genesis (plain_export g) w' = Ok w2 /\
             w_accts w2 = w_accts w' /\ w_sup w2 = w_sup w' /\ code_export_genesis w2 = Ok (plain_export g).
Proof. exact code_genesis_round_trip. Qed.
Print Assumptions C20_genesis_round_trip.

(** A validated genesis state without From is always imported (no panic). *)
Theorem C20_genesis_valid_no_from_total : forall g w,
  g_from g = FromEmpty -> code_validate_genesis g = Ok true -> exists w', code_init_genesis g w = Ok w'.
Proof. exact code_valid_genesis_total_no_from. Qed.
Print Assumptions C20_genesis_valid_no_from_total.

(** * World monitor soundness: the monitor evaluated on implementation traces accepts every BeginBlocker and
    every whole block of the model. *)
Theorem C20_world_monitor_sound_begin : forall ds p w w',
  code_inv w -> code_inv w' -> params_ok p -> w_begin_spec p w w' ->
  tick_ok false p ds (obs_of ds w) (obs_of ds w') = None.
Proof. exact tick_sound_begin. Qed.
Print Assumptions C20_world_monitor_sound_begin.

Theorem C20_world_monitor_sound_block : forall ds p w,
  code_inv w -> code_get_params (w_ps w) = Ok p -> params_ok p -> 0 <= w_height w ->
  exists w', code_step WBlock w = Ok w' /\ tick_ok true p ds (obs_of ds w) (obs_of ds w') = None.
Proof. exact tick_sound_block. Qed.
Print Assumptions C20_world_monitor_sound_block.

(** The genesis monitor accepts the observation of a model import + export + re-import (funding account =
    tracked account 4, or no From). *)
Theorem C20_genesis_monitor_sound : forall ds g w w',
  bank_ok (w_accts w) (w_sup w) ->
  (g_from g = FromEmpty \/ g_from g = FromAcct A_FROM) ->
  code_init_genesis g w = Ok w' ->
  exists r w2, g_rewards g = lift_coins r /\ code_init_genesis (plain_export g) w' = Ok w2 /\
    g_mon_case {| gc_denoms := ds; gc_gen := g; gc_validate := 0; gc_before := obs_of ds w; gc_init := 0;
                  gc_after := obs_of ds w'; gc_exported := Some (g_enable g, r); gc_exp_plain := true;
                  gc_revalidate := 0; gc_reinit := 0; gc_after2 := Some (obs_of ds w2) |} = [].
Proof. exact g_mon_sound. Qed.
Print Assumptions C20_genesis_monitor_sound.

(** Non-vacuity: a concrete state and parameter set meeting the hypotheses, a
    pool that runs dry over three blocks (7 -> 2 -> 0 -> 0 with reward 5). *)
Example C20_nonvacuous :
  let p := {| enable := true; rewards := [(B "atele", 5); (B "stake", 1)] |} in
  let s := {| pool := [(B "atele", 7)]; fee := []; others := []; supply := [(B "atele", 7)] |} in
  validate_rewards (rewards p) = true /\
  match run [ {| set_enable := None; set_rewards := None |};
              {| set_enable := None; set_rewards := None |};
              {| set_enable := None; set_rewards := None |} ] p s with
  | Ok (_, s') => get (pool s') (B "atele") = 0 /\ get (fee s') (B "atele") = 7
  | _ => False
  end.
Proof. vm_compute. repeat split; reflexivity. Qed.

(** Non-vacuity at world level: a concrete world satisfying [code_inv] (built from the default store), a history
    with a parameter change, a refill of the pool by another account, a mint and a burn by a third module and
    three whole blocks; the result is computed. *)
Definition ex_world : world :=
  {| w_accts := [[(B "ufoo", 25)]; [(B "ufoo", 4)]; []; [(B "ufoo", 50)]];
     w_sup := [(B "ufoo", 79)];
     w_ps := match default_store with Ok s => s | _ => [] end;
     w_height := 5 |}.

Definition ex_ops : list wop :=
  [WParam G.key_per_block_reward (JCoins [(B "ufoo", Some 10)]); WParam G.key_enable_vesting (JBool true);
   WBlock; WBlock; WSend 3 0 [(B "ufoo", 7)]; WMint 3 [(B "ufoo", 5)]; WBurn 3 [(B "ufoo", 8)]; WBlock; WBlock].

Example C20_world_nonvacuous :
  code_get_params (w_ps ex_world) = Ok code_default_params /\
  sumd (w_accts ex_world) (B "ufoo") = get (w_sup ex_world) (B "ufoo") /\
  match code_run ex_ops ex_world with
  | Ok w' => get (acct (w_accts w') A_POOL) (B "ufoo") = 0 /\ get (acct (w_accts w') A_FEE) (B "ufoo") = 0 /\
             get (acct (w_accts w') A_DISTR) (B "ufoo") = 36 /\ get (w_sup w') (B "ufoo") = 76 /\
             sumd (w_accts w') (B "ufoo") = 76 /\ w_height w' = 9
  | _ => False
  end.
Proof. vm_compute. repeat split; reflexivity. Qed.

(** Non-vacuity of the genesis theorems: a funded import that returns. *)
Example C20_genesis_nonvacuous :
  let g := {| g_enable := true; g_rewards := [(B "ufoo", Some 10); (B "atele", Some 3)]; g_from := FromAcct 3;
              g_init := [(B "ufoo", 40)] |} in
  code_validate_genesis g = Ok true /\
  match code_init_genesis g ex_world with
  | Ok w' => get (acct (w_accts w') A_POOL) (B "ufoo") = 65 /\ get (acct (w_accts w') 3) (B "ufoo") = 10 /\
             code_export_genesis w' = Ok (plain_export g)
  | _ => False
  end.
Proof. vm_compute. repeat split; reflexivity. Qed.
