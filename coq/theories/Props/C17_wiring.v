(** C17 — obligations over the terms REGENERATED from the Go source on every run
    (tools/gotocoq/adapterwiring -> Gen/AdapterWiringGen.v): the facts about app.go, NewHookAdapter, the
    handlers and the contracts' ABI that the model of Model/Adapter*.v transcribes by hand are compared
    with what the source says now (decidable checks evaluated by [vm_compute] on the regenerated terms),
    and the theorems of Props/C17.v that depend on the wiring are instantiated with it.  A harmless rewrite
    of the Go code (renaming, reformatting, reordering of unrelated statements) regenerates the same terms;
    a change of the wiring breaks the obligation.  Only statements here. *)
From Teleport Require Import Base.Bytes Base.Outcome Base.AdapterWiringTypes Gen.AdapterWiringGen
  Model.Adapter Model.AdapterNative Model.AdapterWiring Proofs.Adapter Proofs.AdapterNative Proofs.AdapterWiring.
Local Open Scope Z_scope.

(** the ABI of Staking / Gov has exactly the six events, with the argument shapes [unpack_event] decodes,
    no indexed argument, and ids equal to [topic_of] (keccak256 of the signature, computed by the translator) *)
Theorem C17_wiring_events : events_ok gen_events = true.
Proof. vm_compute. reflexivity. Qed.
Print Assumptions C17_wiring_events.

(** NewHookAdapter routes each event to a handler that parses exactly that event and builds exactly the
    message type [msg_of_event] builds; nothing else is routed *)
Theorem C17_wiring_handlers : handlers_ok gen_handlers = true.
Proof. vm_compute. reflexivity. Qed.
Print Assumptions C17_wiring_handlers.

(** each adapter filters on the address constant the model uses *)
Theorem C17_wiring_addresses : addrs_ok gen_hook_addr = true.
Proof. vm_compute. reflexivity. Qed.
Print Assumptions C17_wiring_addresses.

(** app.go registers each adapter exactly once ("once per emitted event"), staking before gov *)
Theorem C17_wiring_hooks_once : hooks_ok gen_evm_hooks = true.
Proof. vm_compute. reflexivity. Qed.
Print Assumptions C17_wiring_hooks_once.

(** ... so the chain app.go hands to ethermint is the model's [multi_hook], whose behaviour on every
    receipt is characterised by C17_multi_hook_order *)
Theorem C17_wired_hooks_are_model : forall (S : Type) (exec : msg -> S -> outcome S) logs s,
  multi_hook_list exec (adapters_of gen_evm_hooks) logs s =
  run_items S exec (filter_map (classify HStaking) logs ++ filter_map (classify HGov) logs) s.
Proof.
  intros. rewrite (wired_hooks_are_model S exec gen_evm_hooks logs s C17_wiring_hooks_once). apply multi_hook_char.
Qed.
Print Assumptions C17_wired_hooks_are_model.

(** app.go builds the staking keeper (also the one x/slashing burns through) and the gov keeper with the
    overriding bank keeper *)
Theorem C17_wiring_bank_keepers : banks_ok gen_staking_bank gen_gov_bank gen_slashing_bank = true.
Proof. vm_compute. reflexivity. Qed.
Print Assumptions C17_wiring_bank_keepers.

(** ... so over ALL sequences of native messages, plain sends and burns by the staking and the gov keeper AS
    WIRED IN app.go, total supply and the sum of balances never change *)
Theorem C17_wired_supply_unchanged : forall resolve bonded notbonded distr fee max_entries acts s,
  n_supply (run_wactions resolve bonded notbonded distr fee max_entries gen_staking_bank gen_gov_bank acts s) = n_supply s /\
  total_bal (run_wactions resolve bonded notbonded distr fee max_entries gen_staking_bank gen_gov_bank acts s) = total_bal s.
Proof. intros. apply wired_supply_unchanged; reflexivity. Qed.
Print Assumptions C17_wired_supply_unchanged.
