(** * C14 — side conditions evaluated on the inventory REGENERATED from /repo on every run ([Gen/HazardsGen.v])

    These statements are re-proved (by computation) against the current tree each time; a new or changed
    [range]-over-map statement, a new hazardous construct, or a tree the translator cannot type-check makes the
    corresponding statement fail to build — an open obligation, reported with the offending rows by
    tools/py/props/c14.py. *)
From Coq Require Import List String NArith Bool.
From Teleport Require Import Gen.HazardsGen Model.MapLoops Model.MapLoopsIR Model.DeterminismCheck.
Import ListNotations.

(** the translator's type-check of the scope packages had no errors (so "is a map" is decided by go/types) *)
Theorem inventory_typechecked : typecheck_errors = 0%N.
Proof. vm_compute. reflexivity. Qed.
Print Assumptions inventory_typechecked.

(** every [range] over a map (or over an expression of undetermined type) in the scope is, as a term of the loop
    language regenerated from the source, accepted by the classifier of [Model/MapLoopsIR.v] (whose soundness is
    [Props/C14.v: C14_map_iteration_partial]; a collecting loop must be sorted by a reviewed canonical sorter whose Less
    method is unchanged) or is one of the argued rows of [Model/DeterminismCheck.v: argued_sites] *)
Theorem map_range_sites_covered : unmatched_sites = [].
Proof. vm_compute. reflexivity. Qed.
Print Assumptions map_range_sites_covered.

(** the two renderings of the inventory (text rows, loop-language rows) describe the same statements *)
Theorem inventory_ir_consistent : ir_consistent = true.
Proof. vm_compute. reflexivity. Qed.
Print Assumptions inventory_ir_consistent.

(** every other hazardous construct is in a (file, function) group that the allow-list knows with exactly that many
    constructs and a documented reason, and is of a kind that reason is about *)
Theorem other_hazards_allowed : unallowed_hazards = [].
Proof. vm_compute. reflexivity. Qed.
Print Assumptions other_hazards_allowed.

(** every construction of the ethash engine outside the engine's own files, as written in the tree, gets a Config with
    CacheDir = "" and every VerifySeal call there passes fulldag = false: the premises of
    [Props/C14.v: eth_seal_env_independent] *)
Theorem eth_seal_verification_in_memory_and_light : eth_seal_config_ok = true.
Proof. vm_compute. reflexivity. Qed.
Print Assumptions eth_seal_verification_in_memory_and_light.
