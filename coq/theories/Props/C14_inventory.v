(** * C14 — side conditions evaluated on the inventory REGENERATED from /repo on every run ([Gen/HazardsGen.v])

    These three statements are re-proved (by computation) against the current tree each time; a new or changed
    [range]-over-map statement, a new hazardous construct, or a tree the translator cannot type-check makes the
    corresponding statement fail to build — an open obligation, reported with the offending rows by
    tools/py/props/c14.py. *)
From Coq Require Import List String NArith Bool.
From Teleport Require Import Gen.HazardsGen Model.MapLoops Model.DeterminismCheck.
Import ListNotations.

(** the translator's type-check of the scope packages had no errors (so "is a map" is decided by go/types) *)
Theorem inventory_typechecked : typecheck_errors = 0%N.
Proof. vm_compute. reflexivity. Qed.
Print Assumptions inventory_typechecked.

(** every [range] over a map (or over an expression of undetermined type) in the scope matches a row of
    [Model/MapLoops.v: site_table] by file, function and statement hash *)
Theorem map_range_sites_covered : unmatched_sites = [].
Proof. vm_compute. reflexivity. Qed.
Print Assumptions map_range_sites_covered.

(** every other hazardous construct is in a (file, function) group that the allow-list knows with exactly that many
    constructs and a documented reason *)
Theorem other_hazards_allowed : unallowed_hazards = [].
Proof. vm_compute. reflexivity. Qed.
Print Assumptions other_hazards_allowed.
