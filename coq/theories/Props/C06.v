(** C06 — Only relayers, the TSS account and the chain's own modules can drive the bridge.
    PARTIAL: this file is about the Go-side authorization logic (Model/Auth.v), for ALL lower
    layers [L] (light clients, packet keeper, EVM), registries, signers and histories.  The
    `msg.sender` checks inside the XIBC system contracts exist only as EVM byte code; they are
    validated by an exhaustive method x caller-kind enumeration on the real byte code
    (Model/AuthCheck.v part B), NOT proved.
    Only statements here; proofs are in Proofs/Auth.v and Proofs/AuthMonitor.v. *)
From Teleport Require Import Base.Bytes Base.Outcome Model.Auth Model.AuthCheck Proofs.Auth Proofs.AuthMonitor.
From Teleport Require Gen.SysAbiGen.

Section C06.
  Variables (D HD PK AK : Type).               (* lower state, header, rest of MsgRecvPacket / MsgAcknowledgement *)
  Variable canon : bytes -> bytes.             (* canonical bech32 form of a signer string *)
  Variable fold_eq : bytes -> bytes -> bool.   (* strings.EqualFold *)
  Variable bech32_ok : bytes -> bool.          (* AccAddressFromBech32 succeeds *)
  Variable L : lower D HD PK AK.               (* everything below the authorization layer: ARBITRARY *)

  Notation step := (step D HD PK AK canon fold_eq bech32_ok L).
  Notation run := (run D HD PK AK canon fold_eq bech32_ok L).
  Notation op := (op D HD PK AK).
  Notation accepted s o := (snd (step s o) = true).
  Notation after s o := (fst (step s o)).

  (** ** The registry is what the LAST registration of an address wrote *)

  (** In any history, after the last (effective) registration [o] of address [a] — whatever was
      registered before, for [a] or anybody else, and whatever messages and other activity
      followed — [a]'s record is exactly the chains/addresses of [o]: re-registration REPLACES. *)
  Theorem C06_registry_last_write : forall (pre : list op) o (post : list op) s0 a x,
    reg_effect D HD PK AK bech32_ok o = Some (a, x) ->
    (forall o', In o' post -> registers D HD PK AK bech32_ok o' a = false) ->
    reg_get (reg D (run (pre ++ o :: post) s0)) a = Some x.
  Proof. exact (run_reg_last D HD PK AK canon fold_eq bech32_ok L). Qed.

  (** Nothing but a registration of [a] changes [a]'s record: messages (accepted or not),
      registrations of other addresses, proposals rejected by ValidateBasic and arbitrary
      lower-layer activity leave it alone. *)
  Theorem C06_registry_untouched : forall (ops : list op) s0 a,
    (forall o, In o ops -> registers D HD PK AK bech32_ok o a = false) ->
    reg_get (reg D (run ops s0)) a = reg_get (reg D s0) a.
  Proof. exact (run_reg_untouched D HD PK AK canon fold_eq bech32_ok L). Qed.

  (** No message, accepted or rejected, and no lower-layer activity changes the registry at all. *)
  Theorem C06_messages_keep_registry : forall s o,
    reg_effect D HD PK AK bech32_ok o = None -> reg D (after s o) = reg D s.
  Proof. intros s o E. rewrite (step_reg D HD PK AK canon fold_eq bech32_ok L), E. reflexivity. Qed.

  (** ** update_needs_relayer *)
  (** In the state reached by ANY history: an accepted MsgUpdateClient implies that the signer's
      CURRENT record lists exactly that chain, the client exists, and for a TSS client the
      canonical form of the signer is the configured TSS address (CheckMsg). *)
  Theorem C06_update_needs_relayer : forall (ops : list op) s0 m,
    let s := run ops s0 in
    accepted s (OUpdate D HD PK AK m) ->
    (exists x, reg_get (reg D s) (um_signer HD m) = Some x /\ In (um_chain HD m) (r_chains x)) /\
    (exists c, client_of L (low D s) (um_chain HD m) = Some c /\
               forall a, c = TSS a -> canon (um_signer HD m) = a).
  Proof.
    intros ops s0 m s H. cbn in H.
    destruct (handle_update D HD PK AK canon L s m) as [s'| |] eqn:E; cbn in H; try discriminate.
    apply handle_update_ok in E as [Ha [c [d' [Ec [Ck _]]]]].
    split; [apply auth_relayer_spec; exact Ha|].
    exists c. split; [exact Ec|]. intros a ->. eapply check_msg_tss; exact Ck.
  Qed.

  (** ** recv_needs_relayer *)
  Theorem C06_recv_needs_relayer : forall (ops : list op) s0 m,
    let s := run ops s0 in
    accepted s (ORecv D HD PK AK m) ->
    exists x, reg_get (reg D s) (rm_signer PK m) = Some x /\ In (rm_src PK m) (r_chains x).
  Proof.
    intros ops s0 m s H. cbn in H.
    destruct (handle_recv D HD PK AK L s m) as [s'| |] eqn:E; cbn in H; try discriminate.
    apply handle_recv_ok in E as [_ [d1 [rel [_ [Ho _]]]]].
    apply auth_relayer_spec. eapply other_chain_addr_listed; exact Ho.
  Qed.

  (** Registration for one chain confers nothing for another: if the signer's current record does
      not list [c] (or there is no record), EVERY UpdateClient for [c] and EVERY RecvPacket with
      source [c] from that signer is rejected — whatever else the signer is registered for,
      whatever the message contains, whatever the lower layers would say. *)
  Theorem C06_no_cross_chain : forall s signer c,
    (forall x, reg_get (reg D s) signer = Some x -> ~ In c (r_chains x)) ->
    (forall m, um_signer HD m = signer -> um_chain HD m = c -> snd (step s (OUpdate D HD PK AK m)) = false) /\
    (forall m, rm_signer PK m = signer -> rm_src PK m = c -> snd (step s (ORecv D HD PK AK m)) = false).
  Proof.
    intros s signer c Hn.
    assert (Hf : auth_relayer (reg D s) c signer = false).
    { destruct (auth_relayer (reg D s) c signer) eqn:E; [|reflexivity].
      apply auth_relayer_spec in E as [x [E1 E2]]. exfalso; eapply Hn; eauto. }
    split; intros m <- <-; cbn.
    - unfold handle_update. rewrite Hf. reflexivity.
    - destruct (handle_recv D HD PK AK L s m) as [s'| |] eqn:E; cbn; try reflexivity.
      apply handle_recv_ok in E as [_ [d1 [rel [_ [Ho _]]]]].
      apply other_chain_addr_listed in Ho. congruence.
  Qed.

  (** ** tss_recv_ack_signer *)
  (** For a TSS-secured counterparty [c] with configured address [a]: a client update is accepted
      only from the account [a] (canonical form of msg.Signer), a receive of a packet from [c] and
      an acknowledgement of a packet to [c] only with msg.Signer = [a]. *)
  Theorem C06_tss_signer : forall s c a,
    client_of L (low D s) c = Some (TSS a) ->
    (forall m, um_chain HD m = c -> accepted s (OUpdate D HD PK AK m) -> canon (um_signer HD m) = a) /\
    (forall m, rm_src PK m = c -> accepted s (ORecv D HD PK AK m) -> rm_signer PK m = a) /\
    (forall m, am_dst AK m = c -> accepted s (OAck D HD PK AK m) -> am_signer AK m = a).
  Proof.
    intros s c a Hc. repeat split; intros m <- H; cbn in H.
    - destruct (handle_update D HD PK AK canon L s m) as [s'| |] eqn:E; cbn in H; try discriminate.
      apply handle_update_ok in E as [_ [c' [d' [Ec [Ck _]]]]].
      rewrite Hc in Ec; inversion Ec; subst. eapply check_msg_tss; exact Ck.
    - destruct (handle_recv D HD PK AK L s m) as [s'| |] eqn:E; cbn in H; try discriminate.
      apply handle_recv_ok in E as [Ht _]. eapply tss_signer_ok_tss; eassumption.
    - destruct (handle_ack D HD PK AK fold_eq bech32_ok L s m) as [s'| |] eqn:E; cbn in H; try discriminate.
      apply handle_ack_ok in E as [Ht _]. eapply tss_signer_ok_tss; eassumption.
  Qed.

  (** ** ack_relayer_field *)
  (** An accepted RecvPacket either writes no acknowledgement (only when the packet is relayed
      onwards to another known chain) or appends exactly one, for that packet, whose Relayer is
      Addresses[i] for the FIRST i with Chains[i] = packet source in the SUBMITTING signer's
      current record, and whose fee option is the packet's.  Nothing else of the log changes. *)
  Theorem C06_ack_relayer_field : forall (ops : list op) s0 m,
    let s := run ops s0 in
    accepted s (ORecv D HD PK AK m) ->
    wlog D (after s (ORecv D HD PK AK m)) = wlog D s \/
    exists w x i,
      wlog D (after s (ORecv D HD PK AK m)) = wlog D s ++ [w] /\
      w_src w = rm_src PK m /\ w_dst w = rm_dst PK m /\ w_seq w = rm_seq PK m /\
      reg_get (reg D s) (rm_signer PK m) = Some x /\
      first_index (r_chains x) (rm_src PK m) = Some i /\
      nth_error (r_addrs x) i = Some (ack_relayer (w_ack w)) /\
      ack_fee (w_ack w) = rm_fee PK m.
  Proof.
    intros ops s0 m s H. cbn in H |- *.
    destruct (handle_recv D HD PK AK L s m) as [s'| |] eqn:E; cbn in H |- *; try discriminate.
    apply handle_recv_ok in E as [_ [d1 [rel [_ [Ho [_ [[Hw _]|[a [Hw [Hr Hf]]]]]]]]]]; [left; exact Hw|].
    right. apply other_chain_addr_some in Ho as [x [i [E1 [E2 E3]]]].
    exists (wack_of PK m a), x, i. cbn. rewrite Hr. auto 10.
  Qed.

  (** An accepted receive addressed to this chain always writes its acknowledgement. *)
  Theorem C06_recv_self_acknowledged : forall s m s' d1,
    handle_recv D HD PK AK L s m = Ok s' -> lo_recv D HD PK AK L (low D s) m = Ok d1 ->
    rm_dst PK m = self_chain L d1 -> exists a, wlog D s' = wlog D s ++ [wack_of PK m a].
  Proof. exact (handle_recv_self_writes D HD PK AK L). Qed.

  (** ** rejected_unchanged *)
  (** A rejected operation (message rejected for any reason incl. a recovered panic; proposal
      failing ValidateBasic) leaves the WHOLE state — registry, lower layers, acknowledgement log —
      as it was.  (For messages this is BaseApp's cache-and-discard, modelled by [deliver] and
      validated on the real code by the store / contract fingerprint of the correspondence run.) *)
  Theorem C06_rejected_unchanged : forall s o, snd (step s o) = false -> after s o = s.
  Proof. exact (step_rejected D HD PK AK canon fold_eq bech32_ok L). Qed.

  (** ** What the code does for acknowledgements *)
  (** An accepted acknowledgement of a packet this chain sent pays the relayer fee to the Teleport
      address of the FIRST record in store order that lists (destination chain, an address equal
      to ack.Relayer up to case folding); that address parses as an account.  The SIGNER of the
      MsgAcknowledgement is not looked up anywhere (see C06_plain_ack_needs_no_relayer). *)
  Theorem C06_ack_fee_payee : forall s m s',
    handle_ack D HD PK AK fold_eq bech32_ok L s m = Ok s' ->
    exists d1 a, lo_ack D HD PK AK L (low D s) m = Ok d1 /\ am_ack AK m = Some a /\
      (am_src AK m = self_chain L d1 ->
       exists payee r1 x r2, reg D s = r1 ++ (payee, x) :: r2 /\ bech32_ok payee = true /\
         lists_pair fold_eq x (am_dst AK m) (ack_relayer a) /\
         (forall k' x', In (k', x') r1 -> ~ lists_pair fold_eq x' (am_dst AK m) (ack_relayer a)) /\
         exists d2 d3, lo_set_status D HD PK AK L d1 m = Ok d2 /\ lo_pay D HD PK AK L d2 m payee = Ok d3).
  Proof.
    intros s m s' H. apply handle_ack_ok in H as [_ [_ [_ [d1 [a [E1 [E2 [_ H]]]]]]]].
    exists d1, a. split; [exact E1|]. split; [exact E2|]. intro Es.
    destruct (H Es) as [payee [d2 [d3 [Ht [Bk [S2 S3]]]]]].
    apply teleport_addr_some in Ht as [r1 [x [r2 [Er [Hl Hn]]]]].
    exists payee, r1, x, r2. repeat split; eauto.
  Qed.

  (** ** Registry well-formedness under governance-only histories *)
  (** The store stays in key order (the order GetAllRelayers iterates). *)
  Theorem C06_registry_sorted : forall (ops : list op) s0,
    reg_sorted (reg D s0) -> reg_sorted (reg D (run ops s0)).
  Proof. exact (run_sorted D HD PK AK canon fold_eq bech32_ok L). Qed.

  (** If every registration went through governance (ValidateBasic), the relayer lookup of
      RecvPacket cannot hit `ir.Addresses[i]` out of range. *)
  Theorem C06_gov_registry_no_panic : forall (ops : list op) s0 c signer,
    Forall (gov_only D HD PK AK) ops -> Forall (rec_wf bech32_ok) (reg D s0) ->
    other_chain_addr (reg D (run ops s0)) c signer <> Panic.
  Proof.
    intros ops s0 c signer G W. eapply other_chain_addr_no_panic.
    eapply (run_wf D HD PK AK canon fold_eq bech32_ok L); eassumption.
  Qed.
End C06.

Print Assumptions C06_registry_last_write.
Print Assumptions C06_registry_untouched.
Print Assumptions C06_messages_keep_registry.
Print Assumptions C06_update_needs_relayer.
Print Assumptions C06_recv_needs_relayer.
Print Assumptions C06_no_cross_chain.
Print Assumptions C06_tss_signer.
Print Assumptions C06_ack_relayer_field.
Print Assumptions C06_recv_self_acknowledged.
Print Assumptions C06_rejected_unchanged.
Print Assumptions C06_ack_fee_payee.
Print Assumptions C06_registry_sorted.
Print Assumptions C06_gov_registry_no_panic.

(** The executable monitor applied to implementation traces accepts every step the model can
    make (any registry, any facts, any operation kind). *)
Theorem C06_monitor_sound : forall ct bt r f k,
  mon_step ct (rdump_of r) (model_obs ct bt r f k) = [].
Proof. exact monitor_sound. Qed.
Print Assumptions C06_monitor_sound.

(** ** Non-vacuity and documented behaviour, on a concrete instance: lower layers that accept
    everything ([D] = unit), one TSS chain, one light-client chain. *)
Definition ex_lower : lower unit unit unit unit :=
  {| client_of := fun _ c => if bytes_eqb c (B "tss-chain") then Some (TSS (B "tss-account"))
                             else if bytes_eqb c (B "eth-chain") then Some Light else None;
     self_chain := fun _ => B "teleport";
     lo_update := fun d _ _ => Ok d;
     lo_recv := fun d _ => Ok d;
     lo_callback := fun d _ => CbReturned unit d (Some (0%N, [], []));
     lo_write_ack := fun d _ _ => Ok d;
     lo_ack := fun d _ => Ok d;
     lo_set_status := fun d _ => Ok d;
     lo_pay := fun d _ _ => Ok d;
     lo_on_ack := fun d _ => Ok d |}.

Definition ex_step := step unit unit unit unit (fun s => s) ascii_fold_eq (fun _ => true) ex_lower.
Definition ex_run := run unit unit unit unit (fun s => s) ascii_fold_eq (fun _ => true) ex_lower.
Definition ex_s0 : state unit := {| reg := []; low := tt; wlog := [] |}.
Definition ex_recv signer src : op unit unit unit unit :=
  ORecv _ _ _ _ {| rm_signer := signer; rm_src := src; rm_dst := B "teleport"; rm_seq := 1; rm_fee := 2; rm_rest := tt |}.

(** alice registered for eth-chain and bsc-chain (addresses 0xA1, 0xA2), then RE-registered for
    tss-chain only: her eth-chain receive is now rejected, state unchanged; a receive from the
    TSS chain is accepted only from the TSS account, which must itself be a registered relayer;
    the acknowledgement names the address registered for (signer, source chain). *)
Example C06_nonvacuous :
  let reg1 := ORegGov unit unit unit unit (B "alice") [B "eth-chain"; B "bsc-chain"] [B "0xA1"; B "0xA2"] in
  let reg2 := ORegGov unit unit unit unit (B "alice") [B "tss-chain"] [B "0xA3"] in
  let reg3 := ORegGov unit unit unit unit (B "tss-account") [B "eth-chain"; B "tss-chain"; B "tss-chain"] [B "0xT1"; B "0xT2"; B "0xT3"] in
  let s1 := ex_run [reg1] ex_s0 in
  let s2 := ex_run [reg1; reg2; reg3] ex_s0 in
  snd (ex_step s1 (ex_recv (B "alice") (B "eth-chain"))) = true /\
  map (fun w => ack_relayer (w_ack w)) (wlog unit (fst (ex_step s1 (ex_recv (B "alice") (B "bsc-chain"))))) = [B "0xA2"] /\
  ex_step s2 (ex_recv (B "alice") (B "eth-chain")) = (s2, false) /\
  ex_step s2 (ex_recv (B "alice") (B "tss-chain")) = (s2, false) /\
  snd (ex_step s2 (ex_recv (B "tss-account") (B "tss-chain"))) = true /\
  map (fun w => ack_relayer (w_ack w)) (wlog unit (fst (ex_step s2 (ex_recv (B "tss-account") (B "tss-chain"))))) = [B "0xT2"].
Proof. vm_compute. repeat split; reflexivity. Qed.

(** What the code does for a plain (non-TSS) acknowledgement: the signer of the
    MsgAcknowledgement needs NO relayer record — with an EMPTY registry an acknowledgement relayed
    on a non-source chain is accepted from anybody; on the source chain the only registry look-up
    is the reverse look-up of ack.Relayer (the fee payee), never of the signer.  This matches the
    property text (acknowledgements are restricted only for TSS counterparties). *)
Example C06_plain_ack_needs_no_relayer :
  let ackm signer src := OAck unit unit unit unit
        {| am_signer := signer; am_src := src; am_dst := B "eth-chain"; am_seq := 1;
           am_ack := Some {| ack_code := 0; ack_result := []; ack_message := []; ack_relayer := B "0Xa1"; ack_fee := 0 |};
           am_rest := tt |} in
  snd (ex_step ex_s0 (ackm (B "mallory") (B "other-chain"))) = true /\
  let s1 := ex_run [ORegGov unit unit unit unit (B "alice") [B "eth-chain"] [B "0xA1"]] ex_s0 in
  snd (ex_step s1 (ackm (B "mallory") (B "teleport"))) = true /\
  snd (ex_step ex_s0 (ackm (B "mallory") (B "teleport"))) = false.
Proof. vm_compute. repeat split; reflexivity. Qed.

(** ** System contracts (NOT proved: exhaustive enumeration on the byte code)
    The only proof obligation here ties the enumeration to the ABIs of the current tree: the
    privileged / unprivileged classification used by the enumeration check covers EVERY non-view
    method of the regenerated inventory (Gen/SysAbiGen.v) and names no method that does not exist —
    a method added to (or removed from) an ABI breaks this obligation. *)
Example C06_abi_classified : abi_classified Gen.SysAbiGen.sys_nonview_methods = true.
Proof. vm_compute. reflexivity. Qed.
