(** C06 — Only relayers, the TSS account and the chain's own modules can drive the bridge.
    PARTIAL: this file is about the Go-side authorization logic (Model/Auth.v), for ALL lower
    layers [L] (light clients, packet keeper, EVM), registries, signers and histories.  The
    `msg.sender` checks inside the XIBC system contracts exist only as EVM byte code; they are
    validated by an exhaustive method x caller-kind enumeration on the real byte code
    (Model/AuthCheck.v part B), NOT proved.
    Only statements here; proofs are in Proofs/Auth.v and Proofs/AuthMonitor.v. *)
From Teleport Require Import Base.Bytes Base.Outcome Model.Auth Model.AuthCheck Proofs.Auth Proofs.AuthBranches Proofs.AuthMonitor
     Proofs.AuthMonitorMeaning.
From Teleport Require Gen.SysAbiGen Gen.ModCallsGen.

Section C06.
  Variables (D HD PK AK : Type).               (* lower state, header, rest of MsgRecvPacket / MsgAcknowledgement *)
  Variable canon : bytes -> bytes.             (* canonical bech32 form of a signer string *)
  Variable fold_eq : bytes -> bytes -> bool.   (* strings.EqualFold *)
  Variable bech32_ok : bytes -> bool.          (* AccAddressFromBech32 succeeds *)
  Variable L : lower D HD PK AK.               (* everything below the authorization layer: ARBITRARY *)

  Notation step := (step D HD PK AK canon fold_eq bech32_ok L).
  Notation run := (run D HD PK AK canon fold_eq bech32_ok L).
  Notation op := (op D HD PK AK).
  Notation accepted s o := (snd (step s o) = true).
  Notation after s o := (fst (step s o)).

  (** ** The registry is what the LAST registration of an address wrote *)

  (** In any history, after the last (effective) registration [o] of address [a] — whatever was
      registered before, for [a] or anybody else, and whatever messages and other activity
      followed — [a]'s record is exactly the chains/addresses of [o]: re-registration REPLACES. *)
  Theorem C06_registry_last_write : forall (pre : list op) o (post : list op) s0 a x,
    reg_effect D HD PK AK bech32_ok o = Some (a, x) ->
    (forall o', In o' post -> registers D HD PK AK bech32_ok o' a = false) ->
    reg_get (reg D (run (pre ++ o :: post) s0)) a = Some x.
  Proof. exact (run_reg_last D HD PK AK canon fold_eq bech32_ok L). Qed.

  (** Nothing but a registration of [a] changes [a]'s record: messages (accepted or not),
      registrations of other addresses, proposals rejected by ValidateBasic and arbitrary
      lower-layer activity leave it alone. *)
  Theorem C06_registry_untouched : forall (ops : list op) s0 a,
    (forall o, In o ops -> registers D HD PK AK bech32_ok o a = false) ->
    reg_get (reg D (run ops s0)) a = reg_get (reg D s0) a.
  Proof. exact (run_reg_untouched D HD PK AK canon fold_eq bech32_ok L). Qed.

  (** No message, accepted or rejected, and no lower-layer activity changes the registry at all. *)
  Theorem C06_messages_keep_registry : forall s o,
    reg_effect D HD PK AK bech32_ok o = None -> reg D (after s o) = reg D s.
  Proof. intros s o E. rewrite (step_reg D HD PK AK canon fold_eq bech32_ok L), E. reflexivity. Qed.

  (** ** update_needs_relayer *)
  (** In the state reached by ANY history: an accepted MsgUpdateClient implies that the signer's
      CURRENT record lists exactly that chain, the client exists, and for a TSS client the
      canonical form of the signer is the configured TSS address (CheckMsg). *)
  Theorem C06_update_needs_relayer : forall (ops : list op) s0 m,
    let s := run ops s0 in
    accepted s (OUpdate D HD PK AK m) ->
    (exists x, reg_get (reg D s) (um_signer HD m) = Some x /\ In (um_chain HD m) (r_chains x)) /\
    (exists c, client_of L (low D s) (um_chain HD m) = Some c /\
               forall a, c = TSS a -> canon (um_signer HD m) = a).
  Proof.
    intros ops s0 m s H. cbn in H.
    destruct (handle_update D HD PK AK canon L s m) as [s'| |] eqn:E; cbn in H; try discriminate.
    apply handle_update_ok in E as [Ha [c [d' [Ec [Ck _]]]]].
    split; [apply auth_relayer_spec; exact Ha|].
    exists c. split; [exact Ec|]. intros a ->. eapply check_msg_tss; exact Ck.
  Qed.

  (** ** recv_needs_relayer *)
  Theorem C06_recv_needs_relayer : forall (ops : list op) s0 m,
    let s := run ops s0 in
    accepted s (ORecv D HD PK AK m) ->
    exists x, reg_get (reg D s) (rm_signer PK m) = Some x /\ In (rm_src PK m) (r_chains x).
  Proof.
    intros ops s0 m s H. cbn in H.
    destruct (handle_recv D HD PK AK L s m) as [s'| |] eqn:E; cbn in H; try discriminate.
    apply handle_recv_ok in E as [_ [d1 [rel [_ [Ho _]]]]].
    apply auth_relayer_spec. eapply other_chain_addr_listed; exact Ho.
  Qed.

  (** Registration for one chain confers nothing for another: if the signer's current record does
      not list [c] (or there is no record), EVERY UpdateClient for [c] and EVERY RecvPacket with
      source [c] from that signer is rejected — whatever else the signer is registered for,
      whatever the message contains, whatever the lower layers would say. *)
  Theorem C06_no_cross_chain : forall s signer c,
    (forall x, reg_get (reg D s) signer = Some x -> ~ In c (r_chains x)) ->
    (forall m, um_signer HD m = signer -> um_chain HD m = c -> snd (step s (OUpdate D HD PK AK m)) = false) /\
    (forall m, rm_signer PK m = signer -> rm_src PK m = c -> snd (step s (ORecv D HD PK AK m)) = false).
  Proof.
    intros s signer c Hn.
    assert (Hf : auth_relayer (reg D s) c signer = false).
    { destruct (auth_relayer (reg D s) c signer) eqn:E; [|reflexivity].
      apply auth_relayer_spec in E as [x [E1 E2]]. exfalso; eapply Hn; eauto. }
    split; intros m <- <-; cbn.
    - unfold handle_update. rewrite Hf. reflexivity.
    - destruct (handle_recv D HD PK AK L s m) as [s'| |] eqn:E; cbn; try reflexivity.
      apply handle_recv_ok in E as [_ [d1 [rel [_ [Ho _]]]]].
      apply other_chain_addr_listed in Ho. congruence.
  Qed.

  (** Revocation: after the LAST registration of [a] — one that does not list chain [c] — whatever [a] was
      registered for before and whatever happened since, every UpdateClient for [c] and every RecvPacket from
      [c] signed by [a] is rejected. *)
  Theorem C06_revocation : forall (pre : list op) o (post : list op) s0 a x c,
    reg_effect D HD PK AK bech32_ok o = Some (a, x) ->
    (forall o', In o' post -> registers D HD PK AK bech32_ok o' a = false) ->
    ~ In c (r_chains x) ->
    let s := run (pre ++ o :: post) s0 in
    (forall m, um_signer HD m = a -> um_chain HD m = c -> snd (step s (OUpdate D HD PK AK m)) = false) /\
    (forall m, rm_signer PK m = a -> rm_src PK m = c -> snd (step s (ORecv D HD PK AK m)) = false).
  Proof.
    intros pre o post s0 a x c E Hp Hn s. apply C06_no_cross_chain.
    intros y Hy. unfold s in Hy. rewrite (C06_registry_last_write pre o post s0 a x E Hp) in Hy.
    inversion Hy; subst. exact Hn.
  Qed.

  (** Conversely the relayer check is the ONLY thing the authorization layer adds to a client update: an
      UpdateClient is accepted IF AND ONLY IF the signer's record lists the chain, the client exists, CheckMsg
      passes (TSS: canonical signer = TssAddress) and the light client accepts the header; the new state is
      the old one with the lower layer's new state (registry and acknowledgement log untouched). *)
  Theorem C06_update_exact : forall s m s',
    handle_update D HD PK AK canon L s m = Ok s' <->
    auth_relayer (reg D s) (um_chain HD m) (um_signer HD m) = true /\
    exists c d', client_of L (low D s) (um_chain HD m) = Some c /\ check_msg canon c (um_signer HD m) = true /\
      lo_update D HD PK AK L (low D s) (um_chain HD m) (um_header HD m) = Ok d' /\ s' = set_low D s d'.
  Proof. exact (handle_update_exact D HD PK AK canon L). Qed.

  (** ** tss_recv_ack_signer *)
  (** For a TSS-secured counterparty [c] with configured address [a]: a client update is accepted
      only from the account [a] (canonical form of msg.Signer), a receive of a packet from [c] and
      an acknowledgement of a packet to [c] only with msg.Signer = [a]. *)
  Theorem C06_tss_signer : forall s c a,
    client_of L (low D s) c = Some (TSS a) ->
    (forall m, um_chain HD m = c -> accepted s (OUpdate D HD PK AK m) -> canon (um_signer HD m) = a) /\
    (forall m, rm_src PK m = c -> accepted s (ORecv D HD PK AK m) -> rm_signer PK m = a) /\
    (forall m, am_dst AK m = c -> accepted s (OAck D HD PK AK m) -> am_signer AK m = a).
  Proof.
    intros s c a Hc. repeat split; intros m <- H; cbn in H.
    - destruct (handle_update D HD PK AK canon L s m) as [s'| |] eqn:E; cbn in H; try discriminate.
      apply handle_update_ok in E as [_ [c' [d' [Ec [Ck _]]]]].
      rewrite Hc in Ec; inversion Ec; subst. eapply check_msg_tss; exact Ck.
    - destruct (handle_recv D HD PK AK L s m) as [s'| |] eqn:E; cbn in H; try discriminate.
      apply handle_recv_ok in E as [Ht _]. eapply tss_signer_ok_tss; eassumption.
    - destruct (handle_ack D HD PK AK fold_eq bech32_ok L s m) as [s'| |] eqn:E; cbn in H; try discriminate.
      apply handle_ack_ok in E as [Ht _]. eapply tss_signer_ok_tss; eassumption.
  Qed.

  (** ** ack_relayer_field *)
  (** An accepted RecvPacket either writes no acknowledgement (only when the packet is relayed
      onwards to another known chain) or appends exactly one, for that packet, whose Relayer is
      Addresses[i] for the FIRST i with Chains[i] = packet source in the SUBMITTING signer's
      current record, and whose fee option is the packet's.  Nothing else of the log changes. *)
  Theorem C06_ack_relayer_field : forall (ops : list op) s0 m,
    let s := run ops s0 in
    accepted s (ORecv D HD PK AK m) ->
    wlog D (after s (ORecv D HD PK AK m)) = wlog D s \/
    exists w x i,
      wlog D (after s (ORecv D HD PK AK m)) = wlog D s ++ [w] /\
      w_src w = rm_src PK m /\ w_dst w = rm_dst PK m /\ w_seq w = rm_seq PK m /\
      reg_get (reg D s) (rm_signer PK m) = Some x /\
      first_index (r_chains x) (rm_src PK m) = Some i /\
      nth_error (r_addrs x) i = Some (ack_relayer (w_ack w)) /\
      ack_fee (w_ack w) = rm_fee PK m.
  Proof.
    intros ops s0 m s H. cbn in H |- *.
    destruct (handle_recv D HD PK AK L s m) as [s'| |] eqn:E; cbn in H |- *; try discriminate.
    apply handle_recv_ok in E as [_ [d1 [rel [_ [Ho [_ [[Hw _]|[a [Hw [Hr Hf]]]]]]]]]]; [left; exact Hw|].
    right. apply other_chain_addr_some in Ho as [x [i [E1 [E2 E3]]]].
    exists (wack_of PK m a), x, i. cbn. rewrite Hr. auto 10.
  Qed.

  (** An accepted receive addressed to this chain always writes its acknowledgement. *)
  Theorem C06_recv_self_acknowledged : forall s m s' d1,
    handle_recv D HD PK AK L s m = Ok s' -> lo_recv D HD PK AK L (low D s) m = Ok d1 ->
    rm_dst PK m = self_chain L d1 -> exists a, wlog D s' = wlog D s ++ [wack_of PK m a].
  Proof. exact (handle_recv_self_writes D HD PK AK L). Qed.


  (** ** The three acknowledgement-writing branches of RecvPacket, exactly *)
  (** An accepted RecvPacket is EXACTLY one of: (1) packet for this chain, CallPacket(onRecvPacket)
      returned an error => acknowledgement (1, "", "receive packet callback failed", relayer, fee option);
      (2) packet for this chain, callback returned (code, result, message) => acknowledgement
      (code, result, message, relayer, fee option); (3) destination chain unknown => acknowledgement
      (1, "", "dstChain not found", relayer, fee option); (4) relayed onwards, no acknowledgement —
      where in ALL of them [relayer] is the address looked up for (packet source, msg.Signer), the
      registry is untouched and the log grows by exactly that acknowledgement ([recv_outcome]).  Both
      directions: nothing else is accepted, and each of these is. *)
  Theorem C06_recv_exact : forall s m s',
    handle_recv D HD PK AK L s m = Ok s' <->
    exists d1 relayer,
      tss_signer_ok D HD PK AK L (low D s) (rm_src PK m) (rm_signer PK m) = true /\
      lo_recv D HD PK AK L (low D s) m = Ok d1 /\
      other_chain_addr (reg D s) (rm_src PK m) (rm_signer PK m) = Ok (Some relayer) /\
      recv_outcome D HD PK AK L s m d1 relayer s'.
  Proof. exact (handle_recv_exact D HD PK AK L). Qed.

  (** ... and in each branch that writes one, the acknowledgement's Relayer is that looked-up address
      and its fee option the packet's; nothing else of registry / log changes. *)
  Theorem C06_recv_branch_relayer : forall s m d1 relayer s',
    recv_outcome D HD PK AK L s m d1 relayer s' ->
    (wlog D s' = wlog D s /\ reg D s' = reg D s) \/
    exists a, wlog D s' = wlog D s ++ [wack_of PK m a] /\ reg D s' = reg D s /\
              ack_relayer a = relayer /\ ack_fee a = rm_fee PK m.
  Proof. exact (recv_outcome_ack D HD PK AK L). Qed.

  (** ** Every acknowledgement ever written *)
  (** After ANY history: every acknowledgement in the log that was not there initially was written by
      an ACCEPTED RecvPacket of that history, for exactly that packet, with the packet's fee option, and
      its Relayer is Addresses[i], i the first index with Chains[i] = packet source, of the record the
      SUBMITTING signer had at that moment (whatever was re-registered later). *)
  Theorem C06_every_written_ack : forall (ops : list op) s0 w,
    In w (wlog D (run ops s0)) ->
    In w (wlog D s0) \/
    exists pre m post, ops = pre ++ ORecv D HD PK AK m :: post /\
      accepted (run pre s0) (ORecv D HD PK AK m) /\
      justified D PK (run pre s0) m w.
  Proof. exact (run_wlog_justified D HD PK AK canon fold_eq bech32_ok L). Qed.

  (** The acknowledgement log only grows (no operation rewrites or removes a written acknowledgement). *)
  Theorem C06_ack_log_grows : forall (ops : list op) s, exists l, wlog D (run ops s) = wlog D s ++ l.
  Proof. exact (run_wlog_prefix D HD PK AK canon fold_eq bech32_ok L). Qed.

  (** ** rejected_unchanged *)
  (** A rejected operation (message rejected for any reason incl. a recovered panic; proposal
      failing ValidateBasic) leaves the WHOLE state — registry, lower layers, acknowledgement log —
      as it was.  (For messages this is BaseApp's cache-and-discard, modelled by [deliver] and
      validated on the real code by the store / contract fingerprint of the correspondence run.) *)
  Theorem C06_rejected_unchanged : forall s o, snd (step s o) = false -> after s o = s.
  Proof. exact (step_rejected D HD PK AK canon fold_eq bech32_ok L). Qed.

  (** ** What the code does for acknowledgements *)
  (** An accepted acknowledgement of a packet this chain sent pays the relayer fee to the Teleport
      address of the FIRST record in store order that lists (destination chain, an address equal
      to ack.Relayer up to case folding); that address parses as an account.  The SIGNER of the
      MsgAcknowledgement is not looked up anywhere (see C06_plain_ack_needs_no_relayer). *)
  Theorem C06_ack_fee_payee : forall s m s',
    handle_ack D HD PK AK fold_eq bech32_ok L s m = Ok s' ->
    exists d1 a, lo_ack D HD PK AK L (low D s) m = Ok d1 /\ am_ack AK m = Some a /\
      (am_src AK m = self_chain L d1 ->
       exists payee r1 x r2, reg D s = r1 ++ (payee, x) :: r2 /\ bech32_ok payee = true /\
         lists_pair fold_eq x (am_dst AK m) (ack_relayer a) /\
         (forall k' x', In (k', x') r1 -> ~ lists_pair fold_eq x' (am_dst AK m) (ack_relayer a)) /\
         exists d2 d3, lo_set_status D HD PK AK L d1 m = Ok d2 /\ lo_pay D HD PK AK L d2 m payee = Ok d3).
  Proof.
    intros s m s' H. apply handle_ack_ok in H as [_ [_ [_ [d1 [a [E1 [E2 [_ H]]]]]]]].
    exists d1, a. split; [exact E1|]. split; [exact E2|]. intro Es.
    destruct (H Es) as [payee [d2 [d3 [Ht [Bk [S2 S3]]]]]].
    apply teleport_addr_some in Ht as [r1 [x [r2 [Er [Hl Hn]]]]].
    exists payee, r1, x, r2. repeat split; eauto.
  Qed.

  (** ** Registry well-formedness under governance-only histories *)
  (** The store stays in key order (the order GetAllRelayers iterates). *)
  Theorem C06_registry_sorted : forall (ops : list op) s0,
    reg_sorted (reg D s0) -> reg_sorted (reg D (run ops s0)).
  Proof. exact (run_sorted D HD PK AK canon fold_eq bech32_ok L). Qed.

  (** If every registration went through governance (ValidateBasic), the relayer lookup of
      RecvPacket cannot hit `ir.Addresses[i]` out of range. *)
  Theorem C06_gov_registry_no_panic : forall (ops : list op) s0 c signer,
    Forall (gov_only D HD PK AK) ops -> Forall (rec_wf bech32_ok) (reg D s0) ->
    other_chain_addr (reg D (run ops s0)) c signer <> Panic.
  Proof.
    intros ops s0 c signer G W. eapply other_chain_addr_no_panic.
    eapply (run_wf D HD PK AK canon fold_eq bech32_ok L); eassumption.
  Qed.
End C06.

Print Assumptions C06_registry_last_write.
Print Assumptions C06_registry_untouched.
Print Assumptions C06_messages_keep_registry.
Print Assumptions C06_update_needs_relayer.
Print Assumptions C06_recv_needs_relayer.
Print Assumptions C06_no_cross_chain.
Print Assumptions C06_revocation.
Print Assumptions C06_update_exact.
Print Assumptions C06_tss_signer.
Print Assumptions C06_ack_relayer_field.
Print Assumptions C06_recv_self_acknowledged.
Print Assumptions C06_recv_exact.
Print Assumptions C06_recv_branch_relayer.
Print Assumptions C06_every_written_ack.
Print Assumptions C06_ack_log_grows.
Print Assumptions C06_rejected_unchanged.
Print Assumptions C06_ack_fee_payee.
Print Assumptions C06_registry_sorted.
Print Assumptions C06_gov_registry_no_panic.

(** The executable monitor applied to implementation traces accepts every step the model can
    make (any registry, any facts, any operation kind). *)
Theorem C06_monitor_sound : forall ct bt r f k,
  mon_step ct (rdump_of r) (model_obs ct bt r f k) = [].
Proof. exact monitor_sound. Qed.
Print Assumptions C06_monitor_sound.

(** ... and an EMPTY verdict of that monitor on an observed step MEANS the clauses of the property for
    that observation (so a violation on the real code cannot hide behind the monitor): *)
(** rejected step: observed state (xibc store, contract storage, balances) and registry unchanged *)
Theorem C06_monitor_rejected_meaning : forall ct before o,
  mon_step ct before o = [] -> os_class o <> 0%nat ->
  os_same o = true /\ rdump_eqb before (os_reg o) = true.
Proof. exact monitor_rejected_meaning. Qed.

(** accepted UpdateClient: the signer's record lists the chain; TSS client => canonical signer = TSS address *)
Theorem C06_monitor_update_meaning : forall ct before o chain signer,
  mon_step ct before o = [] -> os_kind o = KUpdate chain signer -> os_class o = 0%nat ->
  listed before signer chain = true /\
  (forall a, tss_of (os_facts o) chain = Some a -> canon_f ct signer = a).
Proof. exact monitor_update_meaning. Qed.

(** accepted RecvPacket: record lists the source; TSS source => signer is the TSS address; a written
    acknowledgement is this packet's, has its fee option, is the stored one, and its Relayer is
    Addresses[first i with Chains[i] = source] of the signer's record; none written => not for this chain *)
Theorem C06_monitor_recv_meaning : forall ct before o signer src dst seq fee,
  mon_step ct before o = [] -> os_kind o = KRecv signer src dst seq fee -> os_class o = 0%nat ->
  listed before signer src = true /\
  (forall a, tss_of (os_facts o) src = Some a -> signer = a) /\
  match os_ack o with
  | Some (src', dst', seq', a) =>
      src' = src /\ dst' = dst /\ seq' = seq /\ ack_fee a = fee /\ os_ack_stored o = true /\
      registered_addr before signer src = Some (ack_relayer a)
  | None => dst <> f_self (os_facts o)
  end.
Proof. exact monitor_recv_meaning. Qed.

(** accepted Acknowledgement: TSS destination => signer is the TSS address; an observed fee payout went to
    the first record in store order listing (destination, ack.Relayer up to case) *)
Theorem C06_monitor_ack_meaning : forall ct before o signer src dst seq oa,
  mon_step ct before o = [] -> os_kind o = KAck signer src dst seq oa -> os_class o = 0%nat ->
  (forall t, tss_of (os_facts o) dst = Some t -> signer = t) /\
  (forall p, os_payee o = Some p ->
     exists a q, oa = Some a /\ rev_find before dst (ack_relayer a) = Some q /\ p = canon_f ct q).
Proof. exact monitor_ack_meaning. Qed.
Print Assumptions C06_monitor_rejected_meaning.
Print Assumptions C06_monitor_update_meaning.
Print Assumptions C06_monitor_recv_meaning.
Print Assumptions C06_monitor_ack_meaning.

(** ** Non-vacuity and documented behaviour, on a concrete instance: lower layers that accept
    everything ([D] = unit), one TSS chain, one light-client chain. *)
Definition ex_lower : lower unit unit unit unit :=
  {| client_of := fun _ c => if bytes_eqb c (B "tss-chain") then Some (TSS (B "tss-account"))
                             else if bytes_eqb c (B "eth-chain") then Some Light else None;
     self_chain := fun _ => B "teleport";
     lo_update := fun d _ _ => Ok d;
     lo_recv := fun d _ => Ok d;
     lo_callback := fun d _ => CbReturned unit d (Some (0%N, [], []));
     lo_write_ack := fun d _ _ => Ok d;
     lo_ack := fun d _ => Ok d;
     lo_set_status := fun d _ => Ok d;
     lo_pay := fun d _ _ => Ok d;
     lo_on_ack := fun d _ => Ok d |}.

Definition ex_step := step unit unit unit unit (fun s => s) ascii_fold_eq (fun _ => true) ex_lower.
Definition ex_run := run unit unit unit unit (fun s => s) ascii_fold_eq (fun _ => true) ex_lower.
Definition ex_s0 : state unit := {| reg := []; low := tt; wlog := [] |}.
Definition ex_recv signer src : op unit unit unit unit :=
  ORecv _ _ _ _ {| rm_signer := signer; rm_src := src; rm_dst := B "teleport"; rm_seq := 1; rm_fee := 2; rm_rest := tt |}.

(** alice registered for eth-chain and bsc-chain (addresses 0xA1, 0xA2), then RE-registered for
    tss-chain only: her eth-chain receive is now rejected, state unchanged; a receive from the
    TSS chain is accepted only from the TSS account, which must itself be a registered relayer;
    the acknowledgement names the address registered for (signer, source chain). *)
Example C06_nonvacuous :
  let reg1 := ORegGov unit unit unit unit (B "alice") [B "eth-chain"; B "bsc-chain"] [B "0xA1"; B "0xA2"] in
  let reg2 := ORegGov unit unit unit unit (B "alice") [B "tss-chain"] [B "0xA3"] in
  let reg3 := ORegGov unit unit unit unit (B "tss-account") [B "eth-chain"; B "tss-chain"; B "tss-chain"] [B "0xT1"; B "0xT2"; B "0xT3"] in
  let s1 := ex_run [reg1] ex_s0 in
  let s2 := ex_run [reg1; reg2; reg3] ex_s0 in
  snd (ex_step s1 (ex_recv (B "alice") (B "eth-chain"))) = true /\
  map (fun w => ack_relayer (w_ack w)) (wlog unit (fst (ex_step s1 (ex_recv (B "alice") (B "bsc-chain"))))) = [B "0xA2"] /\
  ex_step s2 (ex_recv (B "alice") (B "eth-chain")) = (s2, false) /\
  ex_step s2 (ex_recv (B "alice") (B "tss-chain")) = (s2, false) /\
  snd (ex_step s2 (ex_recv (B "tss-account") (B "tss-chain"))) = true /\
  map (fun w => ack_relayer (w_ack w)) (wlog unit (fst (ex_step s2 (ex_recv (B "tss-account") (B "tss-chain"))))) = [B "0xT2"].
Proof. vm_compute. repeat split; reflexivity. Qed.


(** Non-vacuity of the ERROR-acknowledgement branches, with registrations whose counterparty address
    differs from the relayer's own address: lower layers whose destination callback FAILS as a whole
    for sequence 7 and reports code 2 by value for sequence 8.  alice (counterparty address 0xA1 on
    eth-chain) submits; packets 7 and 8 are for this chain, packet 9 for a chain without client
    ("nowhere"), packet 10 is relayed to the TSS chain.  All error acknowledgements name 0xA1 — not
    "alice" — and C06_every_written_ack's witness exists for each. *)
Definition ex_lower2 : lower unit unit unit unit :=
  {| client_of := client_of ex_lower; self_chain := fun _ => B "teleport";
     lo_update := fun d _ _ => Ok d; lo_recv := fun d _ => Ok d;
     lo_callback := fun d m => if (rm_seq unit m =? 7)%N then CbFailed unit d
                               else if (rm_seq unit m =? 8)%N then CbReturned unit d (Some (2%N, [], B "execute transfer data failed"))
                               else CbReturned unit d (Some (0%N, [], []));
     lo_write_ack := fun d _ _ => Ok d; lo_ack := fun d _ => Ok d; lo_set_status := fun d _ => Ok d;
     lo_pay := fun d _ _ => Ok d; lo_on_ack := fun d _ => Ok d |}.

Definition ex_run2 := run unit unit unit unit (fun s => s) ascii_fold_eq (fun _ => true) ex_lower2.
Definition ex_recv2 dst seq : op unit unit unit unit :=
  ORecv _ _ _ _ {| rm_signer := B "alice"; rm_src := B "eth-chain"; rm_dst := dst; rm_seq := seq; rm_fee := 1; rm_rest := tt |}.

Example C06_error_ack_branches_nonvacuous :
  let reg1 := ORegGov unit unit unit unit (B "alice") [B "eth-chain"] [B "0xA1"] in
  let s := ex_run2 [reg1; ex_recv2 (B "teleport") 7; ex_recv2 (B "teleport") 8; ex_recv2 (B "nowhere") 9;
                    ex_recv2 (B "tss-chain") 10; ex_recv2 (B "teleport") 11] ex_s0 in
  map (fun w => (w_seq w, ack_code (w_ack w), ack_message (w_ack w), ack_relayer (w_ack w), ack_fee (w_ack w))) (wlog unit s) =
  [ (7%N, 1%N, B "receive packet callback failed", B "0xA1", 1%N);
    (8%N, 2%N, B "execute transfer data failed", B "0xA1", 1%N);
    (9%N, 1%N, B "dstChain not found", B "0xA1", 1%N);
    (11%N, 0%N, [], B "0xA1", 1%N) ].
Proof. vm_compute. reflexivity. Qed.

(** What the code does for a plain (non-TSS) acknowledgement: the signer of the
    MsgAcknowledgement needs NO relayer record — with an EMPTY registry an acknowledgement relayed
    on a non-source chain is accepted from anybody; on the source chain the only registry look-up
    is the reverse look-up of ack.Relayer (the fee payee), never of the signer.  This matches the
    property text (acknowledgements are restricted only for TSS counterparties). *)
Example C06_plain_ack_needs_no_relayer :
  let ackm signer src := OAck unit unit unit unit
        {| am_signer := signer; am_src := src; am_dst := B "eth-chain"; am_seq := 1;
           am_ack := Some {| ack_code := 0; ack_result := []; ack_message := []; ack_relayer := B "0Xa1"; ack_fee := 0 |};
           am_rest := tt |} in
  snd (ex_step ex_s0 (ackm (B "mallory") (B "other-chain"))) = true /\
  let s1 := ex_run [ORegGov unit unit unit unit (B "alice") [B "eth-chain"] [B "0xA1"]] ex_s0 in
  snd (ex_step s1 (ackm (B "mallory") (B "teleport"))) = true /\
  snd (ex_step ex_s0 (ackm (B "mallory") (B "teleport"))) = false.
Proof. vm_compute. repeat split; reflexivity. Qed.

(** ** System contracts (NOT proved: exhaustive enumeration on the byte code)
    The only proof obligation here ties the enumeration to the ABIs of the current tree: the
    privileged / unprivileged classification used by the enumeration check covers EVERY non-view
    method of the regenerated inventory (Gen/SysAbiGen.v) and names no method that does not exist —
    a method added to (or removed from) an ABI breaks this obligation. *)
Example C06_abi_classified : abi_classified Gen.SysAbiGen.sys_nonview_methods = true.
Proof. vm_compute. reflexivity. Qed.

(** The Go side of "only the chain's own modules": the inventory of EVM calls made by the xibc and
    aggregate keepers, regenerated from the Go source (tools/gotocoq/modcalls -> Gen/ModCallsGen.v).  Every
    call whose target is the packet contract is made from the xibc packet module address and every call
    whose target is the endpoint contract from the aggregate module address (the callers the byte code
    accepts in the enumeration); every method called there is a privileged method of [classification] or a
    view of the ABI inventory; CallPacket is such a call; the two module accounts differ.  (Which Go functions
    contain the calls is listed in the generated file and in the evidence, not pinned.) *)
Example C06_module_calls_ok :
  modcalls_ok Gen.SysAbiGen.sys_view_methods Gen.ModCallsGen.mod_calls Gen.ModCallsGen.module_addresses = true.
Proof. vm_compute. reflexivity. Qed.
