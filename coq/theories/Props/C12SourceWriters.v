(** C12, tie to the source, item 4: who can write the registry - computed SEMANTICALLY by tools/gotocoq/registry
    (interprocedurally under x/aggregate: which Set / Delete on a prefix store of the three prefixes every exported
    function can reach, through any chain of helpers and store accessors), so extracting / inlining helpers changes
    nothing.  Every operation and primitive of the model reaches exactly the writes its model function performs
    ([model_footprints]); no other function reaches a raw write without passing through an operation (a new exported
    keeper method that writes an index - directly or through a primitive - breaks this); nobody outside x/aggregate
    calls a write primitive; the analysis left nothing undetermined.  If this file does not build, only this obligation
    is broken. *)
From Teleport Require Import Base.Bytes Base.Outcome Base.AList Model.Registry Gen.RegistryGen Proofs.RegistrySource.

Theorem C12_source_writers :
  writers_ok registry_entry_footprints registry_unmodelled_writers registry_external_primitive_callers
             registry_undetermined registry_ops_assumed registry_primitives_assumed = true.
Proof. vm_compute. reflexivity. Qed.
Print Assumptions C12_source_writers.
