(** C03 — Cross-chain value conservation: delivered or refunded, never both.
    Only statements here; proofs are in Proofs/Bridge.v and Proofs/BridgeOutcome.v.  The model
    (Model/Bridge.v) is the CURRENT code (callback on a state branch kept only for result code 0, /repo
    commit 0a3e419); the statement was false before (Refuted/C03_refuted.v).  All theorems are about ANY
    configuration of chains and token bindings that is consistent ([cfg_consistent]: the two indices of
    the endpoint's bindings agree -- checked by [binds_ok] on every history of the harness), any initial
    balances, and ANY history = interleaving of transfers (ERC-20 / native coin, forward or return of a
    bound token, with call data of every outcome kind, with fees), relays, acknowledgements (late, out of
    order, duplicated, premature: rejected ones change nothing) and fee top-ups of all chains. *)
From Coq Require Import List Arith PeanoNat NArith Bool Lia.
From Teleport Require Import Base.Outcome Model.Bridge Model.BridgeCheck Model.BridgeGov Proofs.BridgeGov Proofs.Bridge Proofs.BridgeOutcome Proofs.BridgeBacking Proofs.BridgeLedger Proofs.BridgeFees.
Import ListNotations.
Local Open Scope N_scope.

(** * Conservation *)

(** In every state reachable from a fresh system by any history: for every origin chain [A], token [t] and
    other chain [B], [outTokens_A[t][B]] (escrow) = [bindings_B[t'/A].amount] (minted on B, in B-units,
    [k] = 10^scale) + everything in flight between the two: forward packets A->B sent and not yet
    received or refused and not yet refunded, and return packets B->A (burned on B) not yet released on A
    or refused and not yet re-minted on B. *)
Theorem C03_conservation : forall cfg s0 h,
  cfg_consistent cfg -> init_ok s0 ->
  forall A B t, A <> B ->
    match trace cfg B A t with
    | Some (loc, k) => out_tokens (chains (run cfg s0 h) A) t B * k
                       = bind_amt (chains (run cfg s0 h) B) loc A + k * sum_contrib A B t (packets (run cfg s0 h))
    | None => out_tokens (chains (run cfg s0 h) A) t B = sum_contrib A B t (packets (run cfg s0 h))
    end.
Proof. exact run_conserved. Qed.
Print Assumptions C03_conservation.

(** Per-operation preservation, from ANY state satisfying the invariant (not only fresh ones). *)
Theorem C03_step_preserves : forall cfg, cfg_consistent cfg ->
  forall s o s', Inv cfg s -> step cfg s o = Ok s' -> Inv cfg s'.
Proof. exact step_inv. Qed.
Print Assumptions C03_step_preserves.

Theorem C03_history_preserves : forall cfg h s,
  cfg_consistent cfg -> Good cfg s -> Good cfg (run cfg s h).
Proof. intros cfg h s Hc. exact (run_good cfg Hc h s). Qed.
Print Assumptions C03_history_preserves.

(** * The counters are backed by real tokens *)

(** In every reachable state, on every chain: the endpoint contract HOLDS at least the sum of its [outTokens]
    of each token (what is counted as escrowed is really there: a release or refund can always be paid), and
    the total supply of each token = the supply issued locally (constant over the history) + the sum of its
    [bindings[..].amount] (bridged tokens are minted / burned only against the bindings). *)
Theorem C03_backing : forall cfg s0 h,
  cfg_consistent cfg -> init_ok s0 ->
  (forall A t, sum_over (nchains cfg) (out_tokens (chains (run cfg s0 h) A) t) <= bal (chains (run cfg s0 h) A) t Endpoint) /\
  (forall c t, supply (chains (run cfg s0 h) c) t
               = supply (chains s0 c) t + sum_over (nchains cfg) (bind_amt (chains (run cfg s0 h) c) t)).
Proof. intros cfg s0 h Hc Hi. exact (run_backed_init cfg Hc s0 h Hi). Qed.
Print Assumptions C03_backing.

Theorem C03_backing_step : forall cfg base s o s',
  wf cfg s -> Ghost cfg s -> Backed cfg base s -> step cfg s o = Ok s' -> Backed cfg base s'.
Proof. exact step_backed. Qed.
Print Assumptions C03_backing_step.

(** No history creates value: in every reachable state what chain [B] has minted for token [t] of chain [A] never
    exceeds (in [B]-units) what [A] counts as escrowed towards [B], and the endpoint contract on [A] really holds at
    least the sum of what it counts as escrowed towards all chains. *)
Theorem C03_vouchers_backed : forall cfg s0 h,
  cfg_consistent cfg -> init_ok s0 ->
  forall A t,
    (forall B loc k, A <> B -> trace cfg B A t = Some (loc, k) ->
       bind_amt (chains (run cfg s0 h) B) loc A <= out_tokens (chains (run cfg s0 h) A) t B * k) /\
    sum_over (nchains cfg) (out_tokens (chains (run cfg s0 h) A) t) <= bal (chains (run cfg s0 h) A) t Endpoint.
Proof. exact vouchers_backed. Qed.
Print Assumptions C03_vouchers_backed.

(** * The relayer-fee escrow is backed; a refused transfer can always be refunded *)

(** In every reachable state, on every chain and for every token, the packet contract holds at least the sum of the fees
    recorded ([packetFees]) for the not yet acknowledged packets sent from that chain. *)
Theorem C03_fee_escrow_backed : forall cfg s0 h,
  cfg_consistent cfg -> init_ok s0 ->
  forall A t, sumN (map (fee_due (chains (run cfg s0 h)) A t) (packets (run cfg s0 h))) <= bal (chains (run cfg s0 h) A) t PacketC.
Proof. exact run_fs_init. Qed.
Print Assumptions C03_fee_escrow_backed.

Theorem C03_fee_escrow_step : forall cfg, cfg_consistent cfg -> forall s o s',
  wf cfg s -> Ghost cfg s -> conserved cfg s -> FS s -> step cfg s o = Ok s' -> FS s'.
Proof. exact step_fs. Qed.
Print Assumptions C03_fee_escrow_step.

Theorem C03_monitor_fees_sound : forall U s, FS s -> fees_solvent U (chains s) (packets s) = true.
Proof. exact fees_solvent_sound. Qed.
Print Assumptions C03_monitor_fees_sound.

(** Progress: in every reachable state, every received packet whose callback address is usable and that was delivered
    (code 0) or carries transfer data can be acknowledged — the relayer fee can be paid out of the packet contract, the
    escrow to release is there and the endpoint holds it, re-minting needs nothing.  A refused transfer is therefore
    never left with its value locked, and a delivered one can always be closed.  ([cfg_pos]: scales are 10^n > 0.) *)
Theorem C03_ack_possible : forall cfg s0 h p,
  cfg_consistent cfg -> cfg_pos cfg -> init_ok s0 ->
  let s := run cfg s0 h in
  In p (packets s) -> is_received p = true -> p_cb p <> CbBroken -> (p_code p = 0 \/ p_amount p <> 0) ->
  exists s', step cfg s (Ack (p_src p) (p_dst p) (p_seq p)) = Ok s'.
Proof. exact ack_possible. Qed.
Print Assumptions C03_ack_possible.

Theorem C03_cfg_pos_check : forall n l, binds_pos l = true -> cfg_pos (cfg_of n l).
Proof. exact cfg_of_pos. Qed.
Print Assumptions C03_cfg_pos_check.

(** * One outcome *)

(** Over any history a packet is never lost and its status only moves along
    Sent -> (RecvOk -> AckOk | RecvErr -> Refunded). *)
Theorem C03_one_outcome : forall cfg h s src dst sq q,
  cfg_consistent cfg -> Good cfg s -> lookup src dst sq (packets s) = Some q ->
  exists q', lookup src dst sq (packets (run cfg s h)) = Some q' /\ legal_star (p_status q) (p_status q').
Proof. intros cfg h s src dst sq q Hc. exact (run_status cfg Hc h s src dst sq q). Qed.
Print Assumptions C03_one_outcome.

(** Delivered is final (never refunded afterwards); refunded is final (refunded once). *)
Theorem C03_delivered_never_refunded : forall cfg h s src dst sq q,
  cfg_consistent cfg -> Good cfg s -> lookup src dst sq (packets s) = Some q -> p_status q = AckOk ->
  exists q', lookup src dst sq (packets (run cfg s h)) = Some q' /\ p_status q' = AckOk.
Proof. intros cfg h s src dst sq q Hc. exact (delivered_final cfg Hc h s src dst sq q). Qed.
Print Assumptions C03_delivered_never_refunded.

Theorem C03_refunded_once : forall cfg h s src dst sq q,
  cfg_consistent cfg -> Good cfg s -> lookup src dst sq (packets s) = Some q -> p_status q = Refunded ->
  exists q', lookup src dst sq (packets (run cfg s h)) = Some q' /\ p_status q' = Refunded.
Proof. intros cfg h s src dst sq q Hc. exact (refunded_final cfg Hc h s src dst sq q). Qed.
Print Assumptions C03_refunded_once.

(** Ghost accounting in every reachable state: nothing delivered or nothing refunded; a refunded packet
    left nothing on the destination and the sender got back exactly what was taken; a delivered packet
    was never refunded; the relayer fee was paid at most once, exactly when the outcome became final. *)
Theorem C03_never_both : forall cfg s0 h p,
  cfg_consistent cfg -> init_ok s0 -> In p (packets (run cfg s0 h)) ->
  (p_delivered p = 0 \/ p_refunded p = 0) /\ p_feepaid p <= 1 /\
  (p_status p = Refunded -> p_delivered p = 0 /\ p_refunded p = refund_due cfg p /\ p_feepaid p = 1) /\
  (p_status p = AckOk -> p_refunded p = 0 /\ p_delivered p = delivered_due cfg p /\ p_feepaid p = 1) /\
  (p_status p = RecvErr -> p_delivered p = 0) /\
  (p_feepaid p = 1 <-> (p_status p = AckOk \/ p_status p = Refunded)).
Proof.
  intros cfg s0 h p Hc Hi Hin. apply (never_both cfg (run cfg s0 h)); [|exact Hin].
  exact (proj2 (run_good cfg Hc h s0 (init_good cfg s0 Hi))).
Qed.
Print Assumptions C03_never_both.

(** * What the acknowledgements do to the real ledgers (any state, no invariant needed) *)

(** An error acknowledgement is written => no ledger of any chain changed: no token or contract effect of
    the callback is left on the destination.  (THIS is what was false before the repair.) *)
Theorem C03_error_ack_no_effect : forall cfg s src dst sq s' q',
  step cfg s (Recv src dst sq) = Ok s' ->
  lookup src dst sq (packets s') = Some q' -> p_code q' <> 0 ->
  forall c, chains s' c = chains s c.
Proof. exact recv_error_no_effect. Qed.
Print Assumptions C03_error_ack_no_effect.

(** Success acknowledgement: ack status 1, the fee moves packet contract -> relayer, nothing else
    changes: no escrow released, nothing re-minted, the sender's balances untouched. *)
Theorem C03_success_ack_effect : forall cfg s src dst sq s' p,
  step cfg s (Ack src dst sq) = Ok s' -> lookup src dst sq (packets s) = Some p -> p_code p = 0 ->
  (forall c, c <> src -> chains s' c = chains s c) /\
  out_tokens (chains s' src) = out_tokens (chains s src) /\
  bind_amt (chains s' src) = bind_amt (chains s src) /\
  supply (chains s' src) = supply (chains s src) /\
  next_seq (chains s' src) = next_seq (chains s src) /\
  fees (chains s' src) = fees (chains s src) /\
  effects (chains s' src) = effects (chains s src) /\
  ack_status (chains s' src) dst sq = 1 /\
  (forall t h, h <> PacketC -> h <> Relayer -> bal (chains s' src) t h = bal (chains s src) t h) /\
  bal (chains s' src) (fst (fees (chains s src) dst sq)) Relayer =
    bal (chains s src) (fst (fees (chains s src) dst sq)) Relayer + snd (fees (chains s src) dst sq) /\
  bal (chains s' src) (fst (fees (chains s src) dst sq)) PacketC =
    bal (chains s src) (fst (fees (chains s src) dst sq)) PacketC - snd (fees (chains s src) dst sq).
Proof. exact ack_success_effect. Qed.
Print Assumptions C03_success_ack_effect.

(** Error acknowledgement: ack status 2 and the sender (for a packet sent on by the agent contract: the refund
    address the agent was given) gets back exactly what was taken. *)
Theorem C03_error_ack_refund : forall cfg s src dst sq s' p,
  step cfg s (Ack src dst sq) = Ok s' -> lookup src dst sq (packets s) = Some p -> p_code p <> 0 -> sender_ok p ->
  (forall c, c <> src -> chains s' c = chains s c) /\
  ack_status (chains s' src) dst sq = 2 /\
  bal (chains s' src) (p_token p) (refund_target p) =
    bal (chains s src) (p_token p) (refund_target p) + refund_due cfg p.
Proof. exact ack_error_refund. Qed.
Print Assumptions C03_error_ack_refund.

(** The same for every REACHABLE state, without the side condition on the sender. *)
Theorem C03_error_ack_refund_reachable : forall cfg s0 h src dst sq s' p,
  cfg_consistent cfg -> init_ok s0 ->
  step cfg (run cfg s0 h) (Ack src dst sq) = Ok s' -> lookup src dst sq (packets (run cfg s0 h)) = Some p -> p_code p <> 0 ->
  (forall c, c <> src -> chains s' c = chains (run cfg s0 h) c) /\
  ack_status (chains s' src) dst sq = 2 /\
  bal (chains s' src) (p_token p) (refund_target p) =
    bal (chains (run cfg s0 h) src) (p_token p) (refund_target p) + refund_due cfg p.
Proof. exact ack_error_refund_reachable. Qed.
Print Assumptions C03_error_ack_refund_reachable.

(** ... and nothing else changes (any state): no other chain, no other counter, no other holder's balance; the
    escrow counter shrinks by exactly the amount (forward transfer) resp. total supply and [bindings.amount]
    grow by exactly the re-minted amount (return transfer). *)
Theorem C03_error_ack_frame : forall cfg s src dst sq s' p,
  step cfg s (Ack src dst sq) = Ok s' -> lookup src dst sq (packets s) = Some p -> p_code p <> 0 ->
  (forall c, c <> src -> chains s' c = chains s c) /\
  next_seq (chains s' src) = next_seq (chains s src) /\
  fees (chains s' src) = fees (chains s src) /\
  effects (chains s' src) = effects (chains s src) /\
  (forall d q, ack_status (chains s' src) d q = if Nat.eqb dst d && N.eqb sq q then 2 else ack_status (chains s src) d q) /\
  (forall t h, ~ touched_by_refund p h -> bal (chains s' src) t h = bal (chains s src) t h) /\
  p_amount p <> 0 /\
  match p_ori p with
  | None =>
      supply (chains s' src) = supply (chains s src) /\ bind_amt (chains s' src) = bind_amt (chains s src) /\
      p_amount p <= out_tokens (chains s src) (p_token p) dst /\
      (forall t d, out_tokens (chains s' src) t d =
                   if Nat.eqb (p_token p) t && Nat.eqb dst d then out_tokens (chains s src) t d - p_amount p
                   else out_tokens (chains s src) t d)
  | Some _ =>
      out_tokens (chains s' src) = out_tokens (chains s src) /\
      (forall t, supply (chains s' src) t = if Nat.eqb (p_token p) t then supply (chains s src) t + refund_due cfg p
                                            else supply (chains s src) t) /\
      (forall t d, bind_amt (chains s' src) t d =
                   if Nat.eqb (p_token p) t && Nat.eqb dst d then bind_amt (chains s src) t d + refund_due cfg p
                   else bind_amt (chains s src) t d)
  end.
Proof. exact ack_error_frame. Qed.
Print Assumptions C03_error_ack_frame.

(** * What a successful receive does to the real ledgers (any state) *)

(** Success acknowledgement written (result code 0): no other chain changes; the destination ledger is exactly the
    token part of the packet ([give_tokens]: mint against the binding / release of escrow) followed, for call data
    other than [Agent.send], by the observable effect of that call data and nothing else. *)
Theorem C03_success_recv_effect : forall cfg s src dst sq s' p q',
  step cfg s (Recv src dst sq) = Ok s' ->
  lookup src dst sq (packets s) = Some p ->
  lookup src dst sq (packets s') = Some q' -> p_code q' = 0 ->
  (forall c, c <> dst -> chains s' c = chains s c) /\
  p_status q' = RecvOk /\
  exists cs1, give_tokens cfg (chains s dst) p = Some (cs1, p_delivered q') /\
    (no_agent p ->
       same_core (chains s' dst) cs1 /\
       (forall e, effects (chains s' dst) e = match p_cd p with
                                              | CdOk e0 => if Nat.eqb e0 e then 7 else effects (chains s dst) e
                                              | _ => effects (chains s dst) e end)).
Proof. exact recv_success_effect. Qed.
Print Assumptions C03_success_recv_effect.

(** The receiver is credited with exactly the delivered amount of the delivered token: minted against the binding
    (total supply and [bindings.amount] grow by the same amount, nobody else's balance changes) or released from the
    endpoint's escrow ([outTokens] and the endpoint's balance shrink by it, supply untouched). *)
Theorem C03_success_recv_credit : forall cfg s src dst sq s' p q',
  step cfg s (Recv src dst sq) = Ok s' ->
  lookup src dst sq (packets s) = Some p ->
  lookup src dst sq (packets s') = Some q' -> p_code q' = 0 -> no_agent p -> p_amount p <> 0 ->
  exists r T k, p_recv p = Some r /\ delivered_token cfg p = Some (T, k) /\
    (r <> Endpoint -> bal (chains s' dst) T r = bal (chains s dst) T r + p_delivered q') /\
    (forall t h, (t <> T \/ (h <> r /\ h <> Endpoint)) -> bal (chains s' dst) t h = bal (chains s dst) t h) /\
    match p_ori p with
    | None => supply (chains s' dst) T = supply (chains s dst) T + p_delivered q' /\
              bind_amt (chains s' dst) T src = bind_amt (chains s dst) T src + p_delivered q' /\
              out_tokens (chains s' dst) = out_tokens (chains s dst) /\
              (forall h, bal (chains s' dst) T h = if holder_eqb r h then bal (chains s dst) T r + p_delivered q' else bal (chains s dst) T h)
    | Some _ => supply (chains s' dst) = supply (chains s dst) /\
                bind_amt (chains s' dst) = bind_amt (chains s dst) /\
                out_tokens (chains s' dst) T src = out_tokens (chains s dst) T src - p_delivered q' /\
                p_delivered q' <= out_tokens (chains s dst) T src /\ p_delivered q' <= bal (chains s dst) T Endpoint /\
                (r <> Endpoint -> bal (chains s' dst) T Endpoint = bal (chains s dst) T Endpoint - p_delivered q')
    end.
Proof. exact recv_success_credit. Qed.
Print Assumptions C03_success_recv_credit.

(** A rejected operation (duplicate / premature relay, forged / altered / misrouted relay message [Fault], insufficient
    balance, unknown chain, ...) changes nothing; and the model has no transition at all for a relay message that is not
    authentic. *)
Theorem C03_rejected_no_effect : forall cfg s o, step cfg s o = Err -> apply_gen recv_chain cfg s o = s.
Proof. exact rejected_no_effect. Qed.
Print Assumptions C03_rejected_no_effect.

Theorem C03_fault_rejected : forall cfg s k src dst sq, step cfg s (Fault k src dst sq) = Err.
Proof. reflexivity. Qed.
Print Assumptions C03_fault_rejected.

(** * Ties to the executable checks *)

(** The monitor's conservation check accepts every state satisfying the invariant (monitor soundness), and
    what it accepts satisfies the equation on the whole universe it was evaluated on. *)
Theorem C03_monitor_sound : forall cfg U s, conserved cfg s -> conserved_all U cfg (chains s) (packets s) = true.
Proof. exact conserved_all_sound. Qed.
Print Assumptions C03_monitor_sound.

Theorem C03_monitor_complete : forall cfg U cs ps A B t,
  conserved_all U cfg cs ps = true -> In A (chain_ids U) -> In B (chain_ids U) -> A <> B -> In t (tokens U A) ->
  match trace cfg B A t with
  | Some (loc, k) => out_tokens (cs A) t B * k = bind_amt (cs B) loc A + k * sum_contrib A B t ps
  | None => out_tokens (cs A) t B = sum_contrib A B t ps
  end.
Proof. exact conserved_all_complete. Qed.
Print Assumptions C03_monitor_complete.

Theorem C03_monitor_escrow_sound : forall cfg U s,
  u_n U = nchains cfg -> escrow_backed cfg s -> escrow_solvent U (chains s) = true.
Proof. exact escrow_solvent_sound. Qed.
Print Assumptions C03_monitor_escrow_sound.

(** The hypothesis [cfg_consistent] holds for every binding list that passes the executable check run on
    each history of the correspondence. *)
Theorem C03_cfg_check : forall n l, binds_ok l = true -> cfg_consistent (cfg_of n l).
Proof. exact cfg_of_consistent. Qed.
Print Assumptions C03_cfg_check.

(** * Non-vacuity: a concrete two-chain history on the current model *)
Definition ex_cfg : config := cfg_of 2 [(1%nat, 1%nat, 0%nat, 1%nat, 100)].   (* token 1 of chain 1 = token 1 of chain 0, scale 2 *)

Definition ex_cs : cstate :=
  {| bal := fun _ _ => 0; supply := fun _ => 0; out_tokens := fun _ _ => 0; bind_amt := fun _ _ => 0;
     next_seq := fun _ => 1; ack_status := fun _ _ => 0; fees := fun _ _ => (0%nat, 0); effects := fun _ => 0 |}.

Definition ex_s0 : state :=
  {| chains := fun c => if Nat.eqb c 0
                        then set_supply (set_bal ex_cs (fun t h => if Nat.eqb t 1 && holder_eqb h (User 0) then 10000 else 0))
                                        (fun t => if Nat.eqb t 1 then 10000 else 0)
                        else ex_cs;
     packets := [] |}.

(** 1000 with reverting call data (refused, refunded); 600 with succeeding call data and fee 5 (delivered);
    a duplicate receive and a premature acknowledgement (rejected); 2 units back from chain 1 (200 local
    units burned) received on chain 0 but not yet acknowledged; 50 more sent and still in flight. *)
Definition ex_history : list op :=
  [ Transfer 0 0 1 1000 1 (Some (User 1)) CdRevert false 1 0; Recv 0 1 1; Ack 0 1 1;
    Transfer 0 0 1 600 1 (Some (User 1)) (CdOk 7) false 1 5; Recv 0 1 2; Recv 0 1 2; Ack 0 1 2;
    Transfer 1 1 1 2 0 (Some (User 2)) CdNone false 1 0; Ack 1 0 1; Recv 1 0 1;
    Transfer 0 0 1 50 1 (Some (User 1)) CdNone false 1 0 ].

Example C03_nonvacuous :
  cfg_consistent ex_cfg /\ init_ok ex_s0 /\
  let s := run ex_cfg ex_s0 ex_history in
  map p_status (packets s) = [Refunded; AckOk; RecvOk; Sent] /\
  bal (chains s 0) 1 (User 0) = 10000 - 600 - 5 - 50 /\ bal (chains s 0) 1 (User 2) = 2 /\
  bal (chains s 0) 1 Relayer = 5 /\ bal (chains s 0) 1 Endpoint = 648 /\
  out_tokens (chains s 0) 1 1 = 648 /\ bind_amt (chains s 1) 1 0 = 59800 /\
  bal (chains s 1) 1 (User 1) = 59800 /\ supply (chains s 1) 1 = 59800 /\
  sum_contrib 0 1 1 (packets s) = 50 /\ effects (chains s 1) 7 = 7 /\
  648 * 100 = 59800 + 100 * 50.
Proof.
  split; [apply cfg_of_consistent; reflexivity|]. split.
  - split; [reflexivity|]. intros A B t. unfold ex_s0; cbn. destruct (Nat.eqb A 0); split; reflexivity.
  - vm_compute. repeat split; reflexivity.
Qed.

(** * Token bindings registered in the middle of a history (Model/BridgeGov.v)

    [grun]: transfers, relays, acknowledgements, fee top-ups, faulty relay messages and governance registrations of token
    bindings ([GBind]: RegisterERC20Trace -> Endpoint.bindToken), in any order, from a fresh system with any consistent
    list of bindings.  Provided no binding slot is registered twice ([no_rebind]; necessary: Refuted/C03_rebind.v), in
    every reachable state the configuration is consistent, the conservation equation holds under the configuration of
    the moment, the ghost accounting (never both) holds and the counters are backed. *)
Theorem C03_gov_conservation : forall n l s0 h,
  binds_ok l = true -> init_ok s0 -> no_rebind (ginit n l s0) h ->
  let g := grun (ginit n l s0) h in
  cfg_consistent (g_cfg g) /\
  (forall A B t, A <> B ->
     match trace (g_cfg g) B A t with
     | Some (loc, k) => out_tokens (chains (g_st g) A) t B * k
                        = bind_amt (chains (g_st g) B) loc A + k * sum_contrib A B t (packets (g_st g))
     | None => out_tokens (chains (g_st g) A) t B = sum_contrib A B t (packets (g_st g))
     end) /\
  Ghost (g_cfg g) (g_st g) /\
  Backed (g_cfg g) (fun c t => supply (chains s0 c) t) (g_st g).
Proof. exact grun_conserved. Qed.
Print Assumptions C03_gov_conservation.

(** per step, from any state satisfying the invariant *)
Theorem C03_gov_step_preserves : forall base g o g',
  GInv base g ->
  match o with GBind e => bind_fresh e (g_binds g) = true | GOp _ => True end ->
  gstep g o = Ok g' -> GInv base g'.
Proof. exact gstep_inv. Qed.
Print Assumptions C03_gov_step_preserves.

(** a history without registrations is a history of Model/Bridge.v under the initial configuration *)
Theorem C03_gov_extends : forall g h,
  grun g (map GOp h) = {| g_n := g_n g; g_binds := g_binds g; g_st := run (g_cfg g) (g_st g) h |}.
Proof. exact grun_ops. Qed.
Print Assumptions C03_gov_extends.

(** The fee escrow stays backed and every refusable packet stays refundable over histories with registrations. *)
Theorem C03_gov_fee_escrow_backed : forall n l s0 h,
  binds_ok l = true -> init_ok s0 -> no_rebind (ginit n l s0) h ->
  let g := grun (ginit n l s0) h in
  forall A t, sumN (map (fee_due (chains (g_st g)) A t) (packets (g_st g))) <= bal (chains (g_st g) A) t PacketC.
Proof.
  intros n l s0 h Hok Hi Hn. exact (grun_fs _ h _ (ginit_inv n l s0 Hok Hi) (init_fs s0 Hi) Hn).
Qed.
Print Assumptions C03_gov_fee_escrow_backed.

Theorem C03_gov_ack_possible : forall n l s0 h p,
  binds_ok l = true -> binds_pos l = true -> init_ok s0 -> no_rebind (ginit n l s0) h -> gbinds_pos h ->
  let g := grun (ginit n l s0) h in
  In p (packets (g_st g)) -> is_received p = true -> p_cb p <> CbBroken -> (p_code p = 0 \/ p_amount p <> 0) ->
  exists s', step (g_cfg g) (g_st g) (Ack (p_src p) (p_dst p) (p_seq p)) = Ok s'.
Proof. exact gov_ack_possible. Qed.
Print Assumptions C03_gov_ack_possible.

(** Non-vacuity: a packet sent before its token is bound on the destination, the binding registered while it is in
    flight, then delivered; the history satisfies [no_rebind]. *)
Definition exg_history : list gop :=
  [ GOp (Transfer 0 0 1 300 1 (Some (User 1)) CdNone false 1 0); GOp (Recv 0 1 1);
    GOp (Transfer 0 0 1 1000 1 (Some (User 1)) CdNone false 1 0);
    GBind (1%nat, 1%nat, 0%nat, 1%nat, 100);
    GOp (Ack 0 1 1); GOp (Recv 0 1 2); GOp (Ack 0 1 2) ].

Example C03_gov_nonvacuous :
  binds_ok [] = true /\ init_ok ex_s0 /\ no_rebind (ginit 2 [] ex_s0) exg_history /\
  let g := grun (ginit 2 [] ex_s0) exg_history in
  g_binds g = [(1%nat, 1%nat, 0%nat, 1%nat, 100)] /\
  map p_status (packets (g_st g)) = [Refunded; AckOk] /\ map p_code (packets (g_st g)) = [2; 0] /\
  bal (chains (g_st g) 0) 1 (User 0) = 9000 /\ out_tokens (chains (g_st g) 0) 1 1 = 1000 /\
  bind_amt (chains (g_st g) 1) 1 0 = 100000 /\ bal (chains (g_st g) 1) 1 (User 1) = 100000.
Proof.
  split; [reflexivity|]. split.
  - split; [reflexivity|]. intros A B t. unfold ex_s0; cbn. destruct (Nat.eqb A 0); split; reflexivity.
  - split; [cbn; repeat split|]. vm_compute. repeat split; reflexivity.
Qed.

