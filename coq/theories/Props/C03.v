(** C03 — Cross-chain value conservation: delivered or refunded, never both.
    Only statements here; proofs are in Proofs/Bridge.v and Proofs/BridgeOutcome.v.  The model
    (Model/Bridge.v) is the CURRENT code (callback on a state branch kept only for result code 0, /repo
    commit 0a3e419); the statement was false before (Refuted/C03_refuted.v).  All theorems are about ANY
    configuration of chains and token bindings that is consistent ([cfg_consistent]: the two indices of
    the endpoint's bindings agree -- checked by [binds_ok] on every history of the harness), any initial
    balances, and ANY history = interleaving of transfers (ERC-20 / native coin, forward or return of a
    bound token, with call data of every outcome kind, with fees), relays, acknowledgements (late, out of
    order, duplicated, premature: rejected ones change nothing) and fee top-ups of all chains. *)
From Coq Require Import List Arith PeanoNat NArith Bool Lia.
From Teleport Require Import Base.Outcome Model.Bridge Model.BridgeCheck Proofs.Bridge Proofs.BridgeOutcome Proofs.BridgeBacking.
Import ListNotations.
Local Open Scope N_scope.

(** * Conservation *)

(** In every state reachable from a fresh system by any history: for every origin chain [A], token [t] and
    other chain [B], [outTokens_A[t][B]] (escrow) = [bindings_B[t'/A].amount] (minted on B, in B-units,
    [k] = 10^scale) + everything in flight between the two: forward packets A->B sent and not yet
    received or refused and not yet refunded, and return packets B->A (burned on B) not yet released on A
    or refused and not yet re-minted on B. *)
Theorem C03_conservation : forall cfg s0 h,
  cfg_consistent cfg -> init_ok s0 ->
  forall A B t, A <> B ->
    match trace cfg B A t with
    | Some (loc, k) => out_tokens (chains (run cfg s0 h) A) t B * k
                       = bind_amt (chains (run cfg s0 h) B) loc A + k * sum_contrib A B t (packets (run cfg s0 h))
    | None => out_tokens (chains (run cfg s0 h) A) t B = sum_contrib A B t (packets (run cfg s0 h))
    end.
Proof. exact run_conserved. Qed.
Print Assumptions C03_conservation.

(** Per-operation preservation, from ANY state satisfying the invariant (not only fresh ones). *)
Theorem C03_step_preserves : forall cfg, cfg_consistent cfg ->
  forall s o s', Inv cfg s -> step cfg s o = Ok s' -> Inv cfg s'.
Proof. exact step_inv. Qed.
Print Assumptions C03_step_preserves.

Theorem C03_history_preserves : forall cfg h s,
  cfg_consistent cfg -> Good cfg s -> Good cfg (run cfg s h).
Proof. intros cfg h s Hc. exact (run_good cfg Hc h s). Qed.
Print Assumptions C03_history_preserves.

(** * The counters are backed by real tokens *)

(** In every reachable state, on every chain: the endpoint contract HOLDS at least the sum of its [outTokens]
    of each token (what is counted as escrowed is really there: a release or refund can always be paid), and
    the total supply of each token = the supply issued locally (constant over the history) + the sum of its
    [bindings[..].amount] (bridged tokens are minted / burned only against the bindings). *)
Theorem C03_backing : forall cfg s0 h,
  cfg_consistent cfg -> init_ok s0 ->
  (forall A t, sum_over (nchains cfg) (out_tokens (chains (run cfg s0 h) A) t) <= bal (chains (run cfg s0 h) A) t Endpoint) /\
  (forall c t, supply (chains (run cfg s0 h) c) t
               = supply (chains s0 c) t + sum_over (nchains cfg) (bind_amt (chains (run cfg s0 h) c) t)).
Proof. intros cfg s0 h Hc Hi. exact (run_backed_init cfg Hc s0 h Hi). Qed.
Print Assumptions C03_backing.

Theorem C03_backing_step : forall cfg base s o s',
  wf cfg s -> Ghost cfg s -> Backed cfg base s -> step cfg s o = Ok s' -> Backed cfg base s'.
Proof. exact step_backed. Qed.
Print Assumptions C03_backing_step.

(** * One outcome *)

(** Over any history a packet is never lost and its status only moves along
    Sent -> (RecvOk -> AckOk | RecvErr -> Refunded). *)
Theorem C03_one_outcome : forall cfg h s src dst sq q,
  cfg_consistent cfg -> Good cfg s -> lookup src dst sq (packets s) = Some q ->
  exists q', lookup src dst sq (packets (run cfg s h)) = Some q' /\ legal_star (p_status q) (p_status q').
Proof. intros cfg h s src dst sq q Hc. exact (run_status cfg Hc h s src dst sq q). Qed.
Print Assumptions C03_one_outcome.

(** Delivered is final (never refunded afterwards); refunded is final (refunded once). *)
Theorem C03_delivered_never_refunded : forall cfg h s src dst sq q,
  cfg_consistent cfg -> Good cfg s -> lookup src dst sq (packets s) = Some q -> p_status q = AckOk ->
  exists q', lookup src dst sq (packets (run cfg s h)) = Some q' /\ p_status q' = AckOk.
Proof. intros cfg h s src dst sq q Hc. exact (delivered_final cfg Hc h s src dst sq q). Qed.
Print Assumptions C03_delivered_never_refunded.

Theorem C03_refunded_once : forall cfg h s src dst sq q,
  cfg_consistent cfg -> Good cfg s -> lookup src dst sq (packets s) = Some q -> p_status q = Refunded ->
  exists q', lookup src dst sq (packets (run cfg s h)) = Some q' /\ p_status q' = Refunded.
Proof. intros cfg h s src dst sq q Hc. exact (refunded_final cfg Hc h s src dst sq q). Qed.
Print Assumptions C03_refunded_once.

(** Ghost accounting in every reachable state: nothing delivered or nothing refunded; a refunded packet
    left nothing on the destination and the sender got back exactly what was taken; a delivered packet
    was never refunded; the relayer fee was paid at most once, exactly when the outcome became final. *)
Theorem C03_never_both : forall cfg s0 h p,
  cfg_consistent cfg -> init_ok s0 -> In p (packets (run cfg s0 h)) ->
  (p_delivered p = 0 \/ p_refunded p = 0) /\ p_feepaid p <= 1 /\
  (p_status p = Refunded -> p_delivered p = 0 /\ p_refunded p = refund_due cfg p /\ p_feepaid p = 1) /\
  (p_status p = AckOk -> p_refunded p = 0 /\ p_delivered p = delivered_due cfg p /\ p_feepaid p = 1) /\
  (p_status p = RecvErr -> p_delivered p = 0) /\
  (p_feepaid p = 1 <-> (p_status p = AckOk \/ p_status p = Refunded)).
Proof.
  intros cfg s0 h p Hc Hi Hin. apply (never_both cfg (run cfg s0 h)); [|exact Hin].
  exact (proj2 (run_good cfg Hc h s0 (init_good cfg s0 Hi))).
Qed.
Print Assumptions C03_never_both.

(** * What the acknowledgements do to the real ledgers (any state, no invariant needed) *)

(** An error acknowledgement is written => no ledger of any chain changed: no token or contract effect of
    the callback is left on the destination.  (THIS is what was false before the repair.) *)
Theorem C03_error_ack_no_effect : forall cfg s src dst sq s' q',
  step cfg s (Recv src dst sq) = Ok s' ->
  lookup src dst sq (packets s') = Some q' -> p_code q' <> 0 ->
  forall c, chains s' c = chains s c.
Proof. exact recv_error_no_effect. Qed.
Print Assumptions C03_error_ack_no_effect.

(** Success acknowledgement: ack status 1, the fee moves packet contract -> relayer, nothing else
    changes: no escrow released, nothing re-minted, the sender's balances untouched. *)
Theorem C03_success_ack_effect : forall cfg s src dst sq s' p,
  step cfg s (Ack src dst sq) = Ok s' -> lookup src dst sq (packets s) = Some p -> p_code p = 0 ->
  (forall c, c <> src -> chains s' c = chains s c) /\
  out_tokens (chains s' src) = out_tokens (chains s src) /\
  bind_amt (chains s' src) = bind_amt (chains s src) /\
  supply (chains s' src) = supply (chains s src) /\
  next_seq (chains s' src) = next_seq (chains s src) /\
  fees (chains s' src) = fees (chains s src) /\
  effects (chains s' src) = effects (chains s src) /\
  ack_status (chains s' src) dst sq = 1 /\
  (forall t h, h <> PacketC -> h <> Relayer -> bal (chains s' src) t h = bal (chains s src) t h) /\
  bal (chains s' src) (fst (fees (chains s src) dst sq)) Relayer =
    bal (chains s src) (fst (fees (chains s src) dst sq)) Relayer + snd (fees (chains s src) dst sq) /\
  bal (chains s' src) (fst (fees (chains s src) dst sq)) PacketC =
    bal (chains s src) (fst (fees (chains s src) dst sq)) PacketC - snd (fees (chains s src) dst sq).
Proof. exact ack_success_effect. Qed.
Print Assumptions C03_success_ack_effect.

(** Error acknowledgement: ack status 2 and the sender (for a packet sent on by the agent contract: the refund
    address the agent was given) gets back exactly what was taken. *)
Theorem C03_error_ack_refund : forall cfg s src dst sq s' p,
  step cfg s (Ack src dst sq) = Ok s' -> lookup src dst sq (packets s) = Some p -> p_code p <> 0 -> sender_ok p ->
  (forall c, c <> src -> chains s' c = chains s c) /\
  ack_status (chains s' src) dst sq = 2 /\
  bal (chains s' src) (p_token p) (refund_target p) =
    bal (chains s src) (p_token p) (refund_target p) + refund_due cfg p.
Proof. exact ack_error_refund. Qed.
Print Assumptions C03_error_ack_refund.

(** A rejected operation (duplicate / premature relay, insufficient balance, unknown chain, ...) changes nothing. *)
Theorem C03_rejected_no_effect : forall cfg s o, step cfg s o = Err -> apply_gen recv_chain cfg s o = s.
Proof. exact rejected_no_effect. Qed.
Print Assumptions C03_rejected_no_effect.

(** * Ties to the executable checks *)

(** The monitor's conservation check accepts every state satisfying the invariant (monitor soundness), and
    what it accepts satisfies the equation on the whole universe it was evaluated on. *)
Theorem C03_monitor_sound : forall cfg U s, conserved cfg s -> conserved_all U cfg (chains s) (packets s) = true.
Proof. exact conserved_all_sound. Qed.
Print Assumptions C03_monitor_sound.

Theorem C03_monitor_complete : forall cfg U cs ps A B t,
  conserved_all U cfg cs ps = true -> In A (chain_ids U) -> In B (chain_ids U) -> A <> B -> In t (tokens U A) ->
  match trace cfg B A t with
  | Some (loc, k) => out_tokens (cs A) t B * k = bind_amt (cs B) loc A + k * sum_contrib A B t ps
  | None => out_tokens (cs A) t B = sum_contrib A B t ps
  end.
Proof. exact conserved_all_complete. Qed.
Print Assumptions C03_monitor_complete.

Theorem C03_monitor_escrow_sound : forall cfg U s,
  u_n U = nchains cfg -> escrow_backed cfg s -> escrow_solvent U (chains s) = true.
Proof. exact escrow_solvent_sound. Qed.
Print Assumptions C03_monitor_escrow_sound.

(** The hypothesis [cfg_consistent] holds for every binding list that passes the executable check run on
    each history of the correspondence. *)
Theorem C03_cfg_check : forall n l, binds_ok l = true -> cfg_consistent (cfg_of n l).
Proof. exact cfg_of_consistent. Qed.
Print Assumptions C03_cfg_check.

(** * Non-vacuity: a concrete two-chain history on the current model *)
Definition ex_cfg : config := cfg_of 2 [(1%nat, 1%nat, 0%nat, 1%nat, 100)].   (* token 1 of chain 1 = token 1 of chain 0, scale 2 *)

Definition ex_cs : cstate :=
  {| bal := fun _ _ => 0; supply := fun _ => 0; out_tokens := fun _ _ => 0; bind_amt := fun _ _ => 0;
     next_seq := fun _ => 1; ack_status := fun _ _ => 0; fees := fun _ _ => (0%nat, 0); effects := fun _ => 0 |}.

Definition ex_s0 : state :=
  {| chains := fun c => if Nat.eqb c 0
                        then set_supply (set_bal ex_cs (fun t h => if Nat.eqb t 1 && holder_eqb h (User 0) then 10000 else 0))
                                        (fun t => if Nat.eqb t 1 then 10000 else 0)
                        else ex_cs;
     packets := [] |}.

(** 1000 with reverting call data (refused, refunded); 600 with succeeding call data and fee 5 (delivered);
    a duplicate receive and a premature acknowledgement (rejected); 2 units back from chain 1 (200 local
    units burned) received on chain 0 but not yet acknowledged; 50 more sent and still in flight. *)
Definition ex_history : list op :=
  [ Transfer 0 0 1 1000 1 (Some (User 1)) CdRevert false 1 0; Recv 0 1 1; Ack 0 1 1;
    Transfer 0 0 1 600 1 (Some (User 1)) (CdOk 7) false 1 5; Recv 0 1 2; Recv 0 1 2; Ack 0 1 2;
    Transfer 1 1 1 2 0 (Some (User 2)) CdNone false 1 0; Ack 1 0 1; Recv 1 0 1;
    Transfer 0 0 1 50 1 (Some (User 1)) CdNone false 1 0 ].

Example C03_nonvacuous :
  cfg_consistent ex_cfg /\ init_ok ex_s0 /\
  let s := run ex_cfg ex_s0 ex_history in
  map p_status (packets s) = [Refunded; AckOk; RecvOk; Sent] /\
  bal (chains s 0) 1 (User 0) = 10000 - 600 - 5 - 50 /\ bal (chains s 0) 1 (User 2) = 2 /\
  bal (chains s 0) 1 Relayer = 5 /\ bal (chains s 0) 1 Endpoint = 648 /\
  out_tokens (chains s 0) 1 1 = 648 /\ bind_amt (chains s 1) 1 0 = 59800 /\
  bal (chains s 1) 1 (User 1) = 59800 /\ supply (chains s 1) 1 = 59800 /\
  sum_contrib 0 1 1 (packets s) = 50 /\ effects (chains s 1) 7 = 7 /\
  648 * 100 = 59800 + 100 * 50.
Proof.
  split; [apply cfg_of_consistent; reflexivity|]. split.
  - split; [reflexivity|]. intros A B t. unfold ex_s0; cbn. destruct (Nat.eqb A 0); split; reflexivity.
  - vm_compute. repeat split; reflexivity.
Qed.
