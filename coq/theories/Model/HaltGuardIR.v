(** Little language of the REJECTING GUARDS that tools/gotocoq/haltguards regenerates from the Go source
    (Gen/HaltGuardsGen.v): the conditions of the top-level statements

        if COND { ...; return <non-nil error> }

    of a stateless validation function, in source order.  Terms are lengths of fields ([len(h.Extra)]),
    unsigned integer fields ([m.Epoch]) and natural constants (computed by go/types, so [extraVanity+extraSeal]
    arrives as 97); conditions are comparisons of terms combined with [||], [&&], [!]; everything the
    translator does not understand is [COpaque].

    Contract with the translator: when the Go function returns nil, every guard whose condition is evaluable
    was false.  The model of a validation function therefore starts with [guards_reject] over the regenerated
    list and continues with the hand-written remainder (the checks that are opaque here).  Proofs use
    [forced]: a syntactic, decidable sufficient condition for "this guard fires whenever the field is below /
    above a bound", evaluated by [vm_compute] on the regenerated term (Proofs/HaltGuards.v). *)
From Coq Require Import String List NArith Bool.
Import ListNotations.
Local Open Scope N_scope.

Inductive gterm := TLen (f : string) | TField (f : string) | TConst (n : N).

Inductive gcond :=
| CLt (a b : gterm) | CLe (a b : gterm) | CEq (a b : gterm)
| COr (a b : gcond) | CAnd (a b : gcond) | CNot (a : gcond)
| COpaque.

(** The values the model supplies: lengths and unsigned fields by (Go) field path. *)
Record genv := { g_len : list (string * N); g_fld : list (string * N) }.

Fixpoint sassoc (l : list (string * N)) (k : string) : option N :=
  match l with
  | [] => None
  | (k', v) :: t => if String.eqb k' k then Some v else sassoc t k
  end.

Definition eval_term (e : genv) (t : gterm) : option N :=
  match t with TLen f => sassoc (g_len e) f | TField f => sassoc (g_fld e) f | TConst n => Some n end.

Definition cmp2 (f : N -> N -> bool) (x y : option N) : option bool :=
  match x, y with Some a, Some b => Some (f a b) | _, _ => None end.

(** Three-valued evaluation ([None] = not evaluable); [||] and [&&] as in Go: the value is known as soon as
    one side decides it. *)
Fixpoint eval_cond (e : genv) (c : gcond) : option bool :=
  match c with
  | CLt a b => cmp2 N.ltb (eval_term e a) (eval_term e b)
  | CLe a b => cmp2 N.leb (eval_term e a) (eval_term e b)
  | CEq a b => cmp2 N.eqb (eval_term e a) (eval_term e b)
  | COr a b =>
      match eval_cond e a, eval_cond e b with
      | Some true, _ | _, Some true => Some true
      | Some false, Some false => Some false
      | _, _ => None
      end
  | CAnd a b =>
      match eval_cond e a, eval_cond e b with
      | Some false, _ | _, Some false => Some false
      | Some true, Some true => Some true
      | _, _ => None
      end
  | CNot a => option_map negb (eval_cond e a)
  | COpaque => None
  end.

Definition fires (e : genv) (c : gcond) : bool := match eval_cond e c with Some true => true | _ => false end.

(** Some evaluable guard fires: the Go function returns an error. *)
Definition guards_reject (e : genv) (gs : list gcond) : bool := existsb (fires e) gs.

(** ** Decidable sufficient condition for "the guard fires whenever the value is below / above a bound" *)
Inductive gkey := KLen (f : string) | KFld (f : string).
Inductive gassume :=
| ABelow (k : gkey) (n : N)    (* the value is < n *)
| AAbove (k : gkey) (n : N).   (* the value is > n *)

Definition key_val (e : genv) (k : gkey) : option N :=
  match k with KLen f => sassoc (g_len e) f | KFld f => sassoc (g_fld e) f end.

Definition term_is (k : gkey) (t : gterm) : bool :=
  match k, t with
  | KLen f, TLen g => String.eqb f g
  | KFld f, TField g => String.eqb f g
  | _, _ => false
  end.

Definition is_const0 (t : gterm) : bool := match t with TConst n => n =? 0 | _ => false end.

Fixpoint forced (a : gassume) (c : gcond) : bool :=
  match c with
  | CLt x y =>
      match a with
      | ABelow k n => match y with TConst m => term_is k x && (n <=? m) | _ => false end
      | AAbove k n => match x with TConst m => term_is k y && (m <=? n) | _ => false end
      end
  | CLe x y =>
      match a with
      | ABelow k n => match y with TConst m => term_is k x && (n <=? m + 1) | _ => false end
      | AAbove k n => match x with TConst m => term_is k y && (m <=? n + 1) | _ => false end
      end
  | CEq x y =>
      match a with
      | ABelow k n => ((term_is k x && is_const0 y) || (term_is k y && is_const0 x)) && (n <=? 1)
      | AAbove _ _ => false
      end
  | COr p q => forced a p || forced a q
  | CAnd p q => forced a p && forced a q
  | CNot _ | COpaque => false
  end.

(** ** Every field a guard mentions is one the model supplies (otherwise the guard would silently never fire
    in the model). *)
Definition term_known (e : genv) (t : gterm) : bool :=
  match eval_term e t with Some _ => true | None => false end.

Fixpoint cond_known (e : genv) (c : gcond) : bool :=
  match c with
  | CLt a b | CLe a b | CEq a b => term_known e a && term_known e b
  | COr a b | CAnd a b => cond_known e a && cond_known e b
  | CNot a => cond_known e a
  | COpaque => true
  end.

Definition guards_known (e : genv) (gs : list gcond) : bool := forallb (cond_known e) gs.

(** Number of guards the translator could not translate (reported in the evidence). *)
Fixpoint cond_opaque (c : gcond) : bool :=
  match c with
  | COpaque => true
  | COr a b | CAnd a b => cond_opaque a || cond_opaque b
  | CNot a => cond_opaque a
  | _ => false
  end.
Definition opaque_count (gs : list gcond) : N := N.of_nat (List.length (filter cond_opaque gs)).
