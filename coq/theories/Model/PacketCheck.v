(** Correspondence and monitors for the packet core (C01 C02 C04 C05), evaluated by [vm_compute] on the
    histories the harness ran on 3 real chains (no proofs here).

    * [mismatches]: the model [Model.Packet] (instantiated with the concrete key builders below and with oracle
      TABLES filled by the harness from the real functions) is run on every step of every chain and compared with
      the observed outcome class, the observed packet families of the xibc store, the packet contract's
      [getNextSequenceSend] / [getAckStatus] views.
    * [monitor_failures]: the properties themselves as executable checks on the IMPLEMENTATION's trace alone
      (they never call the model's step function; they use the real decode / pack / sha256 / verify tables). *)
From Teleport Require Import Base.Bytes Base.Outcome Base.AList Model.Packet Model.PacketKeys Model.PacketClients.
Local Open Scope N_scope.

(** ** the real key builders (regenerated from host/keys.go, see Model/PacketKeys.v) and identifier validator *)
Definition c_receipt_key := k_receipt.
Definition c_ack_key := k_ack.
Definition c_commitment_key := k_commitment.
Definition c_nextseq_key := k_nextseq.
Definition c_valid_name := k_valid.

(** ** oracle tables *)
Definition packet_eqb (a b : packet) : bool :=
  bytes_eqb (p_src a) (p_src b) && bytes_eqb (p_dst a) (p_dst b) && (p_seq a =? p_seq b)
  && bytes_eqb (p_sender a) (p_sender b) && bytes_eqb (p_tdata a) (p_tdata b) && bytes_eqb (p_cdata a) (p_cdata b)
  && bytes_eqb (p_cb a) (p_cb b) && (p_fee a =? p_fee b).
Definition ackt_eqb (a b : ackt) : bool :=
  (a_code a =? a_code b) && bytes_eqb (a_result a) (a_result b) && bytes_eqb (a_message a) (a_message b)
  && bytes_eqb (a_relayer a) (a_relayer b) && (a_fee a =? a_fee b).

Record vkey := mkV { v_env : N; v_client : bytes; v_kind : N; v_h : height; v_proof : bytes;
                     v_src : bytes; v_dst : bytes; v_seq : N; v_val : bytes }.
Definition vkey_eqb (a b : vkey) : bool :=
  (v_env a =? v_env b) && bytes_eqb (v_client a) (v_client b) && (v_kind a =? v_kind b)
  && (fst (v_h a) =? fst (v_h b)) && (snd (v_h a) =? snd (v_h b)) && bytes_eqb (v_proof a) (v_proof b)
  && bytes_eqb (v_src a) (v_src b) && bytes_eqb (v_dst a) (v_dst b) && (v_seq a =? v_seq b)
  && bytes_eqb (v_val a) (v_val b).

Record oracles := mkOr {
  o_decode : list (bytes * (packet * bool));
  o_pack : list (packet * option bytes);
  o_sha : list (bytes * bytes);
  o_decode_ack : list (bytes * option ackt);
  o_pack_ack : list (ackt * bytes);
  o_verify : list (vkey * (bool * bool));       (* client API result, low-level recomputation *)
  o_bech32 : list (bytes * option bytes);
  o_fold : list (bytes * bytes * bool) }.

Fixpoint lookup {K V} (eqb : K -> K -> bool) (k : K) (l : list (K * V)) : option V :=
  match l with [] => None | (k', v) :: l' => if eqb k k' then Some v else lookup eqb k l' end.

Definition zero_packet := mkPacket [] [] 0 [] [] [] [] 0.

(** A question outside the table gets a poison answer (decode error / pack error / verification false / a hash
    that no store contains): the model then disagrees with an implementation that went on. *)
Definition t_decode (o : oracles) (bz : bytes) : packet * bool :=
  match lookup bytes_eqb bz (o_decode o) with Some r => r | None => (zero_packet, true) end.
Definition t_pack (o : oracles) (p : packet) : option bytes :=
  match lookup packet_eqb p (o_pack o) with Some r => r | None => None end.
Definition t_sha (o : oracles) (bz : bytes) : bytes :=
  match lookup bytes_eqb bz (o_sha o) with Some r => r | None => B "sha256-outside-table:" ++ bz end.
Definition t_decode_ack (o : oracles) (bz : bytes) : option ackt :=
  match lookup bytes_eqb bz (o_decode_ack o) with Some r => r | None => None end.
Definition t_pack_ack (o : oracles) (a : ackt) : option bytes := lookup ackt_eqb a (o_pack_ack o).
Definition t_verify2 (o : oracles) (k : vkey) : bool * bool :=
  match lookup vkey_eqb k (o_verify o) with Some r => r | None => (false, false) end.
Definition t_verify (o : oracles) (env : N) (name : bytes) (_ : ctype) (kind : N) (h : height) (proof src dst : bytes)
           (q : N) (val : bytes) : bool :=
  fst (t_verify2 o (mkV env name kind h proof src dst q val)).
Definition t_bech32 (o : oracles) (s : bytes) : option bytes :=
  match lookup bytes_eqb s (o_bech32 o) with Some r => r | None => None end.
Definition t_fold (o : oracles) (a b : bytes) : bool :=
  match lookup (fun x y => bytes_eqb (fst x) (fst y) && bytes_eqb (snd x) (snd y)) (a, b)
               (map (fun e => ((fst (fst e), snd (fst e)), snd e)) (o_fold o)) with
  | Some r => r | None => false end.

Definition m_params (o : oracles) : params :=
  mkParams c_receipt_key c_ack_key c_commitment_key c_nextseq_key c_valid_name
           (t_decode o) (t_pack o) (t_sha o) (t_decode_ack o) (t_pack_ack o) (t_verify o) (t_bech32 o) (t_fold o).
(** one delivered message: proof height among the consensus states of the present client instance (client-store layer),
    the messages' stateless ValidateBasic, then the handler *)
Definition m_exec (o : oracles) := deliver2 (m_params o).

(** ** cases *)
Record ostep := mkOStep {
  os_chain : nat; os_env : N; os_act : action;
  os_class : nat;                                (* observed: 0 accepted, 1 rejected, 2 panic escaped *)
  os_delta : list (bytes * option bytes);        (* observed change of the packet families (None = deleted) *)
  os_unchanged : bool;                           (* observed: full xibc + evm + bank dumps identical before/after *)
  os_cseq : list (bytes * N);                    (* observed packet contract getNextSequenceSend(dst) *)
  os_ackstatus : list (bytes * N * N);           (* observed getAckStatus(dst, seq) of packets sent from here *)
  os_emitted : list bytes;                       (* accepted EVM transaction: bytes of its PacketSent logs as EMITTED *)
  os_cons : list height;                         (* consensus-state heights this step wrote into the client store of the
                                                    client it names (create / toggle: all heights present afterwards) *)
  os_wack : option (N * N) }.                    (* accepted receive: (code, fee option) of the acknowledgement bytes it
                                                    wrote, unpacked with the raw go-ethereum ABI *)

Record chain_init := mkChain {
  ci_name : bytes; ci_clients : alist ctype; ci_relayers : alist (list bytes * list bytes);
  ci_store : alist bytes; ci_cseq : list (bytes * N); ci_cons : cstore }.

Record pcase := mkCase {
  pc_chains : list chain_init; pc_steps : list ostep; pc_final : list (alist bytes); pc_or : oracles }.

Definition init_state (c : chain_init) : cstate :=
  mkState (ci_store c) (ci_clients c) (ci_name c) (ci_relayers c)
          (mkApp (fold_left (fun a dn => aset (fst dn) (snd dn) a) (ci_cseq c) []) []).

Fixpoint store_eqb (a b : alist bytes) : bool :=
  match a, b with
  | [], [] => true
  | (k, v) :: a', (k', v') :: b' => bytes_eqb k k' && bytes_eqb v v' && store_eqb a' b'
  | _, _ => false
  end.

Definition apply_delta (s : alist bytes) (d : list (bytes * option bytes)) : alist bytes :=
  fold_left (fun s kv => match snd kv with Some v => aset (fst kv) v s | None => adel (fst kv) s end) d s.

Fixpoint upd {A} (n : nat) (x : A) (l : list A) : list A :=
  match l, n with
  | [], _ => []
  | _ :: l', O => x :: l'
  | y :: l', S n' => y :: upd n' x l'
  end.

Fixpoint number {A} (i : nat) (l : list A) : list (nat * A) :=
  match l with [] => [] | x :: l' => (i, x) :: number (S i) l' end.

(** ack status according to the model's ghost log: last setAckStatus(d, q, _) that persisted, else 0 *)
Definition model_ackstatus (s : cstate) (d : bytes) (q : N) : N :=
  fold_left (fun acc e => match e with
                          | EvAckStatus d' q' st => if bytes_eqb d d' && (q =? q') then st else acc
                          | _ => acc end) (log (st_app s)) 0.

(** ** model vs implementation.  kinds: 1 outcome class, 2 packet families of the store, 3 contract send
    counter view, 4 ack status view, 5 final store of a chain, 6 malformed case (chain index) *)
Fixpoint cmp_steps (o : oracles) (i : nat) (ms : list (cstate * cstore)) (obs : list (alist bytes)) (l : list ostep)
  : list (nat * nat) * list (cstate * cstore) * list (alist bytes) :=
  match l with
  | [] => ([], ms, obs)
  | st :: l' =>
      match nth_error ms (os_chain st), nth_error obs (os_chain st) with
      | Some (s, cs), Some ob =>
          let ob' := apply_delta ob (os_delta st) in
          let r := m_exec o (os_env st) s cs (os_act st) in
          let s' := match r with Ok s' => s' | _ => s end in
          let cls := match r with Ok _ => 0%nat | _ => 1%nat end in
          let cs' := cs_step cs (os_act st) (Nat.eqb cls 0) (os_cons st) in
          if negb (Nat.eqb cls (os_class st)) then ([(i, 1%nat)], ms, obs)
          else if negb (store_eqb (st_store s') ob') then ([(i, 2%nat)], ms, obs)
          else if negb (forallb (fun dn => cseq_view s' (fst dn) =? snd dn) (os_cseq st)) then ([(i, 3%nat)], ms, obs)
          else if negb (forallb (fun e => model_ackstatus s' (fst (fst e)) (snd (fst e)) =? snd e) (os_ackstatus st))
               then ([(i, 4%nat)], ms, obs)
          else cmp_steps o (S i) (upd (os_chain st) (s', cs') ms) (upd (os_chain st) ob' obs) l'
      | _, _ => ([(i, 6%nat)], ms, obs)
      end
  end.

Fixpoint all2 {A B} (f : A -> B -> bool) (a : list A) (b : list B) : bool :=
  match a, b with
  | [], [] => true
  | x :: a', y :: b' => f x y && all2 f a' b'
  | _, _ => false
  end.

Definition cmp_case (c : pcase) : list (nat * nat) :=
  let ms := map (fun ci => (init_state ci, ci_cons ci)) (pc_chains c) in
  let obs := map ci_store (pc_chains c) in
  match cmp_steps (pc_or c) 0 ms obs (pc_steps c) with
  | (e :: es, _, _) => e :: es
  | ([], ms', obs') =>
      if all2 store_eqb obs' (pc_final c) && all2 (fun s f => store_eqb (st_store (fst s)) f) ms' (pc_final c)
      then [] else [(length (pc_steps c), 5%nat)]
  end.

Definition mismatches (cs : list pcase) : list (nat * (nat * nat)) :=
  flat_map (fun ic => map (fun m => (fst ic, m)) (cmp_case (snd ic))) (number 0 cs).

(** ** monitors on the implementation trace *)
Definition has_prefix (p : bytes) (kv : bytes * bytes) : bool := is_prefix p (fst kv).
Definition family (p : bytes) (s : alist bytes) : alist bytes := filter (has_prefix p) s.

Definition triple_eqb (a b : triple) : bool :=
  let '(s1, d1, q1) := a in let '(s2, d2, q2) := b in bytes_eqb s1 s2 && bytes_eqb d1 d2 && (q1 =? q2).

(** all bindings of [a] are bindings of [b] (same value) *)
Definition sub_store (a b : alist bytes) : bool :=
  forallb (fun kv => match aget (fst kv) b with Some v => bytes_eqb v (snd kv) | None => false end) a.

Record mchain := mkM {
  m_name : bytes; m_clients : alist ctype; m_store : alist bytes;
  m_recvd : list triple; m_acked : list triple;
  m_relayers : alist (list bytes * list bytes) }.   (* relayer registry: initial records + accepted registrations *)

Definition obs_next_seq (st : alist bytes) (s d : bytes) : option N :=
  match aget (c_nextseq_key s d) st with
  | None => Some 1
  | Some bz => if Nat.eqb (length bz) 8 then Some (unbe bz) else None
  end.

(** the sends that persisted in a step: expected effect on the nextSequenceSend and commitments families *)
Fixpoint expect_sends (o : oracles) (name : bytes) (clients : alist ctype) (st : alist bytes) (l : list (packet * bool))
  : option (alist bytes) :=
  match l with
  | [] => Some st
  | (p, _) :: l' =>
      match obs_next_seq st (p_src p) (p_dst p), t_pack o p with
      | Some n, Some bz =>
          (* from this chain, to a chain with a client, carrying exactly the counter, well-formed *)
          if bytes_eqb (p_src p) name && (p_seq p =? n) && negb (n =? 0) && ahas (p_dst p) clients && validate_basic p
          then expect_sends o name clients
                 (aset (c_commitment_key (p_src p) (p_dst p) (p_seq p)) (t_sha o bz)
                    (aset (c_nextseq_key (p_src p) (p_dst p)) (be64 (add64 n 1)) st)) l'
          else None
      | _, _ => None
      end
  end.

Definition persisted_sends (a : action) : list (packet * bool) :=
  match a with
  | ASend cb => cb_sends cb
  | ARecv _ cb =>
      (* the sends a destination callback EMITTED persist only if the callback persisted: no failure, result code 0 *)
      if cb_fail cb then [] else match cb_ret cb with Some (0, _, _) => cb_sends cb | _ => [] end
  | AAck _ cb1 cb2 cb3 => cb_sends cb1 ++ cb_sends cb2 ++ cb_sends cb3
  | _ => []
  end.

Definition fails (b : bool) (k : nat) : list nat := if b then [] else [k].

(** kinds (per step):
    11 a (src,dst,seq) triple accepted twice                                   C01
    12 a rejected message changed state                                        C01 C02 C04
    20 a receipt disappeared or changed                                        C01
    21 an accepted receive did not write the (previously absent) receipt of its triple   C01
    13 nextSequenceSend family / new commitments not explained by the sends of this step (gap, repeat, wrong hash,
       counter moved without a send)                                           C04
    14 packet contract counter differs from the chain-side counter            C04
    15 accepted receive addressed to this chain without exactly one new ack   C05
    16 a stored ack changed or disappeared                                     C05
    17 a commitment disappeared without an accepted ack of exactly that packet C05
    18 second acknowledgement of the same packet accepted                      C05
    23 an acknowledgement appeared that is not the one of an accepted receive of exactly that triple   C05
    24 an accepted transaction's PacketSent log whose bytes do not decode, or whose triple does not hold
       sha256(emitted bytes) as commitment afterwards                          C04
    25 a client is registered under the chain's own name (fix a9e74e1: the create proposal must be refused)   C04 C05
    26 accepted receive addressed to this chain whose written acknowledgement does not carry the callback's result code
       (1 for a failed callback) and the packet's fee option                   C05
    27 accepted acknowledgement of a packet sent from this chain whose acknowledgement bytes do not decode, are all
       zero, or name a relayer that is not registered on this chain for the destination (the fee could not be paid, the
       message must fail and keep the commitment)                              C05
    19 accepted receive/ack not verified (client API or low-level recomputation false, no client, stored
       commitment differs)                                                     C02 *)
Definition mon_step (o : oracles) (m : mchain) (st : ostep) : list nat * mchain :=
  let before := m_store m in
  let after := apply_delta before (os_delta st) in
  let accepted := Nat.eqb (os_class st) 0 in
  let clients' := match os_act st with
                  | ARegisterClient n c _ => if accepted then aset n c (m_clients m) else m_clients m
                  | AToggleClient n c _ => if accepted then aset n c (m_clients m) else m_clients m
                  | _ => m_clients m end in
  let k25 := fails (negb (ahas (m_name m) clients')) 25 in
  let k12 := fails (accepted || (store_eqb before after && os_unchanged st)) 12 in
  let k20 := fails (sub_store (family (B "receipts/") before) after) 20 in
  let k16 := fails (sub_store (family (B "acks/") before) after) 16 in
  (* C04: expected nextSequenceSend family and commitments written *)
  let sends := if accepted then persisted_sends (os_act st) else [] in
  let k13 :=
    match expect_sends o (m_name m) (m_clients m) before sends with
    | None => [13%nat]
    | Some ex =>
        fails (store_eqb (family (B "nextSequenceSend/") ex) (family (B "nextSequenceSend/") after)
               && forallb (fun kv => match aget (fst kv) before with
                                     | Some v => bytes_eqb v (snd kv)      (* unchanged old commitment *)
                                     | None => match aget (fst kv) ex with Some v => bytes_eqb v (snd kv) | None => false end
                                     end) (family (B "commitments/") after)) 13
    end in
  let k14 := fails (forallb (fun dn => match obs_next_seq after (m_name m) (fst dn) with
                                       | Some n => n =? snd dn | None => false end) (os_cseq st)) 14 in
  (* C04: the commitment is the hash of the bytes the packet contract EMITTED (not only of the chain's re-pack) *)
  let k24 := fails (negb accepted ||
                    forallb (fun bz => let '(p, err) := t_decode o bz in
                                       negb err &&
                                       match aget (c_commitment_key (p_src p) (p_dst p) (p_seq p)) after with
                                       | Some c => bytes_eqb c (t_sha o bz) | None => false end) (os_emitted st)) 24 in
  (* message-specific *)
  let '(kmsg, recvd', acked') :=
    match os_act st with
    | ARecv msg cb =>
        let '(p, err) := t_decode o (rm_packet msg) in
        let t := triple_of p in
        if accepted then
          let k11 := fails (negb (existsb (triple_eqb t) (m_recvd m))) 11 in
          let k21 := fails (match aget (c_receipt_key (p_src p) (p_dst p) (p_seq p)) before,
                                  aget (c_receipt_key (p_src p) (p_dst p) (p_seq p)) after with
                            | None, Some _ => true | _, _ => false end) 21 in
          let k15 := if bytes_eqb (p_dst p) (m_name m)
                     then fails (match aget (c_ack_key (p_src p) (p_dst p) (p_seq p)) before,
                                       aget (c_ack_key (p_src p) (p_dst p) (p_seq p)) after with
                                 | None, Some _ => true | _, _ => false end
                                 && Nat.eqb (length (family (B "acks/") after)) (S (length (family (B "acks/") before)))) 15
                     else [] in
          let k19 := fails (negb err &&
                            match aget (p_src p) (m_clients m), t_pack o p with
                            | Some ct, Some bz =>
                                let pr := if is_tss ct then rm_signer msg else rm_proof msg in
                                let r := t_verify2 o (mkV (os_env st) (p_src p) kind_commit (rm_height msg) pr
                                                          (p_src p) (p_dst p) (p_seq p) (t_sha o bz)) in
                                fst r && snd r
                            | _, _ => false end) 19 in
          let k26 := if bytes_eqb (p_dst p) (m_name m)
                     then fails (match os_wack st with
                                 | Some (code, fee) =>
                                     (fee =? p_fee p) &&
                                     (if cb_fail cb then code =? 1
                                      else match cb_ret cb with Some (c, _, _) => code =? c | None => false end)
                                 | None => false end) 26
                     else [] in
          (k11 ++ k21 ++ k15 ++ k19 ++ k26, t :: m_recvd m, m_acked m)
        else ([], m_recvd m, m_acked m)
    | AAck msg _ _ _ =>
        let '(p, err) := t_decode o (am_packet msg) in
        let t := triple_of p in
        if accepted then
          let k18 := fails (negb (existsb (triple_eqb t) (m_acked m))) 18 in
          let k19 := fails (negb err &&
                            match aget (p_dst p) (m_clients m), t_pack o p with
                            | Some ct, Some bz =>
                                let pr := if is_tss ct then am_signer msg else am_proof msg in
                                let r := t_verify2 o (mkV (os_env st) (p_dst p) kind_ack (am_height msg) pr
                                                          (p_src p) (p_dst p) (p_seq p) (t_sha o (am_ack msg))) in
                                fst r && snd r &&
                                match aget (c_commitment_key (p_src p) (p_dst p) (p_seq p)) before with
                                | Some c => bytes_eqb c (t_sha o bz) | None => false end
                            | _, _ => false end) 19 in
          let k27 := if bytes_eqb (p_src p) (m_name m)
                     then fails (match t_decode_ack o (am_ack msg) with
                                 | Some a =>
                                     negb (ack_empty a) &&
                                     match relayer_on_teleport_in (m_params o) (m_relayers m) (p_dst p) (a_relayer a) with
                                     | Ok (Some r) => match t_bech32 o r with Some _ => true | None => false end
                                     | _ => false end
                                 | None => false end) 27
                     else [] in
          (k18 ++ k19 ++ k27, m_recvd m, t :: m_acked m)
        else ([], m_recvd m, m_acked m)
    | _ => ([], m_recvd m, m_acked m)
    end in
  (* C05: acknowledgements that appeared: only the one of an accepted receive's own triple *)
  let newacks := filter (fun kv => negb (ahas (fst kv) before)) (family (B "acks/") after) in
  let k23 := fails (forallb (fun kv =>
                       match os_act st with
                       | ARecv msg _ =>
                           let '(p, _) := t_decode o (rm_packet msg) in
                           accepted && bytes_eqb (fst kv) (c_ack_key (p_src p) (p_dst p) (p_seq p))
                       | _ => false end) newacks) 23 in
  (* C05: commitments that disappeared *)
  let gone := filter (fun kv => negb (ahas (fst kv) after)) (family (B "commitments/") before) in
  let k17 := fails (forallb (fun kv =>
                       match os_act st with
                       | AAck msg _ _ _ =>
                           let '(p, _) := t_decode o (am_packet msg) in
                           accepted && bytes_eqb (fst kv) (c_commitment_key (p_src p) (p_dst p) (p_seq p))
                           && match t_pack o p with Some bz => bytes_eqb (snd kv) (t_sha o bz) | None => false end
                       | _ => false end) gone) 17 in
  (k12 ++ k20 ++ k16 ++ k13 ++ k14 ++ k24 ++ k25 ++ kmsg ++ k17 ++ k23,
   mkM (m_name m) clients' after recvd' acked'
       (match os_act st with
        | ARegisterRelayer addr chains addrs => if accepted then aset addr (chains, addrs) (m_relayers m) else m_relayers m
        | _ => m_relayers m end)).

Fixpoint mon_steps (o : oracles) (i : nat) (ms : list mchain) (l : list ostep) : list (nat * nat) :=
  match l with
  | [] => []
  | st :: l' =>
      match nth_error ms (os_chain st) with
      | Some m =>
          let '(ks, m') := mon_step o m st in
          map (fun k => (i, k)) ks ++ mon_steps o (S i) (upd (os_chain st) m' ms) l'
      | None => [(i, 6%nat)]
      end
  end.

Definition mon_case (c : pcase) : list (nat * nat) :=
  mon_steps (pc_or c) 0 (map (fun ci => mkM (ci_name ci) (ci_clients ci) (ci_store ci) [] [] (ci_relayers ci)) (pc_chains c)) (pc_steps c).

Definition monitor_failures (cs : list pcase) : list (nat * (nat * nat)) :=
  flat_map (fun ic => map (fun m => (fst ic, m)) (mon_case (snd ic))) (number 0 cs).
