(** The write primitives of the xibc store (C13): every [store.Set] / [store.Delete] the client keeper, the four light
    clients, the packet keeper and [ResetStates] perform, as functions on the sorted association list, together with
    the guards under which the callers invoke them ([step]) and the states they generate from an initialised store
    ([reach]).  No proofs here (Proofs/GenesisOps.v: [wf_xibc] and [valid_xibc] — the hypotheses of the round-trip
    and validation theorems — are invariants of [step], so they hold of every reachable store).

    Go sources transcribed:
      x/xibc/core/client/keeper/keeper.go   SetClientState, SetClientConsensusState, SetChainName, ClientStore (prefix
                                            store handed to the light clients), clearClientStore
      x/xibc/core/client/keeper/relayer.go  RegisterRelayers
      x/xibc/core/packet/keeper/keeper.go   SetPacketAcknowledgement, SetPacketCommitment, deletePacketCommitment,
                                            SetPacketReceipt, SetNextSequenceSend
      tendermint/types/store.go             SetProcessedTime, SetIterationKey, deleteConsensusState, deleteProcessedTime,
                                            deleteIterationKey        (clientStore.Set / Delete)
      bsc/types/store.go                    SetSigner, DeleteSigner, SetPendingValidators
      eth/types/store.go, update.go         SetEthHeaderIndex, SetEthConsensusRoot, consensus state writes of RestrictChain
      x/xibc/genesis.go                     ResetStates
    The guards are what the callers establish before the write: CreateClient / UpgradeClient / ToggleClient proposals
    validate the chain name, the client state and the consensus state and (10ceabf) their type agreement; ToggleClient
    clears the client store first (503423e); light clients write consensus states of their own type at header heights
    and metadata under their own prefixes; RegisterRelayerProposal.ValidateBasic = IdentifiedRelayer.Validate; packet
    messages are validated by ValidateBasic (chain names, sequence > 0) and store SHA-256 digests / one byte.  The
    correspondence check evaluates [wf_xibc] and [valid_xibc] on every store dumped from the real code (codes 71, 34),
    which is what ties the guards to the callers. *)
From Teleport Require Import Base.Bytes Base.Outcome Base.AList Base.Fmt Gen.KeysGen Model.Keys Model.Genesis.
Local Open Scope N_scope.

Section Ops.
  Variables CS CONS : Type.
  Variable cs_unmarshal : bytes -> option CS.
  Variable cs_marshal : CS -> bytes.
  Variable cs_type : CS -> ctype.
  Variable cs_valid : CS -> bool.
  Variable cons_unmarshal : bytes -> option CONS.
  Variable cons_marshal : CONS -> bytes.
  Variable cons_type : CONS -> ctype.
  Variable cons_valid : CONS -> bool.
  Variable rel_unmarshal : bytes -> option relayer.
  Variable rel_marshal : relayer -> bytes.
  Variable acc_addr_ok : bytes -> bool.

  (** * client keeper and light clients *)
  Definition set_client_state (name : bytes) (c : CS) (s : store) : store := aset (full_client_state_key name) (cs_marshal c) s.
  Definition set_consensus_state (name : bytes) (h : height) (c : CONS) (s : store) : store :=
    aset (full_consensus_state_key name h) (cons_marshal c) s.
  (** [ClientStore(ctx, name).Set(path, v)] / [.Delete(path)] *)
  Definition client_store_set (name path v : bytes) (s : store) : store := aset (client_store_prefix name ++ path) v s.
  Definition client_store_delete (name path : bytes) (s : store) : store := adel (client_store_prefix name ++ path) s.
  (** [clearClientStore]: every key of the client's prefix store *)
  Definition clear_client_store (name : bytes) (s : store) : store :=
    filter (fun kv => negb (is_prefix (client_store_prefix name) (fst kv))) s.
  Definition register_relayer (r : relayer) (s : store) : store := aset (relayer_key (r_address r)) (rel_marshal r) s.
  Definition set_chain_name (v : bytes) (s : store) : store := aset chain_name_key v s.

  (** * packet keeper *)
  Definition set_packet_ack (t : triple) (data : bytes) (s : store) : store := aset (packet_ack_key t) data s.
  Definition set_packet_commitment (t : triple) (data : bytes) (s : store) : store := aset (packet_commitment_key t) data s.
  Definition delete_packet_commitment (t : triple) (s : store) : store := adel (packet_commitment_key t) s.
  Definition set_packet_receipt (t : triple) (s : store) : store := aset (packet_receipt_key t) [x01] s.
  Definition set_next_sequence_send (a b : bytes) (n : N) (s : store) : store := aset (next_seq_send_key a b) (be_bytes 8 n) s.

  (** * [ResetStates]: delete every key, then InitGenesis of the default genesis with the old native chain name *)
  Definition reset_states (s : store) : store := aset chain_name_key (get_chain_name s) [].

  Notation client_type_of := (client_type_of CS cs_unmarshal cs_type).

  (** * One write under the guard its callers establish *)
  Inductive step (s : store) : store -> Prop :=
  | StSetClientState name c :
      valid_chain_name name = true -> cs_valid c = true -> cs_unmarshal (cs_marshal c) = Some c ->
      (client_type_of name s = None \/ client_type_of name s = Some (cs_type c)) ->
      step s (set_client_state name c s)
  | StSetConsensusState name h c t :
      no_sep name = true -> valid_height h = true -> client_type_of name s = Some t ->
      cons_unmarshal (cons_marshal c) = Some c -> cons_valid c = true -> cons_type c = t ->
      height_is_zero h && negb (has_height_zero t) = false ->
      step s (set_consensus_state name h c s)
  | StClientStoreSet name path v t :
      no_sep name = true -> client_type_of name s = Some t -> metadata_path t path = true -> v <> [] ->
      step s (client_store_set name path v s)
  | StClientStoreDelete name path :
      no_sep name = true -> path <> host_KeyClientState -> step s (client_store_delete name path s)
  | StClearClientStore name : no_sep name = true -> step s (clear_client_store name s)
  | StRegisterRelayer r :
      relayer_valid acc_addr_ok r = true -> r_address r <> [] -> rel_unmarshal (rel_marshal r) = Some r ->
      step s (register_relayer r s)
  | StSetChainName v : valid_chain_name v = true -> step s (set_chain_name v s)
  | StSetPacketAck t data :
      valid_triple t = true -> validate_gen_fields (t_src t) (t_dst t) (t_seq t) = true -> data <> [] ->
      step s (set_packet_ack t data s)
  | StSetPacketCommitment t data :
      valid_triple t = true -> validate_gen_fields (t_src t) (t_dst t) (t_seq t) = true -> data <> [] ->
      step s (set_packet_commitment t data s)
  | StDeletePacketCommitment t : valid_triple t = true -> step s (delete_packet_commitment t s)
  | StSetPacketReceipt t :
      valid_triple t = true -> validate_gen_fields (t_src t) (t_dst t) (t_seq t) = true -> step s (set_packet_receipt t s)
  | StSetNextSequenceSend a b n :
      valid_chain_name a = true -> valid_chain_name b = true -> n < two64 -> validate_gen_fields a b n = true ->
      step s (set_next_sequence_send a b n s)
  | StResetStates : step s (reset_states s).

  (** the stores the module generates: InitGenesis of a genesis that holds only a (valid) native chain name — the
      default genesis — followed by any number of guarded writes *)
  Inductive reach : store -> Prop :=
  | ReachInit v : valid_chain_name v = true -> reach (set_chain_name v [])
  | ReachStep s s' : reach s -> step s s' -> reach s'.
End Ops.

(** * The aggregate store: the writes of x/aggregate/keeper (token_pairs.go, proposals.go, msg_server.go)

    [agg_register]        RegisterCoin / RegisterERC20 / the second half of UpdateTokenPairERC20:
                          SetTokenPair, SetDenomsMap(pair.Denoms), SetERC20Map
    [agg_delete]          DeleteTokenPair: the pair entry, its ERC-20 index entry, the index entry of every denomination
    [agg_set_pair]        ToggleTokenRelay: SetTokenPair of the same pair with another Enabled flag (same contract, denominations)
    [agg_add_denom]       AddCoin: SetTokenPair of the pair with one more denomination, SetDenomMap of that denomination *)
Section AggOps.
  Variable tp_unmarshal : bytes -> option token_pair.
  Variable tp_marshal : token_pair -> bytes.
  Variable sha256 hex_to_address : bytes -> bytes.

  Notation id_of := (id_or_nil sha256).
  Notation pair_writes := (pair_writes tp_marshal hex_to_address).
  Notation agg_pairs := (agg_pairs tp_unmarshal).

  Definition pair_key (p : token_pair) : bytes := aggregate_KeyPrefixTokenPair ++ id_of p.
  Definition erc20_key (p : token_pair) : bytes := aggregate_KeyPrefixTokenPairByERC20 ++ hex_to_address (tp_erc20 p).
  Definition denom_key (d : bytes) : bytes := aggregate_KeyPrefixTokenPairByDenom ++ d.

  Definition agg_register (p : token_pair) (s : store) : store := apply_writes (pair_writes p (id_of p)) s.
  Definition agg_delete (p : token_pair) (s : store) : store :=
    filter (fun kv => negb (bmem (fst kv) (map fst (pair_writes p (id_of p))))) s.
  Definition agg_set_pair (p' : token_pair) (s : store) : store := aset (pair_key p') (tp_marshal p') s.
  Definition with_denom (p : token_pair) (d : bytes) : token_pair :=
    {| tp_erc20 := tp_erc20 p; tp_denoms := tp_denoms p ++ [d]; tp_enabled := tp_enabled p; tp_owner := tp_owner p |}.
  Definition agg_add_denom (p : token_pair) (d : bytes) (s : store) : store :=
    aset (denom_key d) (id_of (with_denom p d)) (aset (pair_key (with_denom p d)) (tp_marshal (with_denom p d)) s).

  Inductive agg_step (s : store) : store -> Prop :=
  | AggRegister p :
      tp_denoms p <> [] -> tp_unmarshal (tp_marshal p) = Some p ->
      (forall kv, In kv (pair_writes p (id_of p)) -> aget (fst kv) s = None) ->   (* id, contract and denominations are new *)
      agg_step s (agg_register p s)
  | AggDelete p : In p (agg_pairs s) -> agg_step s (agg_delete p s)
  | AggSetPair p p' :
      In p (agg_pairs s) -> tp_erc20 p' = tp_erc20 p -> tp_denoms p' = tp_denoms p -> tp_unmarshal (tp_marshal p') = Some p' ->
      agg_step s (agg_set_pair p' s)
  | AggAddDenom p d :
      In p (agg_pairs s) -> aget (denom_key d) s = None -> tp_unmarshal (tp_marshal (with_denom p d)) = Some (with_denom p d) ->
      agg_step s (agg_add_denom p d s).

  Inductive agg_reach : store -> Prop :=
  | AggReachInit : agg_reach []
  | AggReachStep s s' : agg_reach s -> agg_step s s' -> agg_reach s'.
End AggOps.
