(** Correspondence and monitor definitions for C12, evaluated by [vm_compute] on the operation sequences
    the harness ran on the real code (no proofs here).

    A case carries the oracle tables (the REAL [TokenPair.GetID] for every (text, denomination) of the
    case, the REAL [Address.Hex()] for every address) and, per step, the operation with its environment
    inputs, the observed outcome class, the raw dump of the three store prefixes + the bank metadata, and
    the answers of [GetTokenPairID] / [MintingEnabled] for every token string of the case. *)
From Teleport Require Import Base.Bytes Base.Outcome Base.AList Model.Registry Model.RegistryExport.

Record ostep := {
  os_op : op;
  os_class : nat;                      (* 0 ok, 1 error, 2 panic, 3 refused by ValidateBasic *)
  os_after : state;                    (* the implementation's stores after the step *)
  os_other : nat;                      (* keys of the aggregate store outside the three prefixes *)
  os_toks : list bytes;                (* token strings queried after the step *)
  os_ids : list bytes;                 (* GetTokenPairID(tok), [] = nil *)
  os_me : list (nat * (nat * nat));    (* (token index, denom index, index of the returned pair in the dump) *)
  os_me_bad : nat;                     (* MintingEnabled returned a pair that is not the stored one *)
  os_export : nat                      (* ExportGenesis of the registry after the step: 0 = validates and re-imports into an
                                          empty registry to the same three prefixes, 1 = GenesisState.Validate refuses it,
                                          2 = panic, 4 = the re-import differs, 5 = export is not prefix 0x01 in key order *)
}.

Record rcase := {
  c_idtab : list (bytes * (bytes * bytes));   (* (text, (denom, id)) *)
  c_canon : list (bytes * bytes);             (* (address, text) *)
  c_evm_denom : bytes;
  c_steps : list ostep }.

Definition MISS : bytes := B "?oracle-miss".

Fixpoint hid_of (tab : list (bytes * (bytes * bytes))) (t d : bytes) : bytes :=
  match tab with
  | [] => MISS
  | (t', (d', id)) :: r => if bytes_eqb t t' && bytes_eqb d d' then id else hid_of r t d
  end.

Definition canon_of (tab : list (bytes * bytes)) (a : bytes) : bytes :=
  match aget a tab with Some t => t | None => MISS end.

(** ** Equality tests on dumps *)

Fixpoint list_eqb {A} (eqb : A -> A -> bool) (a b : list A) : bool :=
  match a, b with
  | [], [] => true
  | x :: a', y :: b' => eqb x y && list_eqb eqb a' b'
  | _, _ => false
  end.

Definition pair_eqb (a b : pair) : bool :=
  bytes_eqb (p_text a) (p_text b) && list_eqb bytes_eqb (p_denoms a) (p_denoms b) &&
  Bool.eqb (p_enabled a) (p_enabled b) && N.eqb (p_owner a) (p_owner b).

Definition unit_eqb (a b : bytes * N) : bool := bytes_eqb (fst a) (fst b) && N.eqb (snd a) (snd b).

Definition md_eqb (a b : metadata) : bool :=
  bytes_eqb (md_desc a) (md_desc b) && list_eqb unit_eqb (md_units a) (md_units b) &&
  bytes_eqb (md_base a) (md_base b) && bytes_eqb (md_display a) (md_display b) &&
  bytes_eqb (md_name a) (md_name b) && bytes_eqb (md_symbol a) (md_symbol b).

Definition kv_eqb {V} (eqb : V -> V -> bool) (a b : bytes * V) : bool :=
  bytes_eqb (fst a) (fst b) && eqb (snd a) (snd b).

Fixpoint index_of (id : bytes) (l : alist pair) (i : nat) : nat :=
  match l with
  | [] => 999
  | (k, _) :: r => if bytes_eqb k id then i else index_of id r (S i)
  end.

Fixpoint number {A} (i : nat) (l : list A) : list (nat * A) :=
  match l with [] => [] | x :: l' => (i, x) :: number (S i) l' end.

Definition triple_eqb (a b : nat * (nat * nat)) : bool :=
  Nat.eqb (fst a) (fst b) && Nat.eqb (fst (snd a)) (fst (snd b)) && Nat.eqb (snd (snd a)) (snd (snd b)).

Fixpoint nodup_b (l : list bytes) : bool :=
  match l with [] => true | x :: r => negb (existsb (bytes_eqb x) r) && nodup_b r end.

(** ** Model versus implementation *)

Section Cmp.
  Variable hid : bytes -> bytes -> bytes.
  Variable canon : bytes -> bytes.
  Variable evmd : bytes.

  Definition model_me (s : state) (toks : list bytes) : list (nat * (nat * nat)) :=
    flat_map (fun it =>
      flat_map (fun jd =>
        match minting_enabled head s (snd it) (snd jd) with
        | Ok p => match pair_id hid p with
                  | Ok id => [(fst it, (fst jd, index_of id (st_pairs s) 0))]
                  | _ => [(fst it, (fst jd, 998%nat))]
                  end
        | _ => []
        end) (number 0 toks)) (number 0 toks).

  Definition has_miss (s : state) : bool :=
    existsb (fun kv => bytes_eqb (fst kv) MISS || bytes_eqb (p_text (snd kv)) MISS) (st_pairs s).

  (* kinds: 1 outcome class, 2 pair records, 3 address index, 4 denom index, 5 bank metadata, 6 enable flag,
     7 GetTokenPairID, 8 MintingEnabled, 9 the model asked the oracle something the implementation never
     computed, 10 unknown keys in the aggregate store, 11 GenesisState.Validate of the exported registry (model's verdict on
     its own state versus the code's), 12 the branch classifier of Model/RegistryExport.v disagrees with the model's step
     (internal consistency of the coverage measurement), 13 an observed value of GetID / Address.Hex violates the oracle
     hypotheses of the theorems, 14 an executed operation violates the environment hypotheses ([admissible]) *)
  Fixpoint cmp_steps (i : nat) (s : state) (l : list ostep) : list (nat * nat) :=
    match l with
    | [] => []
    | o :: l' =>
        let '(s', cl) := step hid canon evmd head s (os_op o) in
        let impl := os_after o in
        if negb (Nat.eqb (branch_class (branch evmd canon s (os_op o))) cl) then [(i, 12%nat)] else
        if negb (Nat.eqb cl 9 || Nat.eqb cl (os_class o)) then [(i, 1%nat)] else
        if has_miss s' then [(i, 9%nat)] else
        if negb (list_eqb (kv_eqb pair_eqb) (st_pairs s') (st_pairs impl)) then [(i, 2%nat)] else
        if negb (list_eqb (kv_eqb bytes_eqb) (st_erc20 s') (st_erc20 impl)) then [(i, 3%nat)] else
        if negb (list_eqb (kv_eqb bytes_eqb) (st_denom s') (st_denom impl)) then [(i, 4%nat)] else
        if negb (list_eqb (kv_eqb md_eqb) (st_meta s') (st_meta impl)) then [(i, 5%nat)] else
        if negb (Bool.eqb (st_enable s') (st_enable impl)) then [(i, 6%nat)] else
        if negb (Nat.eqb (os_other o) 0) then [(i, 10%nat)] else
        if negb (list_eqb bytes_eqb (map (get_token_pair_id s') (os_toks o)) (os_ids o)) then [(i, 7%nat)] else
        if negb (Nat.eqb (os_me_bad o) 0 && list_eqb triple_eqb (model_me s' (os_toks o)) (os_me o)) then [(i, 8%nat)] else
        if negb (Bool.eqb (export_validates head s') (negb (Nat.eqb (os_export o) 1))) then [(i, 11%nat)] else
        cmp_steps (S i) s' l'
    end.
End Cmp.

(** the environment hypotheses of the theorems ([admissible]) as a Boolean: the address RegisterCoin's deployment
    creates is a 20-byte address not in the ERC20 index; a genesis is imported into an empty registry *)
Definition admissible_b (s : state) (o : op) : bool :=
  match o with
  | ORegisterCoin _ deploy _ => Nat.eqb (length deploy) 20 && negb (ahas deploy (st_erc20 s))
  | OGenesis _ _ =>
      match st_pairs s, st_erc20 s, st_denom s with [], [], [] => true | _, _, _ => false end
  | _ => true
  end.

Fixpoint adm_steps (hid : bytes -> bytes -> bytes) (canon : bytes -> bytes) (evmd : bytes) (i : nat) (s : state) (l : list ostep) : list (nat * nat) :=
  match l with
  | [] => []
  | o :: l' => (if admissible_b s (os_op o) then [] else [(i, 14%nat)]) ++
               adm_steps hid canon evmd (S i) (fst (step hid canon evmd head s (os_op o))) l'
  end.

(** the oracle hypotheses of the theorems, checked on every OBSERVED value of the real functions: Address.Hex(a) is a
    hex address that parses back to the 20-byte [a]; GetID is never empty and takes different values on different
    (hex-address text, denomination) arguments *)
Definition oracle_ok (c : rcase) : bool :=
  forallb (fun e => Nat.eqb (length (fst e)) 20 && is_hex_address (snd e) && bytes_eqb (addr_of (snd e)) (fst e)) (c_canon c) &&
  forallb (fun e => match snd (snd e) with [] => false | _ => true end) (c_idtab c) &&
  nodup_b (map (fun e => snd (snd e)) (filter (fun e => is_hex_address (fst e)) (c_idtab c))).

Definition cmp_case (c : rcase) : list (nat * nat) :=
  (if oracle_ok c then [] else [(0%nat, 13%nat)]) ++
  adm_steps (hid_of (c_idtab c)) (canon_of (c_canon c)) (c_evm_denom c) 0 empty_state (c_steps c) ++
  cmp_steps (hid_of (c_idtab c)) (canon_of (c_canon c)) (c_evm_denom c) 0 empty_state (c_steps c).

Definition mismatches (cs : list rcase) : list (nat * (nat * nat)) :=
  flat_map (fun ic => map (fun m => (fst ic, m)) (cmp_case (snd ic))) (number 0 cs).

(** ** Which branch of the code every step took (according to the model, which agrees with the code on every
    compared step): the measured reach of the generator *)
Fixpoint br_steps (hid : bytes -> bytes -> bytes) (canon : bytes -> bytes) (evmd : bytes) (s : state) (l : list ostep) : list nat :=
  match l with
  | [] => []
  | o :: l' => branch evmd canon s (os_op o) :: br_steps hid canon evmd (fst (step hid canon evmd head s (os_op o))) l'
  end.

Definition branches (cs : list rcase) : list nat :=
  flat_map (fun c => br_steps (hid_of (c_idtab c)) (canon_of (c_canon c)) (c_evm_denom c) empty_state (c_steps c)) cs.

(** ** Monitors: the property itself, evaluated on the IMPLEMENTATION's dumps alone. *)

Section Mon.
  Variable hid : bytes -> bytes -> bytes.

  (* every stored pair: non-empty duplicate-free denominations, a hex-address text, stored under its GetID,
     reachable by its address and by EACH of its denominations *)
  Definition pair_ok (s : state) (id : bytes) (p : pair) : bool :=
    match p_denoms p with
    | [] => false
    | d0 :: _ =>
        nodup_b (p_denoms p) && is_hex_address (p_text p) && bytes_eqb id (hid (p_text p) d0) &&
        match aget (addr_of (p_text p)) (st_erc20 s) with Some id' => bytes_eqb id' id | None => false end &&
        forallb (fun d => match aget d (st_denom s) with Some id' => bytes_eqb id' id | None => false end) (p_denoms p)
    end.

  Definition consistent_b (s : state) : bool :=
    forallb (fun id => match aget id (st_pairs s) with Some p => pair_ok s id p | None => true end) (map fst (st_pairs s)) &&
    (* every address entry points to an existing pair with that address *)
    forallb (fun a => match aget a (st_erc20 s) with
                      | Some id => match aget id (st_pairs s) with
                                   | Some p => bytes_eqb (addr_of (p_text p)) a
                                   | None => false end
                      | None => true end) (map fst (st_erc20 s)) &&
    (* every denomination entry points to an existing pair that lists it *)
    forallb (fun d => match aget d (st_denom s) with
                      | Some id => match aget id (st_pairs s) with
                                   | Some p => existsb (bytes_eqb d) (p_denoms p)
                                   | None => false end
                      | None => true end) (map fst (st_denom s)).

  (* no registered denomination reads as a hex address *)
  Definition nohex_b (s : state) : bool := forallb (fun d => negb (is_hex_address d)) (map fst (st_denom s)).
End Mon.

Fixpoint lookup_tok (toks ids : list bytes) (t : bytes) : option bytes :=
  match toks, ids with
  | t' :: toks', id :: ids' => if bytes_eqb t t' then Some id else lookup_tok toks' ids' t
  | _, _ => None
  end.

Fixpoint tok_index (toks : list bytes) (t : bytes) (i : nat) : option nat :=
  match toks with
  | [] => None
  | t' :: r => if bytes_eqb t t' then Some i else tok_index r t (S i)
  end.

(* the API resolves every pair by its address text and by EACH of its denominations (observed answers of
   GetTokenPairID) *)
Definition resolvable_b (o : ostep) : bool :=
  forallb (fun kv =>
    let id := fst kv in let p := snd kv in
    forallb (fun t => match lookup_tok (os_toks o) (os_ids o) t with Some id' => bytes_eqb id' id | None => false end)
            (p_text p :: p_denoms p)) (st_pairs (os_after o)).

(* observed MintingEnabled: sound (token and denomination both belong to the returned, enabled pair) ... *)
Definition me_sound_b (o : ostep) : bool :=
  Nat.eqb (os_me_bad o) 0 &&
  forallb (fun m =>
    match nth_error (os_toks o) (fst m), nth_error (os_toks o) (fst (snd m)), nth_error (st_pairs (os_after o)) (snd (snd m)) with
    | Some t, Some d, Some (id, p) =>
        st_enable (os_after o) && p_enabled p && existsb (bytes_eqb d) (p_denoms p) &&
        (existsb (bytes_eqb t) (p_denoms p) || (is_hex_address t && bytes_eqb (addr_of t) (addr_of (p_text p))))
    | _, _, _ => false
    end) (os_me o).

Definition me_has (o : ostep) (t d : bytes) (ix : nat) : bool :=
  match tok_index (os_toks o) t 0, tok_index (os_toks o) d 0 with
  | Some i, Some j => existsb (triple_eqb (i, (j, ix))) (os_me o)
  | _, _ => false
  end.

(* ... and complete: while the module and the pair are enabled every denomination converts both ways
   (ConvertCoin passes the denomination twice, ConvertERC20 the contract and the denomination) *)
Definition me_complete_b (o : ostep) : bool :=
  negb (st_enable (os_after o)) ||
  forallb (fun ikv =>
    let ix := fst ikv in let p := snd (snd ikv) in
    negb (p_enabled p) ||
    forallb (fun d => me_has o d d ix && me_has o (p_text p) d ix) (p_denoms p)) (number 0 (st_pairs (os_after o))).

(* the operation explicitly removed / disabled the pair stored under [id] before the step *)
Definition explicit_b (before : ostep) (o : ostep) (id : bytes) : bool :=
  match os_op o with
  | OToggle t => match lookup_tok (os_toks before) (os_ids before) t with Some id' => bytes_eqb id' id | None => true end
  | OSetEnable b => negb b
  | OConvertCoin _ _ | OConvertERC20 _ _ _ => Nat.eqb (os_class o) 0   (* self-destruct clean-up *)
  | _ => false
  end.

(* convert back: a denomination that converted before the step still converts after it, through a pair that
   still lists every denomination of the old one IN THE SAME ORDER (new ones appended), unless the step explicitly
   removed / disabled that pair *)
Definition convert_back_b (before o : ostep) : bool :=
  forallb (fun m =>
    match nth_error (os_toks before) (fst m), nth_error (os_toks before) (fst (snd m)), nth_error (st_pairs (os_after before)) (snd (snd m)) with
    | Some t, Some d, Some (id, p) =>
        negb (bytes_eqb t d) || explicit_b before o id ||
        existsb (fun ikv => let p' := snd (snd ikv) in
                   me_has o d d (fst ikv) && list_eqb bytes_eqb (p_denoms p) (firstn (length (p_denoms p)) (p_denoms p')) &&
                   N.eqb (p_owner p') (p_owner p))
                (number 0 (st_pairs (os_after o)))
    | _, _, _ => true
    end) (os_me before).

Definition meta_kept_b (before o : ostep) : bool :=
  forallb (fun k => ahas k (st_meta (os_after o))) (map fst (st_meta (os_after before))).

(* kinds: 21 registry not self-consistent, 22 a registered denomination reads as a hex address, 23 a pair is
   not resolvable by its address / one of its denominations through GetTokenPairID, 24 MintingEnabled
   succeeded for a token/denomination outside the returned pair, 25 MintingEnabled refused a listed
   denomination of an enabled pair, 26 convert-back lost, 27 bank metadata removed, 28 panic, 29 the exported genesis of the
   registry does not validate / does not re-import to the same registry, 30 a registered denomination is not a valid bank
   denomination or an address key is not 20 bytes long *)
Fixpoint mon_steps (hid : bytes -> bytes -> bytes) (i : nat) (before : option ostep) (l : list ostep) : list (nat * nat) :=
  match l with
  | [] => []
  | o :: l' =>
      let s := os_after o in
      (if Nat.eqb (os_class o) 2 then match os_op o with OConvertCoin _ _ | OConvertERC20 _ _ _ => [] | _ => [(i, 28%nat)] end else []) ++
      (if consistent_b hid s then [] else [(i, 21%nat)]) ++
      (if nohex_b s then [] else [(i, 22%nat)]) ++
      (if resolvable_b o then [] else [(i, 23%nat)]) ++
      (if me_sound_b o then [] else [(i, 24%nat)]) ++
      (if me_complete_b o then [] else [(i, 25%nat)]) ++
      (if Nat.eqb (os_export o) 0 then [] else [(i, 29%nat)]) ++
      (if valid_denoms_b s && addr_keys_b s then [] else [(i, 30%nat)]) ++
      match before with
      | Some b => (if convert_back_b b o then [] else [(i, 26%nat)]) ++ (if meta_kept_b b o then [] else [(i, 27%nat)])
      | None => []
      end ++
      mon_steps hid (S i) (Some o) l'
  end.

Definition mon_case (c : rcase) : list (nat * nat) := mon_steps (hid_of (c_idtab c)) 0 None (c_steps c).

Definition monitor_failures (cs : list rcase) : list (nat * (nat * nat)) :=
  flat_map (fun ic => map (fun m => (fst ic, m)) (mon_case (snd ic))) (number 0 cs).
