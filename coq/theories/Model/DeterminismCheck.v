(** * C14 — executable checks: inventory coverage, hazard allow-list, replay comparison

    Two decidable questions about the source tree, evaluated by [vm_compute] (the third check of the property, the
    comparison of independent replays, is [Model/ReplayCheck.v] and does not depend on the inventory):
    - [unmatched_sites]: [range]-over-map statements of the regenerated inventory ([Gen/HazardsGen.v:
      map_range_sites_ir], each loop as a term of the loop language of [Model/MapLoopsIR.v]) that the classifier does
      not accept and that are not argued rows — an open proof obligation;
    - [unallowed_hazards]: (file, function) groups of [Gen/HazardsGen.v: other_hazards] whose number of hazardous
      constructs matches no allow-list row below — a new wall-clock read, random source, goroutine, file-system
      access ... in the state machine's source.

    The allow-list is ARGUMENT, not proof: each row names the reason why the value cannot reach state, results
    or events ([reasons]).  A reason id starting with [F_] would mark the source location of an UNREPAIRED finding
    (not harmless, exhibited by the replay engine); there is none at present: the two findings of this property
    (eth-ethash-tmpdir, typed-event-attr-order) are repaired in /repo and their constructs are no longer allowed. *)
From Coq Require Import List String NArith Bool.
From Teleport Require Import Base.Bytes Gen.HazardsGen Model.MapLoops Model.MapLoopsIR.
Import ListNotations.
Local Open Scope string_scope.

(** ** 1. inventory of [range]-over-map statements: classified (proved), argued, or open *)

(** NOT proved — the loop is not a function of the entry set (or is not worth modelling) and the reason why it cannot
    reach state, results or events is given; these rows are part of the "partial" of this property.  Keyed by file,
    function and the hash of the normalised statement (a changed loop re-opens its row; the rest of the enclosing
    function does not matter).  All three are in the ethash remote-sealer goroutine (mining work distribution):
    started by New() -> startRemoteSealer and stopped by Close(); its maps (works, rates) are filled only by the RPC
    channels submitWorkCh / submitRateCh, which nothing in teleport writes to; VerifySeal reads none of its state. *)
Definition argued_sites : list (string * string * string * string) := [
  ("x/xibc/clients/light-clients/eth/types/sealer.go", "*remoteSealer.loop", "6a4b56cc9067b274",
     "float sum of reported hash rates, order-dependent; reaches only Ethash.Hashrate() (mining statistics); the rates map is filled through submitRateCh (RPC), never by the state machine");
  ("x/xibc/clients/light-clients/eth/types/sealer.go", "*remoteSealer.loop", "04c174fb6bf56429",
     "deletes stale mining work packages from remoteSealer.works; filled through workCh (Seal), never by header verification");
  ("x/xibc/clients/light-clients/eth/types/sealer.go", "*remoteSealer.loop", "0dcd198901d8f37f",
     "drops hash-rate reports older than 10 s (time.Since) from remoteSealer.rates; mining statistics only")
].

Definition is_argued (s : site) : bool :=
  existsb (fun a => let '(f, fn, h, _) := a in String.eqb f (s_file s) && String.eqb fn (s_func s) && String.eqb h (s_hash s))
          argued_sites.

(** a collecting loop is covered only when the type it is sorted by is a canonical sorter AND that type's Less method
    in the tree is (textually) the one reviewed in [canonical_sorters] *)
Definition sorter_ok (by_type : string) : bool :=
  existsb (fun c => String.eqb (fst c) by_type &&
                    existsb (fun m => String.eqb (fst m) by_type && String.eqb (snd m) (snd c)) less_methods)
          canonical_sorters.

Inductive verdict := VProved (sh : shape) | VArgued | VOpen (why : string).

Definition site_verdict (s : site) : verdict :=
  match classify s with
  | Some (_, ShCollectSort sl (CmpNamed by_type)) =>
      if sorter_ok by_type then VProved (ShCollectSort sl (CmpNamed by_type))
      else if is_argued s then VArgued
      else VOpen "the collected slice is sorted by a type that is not a reviewed canonical sorter (or its Less method changed)"
  | Some (_, sh) => VProved sh
  | None =>
      if is_argued s then VArgued
      else VOpen "outside the classified fragment (store / search / collect-then-sort): order independence not established"
  end.

(** open obligations (file, function, statement hash, why) — must be empty *)
Definition unmatched_sites : list (string * string * string * string) :=
  flat_map (fun s => match site_verdict s with VOpen why => [(s_file s, s_func s, s_hash s, why)] | _ => [] end)
           map_range_sites_ir.

Definition count_sites (p : verdict -> bool) : N :=
  N.of_nat (List.length (filter (fun s => p (site_verdict s)) map_range_sites_ir)).

Definition sites_found : N := N.of_nat (List.length map_range_sites_ir).
Definition sites_proved : N := count_sites (fun v => match v with VProved _ => true | _ => false end).
Definition sites_argued : N := count_sites (fun v => match v with VArgued => true | _ => false end).
Definition sites_matched : N := (sites_proved + sites_argued)%N.
(** how the proved sites split over the shapes: (store, search, collect-then-sort) *)
Definition sites_by_shape : list N :=
  [count_sites (fun v => match v with VProved ShStore => true | _ => false end);
   count_sites (fun v => match v with VProved ShSearch => true | _ => false end);
   count_sites (fun v => match v with VProved (ShCollectSort _ _) => true | _ => false end)].
(** argued rows whose statement no longer exists in the tree (harmless; reported) *)
Definition stale_table_rows : N :=
  N.of_nat (List.length (filter (fun a => let '(f, fn, h, _) := a in
     negb (existsb (fun s => String.eqb f (s_file s) && String.eqb fn (s_func s) && String.eqb h (s_hash s)) map_range_sites_ir))
     argued_sites)).
(** the two inventories describe the same statements *)
Definition ir_consistent : bool :=
  Nat.eqb (List.length map_range_sites) (List.length map_range_sites_ir).

(** ** 2. every other hazard vs. the allow-list *)

Definition reasons : list (string * string) := [
  ("R_json_sorted", "encoding/json on a map-containing value: Marshal writes map keys in sorted order, Unmarshal yields the same map VALUE whatever the order; any later range over such a map is inventoried on its own");
  ("R_node_home", "app.init computes DefaultNodeHome (os.UserHomeDir + filepath.Join) once at process start: the default of the --home flag, a place for config and database files; never read by BeginBlock/DeliverTx/EndBlock");
  ("R_abigen_client", "abigen-generated client bindings (Watch*/Filter* subscriptions, event iterators: channels, select): they need an RPC backend (bind.ContractBackend) and are never instantiated by the node; the adapters use only the ABI JSON and the event structs (syscontracts.ParseLog)");
  ("R_simulation", "AppModule.RandomizedParams(*rand.Rand): module-simulation interface, called only by the simulation manager (test tooling), with a seeded generator passed in");
  ("R_telemetry", "time.Now feeds telemetry.ModuleMeasureSince / MeasureSince only (metrics sink); the value is never stored, returned or emitted");
  ("R_hasher_pool", "sync.Pool of Keccak-256 hasher states in rlpHash: a pooled hasher is Reset() before every use, so the digest is a function of the argument whichever pooled object is handed out");
  ("R_ethash_mining", "ethash sealing / remote-sealer / hash-rate code (sealer.go, Hashrate, SetThreads): mining and work distribution. New() starts the remote-sealer goroutine and Close() stops it, but its channels are written only by Seal() and by the RPC API, which the light client never calls; VerifySeal reads none of its state");
  ("R_ethash_cache_gen", "generateCache: the goroutine + time.* only LOG progress; unsafe/reflect re-view the []uint32 buffer as bytes (and the words are byte-swapped on big-endian hosts), so the cache words are a function of (epoch, seed)");
  ("R_ethash_full_dag", "full-DAG (dataset) generation: used only when VerifySeal is called with fulldag = true; VerifyCascadingFields passes false");
  ("R_ethash_future_cache", "Ethash.cache starts `go future.generate(...)` to pre-build the NEXT epoch's cache; the current verification uses only `current`, which it waits for synchronously (sync.Once); the pre-built cache is dropped with the Ethash instance (a cost, not a result)");
  ("R_ethash_disk_cache", "memory-mapped cache file under Config.CacheDir: when mapping or creating the file fails, cache.generate falls back to generating the same words in memory, so with a usable directory the result does not depend on the file system; since fix b24f7c9 (finding eth-ethash-tmpdir) VerifyCascadingFields passes CacheDir = "" and this path is not reached at all; any os/ioutil use in VerifyCascadingFields is NOT allowed");
  ("R_ethash_lifecycle", "struct fields / constructor / Close of the Ethash engine: channels, mutexes, sync.Once and a *rand.Rand that belong to sealing (see R_ethash_mining) and to the one-time cache generation");
  ("R_endianness", "isLittleEndian inspects the host byte order through unsafe.Pointer so that cache words are swapped to the canonical (little-endian) layout: it makes the result independent of the host");
  ("R_keepalive", "runtime.KeepAlive keeps the cache object reachable until hashimoto returns (garbage-collection liveness only)");
  ("R_typed_event_sorted", "types.EmitTypedEvent (fix b88fea5 of finding typed-event-attr-order): sdk.TypedEventToEvent — whose attribute order is the iteration order of a Go map in cosmos-sdk v0.45.2 — is followed by a stable sort of the attributes by key before the event is emitted; a direct EventManager.EmitTypedEvent call is NOT allowed anywhere")
].

(** (file, function, total number of hazardous constructs in that function, reason id) *)
Definition allow_list : list (string * string * N * string) := [
  ("app/app.go", "*Teleport.InitChainer", 1%N, "R_json_sorted");
  ("app/app.go", "init", 2%N, "R_node_home");
  ("app/export.go", "*Teleport.ExportAppStateAndValidators", 1%N, "R_json_sorted");
  ("app/test_helpers.go", "Setup", 1%N, "R_json_sorted");
  ("syscontracts/bin_runtime.go", "*CompiledContract.UnmarshalJSON", 1%N, "R_json_sorted");
  ("syscontracts/bin_runtime.go", "CompiledContract.MarshalJSON", 1%N, "R_json_sorted");
  ("syscontracts/erc20/erc20.go", "init", 1%N, "R_json_sorted");
  ("syscontracts/erc20/erc20_burnable.go", "init", 1%N, "R_json_sorted");
  ("syscontracts/erc20/erc20_direct_balance_manipulation.go", "init", 1%N, "R_json_sorted");
  ("syscontracts/erc20/erc20_malicious_delayed.go", "init", 1%N, "R_json_sorted");
  ("syscontracts/gov/generated.go", "*GovFilterer.WatchVoted", 10%N, "R_abigen_client");
  ("syscontracts/gov/generated.go", "*GovFilterer.WatchVotedWeighted", 10%N, "R_abigen_client");
  ("syscontracts/gov/generated.go", "*GovVotedIterator.Next", 5%N, "R_abigen_client");
  ("syscontracts/gov/generated.go", "*GovVotedWeightedIterator.Next", 5%N, "R_abigen_client");
  ("syscontracts/gov/generated.go", "<type GovVotedIterator>", 1%N, "R_abigen_client");
  ("syscontracts/gov/generated.go", "<type GovVotedWeightedIterator>", 1%N, "R_abigen_client");
  ("syscontracts/gov/gov.go", "init", 1%N, "R_json_sorted");
  ("syscontracts/staking/generated.go", "*StakingDelegatedIterator.Next", 5%N, "R_abigen_client");
  ("syscontracts/staking/generated.go", "*StakingFilterer.WatchDelegated", 10%N, "R_abigen_client");
  ("syscontracts/staking/generated.go", "*StakingFilterer.WatchRedelegated", 10%N, "R_abigen_client");
  ("syscontracts/staking/generated.go", "*StakingFilterer.WatchUndelegated", 10%N, "R_abigen_client");
  ("syscontracts/staking/generated.go", "*StakingFilterer.WatchWithdrew", 10%N, "R_abigen_client");
  ("syscontracts/staking/generated.go", "*StakingRedelegatedIterator.Next", 5%N, "R_abigen_client");
  ("syscontracts/staking/generated.go", "*StakingUndelegatedIterator.Next", 5%N, "R_abigen_client");
  ("syscontracts/staking/generated.go", "*StakingWithdrewIterator.Next", 5%N, "R_abigen_client");
  ("syscontracts/staking/generated.go", "<type StakingDelegatedIterator>", 1%N, "R_abigen_client");
  ("syscontracts/staking/generated.go", "<type StakingRedelegatedIterator>", 1%N, "R_abigen_client");
  ("syscontracts/staking/generated.go", "<type StakingUndelegatedIterator>", 1%N, "R_abigen_client");
  ("syscontracts/staking/generated.go", "<type StakingWithdrewIterator>", 1%N, "R_abigen_client");
  ("syscontracts/staking/staking.go", "init", 1%N, "R_json_sorted");
  ("syscontracts/wtele/wtele.go", "init", 1%N, "R_json_sorted");
  ("syscontracts/xibc_agent/agent.go", "init", 1%N, "R_json_sorted");
  ("syscontracts/xibc_endpoint/endpoint.go", "init", 1%N, "R_json_sorted");
  ("syscontracts/xibc_endpoint/execute.go", "init", 1%N, "R_json_sorted");
  ("syscontracts/xibc_packet/packet.go", "init", 1%N, "R_json_sorted");
  ("x/aggregate/module/module.go", "AppModule.RandomizedParams", 1%N, "R_simulation");
  ("x/rvesting/module/abci.go", "BeginBlocker", 1%N, "R_telemetry");
  ("x/rvesting/module/module.go", "AppModule.InitGenesis", 1%N, "R_telemetry");
  ("x/xibc/clients/light-clients/bsc/types/hashing.go", "<package-level hasherPool>", 1%N, "R_hasher_pool");
  ("x/xibc/clients/light-clients/eth/types/algorithm.go", "generateCache", 17%N, "R_ethash_cache_gen");
  ("x/xibc/clients/light-clients/eth/types/algorithm.go", "generateDataset", 11%N, "R_ethash_full_dag");
  ("x/xibc/clients/light-clients/eth/types/ethash.go", "*Ethash.Close", 2%N, "R_ethash_lifecycle");
  ("x/xibc/clients/light-clients/eth/types/ethash.go", "*Ethash.Hashrate", 7%N, "R_ethash_mining");
  ("x/xibc/clients/light-clients/eth/types/ethash.go", "*Ethash.SetThreads", 2%N, "R_ethash_mining");
  ("x/xibc/clients/light-clients/eth/types/ethash.go", "*Ethash.cache", 1%N, "R_ethash_future_cache");
  ("x/xibc/clients/light-clients/eth/types/ethash.go", "*Ethash.dataset", 2%N, "R_ethash_full_dag");
  ("x/xibc/clients/light-clients/eth/types/ethash.go", "*cache.generate", 4%N, "R_ethash_disk_cache");
  ("x/xibc/clients/light-clients/eth/types/ethash.go", "*dataset.generate", 5%N, "R_ethash_full_dag");
  ("x/xibc/clients/light-clients/eth/types/ethash.go", "*dataset.generated", 1%N, "R_ethash_full_dag");
  ("x/xibc/clients/light-clients/eth/types/ethash.go", "<type Ethash>", 4%N, "R_ethash_lifecycle");
  ("x/xibc/clients/light-clients/eth/types/ethash.go", "<type cache>", 3%N, "R_ethash_disk_cache");
  ("x/xibc/clients/light-clients/eth/types/ethash.go", "<type dataset>", 3%N, "R_ethash_full_dag");
  ("x/xibc/clients/light-clients/eth/types/ethash.go", "<type lru>", 1%N, "R_ethash_lifecycle");
  ("x/xibc/clients/light-clients/eth/types/ethash.go", "New", 1%N, "R_ethash_lifecycle");
  ("x/xibc/clients/light-clients/eth/types/ethash.go", "isLittleEndian", 1%N, "R_endianness");
  ("x/xibc/clients/light-clients/eth/types/ethash.go", "memoryMap", 4%N, "R_ethash_disk_cache");
  ("x/xibc/clients/light-clients/eth/types/ethash.go", "memoryMapAndGenerate", 7%N, "R_ethash_disk_cache");
  ("x/xibc/clients/light-clients/eth/types/ethash.go", "memoryMapFile", 9%N, "R_ethash_disk_cache");
  ("x/xibc/clients/light-clients/eth/types/hashing.go", "<package-level hasherPool>", 1%N, "R_hasher_pool");
  ("x/xibc/clients/light-clients/eth/types/sealer.go", "*Ethash.Seal", 24%N, "R_ethash_mining");
  ("x/xibc/clients/light-clients/eth/types/sealer.go", "*Ethash.mine", 8%N, "R_ethash_mining");
  ("x/xibc/clients/light-clients/eth/types/sealer.go", "*remoteSealer.loop", 18%N, "R_ethash_mining");
  ("x/xibc/clients/light-clients/eth/types/sealer.go", "*remoteSealer.notifyWork", 1%N, "R_ethash_mining");
  ("x/xibc/clients/light-clients/eth/types/sealer.go", "*remoteSealer.submitWork", 5%N, "R_ethash_mining");
  ("x/xibc/clients/light-clients/eth/types/sealer.go", "<type hashrate>", 1%N, "R_ethash_mining");
  ("x/xibc/clients/light-clients/eth/types/sealer.go", "<type mineResult>", 1%N, "R_ethash_mining");
  ("x/xibc/clients/light-clients/eth/types/sealer.go", "<type remoteSealer>", 10%N, "R_ethash_mining");
  ("x/xibc/clients/light-clients/eth/types/sealer.go", "<type sealTask>", 1%N, "R_ethash_mining");
  ("x/xibc/clients/light-clients/eth/types/sealer.go", "<type sealWork>", 2%N, "R_ethash_mining");
  ("x/xibc/clients/light-clients/eth/types/sealer.go", "startRemoteSealer", 9%N, "R_ethash_mining");
  ("x/xibc/clients/light-clients/eth/types/verify_header.go", "*Ethash.VerifySeal", 2%N, "R_keepalive");
  ("x/xibc/module/module.go", "AppModule.RandomizedParams", 1%N, "R_simulation");
  ("types/events.go", "EmitTypedEvent", 1%N, "R_typed_event_sorted")
].

(** hazards grouped by (file, function): the inventory is sorted, so groups are runs *)
Fixpoint group_hazards (l : list (string * string * string * string * N)) (acc : list (string * string * N))
  : list (string * string * N) :=
  match l with
  | [] => rev acc
  | (f, fn, _, _, c) :: t =>
      match acc with
      | (f', fn', c') :: acc' =>
          if String.eqb f f' && String.eqb fn fn' then group_hazards t ((f, fn, (c + c')%N) :: acc')
          else group_hazards t ((f, fn, c) :: acc)
      | [] => group_hazards t [(f, fn, c)]
      end
  end.

Definition hazard_groups : list (string * string * N) := group_hazards other_hazards [].

Definition allow_of (g : string * string * N) : option string :=
  let '(f, fn, c) := g in
  match find (fun a => let '(f', fn', c', _) := a in String.eqb f f' && String.eqb fn fn' && N.eqb c c') allow_list with
  | Some (_, _, _, r) => Some r
  | None => None
  end.

Definition has_reason (r : string) : bool := existsb (fun p => String.eqb r (fst p)) reasons.

(** what a reason is ABOUT: (reason id, admissible (kind, detail prefix) pairs).  A group allowed for such a reason must
    consist of these constructs only — e.g. [R_telemetry] covers a wall-clock read only when the translator established
    that the value read flows nowhere but into a metrics call ("[only into telemetry]": direct argument of a
    cosmos-sdk/telemetry or go-metrics function, or a fresh variable all of whose uses are such arguments).  Reasons not
    listed (the vendored ethash engine, the generated contract bindings) cover whole functions whatever the kind. *)
Definition reason_scope : list (string * list (string * string)) := [
  ("R_json_sorted", [("json-map", "json.")]);
  ("R_node_home", [("os", "os.UserHomeDir"); ("filepath", "path/filepath.Join")]);
  ("R_simulation", [("math-rand", "math/rand.Rand")]);
  ("R_telemetry", [("wall-clock", "time.Now [only into telemetry]"); ("wall-clock", "time.Since [only into telemetry]")]);
  ("R_hasher_pool", [("sync", "sync.Pool")]);
  ("R_endianness", [("unsafe", "unsafe.Pointer")]);
  ("R_keepalive", [("runtime", "runtime.KeepAlive")]);
  ("R_typed_event_sorted", [("sdk-typed-event", "sdk.TypedEventToEvent")])
].

Definition in_scope (r kind detail : string) : bool :=
  match find (fun p => String.eqb r (fst p)) reason_scope with
  | Some (_, sc) => existsb (fun kd => String.eqb kind (fst kd) && String.prefix (snd kd) detail) sc
  | None => true
  end.

(** every construct of the group (file, function) is of a kind its reason is about *)
Definition group_in_scope (f fn r : string) : bool :=
  forallb (fun h => let '(f', fn', kind, detail, _) := h in
                    negb (String.eqb f f' && String.eqb fn fn') || in_scope r kind detail) other_hazards.

(** groups that are new, or whose number of hazardous constructs changed, or whose reason id is undefined, or that
    contain a construct their reason does not cover — must be empty *)
Definition unallowed_hazards : list (string * string * N) :=
  filter (fun g => match allow_of g with
                   | Some r => negb (has_reason r) || negb (group_in_scope (fst (fst g)) (snd (fst g)) r)
                   | None => true
                   end) hazard_groups.

Definition is_finding_reason (r : string) : bool := String.prefix "F_" r.

(** groups allowed only as the location of a known finding (reason ids, with multiplicity) *)
Definition finding_groups : list string :=
  flat_map (fun g => match allow_of g with Some r => if is_finding_reason r then [r] else [] | None => [] end) hazard_groups.

Definition hazards_found : N := N.of_nat (List.length hazard_groups).
Definition hazard_constructs : N := fold_left (fun a g => (a + snd g)%N) hazard_groups 0%N.
Definition hazards_allowed : N := (hazards_found - N.of_nat (List.length unallowed_hazards) - N.of_nat (List.length finding_groups))%N.

(** ** 3. the ETH seal verification's configuration, regenerated: EVERY construction of the ethash engine outside the
    engine's own files receives a Config whose cache directory is the empty string (in-memory cache; the Config is
    resolved through once-assigned variables and parameterless helpers; an unresolved one has a "?" field), there is at
    least one, and EVERY call of VerifySeal outside them passes fulldag = false — the two premises under which
    [Props/C14.v: eth_seal_env_independent] applies.  Where in the package the construction and the call sit does not
    matter (they may be moved into helpers). *)
Definition assoc_str (k : string) (l : list (string * string)) : option string :=
  match find (fun p => String.eqb k (fst p)) l with Some p => Some (snd p) | None => None end.

(** a Config literal without a CacheDir field has the zero value "" *)
Definition config_in_memory (fields : list (string * string)) : bool :=
  negb (existsb (fun p => String.eqb "?" (fst p)) fields) &&
  Nat.leb (List.length (filter (fun p => String.eqb "CacheDir" (fst p)) fields)) 1 &&
  match assoc_str "CacheDir" fields with
  | Some v => String.eqb v """"""
  | None => true
  end.

Definition seal_call_light (args : list (string * string)) : bool :=
  match assoc_str "1" args with Some v => String.eqb v "false" | None => false end.

Definition eth_seal_config_ok : bool :=
  match eth_engine_constructions with [] => false | _ => true end &&
  forallb (fun u => config_in_memory (snd u)) eth_engine_constructions &&
  match eth_verify_seal_calls with [] => false | _ => true end &&
  forallb (fun u => seal_call_light (snd u)) eth_verify_seal_calls.

(** the whole static side condition *)
Definition inventory_ok : bool :=
  N.eqb typecheck_errors 0 && ir_consistent && eth_seal_config_ok &&
  match unmatched_sites with [] => true | _ => false end &&
  match unallowed_hazards with [] => true | _ => false end.
