(** * C14 — executable checks: inventory coverage, hazard allow-list, replay comparison

    Two decidable questions about the source tree, evaluated by [vm_compute] (the third check of the property, the
    comparison of independent replays, is [Model/ReplayCheck.v] and does not depend on the inventory):
    - [unmatched_sites]: rows of the regenerated inventory ([Gen/HazardsGen.v: map_range_sites]) that match no row
      of [Model/MapLoops.v: site_table] — a new or changed [range]-over-map statement = an open proof obligation;
    - [unallowed_hazards]: (file, function) groups of [Gen/HazardsGen.v: other_hazards] whose number of hazardous
      constructs matches no allow-list row below — a new wall-clock read, random source, goroutine, file-system
      access ... in the state machine's source.

    The allow-list is ARGUMENT, not proof: each row names the reason why the value cannot reach state, results
    or events ([reasons]).  A reason id starting with [F_] would mark the source location of an UNREPAIRED finding
    (not harmless, exhibited by the replay engine); there is none at present: the two findings of this property
    (eth-ethash-tmpdir, typed-event-attr-order) are repaired in /repo and their constructs are no longer allowed. *)
From Coq Require Import List String NArith Bool.
From Teleport Require Import Base.Bytes Gen.HazardsGen Model.MapLoops.
Import ListNotations.
Local Open Scope string_scope.

(** ** 1. inventory of [range]-over-map statements vs. the table *)

Definition site_key (s : string * string * string * string * string * string) : string * string * string * string :=
  let '(f, fn, _, h, fh, _) := s in (f, fn, h, fh).

Definition key_eqb (a b : string * string * string * string) : bool :=
  let '(f1, g1, h1, k1) := a in let '(f2, g2, h2, k2) := b in
  String.eqb f1 f2 && String.eqb g1 g2 && String.eqb h1 h2 && String.eqb k1 k2.

Definition table_key (t : string * string * string * string * disposition) : string * string * string * string :=
  let '(f, fn, h, fh, _) := t in (f, fn, h, fh).

Definition lookup_site (k : string * string * string * string) : option disposition :=
  match find (fun t => key_eqb k (table_key t)) site_table with
  | Some (_, _, _, _, d) => Some d
  | None => None
  end.

(** inventory rows without a table row (file, function, statement hash, function hash) — must be empty *)
Definition unmatched_sites : list (string * string * string * string) :=
  filter (fun k => match lookup_site k with None => true | Some _ => false end) (map site_key map_range_sites).

Definition is_proved (d : disposition) : bool := match d with Proved _ => true | Argued _ => false end.

Definition sites_found : N := N.of_nat (List.length map_range_sites).
Definition sites_matched : N :=
  N.of_nat (List.length (filter (fun k => match lookup_site k with Some _ => true | None => false end) (map site_key map_range_sites))).
Definition sites_proved : N :=
  N.of_nat (List.length (filter (fun k => match lookup_site k with Some d => is_proved d | None => false end) (map site_key map_range_sites))).
Definition sites_argued : N := (sites_matched - sites_proved)%N.
(** rows of the table whose statement no longer exists in the tree (harmless; reported) *)
Definition stale_table_rows : N :=
  N.of_nat (List.length (filter (fun t => negb (existsb (fun s => key_eqb (site_key s) (table_key t)) map_range_sites)) site_table)).

(** ** 2. every other hazard vs. the allow-list *)

Definition reasons : list (string * string) := [
  ("R_json_sorted", "encoding/json on a map-containing value: Marshal writes map keys in sorted order, Unmarshal yields the same map VALUE whatever the order; any later range over such a map is inventoried on its own");
  ("R_node_home", "app.init computes DefaultNodeHome (os.UserHomeDir + filepath.Join) once at process start: the default of the --home flag, a place for config and database files; never read by BeginBlock/DeliverTx/EndBlock");
  ("R_abigen_client", "abigen-generated client bindings (Watch*/Filter* subscriptions, event iterators: channels, select): they need an RPC backend (bind.ContractBackend) and are never instantiated by the node; the adapters use only the ABI JSON and the event structs (syscontracts.ParseLog)");
  ("R_simulation", "AppModule.RandomizedParams(*rand.Rand): module-simulation interface, called only by the simulation manager (test tooling), with a seeded generator passed in");
  ("R_telemetry", "time.Now feeds telemetry.ModuleMeasureSince / MeasureSince only (metrics sink); the value is never stored, returned or emitted");
  ("R_hasher_pool", "sync.Pool of Keccak-256 hasher states in rlpHash: a pooled hasher is Reset() before every use, so the digest is a function of the argument whichever pooled object is handed out");
  ("R_ethash_mining", "ethash sealing / remote-sealer / hash-rate code (sealer.go, Hashrate, SetThreads): mining and work distribution. New() starts the remote-sealer goroutine and Close() stops it, but its channels are written only by Seal() and by the RPC API, which the light client never calls; VerifySeal reads none of its state");
  ("R_ethash_cache_gen", "generateCache: the goroutine + time.* only LOG progress; unsafe/reflect re-view the []uint32 buffer as bytes (and the words are byte-swapped on big-endian hosts), so the cache words are a function of (epoch, seed)");
  ("R_ethash_full_dag", "full-DAG (dataset) generation: used only when VerifySeal is called with fulldag = true; VerifyCascadingFields passes false");
  ("R_ethash_future_cache", "Ethash.cache starts `go future.generate(...)` to pre-build the NEXT epoch's cache; the current verification uses only `current`, which it waits for synchronously (sync.Once); the pre-built cache is dropped with the Ethash instance (a cost, not a result)");
  ("R_ethash_disk_cache", "memory-mapped cache file under Config.CacheDir: when mapping or creating the file fails, cache.generate falls back to generating the same words in memory, so with a usable directory the result does not depend on the file system; since fix b24f7c9 (finding eth-ethash-tmpdir) VerifyCascadingFields passes CacheDir = "" and this path is not reached at all; any os/ioutil use in VerifyCascadingFields is NOT allowed");
  ("R_ethash_lifecycle", "struct fields / constructor / Close of the Ethash engine: channels, mutexes, sync.Once and a *rand.Rand that belong to sealing (see R_ethash_mining) and to the one-time cache generation");
  ("R_endianness", "isLittleEndian inspects the host byte order through unsafe.Pointer so that cache words are swapped to the canonical (little-endian) layout: it makes the result independent of the host");
  ("R_keepalive", "runtime.KeepAlive keeps the cache object reachable until hashimoto returns (garbage-collection liveness only)");
  ("R_typed_event_sorted", "types.EmitTypedEvent (fix b88fea5 of finding typed-event-attr-order): sdk.TypedEventToEvent — whose attribute order is the iteration order of a Go map in cosmos-sdk v0.45.2 — is followed by a stable sort of the attributes by key before the event is emitted; a direct EventManager.EmitTypedEvent call is NOT allowed anywhere")
].

(** (file, function, total number of hazardous constructs in that function, reason id) *)
Definition allow_list : list (string * string * N * string) := [
  ("app/app.go", "*Teleport.InitChainer", 1%N, "R_json_sorted");
  ("app/app.go", "init", 2%N, "R_node_home");
  ("app/export.go", "*Teleport.ExportAppStateAndValidators", 1%N, "R_json_sorted");
  ("app/test_helpers.go", "Setup", 1%N, "R_json_sorted");
  ("syscontracts/bin_runtime.go", "*CompiledContract.UnmarshalJSON", 1%N, "R_json_sorted");
  ("syscontracts/bin_runtime.go", "CompiledContract.MarshalJSON", 1%N, "R_json_sorted");
  ("syscontracts/erc20/erc20.go", "init", 1%N, "R_json_sorted");
  ("syscontracts/erc20/erc20_burnable.go", "init", 1%N, "R_json_sorted");
  ("syscontracts/erc20/erc20_direct_balance_manipulation.go", "init", 1%N, "R_json_sorted");
  ("syscontracts/erc20/erc20_malicious_delayed.go", "init", 1%N, "R_json_sorted");
  ("syscontracts/gov/generated.go", "*GovFilterer.WatchVoted", 10%N, "R_abigen_client");
  ("syscontracts/gov/generated.go", "*GovFilterer.WatchVotedWeighted", 10%N, "R_abigen_client");
  ("syscontracts/gov/generated.go", "*GovVotedIterator.Next", 5%N, "R_abigen_client");
  ("syscontracts/gov/generated.go", "*GovVotedWeightedIterator.Next", 5%N, "R_abigen_client");
  ("syscontracts/gov/generated.go", "<type GovVotedIterator>", 1%N, "R_abigen_client");
  ("syscontracts/gov/generated.go", "<type GovVotedWeightedIterator>", 1%N, "R_abigen_client");
  ("syscontracts/gov/gov.go", "init", 1%N, "R_json_sorted");
  ("syscontracts/staking/generated.go", "*StakingDelegatedIterator.Next", 5%N, "R_abigen_client");
  ("syscontracts/staking/generated.go", "*StakingFilterer.WatchDelegated", 10%N, "R_abigen_client");
  ("syscontracts/staking/generated.go", "*StakingFilterer.WatchRedelegated", 10%N, "R_abigen_client");
  ("syscontracts/staking/generated.go", "*StakingFilterer.WatchUndelegated", 10%N, "R_abigen_client");
  ("syscontracts/staking/generated.go", "*StakingFilterer.WatchWithdrew", 10%N, "R_abigen_client");
  ("syscontracts/staking/generated.go", "*StakingRedelegatedIterator.Next", 5%N, "R_abigen_client");
  ("syscontracts/staking/generated.go", "*StakingUndelegatedIterator.Next", 5%N, "R_abigen_client");
  ("syscontracts/staking/generated.go", "*StakingWithdrewIterator.Next", 5%N, "R_abigen_client");
  ("syscontracts/staking/generated.go", "<type StakingDelegatedIterator>", 1%N, "R_abigen_client");
  ("syscontracts/staking/generated.go", "<type StakingRedelegatedIterator>", 1%N, "R_abigen_client");
  ("syscontracts/staking/generated.go", "<type StakingUndelegatedIterator>", 1%N, "R_abigen_client");
  ("syscontracts/staking/generated.go", "<type StakingWithdrewIterator>", 1%N, "R_abigen_client");
  ("syscontracts/staking/staking.go", "init", 1%N, "R_json_sorted");
  ("syscontracts/wtele/wtele.go", "init", 1%N, "R_json_sorted");
  ("syscontracts/xibc_agent/agent.go", "init", 1%N, "R_json_sorted");
  ("syscontracts/xibc_endpoint/endpoint.go", "init", 1%N, "R_json_sorted");
  ("syscontracts/xibc_endpoint/execute.go", "init", 1%N, "R_json_sorted");
  ("syscontracts/xibc_packet/packet.go", "init", 1%N, "R_json_sorted");
  ("x/aggregate/module/module.go", "AppModule.RandomizedParams", 1%N, "R_simulation");
  ("x/rvesting/module/abci.go", "BeginBlocker", 1%N, "R_telemetry");
  ("x/rvesting/module/module.go", "AppModule.InitGenesis", 1%N, "R_telemetry");
  ("x/xibc/clients/light-clients/bsc/types/hashing.go", "<package-level hasherPool>", 1%N, "R_hasher_pool");
  ("x/xibc/clients/light-clients/eth/types/algorithm.go", "generateCache", 17%N, "R_ethash_cache_gen");
  ("x/xibc/clients/light-clients/eth/types/algorithm.go", "generateDataset", 11%N, "R_ethash_full_dag");
  ("x/xibc/clients/light-clients/eth/types/ethash.go", "*Ethash.Close", 2%N, "R_ethash_lifecycle");
  ("x/xibc/clients/light-clients/eth/types/ethash.go", "*Ethash.Hashrate", 7%N, "R_ethash_mining");
  ("x/xibc/clients/light-clients/eth/types/ethash.go", "*Ethash.SetThreads", 2%N, "R_ethash_mining");
  ("x/xibc/clients/light-clients/eth/types/ethash.go", "*Ethash.cache", 1%N, "R_ethash_future_cache");
  ("x/xibc/clients/light-clients/eth/types/ethash.go", "*Ethash.dataset", 2%N, "R_ethash_full_dag");
  ("x/xibc/clients/light-clients/eth/types/ethash.go", "*cache.generate", 4%N, "R_ethash_disk_cache");
  ("x/xibc/clients/light-clients/eth/types/ethash.go", "*dataset.generate", 5%N, "R_ethash_full_dag");
  ("x/xibc/clients/light-clients/eth/types/ethash.go", "*dataset.generated", 1%N, "R_ethash_full_dag");
  ("x/xibc/clients/light-clients/eth/types/ethash.go", "<type Ethash>", 4%N, "R_ethash_lifecycle");
  ("x/xibc/clients/light-clients/eth/types/ethash.go", "<type cache>", 3%N, "R_ethash_disk_cache");
  ("x/xibc/clients/light-clients/eth/types/ethash.go", "<type dataset>", 3%N, "R_ethash_full_dag");
  ("x/xibc/clients/light-clients/eth/types/ethash.go", "<type lru>", 1%N, "R_ethash_lifecycle");
  ("x/xibc/clients/light-clients/eth/types/ethash.go", "New", 1%N, "R_ethash_lifecycle");
  ("x/xibc/clients/light-clients/eth/types/ethash.go", "isLittleEndian", 1%N, "R_endianness");
  ("x/xibc/clients/light-clients/eth/types/ethash.go", "memoryMap", 4%N, "R_ethash_disk_cache");
  ("x/xibc/clients/light-clients/eth/types/ethash.go", "memoryMapAndGenerate", 7%N, "R_ethash_disk_cache");
  ("x/xibc/clients/light-clients/eth/types/ethash.go", "memoryMapFile", 9%N, "R_ethash_disk_cache");
  ("x/xibc/clients/light-clients/eth/types/hashing.go", "<package-level hasherPool>", 1%N, "R_hasher_pool");
  ("x/xibc/clients/light-clients/eth/types/sealer.go", "*Ethash.Seal", 24%N, "R_ethash_mining");
  ("x/xibc/clients/light-clients/eth/types/sealer.go", "*Ethash.mine", 8%N, "R_ethash_mining");
  ("x/xibc/clients/light-clients/eth/types/sealer.go", "*remoteSealer.loop", 18%N, "R_ethash_mining");
  ("x/xibc/clients/light-clients/eth/types/sealer.go", "*remoteSealer.notifyWork", 1%N, "R_ethash_mining");
  ("x/xibc/clients/light-clients/eth/types/sealer.go", "*remoteSealer.submitWork", 5%N, "R_ethash_mining");
  ("x/xibc/clients/light-clients/eth/types/sealer.go", "<type hashrate>", 1%N, "R_ethash_mining");
  ("x/xibc/clients/light-clients/eth/types/sealer.go", "<type mineResult>", 1%N, "R_ethash_mining");
  ("x/xibc/clients/light-clients/eth/types/sealer.go", "<type remoteSealer>", 10%N, "R_ethash_mining");
  ("x/xibc/clients/light-clients/eth/types/sealer.go", "<type sealTask>", 1%N, "R_ethash_mining");
  ("x/xibc/clients/light-clients/eth/types/sealer.go", "<type sealWork>", 2%N, "R_ethash_mining");
  ("x/xibc/clients/light-clients/eth/types/sealer.go", "startRemoteSealer", 9%N, "R_ethash_mining");
  ("x/xibc/clients/light-clients/eth/types/verify_header.go", "*Ethash.VerifySeal", 2%N, "R_keepalive");
  ("x/xibc/module/module.go", "AppModule.RandomizedParams", 1%N, "R_simulation");
  ("types/events.go", "EmitTypedEvent", 1%N, "R_typed_event_sorted")
].

(** hazards grouped by (file, function): the inventory is sorted, so groups are runs *)
Fixpoint group_hazards (l : list (string * string * string * string * N)) (acc : list (string * string * N))
  : list (string * string * N) :=
  match l with
  | [] => rev acc
  | (f, fn, _, _, c) :: t =>
      match acc with
      | (f', fn', c') :: acc' =>
          if String.eqb f f' && String.eqb fn fn' then group_hazards t ((f, fn, (c + c')%N) :: acc')
          else group_hazards t ((f, fn, c) :: acc)
      | [] => group_hazards t [(f, fn, c)]
      end
  end.

Definition hazard_groups : list (string * string * N) := group_hazards other_hazards [].

Definition allow_of (g : string * string * N) : option string :=
  let '(f, fn, c) := g in
  match find (fun a => let '(f', fn', c', _) := a in String.eqb f f' && String.eqb fn fn' && N.eqb c c') allow_list with
  | Some (_, _, _, r) => Some r
  | None => None
  end.

Definition has_reason (r : string) : bool := existsb (fun p => String.eqb r (fst p)) reasons.

(** groups that are new, or whose number of hazardous constructs changed, or whose reason id is undefined — must be empty *)
Definition unallowed_hazards : list (string * string * N) :=
  filter (fun g => match allow_of g with Some r => negb (has_reason r) | None => true end) hazard_groups.

Definition is_finding_reason (r : string) : bool := String.prefix "F_" r.

(** groups allowed only as the location of a known finding (reason ids, with multiplicity) *)
Definition finding_groups : list string :=
  flat_map (fun g => match allow_of g with Some r => if is_finding_reason r then [r] else [] | None => [] end) hazard_groups.

Definition hazards_found : N := N.of_nat (List.length hazard_groups).
Definition hazard_constructs : N := fold_left (fun a g => (a + snd g)%N) hazard_groups 0%N.
Definition hazards_allowed : N := (hazards_found - N.of_nat (List.length unallowed_hazards) - N.of_nat (List.length finding_groups))%N.

(** the whole static side condition *)
Definition inventory_ok : bool :=
  N.eqb typecheck_errors 0 &&
  match unmatched_sites with [] => true | _ => false end &&
  match unallowed_hazards with [] => true | _ => false end.
