(** * C14 — a loop language for [range]-over-map statements, REGENERATED from the Go source

    [tools/gotocoq/hazards] translates every [for k, v := range m { body }] over a map of the state machine's source
    mechanically into a [site] (statement list [stmt], expressions kept as opaque [expr]: their printed text, the
    variables they read and the functions they call).  This file gives the loop language a semantics ([run_loop]: one
    execution of the loop over ONE enumeration of the map's entries) and a syntactic classifier ([classify]) of the
    loop shapes whose result does not depend on the enumeration; [Proofs/MapLoopsIR.v] proves the classifier sound
    against the semantics.  A site of the regenerated inventory that is neither classified nor on the list of argued
    (unproved) rows is an open obligation ([Model/DeterminismCheck.v: unmatched_sites]).

    Because the obligation is re-derived from the regenerated loop, harmless rewrites (renamed variables, a changed
    error text, edits elsewhere in the enclosing function) re-check silently, while a change that makes the loop
    order dependent (a [break], a counter, a dropped sort, a write to an outer variable) leaves the classified
    fragment. *)
From Coq Require Import List String Bool Permutation.
From Teleport Require Import Model.MapLoops.
Import ListNotations.
Local Open Scope string_scope.
Local Open Scope list_scope.

(** ** Syntax *)

(** an expression the translator does not look into: printed text, the variables it reads (every identifier that
    denotes a variable: locals, parameters, receivers, package-level variables — [snap.Recents] reads [snap]), and the
    functions / methods it CALLS (go/types full names; conversions and method values that are not called are not
    calls).  An expression containing a function literal, a channel receive or any other construct whose value is not a
    function of the variables read is never emitted as [E]: the statement containing it becomes [SOther]. *)
Inductive expr := E (text : string) (reads : list string) (calls : list string).

Definition e_text (e : expr) := let '(E t _ _) := e in t.
Definition e_reads (e : expr) := let '(E _ r _) := e in r.
Definition e_calls (e : expr) := let '(E _ _ c) := e in c.

(** what a sort statement orders by.  A key term says what the comparator looks at in an element; the comparator is
    [CmpNamed T] for sort.Sort(T(s)) (T's Less method), [CmpKey rel via key_type ki kj] for a comparator function whose
    body is [return KI rel KJ] ([via] = "") or [return via(KI, KJ) rel 0] with [via] one of bytes.Compare /
    strings.Compare ([sort.Slice], [sort.SliceStable], [slices.SortFunc], [sort.Strings] ...), [CmpOther] for anything
    else. *)
Inductive keyterm :=
| KElem                                        (* the element itself: s[i], or the comparator's parameter *)
| KMethod (fullname : string) (k : keyterm)    (* k.M()  (no arguments) *)
| KSliceAll (k : keyterm)                      (* k[:] *)
| KConv (to : string) (k : keyterm)            (* T(k) *)
| KOther (text : string).                      (* a field, an index, a prefix k[:n], a call with arguments, ...: not a
                                                  function the whole element can be recovered from *)

Inductive comparator :=
| CmpNamed (type : string)
| CmpKey (rel via key_type : string) (ki kj : keyterm)
| CmpOther (text : string).

Inductive stmt :=
| SStore (m : string) (key val : expr)              (* m[key] = val            (m an identifier) *)
| SAppend (s : string) (val : expr)                 (* s = append(s, val)      (s an identifier) *)
| SLocal (x : string) (e : expr)                    (* x := e                  (a NEW variable of the enclosing block) *)
| SIf (cond : expr) (thn els : list stmt)           (* if cond { thn } else { els };  [if init; cond] = SLocal; SIf.
                                                       An expression switch without fallthrough is emitted as the
                                                       if-else chain it abbreviates: [switch t { case a, b: X default: Z }]
                                                       = SIf (t == a || t == b) X Z *)
| SReturn (vals : list expr)
| SPanic (arg : expr)
| SContinue                                         (* continue (of THIS loop: unlabelled, not inside a nested loop) *)
| SSort (s : string) (c : comparator)               (* a sort of the slice s (see [comparator]) *)
| SOther (text : string)                            (* everything else (assignment to an existing variable, ++, +=,
                                                       break, continue, goto, defer, go, delete, calls as statements,
                                                       nested loops, ...) — never classified *)
| SFill (s : string) (i : string) (val : expr).     (* s[i] = val; i++   — emitted ONLY when the translator established that
                                                       s is created in the function as make([]T, len(<the ranged map>)),
                                                       that i is defined as i := 0 before the loop and is written by
                                                       nothing but this i++, and that i is read nowhere else in the body:
                                                       filling a slice of exactly len(map) zero elements by a counter
                                                       from 0 produces the slice that append onto an empty one produces *)

(** one [range]-over-map statement: [for kvar, vvar := range ranged { body }], followed in its block by [after]
    (the statements up to the end of the enclosing block; only its head is looked at) *)
Record site := {
  s_file : string; s_func : string;
  s_hash : string;                (* sha256 prefix of the normalised statement text (key of the argued rows) *)
  s_kvar : string; s_vvar : string;  (* "_" or "" when absent *)
  s_ranged : expr;
  s_body : list stmt;
  s_after : list stmt;
  s_text : string
}.

(** ** The classified fragment: one effect per iteration, chosen by side-effect-free tests *)
Inductive tree :=
| TSkip
| TStore (m : string) (key val : expr)
| TAppend (s : string) (val : expr)
| TReturn (vals : list expr)
| TPanic (arg : expr)
| TLet (x : string) (e : expr) (k : tree)
| TIf (cond : expr) (thn els : tree).

Definition opt_bind {A B} (x : option A) (f : A -> option B) : option B := match x with Some a => f a | None => None end.

(** statement list -> tree, by continuation: [k] is the tree of what the iteration does after the list falls off its
    end.  [continue], [return] and [panic] drop the continuation; a store or append must be the last thing the
    iteration does on its path (one effect per iteration); an [if] passes the continuation into both branches.
    Variables declared in the body have names that are unique in the site (the translator renames a declaration that
    shadows another variable), so extending a [TLet]'s scope over the continuation captures nothing. *)
Definition list_tree_with (f : stmt -> tree -> option tree) : list stmt -> tree -> option tree :=
  fix lt (l : list stmt) (k : tree) : option tree :=
    match l with
    | [] => Some k
    | s :: rest => opt_bind (lt rest k) (fun k' => f s k')
    end.

Fixpoint stmt_tree (s : stmt) (k : tree) : option tree :=
  match s with
  | SLocal x e => Some (TLet x e k)
  | SContinue => Some TSkip
  | SStore m key v => match k with TSkip => Some (TStore m key v) | _ => None end
  | SAppend x v => match k with TSkip => Some (TAppend x v) | _ => None end
  | SReturn vs => Some (TReturn vs)
  | SPanic a => Some (TPanic a)
  | SIf c thn els =>
      opt_bind (list_tree_with stmt_tree thn k) (fun a => opt_bind (list_tree_with stmt_tree els k) (fun b => Some (TIf c a b)))
  | SSort _ _ => None
  | SOther _ => None
  | SFill x _ v => match k with TSkip => Some (TAppend x v) | _ => None end
  end.

Definition to_tree (l : list stmt) : option tree := list_tree_with stmt_tree l TSkip.

(** ** Semantics

    Values are abstract ([val]); an evaluator gives every expression a value in an environment (scalar variables)
    and a store of mutable objects (Go maps and slices, by variable name).  The only thing known about an evaluator
    is that the value of an expression depends on nothing but the variables it reads ([ev_law]) — in particular an
    expression MAY read the map the loop writes to, in which case the order of the iterations matters; the
    classifier has to exclude that. *)
Definition env (val : Type) := list (string * val).
Record store (val : Type) := { st_maps : list (string * gomap val val); st_slices : list (string * list val) }.
Arguments st_maps {val} _.
Arguments st_slices {val} _.

Fixpoint lookup {A} (x : string) (l : list (string * A)) : option A :=
  match l with
  | [] => None
  | (y, a) :: t => if String.eqb x y then Some a else lookup x t
  end.

(** two stores look the same to an expression reading [x] *)
Definition same_at {val} (x : string) (st st' : store val) : Prop :=
  lookup x (st_maps st) = lookup x (st_maps st') /\ lookup x (st_slices st) = lookup x (st_slices st').

Record evaluator (val : Type) := {
  ev_eval : expr -> env val -> store val -> val;
  ev_truthy : val -> bool;
  ev_eqb : val -> val -> bool;
  ev_eqb_spec : forall a b, ev_eqb a b = true <-> a = b;
  ev_law : forall e en en' st st',
      (forall x, In x (e_reads e) -> lookup x en = lookup x en' /\ same_at x st st') ->
      ev_eval e en st = ev_eval e en' st'
}.
Arguments ev_eval {val} _ _ _ _.
Arguments ev_truthy {val} _ _.
Arguments ev_eqb {val} _ _ _.
Arguments ev_eqb_spec {val} _ _ _.
Arguments ev_law {val} _ _ _ _ _ _ _.

(** what one iteration does *)
Inductive effect (val : Type) :=
| FSkip
| FStore (m : string) (k v : val)
| FAppend (s : string) (v : val)
| FReturn (vs : list val)
| FPanic.
Arguments FSkip {val}.
Arguments FStore {val} m k v.
Arguments FAppend {val} s v.
Arguments FReturn {val} vs.
Arguments FPanic {val}.

(** the loop's result: it ran to the end (final store), or an iteration returned from the enclosing function, or
    one panicked *)
Inductive result (val : Type) := RCont (st : store val) | RRet (vs : list val) | RPanic.
Arguments RCont {val} st.
Arguments RRet {val} vs.
Arguments RPanic {val}.

Section Semantics.
  Context {val : Type} (ev : evaluator val).

  Fixpoint run_tree (t : tree) (en : env val) (st : store val) : effect val :=
    match t with
    | TSkip => FSkip
    | TStore m k v => FStore m (ev_eval ev k en st) (ev_eval ev v en st)
    | TAppend s v => FAppend s (ev_eval ev v en st)
    | TReturn vs => FReturn (map (fun e => ev_eval ev e en st) vs)
    | TPanic _ => FPanic
    | TLet x e k => run_tree k ((x, ev_eval ev e en st) :: en) st
    | TIf c a b => if ev_truthy ev (ev_eval ev c en st) then run_tree a en st else run_tree b en st
    end.

  Definition get_map (m : string) (st : store val) : gomap val val :=
    match lookup m (st_maps st) with Some g => g | None => [] end.
  Definition get_slice (s : string) (st : store val) : list val :=
    match lookup s (st_slices st) with Some l => l | None => [] end.

  Definition apply_effect (st : store val) (f : effect val) : result val :=
    match f with
    | FSkip => RCont st
    | FStore m k v => RCont {| st_maps := (m, minsert k v (get_map m st)) :: st_maps st; st_slices := st_slices st |}
    | FAppend s v => RCont {| st_maps := st_maps st; st_slices := (s, get_slice s st ++ [v]) :: st_slices st |}
    | FReturn vs => RRet vs
    | FPanic => RPanic
    end.

  (** environment of the iteration for entry (k, v): the loop variables in front of the loop-invariant variables *)
  Definition entry_env (kvar vvar : string) (inv : env val) (e : val * val) : env val :=
    (kvar, fst e) :: (vvar, snd e) :: inv.

  (** one execution of [for kvar, vvar := range _ { t }] over the enumeration [entries] *)
  Fixpoint run_loop (t : tree) (kvar vvar : string) (inv : env val) (entries : list (val * val)) (st : store val) : result val :=
    match entries with
    | [] => RCont st
    | e :: r =>
        match apply_effect st (run_tree t (entry_env kvar vvar inv e) st) with
        | RCont st' => run_loop t kvar vvar inv r st'
        | other => other
        end
    end.
End Semantics.

(** ** The classifier (syntactic, evaluated by [vm_compute] on the regenerated sites) *)

Fixpoint tree_exprs (t : tree) : list expr :=
  match t with
  | TSkip => []
  | TStore _ k v => [k; v]
  | TAppend _ v => [v]
  | TReturn vs => vs
  | TPanic a => [a]
  | TLet _ e k => e :: tree_exprs k
  | TIf c a b => c :: tree_exprs a ++ tree_exprs b
  end.

(** names of the objects the tree writes to *)
Fixpoint tree_writes (t : tree) : list string :=
  match t with
  | TSkip | TReturn _ | TPanic _ => []
  | TStore m _ _ => [m]
  | TAppend s _ => [s]
  | TLet _ _ k => tree_writes k
  | TIf _ a b => tree_writes a ++ tree_writes b
  end.

(** names bound by [TLet] *)
Fixpoint tree_lets (t : tree) : list string :=
  match t with
  | TSkip | TReturn _ | TPanic _ | TStore _ _ _ | TAppend _ _ => []
  | TLet x _ k => x :: tree_lets k
  | TIf _ a b => tree_lets a ++ tree_lets b
  end.

(** which kinds of leaves occur *)
Fixpoint has_leaf (p : tree -> bool) (t : tree) : bool :=
  match t with
  | TLet _ _ k => has_leaf p k
  | TIf _ a b => has_leaf p a || has_leaf p b
  | leaf => p leaf
  end.

Definition is_store (t : tree) := match t with TStore _ _ _ => true | _ => false end.
Definition is_append (t : tree) := match t with TAppend _ _ => true | _ => false end.
Definition is_return (t : tree) := match t with TReturn _ => true | _ => false end.
Definition is_panic_leaf (t : tree) := match t with TPanic _ => true | _ => false end.

(** the [TReturn] leaves *)
Fixpoint tree_returns (t : tree) : list (list expr) :=
  match t with
  | TReturn vs => [vs]
  | TLet _ _ k => tree_returns k
  | TIf _ a b => tree_returns a ++ tree_returns b
  | _ => []
  end.

Fixpoint strs_eqb (a b : list string) : bool :=
  match a, b with
  | [], [] => true
  | x :: a', y :: b' => String.eqb x y && strs_eqb a' b'
  | _, _ => false
  end.

Definition expr_eqb (a b : expr) : bool :=
  String.eqb (e_text a) (e_text b) && strs_eqb (e_reads a) (e_reads b) && strs_eqb (e_calls a) (e_calls b).

Fixpoint exprs_eqb (a b : list expr) : bool :=
  match a, b with
  | [], [] => true
  | x :: a', y :: b' => expr_eqb x y && exprs_eqb a' b'
  | _, _ => false
  end.

Definition mem (x : string) (l : list string) : bool := existsb (String.eqb x) l.
Definition disjoint (a b : list string) : bool := forallb (fun x => negb (mem x b)) a.

(** functions an expression of a classified loop may call: deterministic, without side effects.  A loop calling
    anything else stays an open obligation until the callee is reviewed and listed here. *)
Definition pure_callees : list string := [
  "github.com/cosmos/cosmos-sdk/x/auth/types.NewModuleAddress";     (* address.Module: a SHA-256 of the name *)
  "(github.com/cosmos/cosmos-sdk/types.AccAddress).String";         (* bech32 (memoised in an LRU keyed by the bytes: same value) *)
  "(github.com/ethereum/go-ethereum/common.Address).Hex";
  "(github.com/ethereum/go-ethereum/common.Address).Bytes";
  "github.com/cosmos/cosmos-sdk/types/errors.Wrap";
  "github.com/cosmos/cosmos-sdk/types/errors.Wrapf";
  "errors.New";
  "fmt.Sprintf";
  "fmt.Errorf";
  "len"; "cap"; "append"; "make"; "new"
].

Definition expr_ok (e : expr) : bool := forallb (fun c => mem c pure_callees) (e_calls e).

(** well-formedness common to all shapes:
    - no expression reads an object the loop writes to (so an iteration's effect is a function of its entry),
    - the loop does not write to the map it ranges over (Go: such entries may or may not be produced),
    - [TLet] names and the loop variables are not names of written objects (Go has one name space),
    - every call is to a listed pure function. *)
Definition tree_wf (kvar vvar : string) (ranged : expr) (t : tree) : bool :=
  let ws := tree_writes t in
  forallb (fun e => disjoint (e_reads e) ws && expr_ok e) (ranged :: tree_exprs t) &&
  disjoint (tree_lets t) ws &&
  negb (mem kvar ws) && negb (mem vvar ws).

(** the shapes *)
Inductive shape :=
| ShStore      (* leaves: skip / store / panic.  Result = the maps written (or the panic); independent of the order when
                  entries that write the same key of the same map write the same value (premise [store_consistent]) *)
| ShSearch     (* leaves: skip / returns that all return the SAME expressions, which read no loop or let variable.  Result = "some entry
                  returns" *)
| ShCollectSort (slice : string) (c : comparator).
               (* leaves: skip / append to ONE slice, and the statement right after the loop sorts that slice: the
                  collected slice is a permutation across orders, the sorted one is equal for a sorter whose result is
                  a function of the multiset ([canonical_sorters]) *)

(** ** comparators under which a sort is a function of the multiset

    A sort by a strict total order on the elements returns the same slice for every arrangement of the same elements,
    whatever the algorithm ([Proofs/MapLoopsIR.v: keyed_sort_is_canonical]).  [CmpKey rel via key_type ki kj] is such an
    order when both sides apply the SAME key term, the key term is INJECTIVE (the whole element can be recovered from the
    key: identity, a full-content accessor, a full slice, a string/[]byte conversion — not a field, an index or a
    prefix), and the keys are compared by a total order: [<] / [>] on strings and integers (not floats: NaN), or
    bytes.Compare / strings.Compare against 0. *)
Definition injective_methods : list string := [
  "(github.com/ethereum/go-ethereum/common.Address).Bytes";
  "(github.com/ethereum/go-ethereum/common.Address).Hex";
  "(github.com/ethereum/go-ethereum/common.Address).String";
  "(github.com/ethereum/go-ethereum/common.Address).Hash";
  "(github.com/ethereum/go-ethereum/common.Hash).Bytes";
  "(github.com/ethereum/go-ethereum/common.Hash).Hex";
  "(github.com/ethereum/go-ethereum/common.Hash).String";
  "(github.com/cosmos/cosmos-sdk/types.AccAddress).String";
  "(github.com/cosmos/cosmos-sdk/types.AccAddress).Bytes";
  "(github.com/cosmos/cosmos-sdk/types.ValAddress).String";
  "(github.com/cosmos/cosmos-sdk/types.ValAddress).Bytes"
].

Definition injective_conversions : list string := ["string"; "[]byte"].

Fixpoint key_injective (k : keyterm) : bool :=
  match k with
  | KElem => true
  | KMethod m k' => mem m injective_methods && key_injective k'
  | KSliceAll k' => key_injective k'
  | KConv t k' => mem t injective_conversions && key_injective k'
  | KOther _ => false
  end.

Fixpoint keyterm_eqb (a b : keyterm) : bool :=
  match a, b with
  | KElem, KElem => true
  | KMethod m k, KMethod m' k' => String.eqb m m' && keyterm_eqb k k'
  | KSliceAll k, KSliceAll k' => keyterm_eqb k k'
  | KConv t k, KConv t' k' => String.eqb t t' && keyterm_eqb k k'
  | _, _ => false
  end.

Definition ordered_key_types : list string :=
  ["string"; "int"; "int8"; "int16"; "int32"; "int64"; "uint"; "uint8"; "uint16"; "uint32"; "uint64"; "byte"; "rune"; "uintptr"].

(** [CmpNamed] is accepted here and settled against the reviewed Less methods in [Model/DeterminismCheck.v: sorter_ok] *)
Definition comparator_ok (c : comparator) : bool :=
  match c with
  | CmpNamed _ => true
  | CmpKey rel via key_type ki kj =>
      keyterm_eqb ki kj && key_injective ki && (String.eqb rel "<" || String.eqb rel ">") &&
      (if String.eqb via "" then mem key_type ordered_key_types
       else if String.eqb via "bytes.Compare" then String.eqb key_type "[]byte"
       else if String.eqb via "strings.Compare" then String.eqb key_type "string"
       else false)
  | CmpOther _ => false
  end.

Definition all_same (l : list string) : bool :=
  match l with [] => true | x :: t => forallb (String.eqb x) t end.

Definition classify_tree (kvar vvar : string) (ranged : expr) (after : list stmt) (t : tree) : option shape :=
  if negb (tree_wf kvar vvar ranged t) then None
  else
    let st := has_leaf is_store t in
    let ap := has_leaf is_append t in
    let rt := has_leaf is_return t in
    let pn := has_leaf is_panic_leaf t in
    if negb ap && negb rt then Some ShStore                     (* skip / store / panic *)
    else if rt && negb st && negb ap && negb pn then
      match tree_returns t with
      | vs :: others =>
          if forallb (exprs_eqb vs) others &&
             forallb (fun e => disjoint (e_reads e) (kvar :: vvar :: tree_lets t)) vs then Some ShSearch else None
      | [] => None
      end
    else if ap && negb st && negb rt && negb pn && all_same (tree_writes t) then
      match tree_writes t, after with
      | s :: _, SSort s' c :: _ => if String.eqb s s' && comparator_ok c then Some (ShCollectSort s c) else None
      | _, _ => None
      end
    else None.

Definition classify (s : site) : option (tree * shape) :=
  opt_bind (to_tree (s_body s)) (fun t =>
    opt_bind (classify_tree (s_kvar s) (s_vvar s) (s_ranged s) (s_after s) t) (fun sh => Some (t, sh))).

(** sort.Interface types whose [Less] is a strict total order in which only identical elements are unordered, so
    that sort.Sort's result is a function of the multiset (the algorithm — unstable, unspecified — does not matter):
    (type name, normalised text of its Less method).  [Proofs/MapLoops.v: sorted_perm_unique] is the argument for
    byte-wise comparison of fixed-size arrays. *)
Definition canonical_sorters : list (string * string) := [
  ("validatorsAscending", "func (s validatorsAscending) Less(i, j int) bool { return bytes.Compare(s[i][:], s[j][:]) < 0 }")
].
