(** Correspondence and monitor definitions for C07, evaluated by [vm_compute] on
    the histories the harness ran on the real Tendermint client (no proofs here).

    Every step is compared from the IMPLEMENTATION's observed client store before
    the step, so one disagreement does not cascade. *)
From Teleport Require Import Base.Bytes Base.Outcome Model.Tendermint.
Local Open Scope Z_scope.

(** * Decidable equalities on observables *)
Definition pubkey_eqb (a b : pubkey) : bool := Nat.eqb (fst a) (fst b) && bytes_eqb (snd a) (snd b).

Definition client_eqb (a b : client_state) : bool :=
  bytes_eqb (cs_chain_id a) (cs_chain_id b) && (cs_tl_num a =? cs_tl_num b)%N && (cs_tl_den a =? cs_tl_den b)%N &&
  (cs_trusting a =? cs_trusting b) && (cs_unbonding a =? cs_unbonding b) && (cs_drift a =? cs_drift b) &&
  h_eqb (cs_latest a) (cs_latest b) && (cs_delay a =? cs_delay b)%N && bytes_eqb (cs_rest a) (cs_rest b).

Definition cons_eqb (a b : cons_state) : bool :=
  (c_time a =? c_time b) && bytes_eqb (c_root a) (c_root b) && bytes_eqb (c_nvh a) (c_nvh b).

Definition value_eqb (a b : value) : bool :=
  match a, b with
  | VClient x, VClient y => client_eqb x y
  | VCons x, VCons y => cons_eqb x y
  | VBytes x, VBytes y => bytes_eqb x y
  | _, _ => false
  end.

Definition ovalue_eqb (a b : option value) : bool :=
  match a, b with
  | Some x, Some y => value_eqb x y
  | None, None => true
  | _, _ => false
  end.

Fixpoint store_eqb (a b : store) : bool :=
  match a, b with
  | [], [] => true
  | (k, v) :: a', (k', v') :: b' => bytes_eqb k k' && value_eqb v v' && store_eqb a' b'
  | _, _ => false
  end.

Fixpoint hash_input_eqb (a b : list (pubkey * Z)) : bool :=
  match a, b with
  | [], [] => true
  | (p, w) :: a', (q, u) :: b' => pubkey_eqb p q && (w =? u) && hash_input_eqb a' b'
  | _, _ => false
  end.

(** * Oracle tables filled by the harness from the real functions *)
Record oracle_tab := {
  ot_header_hash : bytes;                             (* tendermint Header.Hash of the step's header *)
  ot_vals : list (list (pubkey * Z) * bytes);         (* ValidatorSet.Hash per (key, power) list *)
  ot_chain : bytes;                                   (* chain id the vote sign bytes were built for *)
  ot_sigs : list (pubkey * nat * bool)                (* (key, commit signature index) -> VerifySignature *)
}.

(** a lookup outside the table yields a value no real hash can have, so it
    surfaces as a disagreement *)
Definition oracle_miss : bytes := B "oracle-miss".

Definition tab_valset_hash (t : oracle_tab) (inp : list (pubkey * Z)) : bytes :=
  match find (fun e => hash_input_eqb (fst e) inp) (ot_vals t) with
  | Some e => snd e
  | None => oracle_miss
  end.
Definition tab_header_hash (t : oracle_tab) (_ : pheader) : bytes := ot_header_hash t.
Definition tab_verify_sig (t : oracle_tab) (pk : pubkey) (chain : bytes) (_ : pcommit) (idx : nat) : bool :=
  bytes_eqb chain (ot_chain t) &&
  match find (fun e => pubkey_eqb (fst (fst e)) pk && Nat.eqb (snd (fst e)) idx) (ot_sigs t) with
  | Some e => snd e
  | None => false
  end.

(** * Observed steps *)
Inductive ostep :=
| OUpdate (now : Z) (hdr : header) (ot : oracle_tab)
          (vb_class chus_class : nat) (chus_client : option client_state) (chus_cons : option cons_state)
          (chus_store : store) (keeper_class : nat) (store_after : store)
| OVerify (now : Z) (h : height) (proof_nil : bool) (ack : bool) (seq : N) (val : bytes)
          (decodes member : bool) (v_class : nat) (store_after : store).

(** [hs_valid]: observed result class of ClientState.Validate on the client the history starts with *)
Record hist := { hs_init : store; hs_valid : nat; hs_steps : list ostep }.

Definition step_store (o : ostep) : store :=
  match o with
  | OUpdate _ _ _ _ _ _ _ _ _ s => s
  | OVerify _ _ _ _ _ _ _ _ _ s => s
  end.

Definition oclient_eqb (a b : option client_state) : bool :=
  match a, b with Some x, Some y => client_eqb x y | None, None => true | _, _ => false end.
Definition ocons_eqb (a b : option cons_state) : bool :=
  match a, b with Some x, Some y => cons_eqb x y | None, None => true | _, _ => false end.

Definition client_of (s : store) : option client_state :=
  match sget client_key s with Some (VClient c) => Some c | _ => None end.

(** * Model vs implementation.  Kinds:
    1 Header.ValidateBasic class, 2 CheckHeaderAndUpdateState class, 3 its returned
    client / consensus state, 4 the store it leaves, 5 UpdateClient class, 6 the
    store after UpdateClient (unchanged after a rejected one), 7 Verify* class,
    8 Verify* changed the store, 9 no client state in the observed store. *)
Definition cmp_step (pre : store) (o : ostep) : list nat :=
  match client_of pre with
  | None => [9%nat]
  | Some cs =>
      match o with
      | OUpdate now hdr ot vb_class chus_class chus_client chus_cons chus_store keeper_class store_after =>
          let vh := tab_valset_hash ot in
          let hh := tab_header_hash ot in
          let vs := tab_verify_sig ot in
          (if Nat.eqb (oclass (header_validate_basic vh hh hdr)) vb_class then [] else [1%nat]) ++
          (let r := check_header_and_update_state vh hh vs cs pre hdr now in
           if negb (Nat.eqb (oclass r) chus_class) then [2%nat] else
           match r with
           | Ok (cs', cons', s') =>
               (if oclient_eqb (Some cs') chus_client && ocons_eqb (Some cons') chus_cons then [] else [3%nat]) ++
               (if store_eqb s' chus_store then [] else [4%nat])
           | _ => if store_eqb pre chus_store then [] else [4%nat]
           end) ++
          (let r := update_client vh hh vs pre hdr now in
           if negb (Nat.eqb (oclass r) keeper_class) then [5%nat] else
           match r with
           | Ok s' => if store_eqb s' store_after then [] else [6%nat]
           | _ => if store_eqb pre store_after then [] else [6%nat]
           end)
      | OVerify now h proof_nil ack seq val decodes member v_class store_after =>
          let r := verify_packet (fun _ => decodes) (fun _ _ _ _ _ _ => member) cs pre now h
                                 (if proof_nil then None else Some []) ack ([], [], seq) val in
          (if Nat.eqb (oclass r) v_class then [] else [7%nat]) ++
          (if store_eqb pre store_after then [] else [8%nat])
      end
  end.

Fixpoint cmp_steps (i : nat) (pre : store) (l : list ostep) : list (nat * nat) :=
  match l with
  | [] => []
  | o :: l' => map (fun k => (i, k)) (cmp_step pre o) ++ cmp_steps (S i) (step_store o) l'
  end.

Fixpoint number {A} (i : nat) (l : list A) : list (nat * A) :=
  match l with [] => [] | x :: l' => (i, x) :: number (S i) l' end.

(** kind 10 (reported at step 0): ClientState.Validate class of the initial client state *)
Definition cmp_hist (h : hist) : list (nat * nat) :=
  (match client_of (hs_init h) with
   | Some cs => if Nat.eqb (hs_valid h) (if client_validate cs then 0 else 1) then [] else [(0%nat, 10%nat)]
   | None => [(0%nat, 9%nat)]
   end) ++ cmp_steps 0 (hs_init h) (hs_steps h).

Definition mismatches (hs : list hist) : list (nat * (nat * nat)) :=
  flat_map (fun ih => map (fun m => (fst ih, m)) (cmp_hist (snd ih))) (number 0 hs).

(** * Monitor: the property itself on the implementation's observed trace,
    written declaratively (full tallies instead of the early-exit loops, key-wise
    description of the store change) and independent of the model's step
    functions.  Kinds:
    11 trusted consensus state missing / trusted set does not hash to its next-validators hash,
    12 not newer than the trusted height in the same revision,
    13 trusted state expired or header time outside (trusted time, now + drift),
    14 header / validator set / commit inconsistent (hashes, chain id, heights),
    15 not more than 2/3 of the header's own set signed,
    16 non-adjacent: not more than the trust level of the trusted set signed; adjacent: own set is not the stored next set,
    17 the store change is not exactly the specified one,
    18 latest height lowered / not the maximum,
    19 accepted although the client was expired,
    21 proof honoured above the latest height, 22 against a height without consensus state,
    23 before processed time + delay, 24 although the proof oracle rejected, 25 Verify* changed the store
    (26, 27: against the trace's own history, see [mon_verify_hist]). *)

(** (key, power) list of a proto validator set, without any validation *)
Definition plain_vals (vp : option pvalset) : list (pubkey * Z) :=
  match vp with
  | None => []
  | Some p => flat_map (fun v => match v_pk v with Some pk => [(pk, v_power v)] | None => [] end) (vs_vals p)
  end.

(** earliest height carrying an iteration key *)
Definition iter_heights (s : store) : list height :=
  flat_map (fun kv => if is_prefix iter_prefix (fst kv)
                      then match height_from_iter_key (fst kv) with Ok h => [h] | _ => [] end
                      else []) s.
Definition min_height (l : list height) : option height :=
  fold_right (fun h acc => match acc with None => Some h | Some m => if h_lt h m then Some h else Some m end) None l.

(** [valid]: the configuration passed the real ClientState.Validate; the trust-level clause is the
    property's claim for admissible configurations only *)
Definition mon_update (valid : bool) (pre post : store) (now : Z) (hdr : header) (ot : oracle_tab) : list nat :=
  match client_of pre, h_signed hdr with
  | Some cs, Some sh =>
      match sh_header sh, sh_commit sh with
      | Some h, Some c =>
          let th := h_trusted_height hdr in
          let hrev := match parse_chain_id (hd_chain_id h) with Ok r => r | _ => 0%N end in
          let hh := mkH hrev (u64 (hd_height h)) in
          let chain := hd_chain_id h in
          let vs := tab_verify_sig ot in
          let own := plain_vals (h_valset hdr) in
          let tv := plain_vals (h_trusted_vals hdr) in
          let adjacent := (h_hgt hh =? h_hgt th + 1)%N in
          (match sget (cons_key th) pre with
           | Some (VCons tc) =>
               (if bytes_eqb (tab_valset_hash ot tv) (c_nvh tc) then [] else [11%nat]) ++
               (if (tc.(c_time) + cs_trusting cs >? now) && (c_time tc <? hd_time h) && (hd_time h <? now + cs_drift cs)
                then [] else [13%nat]) ++
               (if adjacent
                then if bytes_eqb (tab_valset_hash ot own) (c_nvh tc) then [] else [16%nat]
                else if negb valid || (Z.of_N (cs_tl_den cs) * signed_trusted vs chain c tv >? Z.of_N (cs_tl_num cs) * total_of tv)
                     then [] else [16%nat])
           | _ => [11%nat]
           end) ++
          (if (h_rev hh =? h_rev th)%N && (h_hgt th <? h_hgt hh)%N && (0 <? hd_height h) then [] else [12%nat]) ++
          (if bytes_eqb (tab_valset_hash ot own) (hd_vals_hash h) && bytes_eqb (ot_header_hash ot) (b_hash (cm_block_id c)) &&
              (cm_height c =? hd_height h) && bytes_eqb chain (verification_chain_id cs hrev) && bytes_eqb chain (ot_chain ot)
           then [] else [14%nat]) ++
          (if 3 * signed_own vs chain c own >? 2 * total_of own then [] else [15%nat]) ++
          (* exact store change *)
          (let pruned := match min_height (iter_heights pre) with
                         | Some p => match sget (cons_key p) pre with
                                     | Some (VCons pc) => if c_time pc + cs_trusting cs >? now then None else Some p
                                     | _ => None
                                     end
                         | None => None
                         end in
           let latest' := if h_gt hh (cs_latest cs) then hh else cs_latest cs in
           let expected (k : bytes) : option value :=
             if bytes_eqb k (cons_key hh) then Some (VCons (new_cons_state h))
             else if bytes_eqb k client_key then Some (VClient (with_latest cs latest'))
             else if bytes_eqb k (iter_key hh) then Some (VBytes (cons_key hh))
             else if bytes_eqb k (pt_key hh) then Some (VBytes (be64 (u64 now)))
             else match pruned with
                  | Some p => if bytes_eqb k (cons_key p) || bytes_eqb k (pt_key p) || bytes_eqb k (iter_key p)
                              then None else sget k pre
                  | None => sget k pre
                  end in
           (if forallb (fun k => ovalue_eqb (sget k post) (expected k)) (map fst pre ++ map fst post) then [] else [17%nat]) ++
           (match client_of post with
            | Some cs' => if h_eqb (cs_latest cs') latest' && h_lte (cs_latest cs) (cs_latest cs') then [] else [18%nat]
            | None => [18%nat]
            end)) ++
          (match sget (cons_key (cs_latest cs)) pre with
           | Some (VCons lc) => if c_time lc + cs_trusting cs >? now then [] else [19%nat]
           | _ => [19%nat]
           end)
      | _, _ => [14%nat]
      end
  | _, _ => [14%nat]
  end.

Definition mon_verify (pre post : store) (now : Z) (h : height) (proof_nil decodes member : bool) : list nat :=
  match client_of pre with
  | None => [21%nat]
  | Some cs =>
      (if h_lte h (cs_latest cs) then [] else [21%nat]) ++
      (match sget (cons_key h) pre with Some (VCons _) => [] | _ => [22%nat] end) ++
      (match sget (pt_key h) pre with
       | Some (VBytes b) => if (length b =? 8)%nat && (Z.of_N (be_decode b) + Z.of_N (cs_delay cs) <=? now) then [] else [23%nat]
       | _ => [23%nat]
       end) ++
      (if negb proof_nil && decodes && member then [] else [24%nat]) ++
      (if store_eqb pre post then [] else [25%nat])
  end.

(** ** The trace's own history: accepted writes, newest first.  [mon_verify_hist]
    states the delay clause against the trace instead of against the stored
    processed time: a proof honoured at height [h] must come at least the delay
    after the step of THIS trace that last stored a header at [h], and the stored
    consensus state must be that header's.  Kinds:
    26 proof honoured before (block time of the last accepted header for that height) + delay,
    27 the consensus state a proof was honoured against is not the last accepted header's. *)
Record event := { ev_h : height; ev_cons : cons_state; ev_now : Z }.

Definition latest_event (h : height) (log : list event) : option event :=
  find (fun e => h_eqb (ev_h e) h) log.

Definition ghost_step (log : list event) (o : ostep) : list event :=
  match o with
  | OUpdate now hdr _ _ _ _ _ _ keeper_class _ =>
      if Nat.eqb keeper_class 0 then
        match h_signed hdr with
        | Some sh =>
            match sh_header sh with
            | Some h => {| ev_h := mkH (match parse_chain_id (hd_chain_id h) with Ok r => r | _ => 0%N end) (u64 (hd_height h));
                           ev_cons := new_cons_state h; ev_now := now |} :: log
            | None => log
            end
        | None => log
        end
      else log
  | OVerify _ _ _ _ _ _ _ _ _ _ => log
  end.

Definition mon_verify_hist (log : list event) (pre : store) (now : Z) (h : height) : list nat :=
  match client_of pre, latest_event h log with
  | Some cs, Some e =>
      (if Z.of_N (u64 (ev_now e)) + Z.of_N (cs_delay cs) <=? now then [] else [26%nat]) ++
      (match sget (cons_key h) pre with
       | Some (VCons c) => if cons_eqb c (ev_cons e) then [] else [27%nat]
       | _ => [27%nat]
       end)
  | _, _ => []
  end.

Definition mon_step (valid : bool) (log : list event) (pre : store) (o : ostep) : list nat :=
  match o with
  | OUpdate now hdr ot _ _ _ _ _ keeper_class store_after =>
      if Nat.eqb keeper_class 0 then mon_update valid pre store_after now hdr ot
      else if store_eqb pre store_after then [] else [17%nat]
  | OVerify now h proof_nil _ _ _ decodes member v_class store_after =>
      if Nat.eqb v_class 0 then mon_verify pre store_after now h proof_nil decodes member ++ mon_verify_hist log pre now h
      else if store_eqb pre store_after then [] else [25%nat]
  end.

Fixpoint mon_steps (valid : bool) (i : nat) (log : list event) (pre : store) (l : list ostep) : list (nat * nat) :=
  match l with
  | [] => []
  | o :: l' => map (fun k => (i, k)) (mon_step valid log pre o) ++ mon_steps valid (S i) (ghost_step log o) (step_store o) l'
  end.

Definition monitor_failures (hs : list hist) : list (nat * (nat * nat)) :=
  flat_map (fun ih => map (fun m => (fst ih, m))
                          (mon_steps (Nat.eqb (hs_valid (snd ih)) 0) 0 [] (hs_init (snd ih)) (hs_steps (snd ih)))) (number 0 hs).

(** * Hex literals: the case files write byte strings as [hx "0a1b…"] (parsed
    far faster than list notation; decoded inside [vm_compute]) *)
Definition hex_digit (a : ascii) : N :=
  let n := N_of_ascii a in
  if (n <? 58)%N then (n - 48)%N else (n - 87)%N.
Fixpoint hx (s : string) : bytes :=
  match s with
  | String a (String b t) => byte_of_N (hex_digit a * 16 + hex_digit b)%N :: hx t
  | _ => []
  end.
