(** Correspondence and monitor definitions for C15, evaluated by [vm_compute] on the cases the
    harness (harness/cmd/c15) ran on the real code.  No proofs here. *)
From Coq Require Import String.
From Teleport Require Import Base.Bytes Base.Outcome Model.Rvesting Model.RvestingCheck Model.HaltGuardIR Gen.HaltGuardsGen Model.Halt Model.HaltAgg.
Local Open Scope N_scope.

(** ** Decidable obligations on the REGENERATED guards (Gen/HaltGuardsGen.v): what the panic-freedom proofs need
    from the validation functions of /repo.  Defined here (no proofs) so that the check can still evaluate and
    NAME a failed obligation when Proofs/Halt.v no longer builds. *)
Definition guard_obligations : list (string * bool) :=
  [("bsc ClientState.Validate rejects Epoch = 0 (Initialize / UpgradeState compute height % Epoch)",
    existsb (forced (ABelow (KFld "Epoch") 1)) bsc_client_validate_guards);
   ("bsc ClientState.Validate (through Header.ValidateBasic) rejects len(Extra) < extraVanity+extraSeal (ParseValidators slices extra[extraVanity : len-extraSeal])",
    existsb (forced (ABelow (KLen "Header.Extra") (bsc_extra_vanity + bsc_extra_seal))) bsc_client_validate_guards);
   ("bsc ClientState.Validate (through Header.ValidateBasic) rejects len(Bloom) > bloomByteLength (Bloom.SetBytes panics)",
    existsb (forced (AAbove (KLen "Header.Bloom") bsc_bloom_byte_length)) bsc_client_validate_guards);
   ("bsc ClientState.Validate (through Header.ValidateBasic) rejects len(Nonce) > nonceByteLength (BlockNonce.SetBytes panics)",
    existsb (forced (AAbove (KLen "Header.Nonce") bsc_nonce_byte_length)) bsc_client_validate_guards);
   ("the seal can be sliced off the extra data (twice: extraSeal in ecrecover, 65 in encodeSigHeader): ecrecover's own length test covers it, or the validated length extraVanity+extraSeal does",
    existsb (forced (ABelow (KLen "Extra") (N.max bsc_extra_seal 65))) bsc_ecrecover_guards
    || N.leb (N.max bsc_extra_seal 65) (bsc_extra_vanity + bsc_extra_seal));
   ("eth ClientState.Validate (through Header.ValidateBasic) rejects len(Bloom) > 256 (types.BytesToBloom panics)",
    existsb (forced (AAbove (KLen "Header.Bloom") 256)) eth_client_validate_guards);
   ("GenesisMetadata.Validate rejects an empty key (store.Set panics)",
    existsb (forced (ABelow (KLen "Key") 1)) genesis_metadata_validate_guards);
   ("aggregate GenesisState.Validate rejects a token pair without denominations (TokenPair.GetID indexes Denoms[0])",
    existsb (forced (ABelow (KLen "Denoms") 1)) aggregate_genesis_pair_guards);
   ("packet GenesisState.Validate rejects an acknowledgement without data (store.Set panics on a nil value)",
    existsb (forced (ABelow (KLen "Data") 1)) packet_genesis_ack_guards);
   ("packet GenesisState.Validate rejects a commitment without data (store.Set panics on a nil value)",
    existsb (forced (ABelow (KLen "Data") 1)) packet_genesis_commitment_guards);
   ("every field the guards mention is supplied by the model",
    (let hd0 := {| hd_height := mkH 0 0; hd_extra_len := 0; hd_mix := []; hd_uncle := []; hd_root := []; hd_diff := [];
                   hd_bloom_len := 0; hd_nonce_len := 0; hd_gas_limit := 0; hd_gas_used := 0 |} in
     guards_known (bsc_client_env hd0 0 0 0) bsc_client_validate_guards
     && guards_known (header_env hd0) bsc_ecrecover_guards
     && guards_known (eth_client_env hd0 0) eth_client_validate_guards)
    && guards_known (metadata_env ([], 0)) genesis_metadata_validate_guards
    && guards_known (ga_pair_env {| gp_erc20 := []; gp_denoms := [] |}) aggregate_genesis_pair_guards
    && guards_known (packet_env {| gp_src := []; gp_dst := []; gp_seq := 0; gp_data_len := 0 |})
         (packet_genesis_ack_guards ++ packet_genesis_commitment_guards))]%string.

Definition failed_guard_obligations : list string := map fst (filter (fun o => negb (snd o)) guard_obligations).



(** Observed classes: 0 ok, 1 error, 2 panic, 9 not executed. *)

(** ** xibc proposal histories *)
Record xpost := { xp_type : option ctype; xp_latest : height; xp_cons : list (height * (N * N)) (* kind code, timestamp *) }.

Record xstep_obs := {
  xo_prop : xprop;
  xo_chain : bytes;
  xo_v : nat;
  xo_x : nat;
  xo_post : option xpost       (* None for relayer proposals *)
}.

Record xcase := { xc_now : N; xc_native : bytes; xc_steps : list xstep_obs }.

Definition cons_code (c : cons_state) : N * N :=
  match c with ConsTM _ => (1, 0) | ConsBSC ts => (2, ts) | ConsETH ts _ => (3, ts) | ConsTSS => (4, 0) | ConsGarbage => (5, 0) end.

Definition ctype_code (t : option ctype) : N :=
  match t with None => 0 | Some TTM => 1 | Some TBSC => 2 | Some TETH => 3 | Some TTSS => 4 end.

Fixpoint cons_list_eqb (a : list (height * cons_state)) (b : list (height * (N * N))) : bool :=
  match a, b with
  | [], [] => true
  | (h, c) :: a', (h', (k, ts)) :: b' =>
      height_eqb h h' && (fst (cons_code c) =? k) && (snd (cons_code c) =? ts) && cons_list_eqb a' b'
  | _, _ => false
  end.

Definition post_matches (st : cstore) (p : xpost) : bool :=
  (ctype_code (option_map client_type (c_client st)) =? ctype_code (xp_type p))
  && match c_client st with Some cs => height_eqb (latest_height cs) (xp_latest p) | None => true end
  && cons_list_eqb (c_cons st) (xp_cons p).

(** Which recent-signer key parser /repo HEAD has (Model/Halt.v [strict]): the repaired one since 0d61436. *)
Definition head_strict : bool := true.

(** Model vs implementation.  Kinds: 1 validation class, 2 execution class, 3 projected state,
    4 executed although not validated. *)
Fixpoint cmp_xsteps (now : N) (native : bytes) (i : nat) (s : xstate) (l : list xstep_obs) : list (nat * nat) :=
  match l with
  | [] => []
  | o :: l' =>
      let p := xo_prop o in
      let v := oclass (xprop_validate p) in
      if negb (Nat.eqb v (xo_v o)) then [(i, 1%nat)]
      else if negb (Nat.eqb v 0) then
        (if Nat.eqb (xo_x o) 9 then cmp_xsteps now native (S i) s l' else [(i, 4%nat)])
      else
        let r := handle_xprop now head_strict native s p in
        if negb (Nat.eqb (oclass r) (xo_x o)) then [(i, 2%nat)]
        else match gov_exec (handle_xprop now head_strict native) s p with
             | Panic => []
             | Err => []
             | Ok s' =>
                 match xo_post o with
                 | Some post => if post_matches (xget s' (xo_chain o)) post then cmp_xsteps now native (S i) s' l' else [(i, 3%nat)]
                 | None => cmp_xsteps now native (S i) s' l'
                 end
             end
  end.

(** Monitor: the property on the implementation's trace alone - whatever the stateless
    validation accepted was executed without a panic.  Kind 11. *)
Fixpoint mon_steps (i : nat) (l : list (nat * nat)) : list (nat * nat) :=
  match l with
  | [] => []
  | (v, x) :: l' => if Nat.eqb v 0 && Nat.eqb x 2 then [(i, 11%nat)] else mon_steps (S i) l'
  end.

(** ** Cases *)
Inductive hcase :=
| CX (c : xcase)
| CGX (g : gx_genesis) (v x : nat) (now : N) (then_steps : list xstep_obs)
| CGA (l : list ga_pair) (v x : nat)
| CGR (g : gr_genesis) (v x : nat)
| CRV (h : hist)
| CAG (c : acase).

Definition cmp_gen (vm xm : nat) (v x : nat) : list (nat * nat) :=
  if negb (Nat.eqb vm v) then [(0%nat, 1%nat)]
  else if negb (Nat.eqb vm 0) then (if Nat.eqb x 9 then [] else [(0%nat, 4%nat)])
  else if negb (Nat.eqb xm x) then [(0%nat, 2%nat)] else [].

Definition cmp_case (c : hcase) : list (nat * nat) :=
  match c with
  | CX c => cmp_xsteps (xc_now c) (xc_native c) 0 [] (xc_steps c)
  | CGX g v x now steps =>
      match cmp_gen (oclass (gx_validate g)) (oclass (gx_init g)) v x with
      | [] => if Nat.eqb v 0 && Nat.eqb x 0 then cmp_xsteps now (gx_native g) 1 (gx_state g) steps else []
      | l => l
      end
  | CGA l v x => cmp_gen (oclass (ga_validate l)) (oclass (ga_init l)) v x
  | CGR g v x => cmp_gen (oclass (gr_validate g)) (oclass (gr_init_genesis g)) v x
  | CRV h => map (fun m => (fst m, (20 + snd m)%nat)) (cmp_hist h)
  | CAG c => cmp_acase c
  end.

Definition mon_case (c : hcase) : list (nat * nat) :=
  match c with
  | CX c => mon_steps 0 (map (fun o => (xo_v o, xo_x o)) (xc_steps c))
  | CGX _ v x _ steps => mon_steps 0 ((v, x) :: map (fun o => (xo_v o, xo_x o)) steps)
  | CGA _ v x | CGR _ v x => mon_steps 0 [(v, x)]
  | CRV h => map (fun m => (fst m, 11%nat)) (filter (fun m => Nat.eqb (snd m) 11) (mon_hist h))
  | CAG c => mon_steps 0 (map (fun o => (ao_v o, ao_x o)) (ac_steps c))
  end.

Definition mismatches (cs : list hcase) : list (nat * (nat * nat)) :=
  flat_map (fun ic => map (fun m => (fst ic, m)) (cmp_case (snd ic))) (number 0 cs).

Definition monitor_failures (cs : list hcase) : list (nat * (nat * nat)) :=
  flat_map (fun ic => map (fun m => (fst ic, m)) (mon_case (snd ic))) (number 0 cs).
