(** A small concrete instance of the Ethereum client model (toy hash oracle, Rinkeby mode,
    hand-built header trees) used by the non-vacuity examples of Props/C10.v and by the
    witnesses of Refuted/C10_*.v.  Definitions only.  The same histories are scenario cases
    of the harness (harness/cmd/c10/gen.go: corpus / witness...) where they run on the real
    client with the real hash. *)
From Teleport Require Import Base.Bytes Base.Outcome Model.Eth.
Local Open Scope N_scope.

(** big-endian, [k] bytes *)
Fixpoint be (k : nat) (n : N) : bytes :=
  match k with
  | O => []
  | S k' => be k' (n / 256) ++ [match Byte.of_N (n mod 256) with Some b => b | None => x00 end]
  end.

(** toy oracles: the hash covers block number, timestamp and nonce -- enough to tell the headers
    of the examples apart ([hash_ok_b] is checked on each universe); it does NOT cover the
    revision number (like the real one).  No seal check (Rinkeby). *)
Definition toy_hash (h : header) : bytes :=
  be 8 0 ++ be 8 (h_num h) ++ be 8 (h_time h) ++ be 8 (h_nonce h).
Definition toy_seal (_ : header) : bool := false.

Definition genesis (rev num time : N) : header :=
  {| h_parent := []; h_uncle := []; h_coinbase := []; h_root := be 2 7; h_tx := []; h_receipt := []; h_bloom := [];
     h_diff := [x01]; h_rev := rev; h_num := num; h_gaslimit := 10000; h_gasused := 5000; h_time := time;
     h_extra := []; h_mix := []; h_nonce := 0; h_basefee := [x07] |}.

(** a rule-abiding child of [p]: same gas limit, gas used = target (base fee unchanged),
    timestamp [dt] later, distinguishing [nonce], state root [root] *)
Definition child_r (p : header) (nonce dt : N) (root : bytes) : header :=
  {| h_parent := toy_hash p; h_uncle := []; h_coinbase := []; h_root := root; h_tx := []; h_receipt := []; h_bloom := [];
     h_diff := [x01]; h_rev := h_rev p; h_num := h_num p + 1; h_gaslimit := 10000; h_gasused := 5000; h_time := h_time p + dt;
     h_extra := []; h_mix := []; h_nonce := nonce; h_basefee := [x07] |}.
Definition child (p : header) (nonce dt : N) : header := child_r p nonce dt (be 2 (1000 * nonce + h_num p + 1)).

Definition with_rev (h : header) (r : N) : header :=
  {| h_parent := h_parent h; h_uncle := h_uncle h; h_coinbase := h_coinbase h; h_root := h_root h; h_tx := h_tx h;
     h_receipt := h_receipt h; h_bloom := h_bloom h; h_diff := h_diff h; h_rev := r; h_num := h_num h;
     h_gaslimit := h_gaslimit h; h_gasused := h_gasused h; h_time := h_time h; h_extra := h_extra h; h_mix := h_mix h;
     h_nonce := h_nonce h; h_basefee := h_basefee h |}.

Definition client (trust : N) (g : header) : state := create_client toy_hash 4 trust g (cstate_of g).
Definition upd := update_client toy_hash toy_seal.
Definition upd_old := update_client_old toy_hash toy_seal.
(** the code without the two candidate repairs of checkValidity (= [upd] as long as they are not in /repo) *)
Definition upd_un := update_client_gen toy_hash toy_seal unrepaired.
Definition st_of (o : outcome state) : state := match o with Ok s => s | _ => create_client toy_hash 0 0 (genesis 0 0 0) (cstate_of (genesis 0 0 0)) end.

(** * Tree 1 (no pruning: trusting period 10^9): two branches A (nonce 1) and B (nonce 2) on G *)
Definition G := genesis 0 100 1000.
Definition A1 := child G 1 10.   Definition A2 := child A1 1 10.   Definition A3 := child A2 1 10.  Definition A4 := child A3 1 10.
Definition B1 := child G 2 11.   Definition B2 := child B1 2 10.   Definition B3 := child B2 2 10.  Definition B4 := child B3 2 10.
Definition s0 := client 1000000000 G.
Definition bt1 : N := 1100.

(** the history of DESIGN 9.5: G; A1; B1; A2; A3; B2; B3; B4; A3 again; A4 *)
Definition hist_d2 : list (N * header) :=
  map (fun h => (bt1, h)) [A1; B1; A2; A3; B2; B3; B4; A3; A4].
Definition univ1 : list header := [G; A1; A2; A3; A4; B1; B2; B3; B4].

(** * Tree 2 (pruning: trusting period 100, 20 s per block, each header submitted 5 s after its
    timestamp): main chain M1..M10, the stale sibling S1 of M1 submitted first *)
Definition G2 := genesis 0 500 10000.
Definition S1 := child G2 2 21.
Definition M1 := child G2 1 20.   Definition M2 := child M1 1 20.   Definition M3 := child M2 1 20.
Definition M4 := child M3 1 20.   Definition M5 := child M4 1 20.   Definition M6 := child M5 1 20.
Definition M7 := child M6 1 20.   Definition M8 := child M7 1 20.   Definition M9 := child M8 1 20.
Definition M10 := child M9 1 20.
Definition S2 := child S1 2 150.                 (* child of the still stored S1; timestamp 10171 *)
Definition T9 := child M8 3 21.                  (* sibling of M9: fork ABOVE the pruned prefix *)
Definition s0' := client 100 G2.
Definition at5 (h : header) : N * header := (h_time h + 5, h).
Definition hist_prune : list (N * header) :=
  [(h_time S1 + 5, S1); (h_time S1 + 5, M1)] ++ map at5 [M2; M3; M4; M5; M6; M7; M8; M9; M10].
Definition univ2 : list header := [G2; S1; M1; M2; M3; M4; M5; M6; M7; M8; M9; M10; S2; T9].
Definition bt2 : N := 10206.

(** * Tree 3: a sibling with the state root of the main-chain header of its height.
    G; A1; B1; A2; A3; then B2' = child of B1 carrying A2's state root *)
Definition B2r := child_r B1 2 10 (h_root A2).
Definition hist_same_root : list (N * header) := map (fun h => (bt1, h)) [A1; B1; A2; A3; B2r].

(** * Tree 4: headers with another revision number.  G; A1 submitted with revision 1; B1 (revision 0);
    C2 (child of B1) submitted with revision 1 *)
Definition A1r := with_rev A1 1.
Definition C2r := with_rev (child B1 3 10) 1.
Definition hist_rev : list (N * header) := map (fun h => (bt1, h)) [A1r; B1; C2r].

(** * Tree 5: re-organisation to a branch older than the trusting period (1000 s).
    G; A1..A4 one second apart; 1001 s later the sibling E3 of A3 (child of A2) is submitted. *)
Definition G5 := genesis 0 500 5000.
Definition E1 := child G5 1 1.  Definition E2 := child E1 1 1.  Definition E3 := child E2 1 1.  Definition E4 := child E3 1 1.
Definition F3 := child E2 2 1.
Definition E5 := child E4 1 1000.
Definition s0e := client 1000 G5.
Definition hist_exp : list (N * header) := map (fun h => (5010, h)) [E1; E2; E3; E4].
Definition bt5 : N := 6004.
