(** Correspondence and monitor definitions for C13, evaluated by [vm_compute]
    on the cases the harness ran on the real code (no proofs here).

    The oracles of Model/Genesis.v are instantiated by the decoding tables the
    harness tabulated from the real codec / hash functions: a client or
    consensus state is represented by its stored bytes, [unmarshal] is a table
    look-up (absent = the real decoder was never seen to accept it),
    [marshal] the inverse look-up. *)
From Teleport Require Import Base.Bytes Base.Outcome Base.AList Base.Fmt Gen.KeysGen Model.Keys Model.Genesis.
From Teleport Require Model.Rvesting.
Local Open Scope N_scope.

Record tables := {
  t_cs : list (bytes * (ctype * (ctype * bool)));
      (* client state bytes -> (the light client package of the value, what the real ClientType() reports, Validate() == nil) *)
  t_cons : list (bytes * (ctype * (ctype * bool)));   (* the same for consensus states (ValidateBasic) *)
  t_rel : list (bytes * relayer);
  t_tp : list (bytes * token_pair);
  t_sha : list (bytes * bytes);
  t_addr : list (bytes * bytes);
  t_acc : list (bytes * bool) }.   (* text -> sdk.AccAddressFromBech32(text) == nil *)

Fixpoint blookup {X} (k : bytes) (l : list (bytes * X)) : option X :=
  match l with [] => None | (k', x) :: r => if bytes_eqb k k' then Some x else blookup k r end.

Fixpoint list_eqb {X} (e : X -> X -> bool) (a b : list X) : bool :=
  match a, b with
  | [], [] => true
  | x :: a', y :: b' => e x y && list_eqb e a' b'
  | _, _ => false
  end.

Definition relayer_eqb (a b : relayer) : bool :=
  bytes_eqb (r_address a) (r_address b) && list_eqb bytes_eqb (r_chains a) (r_chains b)
  && list_eqb bytes_eqb (r_addresses a) (r_addresses b).
Definition pair_eqb (a b : token_pair) : bool :=
  bytes_eqb (tp_erc20 a) (tp_erc20 b) && list_eqb bytes_eqb (tp_denoms a) (tp_denoms b)
  && Bool.eqb (tp_enabled a) (tp_enabled b) && (tp_owner a =? tp_owner b).

Fixpoint rlookup {X} (e : X -> X -> bool) (x : X) (l : list (bytes * X)) : bytes :=
  match l with [] => [] | (k, y) :: r => if e x y then k else rlookup e x r end.

Section WithTables.
  Variable T : tables.

  Definition o_cs_unmarshal (v : bytes) : option bytes := match blookup v (t_cs T) with Some _ => Some v | None => None end.
  (** the four [ClientType()] methods of the client states and of the consensus states, transcribed: each reports
      the client type of its own package (tendermint / bsc / eth / tss) *)
  Definition o_cs_type (v : bytes) : ctype := match blookup v (t_cs T) with Some (t, _) => t | None => TM end.
  Definition o_cs_valid (v : bytes) : bool := match blookup v (t_cs T) with Some (_, (_, b)) => b | None => false end.
  Definition o_cons_unmarshal (v : bytes) : option bytes := match blookup v (t_cons T) with Some _ => Some v | None => None end.
  Definition o_cons_type (v : bytes) : ctype := match blookup v (t_cons T) with Some (t, _) => t | None => TM end.
  Definition o_cons_valid (v : bytes) : bool := match blookup v (t_cons T) with Some (_, (_, b)) => b | None => false end.
  (** a value whose real [ClientType()] differs from the transcription *)
  Definition type_report_differs : bool :=
    existsb (fun r => negb (ctype_eqb (fst (snd r)) (fst (snd (snd r))))) (t_cs T)
    || existsb (fun r => negb (ctype_eqb (fst (snd r)) (fst (snd (snd r))))) (t_cons T).
  Definition o_rel_unmarshal (v : bytes) : option relayer := blookup v (t_rel T).
  Definition o_rel_marshal (r : relayer) : bytes := rlookup relayer_eqb r (t_rel T).
  Definition o_tp_unmarshal (v : bytes) : option token_pair := blookup v (t_tp T).
  Definition o_tp_marshal (p : token_pair) : bytes := rlookup pair_eqb p (t_tp T).
  Definition o_sha (x : bytes) : bytes := match blookup x (t_sha T) with Some h => h | None => [] end.
  Definition o_addr (x : bytes) : bytes := match blookup x (t_addr T) with Some h => h | None => [] end.
  Definition o_acc_ok (x : bytes) : bool := match blookup x (t_acc T) with Some b => b | None => false end.

  Definition gen := genesis bytes bytes.

  Definition m_export : mstate -> outcome gen :=
    export bytes bytes o_cs_unmarshal o_cs_type o_cons_unmarshal o_rel_unmarshal o_tp_unmarshal.
  Definition m_import : gen -> outcome mstate :=
    import bytes bytes (fun v => v) (fun v => v) o_rel_marshal o_tp_marshal o_sha o_addr.
  Definition m_validate_xibc (g : gen) : bool :=
    validate_xibc bytes bytes o_cs_type o_cs_valid o_cons_type o_cons_valid o_acc_ok (g_client _ _ g, g_packet _ _ g).
  Definition m_validate_agg (g : gen) : bool := validate_agg o_addr (g_pairs _ _ g).
  Definition m_validate_rv (g : gen) : bool := validate_rv (g_rv_params _ _ g).
  Definition m_wf_xibc (s : store) : bool :=
    wf_xibc bytes bytes o_cs_unmarshal (fun v => v) o_cs_type o_cons_unmarshal (fun v => v) o_rel_unmarshal o_rel_marshal s.
  Definition m_wf_agg (s : store) : bool := wf_agg o_tp_unmarshal o_tp_marshal o_sha o_addr s.
  Definition m_valid_xibc (s : store) : bool :=
    valid_xibc bytes bytes o_cs_unmarshal o_cs_type o_cs_valid o_cons_unmarshal o_cons_type o_cons_valid o_rel_unmarshal o_acc_ok s.
  Definition m_agg_pairs (s : store) : list token_pair := agg_pairs o_tp_unmarshal s.
End WithTables.

(** * Equality of projected genesis states and module states *)
Definition height_eqb (a b : height) : bool := (rev_number a =? rev_number b) && (rev_height a =? rev_height b).
Definition kv_eqb (a b : bytes * bytes) : bool := bytes_eqb (fst a) (fst b) && bytes_eqb (snd a) (snd b).
Definition store_eqb : store -> store -> bool := list_eqb kv_eqb.
Definition pstate_eqb (a b : packet_state) : bool :=
  bytes_eqb (ps_src a) (ps_src b) && bytes_eqb (ps_dst a) (ps_dst b) && (ps_seq a =? ps_seq b) && bytes_eqb (ps_data a) (ps_data b).
Definition rv_eqb (a b : Rvesting.params) : bool :=
  Bool.eqb (Rvesting.enable a) (Rvesting.enable b)
  && list_eqb (fun x y => bytes_eqb (fst x) (fst y) && Z.eqb (snd x) (snd y)) (Rvesting.rewards a) (Rvesting.rewards b).
Definition bb_eqb (a b : bool * bool) : bool := Bool.eqb (fst a) (fst b) && Bool.eqb (snd a) (snd b).

Definition client_genesis_eqb (a b : client_genesis bytes bytes) : bool :=
  list_eqb kv_eqb (g_clients _ _ a) (g_clients _ _ b)
  && list_eqb (fun x y => bytes_eqb (fst x) (fst y)
                          && list_eqb (fun p q => height_eqb (fst p) (fst q) && bytes_eqb (snd p) (snd q)) (snd x) (snd y))
              (g_consensus _ _ a) (g_consensus _ _ b)
  && list_eqb (fun x y => bytes_eqb (fst x) (fst y) && list_eqb kv_eqb (snd x) (snd y)) (g_metadata _ _ a) (g_metadata _ _ b)
  && bytes_eqb (g_native _ _ a) (g_native _ _ b)
  && list_eqb relayer_eqb (g_relayers _ _ a) (g_relayers _ _ b).

Definition packet_genesis_eqb (a b : packet_genesis) : bool :=
  list_eqb pstate_eqb (g_acks a) (g_acks b) && list_eqb pstate_eqb (g_commitments a) (g_commitments b)
  && list_eqb pstate_eqb (g_receipts a) (g_receipts b)
  && list_eqb (fun x y => bytes_eqb (fst (fst x)) (fst (fst y)) && bytes_eqb (snd (fst x)) (snd (fst y)) && (snd x =? snd y))
              (g_send_seqs a) (g_send_seqs b).

Definition genesis_eqb (a b : genesis bytes bytes) : bool :=
  client_genesis_eqb (g_client _ _ a) (g_client _ _ b) && packet_genesis_eqb (g_packet _ _ a) (g_packet _ _ b)
  && bb_eqb (g_agg_params _ _ a) (g_agg_params _ _ b) && list_eqb pair_eqb (g_pairs _ _ a) (g_pairs _ _ b)
  && rv_eqb (g_rv_params _ _ a) (g_rv_params _ _ b).

(** * Cases *)
Record gcase := {
  c_tab : tables;
  c_has_pre : bool;                   (* false: genesis-input case whose input was rejected / not imported *)
  c_pre : mstate;                     (* dumped state before the export *)
  c_export_class : nat;               (* real ExportGenesis: 0 returned, 2 panicked *)
  c_export : genesis bytes bytes;     (* the real export after the JSON round trip, projected *)
  c_app_equal : bool;                 (* app/export.go's path gave the same JSON sections *)
  c_validate : nat * (nat * nat);     (* the modules' ValidateGenesis on the export: xibc, aggregate, rvesting; 0 / 1 / 2 *)
  c_init_class : nat;                 (* InitChain of the fresh app: 0 / 2 *)
  c_post : mstate;                    (* dumped state of the fresh app *)
  c_export2_class : nat;
  c_export2 : genesis bytes bytes;    (* second export (of the fresh app) *)
  c_has_input : bool;                 (* genesis-input case *)
  c_input : genesis bytes bytes;
  c_in_validate : nat * (nat * nat);
  c_in_init : nat;                    (* 0 imported, 2 InitGenesis panicked, 9 not imported *)
  c_texts : list (bytes * (bool * (bool * bool)))
                                      (* every chain name / address / denomination text of the case with the REAL
                                         ClientIdentifierValidator == nil, common.IsHexAddress, sdk.ValidateDenom == nil *)
}.

Definition bclass (b : bool) : nat := if b then 0%nat else 1%nat.
Definition flag (b : bool) (k : nat) : list nat := if b then [k] else [].

(** ** Model vs implementation.
    1 export outcome class, 2 export content, 31/32/33 validate (xibc / aggregate / rvesting) on the export,
    34 [valid_state] of the pre-state vs the real Validate, 41 import outcome class, 42 xibc store after import,
    43 aggregate store after import, 44 parameters after import, 51/52/53 validate on the input genesis,
    54 import of the input genesis vs the dumped state, 55 its outcome class,
    84 a client / consensus state value whose real ClientType() is not the client type of its own package,
    81 / 82 / 83 chain-name validator / IsHexAddress / ValidateDenom of the model vs the real function,
    71 / 72 the dumped xibc / aggregate store is outside [wf_xibc] / [wf_agg] (the theorems do not speak about it). *)
Definition cmp_texts (c : gcase) : list nat :=
  flag (existsb (fun x => negb (Bool.eqb (valid_chain_name (fst x)) (fst (snd x)))) (c_texts c)) 81
  ++ flag (existsb (fun x => negb (Bool.eqb (is_hex_address (fst x)) (fst (snd (snd x))))) (c_texts c)) 82
  ++ flag (existsb (fun x => negb (Bool.eqb (Rvesting.valid_denom (fst x)) (snd (snd (snd x))))) (c_texts c)) 83.

Definition cmp_case (c : gcase) : list nat :=
  let T := c_tab c in
  cmp_texts c ++ flag (type_report_differs T) 84 ++
  (if c_has_input c then
     let g := c_input c in
     flag (negb (Nat.eqb (bclass (m_validate_xibc T g)) (fst (c_in_validate c)))) 51
     ++ flag (negb (Nat.eqb (bclass (m_validate_agg T g)) (fst (snd (c_in_validate c))))) 52
     ++ flag (negb (Nat.eqb (bclass (m_validate_rv g)) (snd (snd (c_in_validate c))))) 53
     ++ (if Nat.eqb (c_in_init c) 9 then [] else
         match m_import T g with
         | Ok st => if negb (Nat.eqb (c_in_init c) 0) then [55%nat]
                    else flag (negb (store_eqb (st_xibc st) (st_xibc (c_pre c)) && store_eqb (st_agg st) (st_agg (c_pre c)))) 54
         | _ => flag (negb (Nat.eqb (c_in_init c) 2)) 55
         end)
   else [])
  ++
  (if negb (c_has_pre c) then [] else
   let pre := c_pre c in
   flag (negb (m_wf_xibc T (st_xibc pre))) 71 ++ flag (negb (m_wf_agg T (st_agg pre))) 72
   ++
   match m_export T pre with
   | Ok g =>
       if negb (Nat.eqb (c_export_class c) 0) then [1%nat] else
       flag (negb (genesis_eqb g (c_export c))) 2
       ++ (let r := c_export c in
           flag (negb (Nat.eqb (bclass (m_validate_xibc T r)) (fst (c_validate c)))) 31
           ++ flag (negb (Nat.eqb (bclass (m_validate_agg T r)) (fst (snd (c_validate c))))) 32
           ++ flag (negb (Nat.eqb (bclass (m_validate_rv r)) (snd (snd (c_validate c))))) 33
           ++ flag (negb (Nat.eqb (bclass (m_valid_xibc T (st_xibc pre))) (fst (c_validate c)))) 34
           ++ match m_import T r with
              | Ok st =>
                  if negb (Nat.eqb (c_init_class c) 0) then [41%nat] else
                  flag (negb (store_eqb (st_xibc st) (st_xibc (c_post c)))) 42
                  ++ flag (negb (store_eqb (st_agg st) (st_agg (c_post c)))) 43
                  ++ flag (negb (bb_eqb (st_agg_params st) (st_agg_params (c_post c))
                                 && rv_eqb (st_rv_params st) (st_rv_params (c_post c)))) 44
              | _ => flag (negb (Nat.eqb (c_init_class c) 2)) 41
              end)
   | _ => flag (negb (Nat.eqb (c_export_class c) 2)) 1
   end).

(** ** Monitor: the property on the implementation's observations alone.
    11 ExportGenesis panicked, 12/13/14 the export was rejected by the xibc / aggregate / rvesting validation
    (15: validation panicked), 16 InitGenesis of the export panicked, 17 xibc store not reproduced,
    18 aggregate store not reproduced, 19 parameters not reproduced, 20 second export differs from the first,
    21 app/export.go's path differs from the module path, 22 a genesis accepted by validation made InitGenesis panic. *)
Definition nonzero (n : nat) : bool := negb (Nat.eqb n 0).
Definition mon_case (c : gcase) : list nat :=
  flag (c_has_input c && Nat.eqb (c_in_init c) 2) 22
  ++
  (if negb (c_has_pre c) then [] else
   if nonzero (c_export_class c) then [11%nat] else
   let '(vx, (va, vr)) := c_validate c in
   flag (Nat.eqb vx 1) 12 ++ flag (Nat.eqb va 1) 13 ++ flag (Nat.eqb vr 1) 14
   ++ flag (Nat.eqb vx 2 || Nat.eqb va 2 || Nat.eqb vr 2) 15
   ++ flag (negb (c_app_equal c)) 21
   ++ (if nonzero (c_init_class c) then [16%nat] else
       flag (negb (store_eqb (st_xibc (c_pre c)) (st_xibc (c_post c)))) 17
       ++ flag (negb (store_eqb (st_agg (c_pre c)) (st_agg (c_post c)))) 18
       ++ flag (negb (bb_eqb (st_agg_params (c_pre c)) (st_agg_params (c_post c))
                      && rv_eqb (st_rv_params (c_pre c)) (st_rv_params (c_post c)))) 19
       ++ flag (nonzero (c_export2_class c) || negb (genesis_eqb (c_export c) (c_export2 c))) 20)).

Fixpoint number {A} (i : nat) (l : list A) : list (nat * A) :=
  match l with [] => [] | x :: l' => (i, x) :: number (S i) l' end.

Definition mismatches (cs : list gcase) : list (nat * nat) :=
  flat_map (fun ic => map (fun k => (fst ic, k)) (cmp_case (snd ic))) (number 0 cs).
Definition monitor_failures (cs : list gcase) : list (nat * nat) :=
  flat_map (fun ic => map (fun k => (fst ic, k)) (mon_case (snd ic))) (number 0 cs).

(** ** Diagnosis of a pre-state (which of the known causes is present): used to name a finding.
    1 zero-height consensus state of a client type without height zero, 2 consensus state of another type than
    the client state, 3 metadata entry with an empty value, 4 entry under "clients/" the export does not cover. *)
Definition diagnose (c : gcase) : list nat :=
  let T := c_tab c in
  let s := st_xibc (c_pre c) in
  flag (has_zero_height bytes (o_cs_unmarshal T) (o_cs_type T) s) 1
  ++ flag (has_mixed_types bytes bytes (o_cs_unmarshal T) (o_cs_type T) (o_cons_unmarshal T) (o_cons_type T) s) 2
  ++ flag (has_empty_metadata s) 3
  ++ flag (has_foreign_metadata bytes bytes (o_cs_unmarshal T) (fun v => v) (o_cs_type T) (o_cons_unmarshal T) (fun v => v) s) 4.
Definition diagnoses (cs : list gcase) : list (nat * nat) :=
  flat_map (fun ic => map (fun k => (fst ic, k)) (diagnose (snd ic))) (number 0 cs).

(** coverage: number of entries of each family in the dumped pre-states *)
Definition empty_genesis : genesis bytes bytes :=
  {| g_client := {| g_clients := []; g_consensus := []; g_metadata := []; g_native := []; g_relayers := [] |};
     g_packet := {| g_acks := []; g_commitments := []; g_receipts := []; g_send_seqs := [] |};
     g_agg_params := (false, false); g_pairs := []; g_rv_params := {| Rvesting.enable := false; Rvesting.rewards := [] |} |}.
Definition empty_state : mstate :=
  {| st_xibc := []; st_agg := []; st_agg_params := (false, false);
     st_rv_params := {| Rvesting.enable := false; Rvesting.rewards := [] |} |}.
