(** * Executable model of the EVM storage-proof verification of the ETH and BSC light clients (C08)

    Go code transcribed (both copies are the same text up to receiver names; the single difference that
    matters is [GetDelayBlock]):
    - x/xibc/clients/light-clients/eth/types/client_state.go and .../bsc/types/client_state.go:
      [VerifyPacketCommitment], [VerifyPacketAcknowledgement], [produceVerificationArgs],
      [verifyMerkleProof], [checkProofResult], [GetDelayBlock]
    - .../eth/types/keys.go and .../bsc/types/keys.go: [ProofKeyConstructor]
    - x/xibc/core/host/keys.go: [PacketCommitmentKey], [PacketAcknowledgementKey], [ConsensusStateKey]
    - x/xibc/core/client/types/height.go: [Height.Compare], [Height.LT]
    - library code reached from there, transcribed from the module cache: go-ethereum v1.10.16
      [common.FromHex] / [Hex2Bytes] (+ Go 1.23 [encoding/hex.Decode]), [common.BytesToHash] /
      [HexToHash] / [Hash.Big], [rlp.EncodeToBytes] on the [ProofAccount] struct, [rlp.DecodeBytes] into a
      [[]byte], [common.LeftPadBytes].

    External functions are Section variables (oracles): [keccak256] = crypto.Keccak256, [mpt_verify] =
    trie.VerifyProof applied to the NodeSet built from a node list, [json_proof] = encoding/json
    Unmarshal into the [Proof] struct.  The client store is seen through [cstore]: store key -> what
    [GetConsensusState] finds there (the protobuf Any decoding is not modelled, its result is).

    No proofs in this file. *)
From Teleport Require Import Base.Bytes Base.Outcome.
From Teleport Require Base.Fmt.
Local Open Scope N_scope.

(** ** uint64 arithmetic and heights *)

Definition two64 : N := 18446744073709551616.

(** Go [a - b] on uint64 (wraps). *)
Definition sub64 (a b : N) : N := (a + two64 - b) mod two64.

(** clienttypes.Height: the revision number is compared first ([Height.Compare]). *)
Record height := { rn : N; rh : N }.

Definition height_lt (a b : height) : bool :=
  if rn a =? rn b then rh a <? rh b else rn a <? rn b.

(** ** Bytes and numbers *)

Definition nb (b : byte) : N := Byte.to_N b.

Definition byte_of_N (n : N) : byte :=
  match Byte.of_N (n mod 256) with Some b => b | None => x00 end.

(** little-endian digits, fixed width *)
Fixpoint le_fixed (k : nat) (n : N) : bytes :=
  match k with O => [] | S k' => byte_of_N n :: le_fixed k' (n / 256) end.

(** big-endian, fixed width: [sdk.Uint64ToBigEndian] is [be_fixed 8] *)
Definition be_fixed (k : nat) (n : N) : bytes := rev (le_fixed k n).

Fixpoint N_of_le (l : bytes) : N :=
  match l with [] => 0 | b :: r => nb b + 256 * N_of_le r end.

(** [new(big.Int).SetBytes] *)
Definition N_of_be (l : bytes) : N := N_of_le (rev l).

Fixpoint strip_zeros (l : bytes) : bytes :=
  match l with
  | b :: r => if Byte.eqb b x00 then strip_zeros r else l
  | [] => []
  end.

(** minimal big-endian bytes of a number below 2^256 ([big.Int.Bytes]; empty for 0) *)
Definition be_min (n : N) : bytes := strip_zeros (be_fixed 32 n).

Definition zeros (k : nat) : bytes := repeat x00 k.

(** ** Hex strings: [common.FromHex], [common.HexToHash] *)

(** [encoding/hex]'s reverseHexTable *)
Definition hexval (c : byte) : option N :=
  let n := nb c in
  if (48 <=? n) && (n <=? 57) then Some (n - 48)
  else if (65 <=? n) && (n <=? 70) then Some (n - 55)
  else if (97 <=? n) && (n <=? 102) then Some (n - 87)
  else None.

(** [Hex2Bytes]: [h, _ := hex.DecodeString(str); return h] -- the error is dropped and the bytes decoded
    BEFORE the first invalid digit pair are returned. *)
Fixpoint hex_decode (s : bytes) : bytes :=
  match s with
  | a :: b :: r =>
      match hexval a, hexval b with
      | Some x, Some y => byte_of_N (16 * x + y) :: hex_decode r
      | _, _ => []
      end
  | _ => []
  end.

Definition has0x (s : bytes) : bool :=
  match s with
  | a :: b :: _ => Byte.eqb a x30 && (Byte.eqb b x78 || Byte.eqb b x58)
  | _ => false
  end.

Definition from_hex (s : bytes) : bytes :=
  let s1 := if has0x s then skipn 2 s else s in
  let s2 := if N.odd (N.of_nat (length s1)) then x30 :: s1 else s1 in
  hex_decode s2.

(** [common.BytesToHash] = [Hash.SetBytes]: crop from the left to the last 32 bytes, left-pad with zeros. *)
Definition bytes_to_hash (b : bytes) : bytes :=
  let n := length b in
  let b' := if (32 <? n)%nat then skipn (n - 32) b else b in
  zeros (32 - length b') ++ b'.

Definition hex_to_hash (s : bytes) : bytes := bytes_to_hash (from_hex s).

(** ** RLP *)

(** header of a string ([base] = 0x80) or list ([base] = 0xC0) with payload length [len] (< 2^64) *)
Definition rlp_header (base len : N) : bytes :=
  if len <=? 55 then [byte_of_N (base + len)]
  else let lb := strip_zeros (be_fixed 8 len) in
       byte_of_N (base + 55 + N.of_nat (length lb)) :: lb.

Definition rlp_string (b : bytes) : bytes :=
  match b with
  | [x] => if nb x <? 128 then [x] else rlp_header 128 1 ++ b
  | _ => rlp_header 128 (N.of_nat (length b)) ++ b
  end.

Definition rlp_list (items : list bytes) : bytes :=
  let p := concat items in rlp_header 192 (N.of_nat (length p)) ++ p.

(** The account tuple as [verifyMerkleProof] rebuilds it: [ProofAccount{Nonce, Balance *big.Int;
    Storage, Codehash common.Hash}]; [rlp.EncodeToBytes] of a struct is the list of its fields, a
    [*big.Int] is the string of its minimal big-endian bytes, a [common.Hash] a 32-byte string. *)
Record account := { a_nonce : N; a_balance : N; a_storage : bytes; a_code : bytes }.

Definition rlp_account (a : account) : bytes :=
  rlp_list [rlp_string (be_min (a_nonce a)); rlp_string (be_min (a_balance a));
            rlp_string (a_storage a); rlp_string (a_code a)].

(** [rlp.DecodeBytes(b, &[]byte)]: one canonical string item, nothing after it.
    [rlp_split_string] decodes one string item from the front (Stream.Kind/readKind/Bytes): a list
    header, a non-canonical size, a single byte below 0x80 in long form, or a value reaching beyond the
    input are errors. *)
Definition rlp_split_string (r : bytes) : option (bytes * bytes) :=
  match r with
  | [] => None
  | b0 :: t =>
      let n := nb b0 in
      if n <? 128 then Some ([b0], t)
      else if n <? 184 then
        let len := n - 128 in
        if N.of_nat (length t) <? len then None
        else
          let c := firstn (N.to_nat len) t in
          match c with
          | [x] => if nb x <? 128 then None else Some (c, skipn (N.to_nat len) t)
          | _ => Some (c, skipn (N.to_nat len) t)
          end
      else if n <? 192 then
        let ll := N.to_nat (n - 183) in
        if (length t <? ll)%nat then None
        else
          let lb := firstn ll t in
          let t' := skipn ll t in
          match lb with
          | [] => None
          | l0 :: _ =>
              if Byte.eqb l0 x00 then None
              else
                let size := N_of_be lb in
                if size <? 56 then None
                else if N.of_nat (length t') <? size then None
                else Some (firstn (N.to_nat size) t', skipn (N.to_nat size) t')
          end
      else None
  end.

Definition rlp_decode_bytes (r : bytes) : option bytes :=
  match rlp_split_string r with
  | Some (c, []) => Some c
  | _ => None
  end.

(** [checkProofResult]: RLP-decode the trie value, left-pad to 32 bytes, compare. *)
Definition left_pad32 (t : bytes) : bytes := zeros (32 - length t) ++ t.

Definition check_proof_result (result value : bytes) : bool :=
  match rlp_decode_bytes result with
  | None => false
  | Some t => bytes_eqb (left_pad32 t) value
  end.

(** ** Store keys and packet paths (x/xibc/core/host/keys.go) *)

Definition consensus_key (h : height) : bytes :=
  B "consensusStates/" ++ be_fixed 8 (rn h) ++ be_fixed 8 (rh h).

(** [%d] of a uint64: the decimal rendering of Base/Fmt.v (the one the regenerated key formats of
    Gen/KeysGen.v are rendered with, see Proofs/EvmProofKeys.v) *)
Definition dec_of_N (n : N) : bytes := Fmt.dec n.

(** [PacketCommitmentKey] / [PacketAcknowledgementKey]:
    "commitments/{src}/{dst}/sequences/{seq}" and "acks/{src}/{dst}/sequences/{seq}" *)
Definition packet_path (ack : bool) (src dst : bytes) (seq : N) : bytes :=
  (if ack then B "acks/" else B "commitments/") ++ src ++ B "/" ++ dst ++ B "/sequences/" ++ dec_of_N seq.

(** [common.LeftPadBytes(big.NewInt(208).Bytes(), 32)] *)
Definition pad32_208 : bytes := zeros 31 ++ [xd0].

(** ** Client state, store, proof record *)

Inductive client_kind := ETH | BSC.

Record client_state := {
  cs_kind : client_kind;
  cs_head : height;          (* ClientState.Header.Height *)
  cs_contract : bytes;       (* ClientState.ContractAddress *)
  cs_block_delay : N;        (* ETH: ClientState.BlockDelay *)
  cs_nvalidators : N         (* BSC: len(ClientState.Validators) *)
}.

(** [GetDelayBlock]: ETH returns the configured field, BSC [uint64(len(Validators)/2 + 1)]. *)
Definition delay_block (cs : client_state) : N :=
  match cs_kind cs with
  | ETH => cs_block_delay cs
  | BSC => (cs_nvalidators cs / 2 + 1) mod two64
  end.

(** [GetDelayTime] (not used by the proof verification of these two clients; transcribed for completeness of the
    anchored file): ETH returns the [TimeDelay] field, BSC [uint64(len(Validators)/2+1) * BlockInteval] (uint64
    product, wraps). *)
Definition delay_time (k : client_kind) (nvalidators block_interval time_delay : N) : N :=
  match k with
  | ETH => time_delay
  | BSC => (((nvalidators / 2 + 1) mod two64) * block_interval) mod two64
  end.

(** What [GetConsensusState] finds under a store key: nothing, bytes that do not unmarshal to this
    client's [*ConsensusState], or a consensus state with this [Root] field (any length). *)
Inductive cons_entry := ConsAbsent | ConsBad | ConsRoot (root : bytes).

Record storage_result := { sr_key : bytes; sr_value : bytes; sr_proof : list bytes }.

(** The [Proof] struct after [json.Unmarshal]; strings are byte strings; [StorageProof] is a slice of
    POINTERS, JSON [null] gives a nil element. *)
Record proof_rec := {
  p_address : bytes;
  p_balance : bytes;
  p_code_hash : bytes;
  p_nonce : bytes;
  p_storage_hash : bytes;
  p_account_proof : list bytes;
  p_storage_proof : list (option storage_result)
}.

Definition account_of_record (r : proof_rec) : account :=
  {| a_nonce := N_of_be (hex_to_hash (p_nonce r));
     a_balance := N_of_be (hex_to_hash (p_balance r));
     a_storage := hex_to_hash (p_storage_hash r);
     a_code := hex_to_hash (p_code_hash r) |}.

Inductive query :=
| QKeccak (x : bytes)
| QMpt (root key : bytes) (nodes : list bytes)
| QJson (p : bytes).

Section Verify.
  Variable keccak256 : bytes -> bytes.
  (** [trie.VerifyProof(root, key, NodeList(nodes).NodeSet())]: [None] = error, [Some []] = (nil, nil)
      i.e. the proof shows the key is absent, [Some v] = the value *)
  Variable mpt_verify : bytes -> bytes -> list bytes -> option bytes.
  Variable json_proof : bytes -> option proof_rec.

  (** [ProofKeyConstructor.GetPacketCommitmentProofKey / GetAckProofKey] *)
  Definition proof_key (ack : bool) (src dst : bytes) (seq : N) : bytes :=
    keccak256 (packet_path ack src dst seq ++ pad32_208).

  (** [produceVerificationArgs].  A nil [exported.Height] makes [Height.Compare] panic (failed type
      assertion); a proof height above the head, a proof height whose revision number differs from the
      head's, a nil proof slice and undecodable JSON are errors.

      [revgate = true] is the code since fix commit 0ebe7e9 ("ETH and BSC proof verification rejects proof
      heights of another revision"); [revgate = false] is the code before it, kept ([produce_args_old],
      [verify_old]) only for Refuted/C08_refuted.v. *)
  Definition produce_args_gen (revgate : bool) (cs : client_state) (cstore : bytes -> cons_entry)
             (h : option height) (proof : option bytes) : outcome (proof_rec * bytes) :=
    match h with
    | None => Panic
    | Some h =>
        if height_lt (cs_head cs) h then Err
        else if revgate && negb (rn h =? rn (cs_head cs)) then Err
        else match proof with
             | None => Err
             | Some p =>
                 match json_proof p with
                 | None => Err
                 | Some r =>
                     match cstore (consensus_key h) with
                     | ConsRoot root => Ok (r, root)
                     | _ => Err
                     end
                 end
             end
    end.

  Definition produce_args := produce_args_gen true.
  Definition produce_args_old := produce_args_gen false.

  (** [verifyMerkleProof] *)
  Definition verify_merkle (r : proof_rec) (root contract commitment pkey : bytes) : outcome unit :=
    let addr := from_hex (p_address r) in
    if negb (bytes_eqb addr contract) then Err
    else
      match mpt_verify (bytes_to_hash root) (keccak256 addr) (map from_hex (p_account_proof r)) with
      | None => Err
      | Some acct_val =>
          let acct := account_of_record r in
          if negb (bytes_eqb (rlp_account acct) acct_val) then Err
          else
            match p_storage_proof r with
            | [sp] =>
                match sp with
                | None => Panic          (* sp.Key on a nil *StorageResult *)
                | Some sp =>
                    let k := hex_to_hash (sr_key sp) in
                    if negb (bytes_eqb k pkey) then Err
                    else
                      match mpt_verify (a_storage acct) (keccak256 k) (map from_hex (sr_proof sp)) with
                      | None => Err
                      | Some v => if check_proof_result v commitment then Ok tt else Err
                      end
                end
            | _ => Err
            end
      end.

  (** [VerifyPacketCommitment] ([ack = false]) / [VerifyPacketAcknowledgement] ([ack = true]).
      [delayBlock := cs.Header.Height.RevisionHeight - height.GetRevisionHeight()] is a uint64
      subtraction of the revision HEIGHTS only. *)
  Definition verify_gen (revgate : bool) (cs : client_state) (cstore : bytes -> cons_entry) (h : option height)
             (proof : option bytes) (ack : bool) (src dst : bytes) (seq : N) (commitment : bytes)
    : outcome unit :=
    match produce_args_gen revgate cs cstore h proof with
    | Ok (r, root) =>
        match h with
        | None => Panic
        | Some h =>
            if sub64 (rh (cs_head cs)) (rh h) <? delay_block cs then Err
            else verify_merkle r root (cs_contract cs) commitment (proof_key ack src dst seq)
        end
    | Err => Err
    | Panic => Panic
    end.

  (** the code as it is *)
  Definition verify := verify_gen true.
  (** the code before fix 0ebe7e9 (no revision gate) *)
  Definition verify_old := verify_gen false.

  (** The oracle calls [verify] makes on a given input (same control flow): used by the correspondence
      check to detect a model query the harness did not tabulate; [Proofs/EvmProof.v] shows that
      [verify] depends on the oracles only through these. *)
  Definition merkle_queries (r : proof_rec) (root contract pkey : bytes) : list query :=
    let addr := from_hex (p_address r) in
    if negb (bytes_eqb addr contract) then []
    else
      [QKeccak addr; QMpt (bytes_to_hash root) (keccak256 addr) (map from_hex (p_account_proof r))] ++
      match mpt_verify (bytes_to_hash root) (keccak256 addr) (map from_hex (p_account_proof r)) with
      | None => []
      | Some acct_val =>
          let acct := account_of_record r in
          if negb (bytes_eqb (rlp_account acct) acct_val) then []
          else
            match p_storage_proof r with
            | [Some sp] =>
                let k := hex_to_hash (sr_key sp) in
                if negb (bytes_eqb k pkey) then []
                else [QKeccak k; QMpt (a_storage acct) (keccak256 k) (map from_hex (sr_proof sp))]
            | _ => []
            end
      end.

  Definition queries (cs : client_state) (cstore : bytes -> cons_entry) (h : option height)
             (proof : option bytes) (ack : bool) (src dst : bytes) (seq : N) : list query :=
    match h with
    | None => []
    | Some h =>
        if height_lt (cs_head cs) h then []
        else if negb (rn h =? rn (cs_head cs)) then []
        else match proof with
             | None => []
             | Some p =>
                 QJson p ::
                 match json_proof p with
                 | None => []
                 | Some r =>
                     match cstore (consensus_key h) with
                     | ConsRoot root =>
                         if sub64 (rh (cs_head cs)) (rh h) <? delay_block cs then []
                         else QKeccak (packet_path ack src dst seq ++ pad32_208)
                              :: merkle_queries r root (cs_contract cs) (proof_key ack src dst seq)
                     | _ => []
                     end
                 end
             end
    end.
End Verify.
