(** C06 — who can drive the bridge: executable model of the AUTHORIZATION layer of
    the XIBC message server (no proofs here).

    Transcribed code (repo paths):
    - x/xibc/core/client/keeper/relayer.go  RegisterRelayers, GetRelayer, AuthRelayer,
      GetAllRelayers, GetRelayerAddressOnOtherChain, GetRelayerAddressOnTeleport
    - x/xibc/core/client/types/proposal.go   RegisterRelayerProposal.ValidateBasic
    - x/xibc/core/client/keeper/proposal.go  HandleRegisterRelayer (no further check)
    - x/xibc/core/client/genesis.go          InitGenesis (RegisterRelayers without validation)
    - x/xibc/keeper/msg_server.go            UpdateClient, RecvPacket, Acknowledgement
    - x/xibc/core/packet/keeper/packet.go    only the lines `proof := msg.Proof…; if
      clientState.ClientType() == exported.TSS { proof = []byte(msg.Signer) }` of
      RecvPacket / AcknowledgePacket
    - x/xibc/clients/tss-client/types/client_state.go  CheckMsg, VerifyPacketCommitment,
      VerifyPacketAcknowledgement (string comparison with TssAddress)
    - the other clients' CheckMsg (tendermint, bsc, eth): `return nil`

    Everything BELOW that layer — light-client header and proof verification, the
    packet state machine (receipts, commitments, sequences; Model/Packet.v is someone
    else's), the EVM with the system contracts — is a record [lower] of arbitrary
    functions over an arbitrary lower state [D]; every theorem of Props/C06.v is
    quantified over all of them.  Strings are byte strings. *)
From Teleport Require Import Base.Bytes Base.Outcome.

(** * The relayer registry: the prefix store "relayers" ++ address -> IdentifiedRelayer.
    Kept as an association list in KEY ORDER (the order of the store iterator used by
    GetAllRelayers); [reg_set] is store.Set (overwrite or sorted insert). *)
Record relayer := { r_chains : list bytes; r_addrs : list bytes }.
Definition registry := list (bytes * relayer).

Fixpoint reg_get (r : registry) (a : bytes) : option relayer :=
  match r with
  | [] => None
  | (k, x) :: r' => if bytes_eqb k a then Some x else reg_get r' a
  end.

Fixpoint reg_set (r : registry) (a : bytes) (v : relayer) : registry :=
  match r with
  | [] => [(a, v)]
  | (k, x) :: r' =>
      match bytes_cmp a k with
      | Lt => (a, v) :: (k, x) :: r'
      | Eq => (a, v) :: r'
      | Gt => (k, x) :: reg_set r' a v
      end
  end.

(** RegisterRelayers(address, chains, addresses): one store.Set — the previous record
    of that address (all its chains) is REPLACED, nothing is merged.  The prefix store
    panics on an empty key (types.AssertValidKey), i.e. on an empty address. *)
Definition register_relayers (r : registry) (a : bytes) (chains addrs : list bytes) : outcome registry :=
  match a with
  | [] => Panic
  | _ => Ok (reg_set r a {| r_chains := chains; r_addrs := addrs |})
  end.

(** AuthRelayer(chainName, relayer): `for _, chain := range ir.Chains { if chain == chainName … }` *)
Definition auth_relayer (r : registry) (chain signer : bytes) : bool :=
  match reg_get r signer with
  | Some x => existsb (bytes_eqb chain) (r_chains x)
  | None => false
  end.

(** `for i, chain := range ir.Chains { if chain == chainName { return ir.Addresses[i], true } }`
    — the FIRST index whose chain matches; `ir.Addresses[i]` panics (index out of
    range) when the address list is shorter (only possible for records that did not
    pass ValidateBasic, i.e. imported by InitGenesis). *)
Fixpoint addr_at (chains addrs : list bytes) (c : bytes) : outcome (option bytes) :=
  match chains with
  | [] => Ok None
  | ch :: cs =>
      if bytes_eqb ch c
      then match addrs with a :: _ => Ok (Some a) | [] => Panic end
      else addr_at cs (tl addrs) c
  end.

(** GetRelayerAddressOnOtherChain(chainName, address) *)
Definition other_chain_addr (r : registry) (chain signer : bytes) : outcome (option bytes) :=
  match reg_get r signer with
  | Some x => addr_at (r_chains x) (r_addrs x) chain
  | None => Ok None
  end.

(** host.ClientIdentifierValidator: 3..64 characters out of [a-zA-Z0-9._+-#[]<>]
    (blank / '/' tests are subsumed by the character class). *)
Definition id_char (b : byte) : bool :=
  let n := Byte.to_N b in
  ((48 <=? n) && (n <=? 57) || (65 <=? n) && (n <=? 90) || (97 <=? n) && (n <=? 122)
   || (n =? 46) || (n =? 95) || (n =? 43) || (n =? 45) || (n =? 35) || (n =? 91) || (n =? 93)
   || (n =? 60) || (n =? 62))%N.

Definition chain_id_ok (c : bytes) : bool :=
  (3 <=? length c)%nat && (length c <=? 64)%nat && forallb id_char c.

(** * Messages and acknowledgements (only the fields the authorization layer reads) *)
Record ack := { ack_code : N; ack_result : bytes; ack_message : bytes; ack_relayer : bytes; ack_fee : N }.

(** `len(ack.String()) == 0`: the proto text form is empty iff every field has its
    zero value. *)
Definition ack_is_zero (a : ack) : bool :=
  (ack_code a =? 0)%N && bytes_eqb (ack_result a) [] && bytes_eqb (ack_message a) []
  && bytes_eqb (ack_relayer a) [] && (ack_fee a =? 0)%N.

Inductive client := TSS (tss_address : bytes) | Light.

Section Auth.
  Variable D : Type.       (* the state of everything below the authorization layer *)
  Variable HD : Type.      (* a light-client header *)
  Variable PK : Type.      (* rest of a MsgRecvPacket: payload, proof, proof height *)
  Variable AK : Type.      (* rest of a MsgAcknowledgement *)
  Variable canon : bytes -> bytes.           (* sdk.AccAddress(bech32-decode s).String() *)
  Variable fold_eq : bytes -> bytes -> bool. (* strings.EqualFold *)
  Variable bech32_ok : bytes -> bool.        (* sdk.AccAddressFromBech32 succeeds *)

  Record update_msg := { um_chain : bytes; um_signer : bytes; um_header : HD }.
  Record recv_msg := { rm_signer : bytes; rm_src : bytes; rm_dst : bytes; rm_seq : N; rm_fee : N; rm_rest : PK }.
  Record ack_msg := { am_signer : bytes; am_src : bytes; am_dst : bytes; am_seq : N;
                      am_ack : option ack;   (* msg.Acknowledgement as ABIDecode reads it; None = undecodable *)
                      am_rest : AK }.

  (** result of `CallPacket(cctx, "onRecvPacket", packet)` + `UnpackIntoInterface`; the callback runs on
      a branch of the state which the msg server writes back only for result code 0 — the lower state
      carried by the result is the state AFTER that decision (the authorization layer does not care). *)
  Inductive cb_result :=
  | CbFailed (d : D)                                   (* CallPacket returned an error *)
  | CbReturned (d : D) (r : option (N * bytes * bytes)) (* returned; Some (code, result, message) if it decodes *)
  | CbPanic.

  Record lower := {
    client_of : D -> bytes -> option client;           (* GetClientState(chain) + ClientType / TssAddress *)
    self_chain : D -> bytes;                           (* GetChainName *)
    lo_update : D -> bytes -> HD -> outcome D;         (* ClientKeeper.UpdateClient(chain, header) *)
    lo_recv : D -> recv_msg -> outcome D;              (* PacketKeeper.RecvPacket minus the TSS comparison *)
    lo_callback : D -> recv_msg -> cb_result;
    lo_write_ack : D -> recv_msg -> ack -> outcome D;  (* ack.ABIPack + PacketKeeper.WriteAcknowledgement *)
    lo_ack : D -> ack_msg -> outcome D;                (* PacketKeeper.AcknowledgePacket minus the TSS comparison *)
    lo_set_status : D -> ack_msg -> outcome D;         (* CallPacket setAckStatus *)
    lo_pay : D -> ack_msg -> bytes -> outcome D;       (* CallPacket sendPacketFeeToRelayer(dst, seq, payee) *)
    lo_on_ack : D -> ack_msg -> outcome D              (* CallPacket OnAcknowledgePacket *)
  }.
  Variable L : lower.

  (** a written acknowledgement (EventWriteAck of the msg server's RecvPacket) *)
  Record wack := { w_src : bytes; w_dst : bytes; w_seq : N; w_ack : ack }.

  Record state := { reg : registry; low : D; wlog : list wack }.
  Definition set_low (s : state) (d : D) : state := {| reg := reg s; low := d; wlog := wlog s |}.

  (** RegisterRelayerProposal.ValidateBasic (title/description are not modelled: the
      harness always supplies valid ones). *)
  Definition validate_basic (a : bytes) (chains addrs : list bytes) : bool :=
    bech32_ok a && negb (length addrs =? 0)%nat && (length addrs =? length chains)%nat
    && forallb chain_id_ok chains.

  (** tss ClientState.CheckMsg: `cs.TssAddress != msg.GetSigners()[0].String()`;
      every other client type: nil. *)
  Definition check_msg (c : client) (signer : bytes) : bool :=
    match c with TSS a => bytes_eqb a (canon signer) | Light => true end.

  (** msg_server.UpdateClient *)
  Definition handle_update (s : state) (m : update_msg) : outcome state :=
    if negb (auth_relayer (reg s) (um_chain m) (um_signer m)) then Err else
    match client_of L (low s) (um_chain m) with
    | None => Err
    | Some c =>
        if negb (check_msg c (um_signer m)) then Err else
        d' <- lo_update L (low s) (um_chain m) (um_header m) ;;
        Ok (set_low s d')
    end.

  (** the TSS substitution of packet.go: for a TSS client the "proof" is the signer
      string and Verify… compares it with TssAddress. *)
  Definition tss_signer_ok (d : D) (chain signer : bytes) : bool :=
    match client_of L d chain with
    | Some (TSS a) => bytes_eqb signer a
    | _ => true
    end.

  Definition packet_recv (d : D) (m : recv_msg) : outcome D :=
    if tss_signer_ok d (rm_src m) (rm_signer m) then lo_recv L d m else Err.

  Definition packet_ack (d : D) (m : ack_msg) : outcome D :=
    if tss_signer_ok d (am_dst m) (am_signer m) then lo_ack L d m else Err.

  Definition mk_ack (code : N) (res msg relayer : bytes) (fee : N) : ack :=
    {| ack_code := code; ack_result := res; ack_message := msg; ack_relayer := relayer; ack_fee := fee |}.

  Definition write_ack (s : state) (d : D) (m : recv_msg) (a : ack) : outcome state :=
    d' <- lo_write_ack L d m a ;;
    Ok {| reg := reg s; low := d';
          wlog := wlog s ++ [ {| w_src := rm_src m; w_dst := rm_dst m; w_seq := rm_seq m; w_ack := a |} ] |}.

  (** msg_server.RecvPacket *)
  Definition handle_recv (s : state) (m : recv_msg) : outcome state :=
    d1 <- packet_recv (low s) m ;;
    r <- other_chain_addr (reg s) (rm_src m) (rm_signer m) ;;
    match r with
    | None => Err                                       (* ErrRelayerNotFound *)
    | Some relayer =>
        if bytes_eqb (rm_dst m) (self_chain L d1) then
          match lo_callback L d1 m with
          | CbFailed d2 =>
              write_ack s d2 m (mk_ack 1 [] (B "receive packet callback failed") relayer (rm_fee m))
          | CbReturned d2 (Some (code, res, msg)) =>
              write_ack s d2 m (mk_ack code res msg relayer (rm_fee m))
          | CbReturned _ None => Err
          | CbPanic => Panic
          end
        else match client_of L d1 (rm_dst m) with
             | None => write_ack s d1 m (mk_ack 1 [] (B "dstChain not found") relayer (rm_fee m))
             | Some _ => Ok (set_low s d1)              (* relayed onwards: no acknowledgement here *)
             end
    end.

  (** GetRelayerAddressOnTeleport(chainName, address): all records in store order;
      `chain == chainName && strings.EqualFold(ir.Addresses[i], address)`. *)
  Fixpoint rev_match (chains addrs : list bytes) (c a : bytes) : outcome bool :=
    match chains with
    | [] => Ok false
    | ch :: cs =>
        if bytes_eqb ch c
        then match addrs with
             | x :: _ => if fold_eq x a then Ok true else rev_match cs (tl addrs) c a
             | [] => Panic
             end
        else rev_match cs (tl addrs) c a
    end.

  Fixpoint teleport_addr (r : registry) (c a : bytes) : outcome (option bytes) :=
    match r with
    | [] => Ok None
    | (k, x) :: r' =>
        f <- rev_match (r_chains x) (r_addrs x) c a ;;
        if f then Ok (Some k) else teleport_addr r' c a
    end.

  (** msg_server.Acknowledgement *)
  Definition handle_ack (s : state) (m : ack_msg) : outcome state :=
    d1 <- packet_ack (low s) m ;;
    match am_ack m with
    | None => Err
    | Some a =>
        if ack_is_zero a then Err else
        if bytes_eqb (am_src m) (self_chain L d1) then
          d2 <- lo_set_status L d1 m ;;
          p <- teleport_addr (reg s) (am_dst m) (ack_relayer a) ;;
          match p with
          | None => Err                                 (* ErrRelayerNotFound *)
          | Some payee =>
              if negb (bech32_ok payee) then Err else
              d3 <- lo_pay L d2 m payee ;;
              d4 <- lo_on_ack L d3 m ;;
              Ok (set_low s d4)
          end
        else Ok (set_low s d1)
    end.

  (** * Histories *)
  Inductive op :=
  | ORegGov (a : bytes) (chains addrs : list bytes)   (* RegisterRelayerProposal: ValidateBasic at submission, handler on passing;
                                                         also a genesis relayer checked by GenesisState.Validate (same checks) *)
  | ORegRaw (a : bytes) (chains addrs : list bytes)   (* InitGenesis on a genesis file that was not validated *)
  | OUpdate (m : update_msg)
  | ORecv (m : recv_msg)
  | OAck (m : ack_msg)
  | OEnv (f : D -> D).                                (* anything else the lower layers do (client proposals, sends, EVM txs) *)

  (** BaseApp.runTx: the message runs on a cache of the state which is written back
      only when the handler returns without error; a panic is recovered into an error.
      (Validated by the store comparison of the correspondence check.)  For the two
      registration paths a panic (empty address = empty store key) happens outside such a
      recovery — in gov's EndBlocker (excluded by ValidateBasic) or in InitGenesis, where it
      aborts the start of the chain; either way no registration results. *)
  Definition deliver (s : state) (r : outcome state) : state * bool :=
    match r with Ok s' => (s', true) | _ => (s, false) end.

  Definition do_register (s : state) (a : bytes) (cs ads : list bytes) : outcome state :=
    r' <- register_relayers (reg s) a cs ads ;;
    Ok {| reg := r'; low := low s; wlog := wlog s |}.

  Definition step (s : state) (o : op) : state * bool :=
    match o with
    | ORegGov a cs ads => if validate_basic a cs ads then deliver s (do_register s a cs ads) else (s, false)
    | ORegRaw a cs ads => deliver s (do_register s a cs ads)
    | OUpdate m => deliver s (handle_update s m)
    | ORecv m => deliver s (handle_recv s m)
    | OAck m => deliver s (handle_ack s m)
    | OEnv f => (set_low s (f (low s)), true)
    end.

  Fixpoint run (ops : list op) (s : state) : state :=
    match ops with [] => s | o :: ops' => run ops' (fst (step s o)) end.

  (** the registration an operation performs, if any *)
  Definition reg_write (a : bytes) (cs ads : list bytes) : option (bytes * relayer) :=
    match a with [] => None | _ => Some (a, {| r_chains := cs; r_addrs := ads |}) end.

  Definition reg_effect (o : op) : option (bytes * relayer) :=
    match o with
    | ORegGov a cs ads => if validate_basic a cs ads then reg_write a cs ads else None
    | ORegRaw a cs ads => reg_write a cs ads
    | _ => None
    end.

  Definition registers (o : op) (a : bytes) : bool :=
    match reg_effect o with Some (a', _) => bytes_eqb a' a | None => false end.
End Auth.

Arguments client_of {D HD PK AK}.
Arguments self_chain {D HD PK AK}.

(** First index of [c] in [chains] (specification vocabulary of the theorems). *)
Fixpoint first_index (chains : list bytes) (c : bytes) : option nat :=
  match chains with
  | [] => None
  | ch :: cs => if bytes_eqb ch c then Some 0%nat else option_map S (first_index cs c)
  end.

(** ASCII case folding (strings.EqualFold restricted to ASCII strings). *)
Definition ascii_lower (b : byte) : byte :=
  let n := Byte.to_N b in
  if ((65 <=? n) && (n <=? 90))%N then match Byte.of_N (n + 32) with Some c => c | None => b end else b.

Fixpoint ascii_fold_eq (a b : bytes) : bool :=
  match a, b with
  | [], [] => true
  | x :: a', y :: b' => Byte.eqb (ascii_lower x) (ascii_lower y) && ascii_fold_eq a' b'
  | _, _ => false
  end.
