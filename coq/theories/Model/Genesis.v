(** Executable model of genesis export / import / validation of the xibc,
    aggregate and rvesting modules (property C13).  No proofs here
    (Proofs/Genesis*.v).

    Go sources transcribed (at /repo HEAD; the pre-repair variants are kept
    with the suffix [_old] for Refuted/C13_*.v):
      x/xibc/genesis.go                         InitGenesis, ExportGenesis
      x/xibc/core/client/genesis.go             InitGenesis, ExportGenesis
      x/xibc/core/client/keeper/keeper.go       IterateClients, GetAllGenesisClients, IterateConsensusStates,
                                                GetAllConsensusStates, GetAllClientMetadata, SetAllClientMetadata,
                                                SetClientState, SetClientConsensusState, Set/GetChainName, ClientStore
      x/xibc/core/client/keeper/relayer.go      RegisterRelayers, GetAllRelayers
      x/xibc/core/client/types/genesis.go       GenesisState.Validate, GenesisMetadata.Validate
      x/xibc/core/packet/genesis.go             InitGenesis, ExportGenesis
      x/xibc/core/packet/keeper/keeper.go       GetAllPacketAcks/Commitments/Receipts (iterateHashes),
                                                GetAllPacketSendSeqs (IteratePacketSequence + host.ParsePath), Set*
      x/xibc/core/packet/types/genesis.go       GenesisState.Validate, PacketState.Validate, validateGenFields
      tendermint/types/genesis.go, store.go     ExportMetadata, IterateProcessedTime
      bsc/types/client_state.go, eth/...        ExportMetadata (IteratorTraversal / IteratorEthMetaDataByPrefix)
      tss-client/types/client_state.go          ExportMetadata (nil)
      x/aggregate/genesis.go, keeper/token_pairs.go, types/genesis.go, types/token_pair.go
      x/rvesting/keeper/genesis.go, types/genesis.go
    The key builders and the key parsers of the iterators come from the
    regenerated Gen/KeysGen.v through Model/Keys.v (owned by C19).

    A KV store is a strictly sorted association list (key order = iterator
    order).  Codecs (protobuf [Any] of client / consensus states, the relayer
    and token-pair messages), SHA-256 and [common.HexToAddress] are Section
    variables (oracles). *)
From Teleport Require Import Base.Bytes Base.Outcome Base.AList Base.Fmt Gen.KeysGen Model.Keys.
From Teleport Require Model.Rvesting.
Local Open Scope N_scope.

Definition store := list (bytes * bytes).

(** strictly increasing keys ([bytes.Compare] order): the shape of every store dump *)
Fixpoint sorted (s : store) : bool :=
  match s with
  | [] => true
  | (k, _) :: r => match r with
                   | [] => true
                   | (k', _) :: _ => bytes_ltb k k' && sorted r
                   end
  end.

(** [sdk.KVStorePrefixIterator(store, p)] : the entries whose key starts with [p], in key order *)
Definition prefix_iter (p : bytes) (s : store) : store := filter (fun kv => is_prefix p (fst kv)) s.

(** [prefix.NewStore(store, p)] : the same entries with the prefix removed from the key *)
Definition sub_store (p : bytes) (s : store) : store :=
  flat_map (fun kv => match strip p (fst kv) with Some r => [(r, snd kv)] | None => [] end) s.

(** a sequence of [store.Set] calls *)
Definition apply_writes (w : list (bytes * bytes)) (s : store) : store :=
  fold_left (fun acc kv => aset (fst kv) (snd kv) acc) w s.

Inductive ctype := TM | BSC | ETH | TSS.
Definition ctype_eqb (a b : ctype) : bool :=
  match a, b with TM, TM | BSC, BSC | ETH, ETH | TSS, TSS => true | _, _ => false end.
(** client types whose counterparty has a block 0 ([GenesisState.Validate]: a zero-height consensus
    state is accepted for these only) *)
Definition has_height_zero (t : ctype) : bool := match t with ETH | BSC => true | _ => false end.

(** [types.IdentifiedRelayer] *)
Record relayer := { r_address : bytes; r_chains : list bytes; r_addresses : list bytes }.
(** [aggregate types.TokenPair]; [tp_owner]: the enum value of ContractOwner *)
Record token_pair := { tp_erc20 : bytes; tp_denoms : list bytes; tp_enabled : bool; tp_owner : N }.
(** [packet types.PacketState] *)
Record packet_state := { ps_src : bytes; ps_dst : bytes; ps_seq : N; ps_data : bytes }.

Definition is_nil {A} (l : list A) : bool := match l with [] => true | _ => false end.

Definition height_is_zero (h : height) : bool := (rev_number h =? 0) && (rev_height h =? 0).

(** collect over a list with a step that may skip ([Ok None]), yield, or abort *)
Fixpoint ocollect {A B} (f : A -> outcome (option B)) (l : list A) : outcome (list B) :=
  match l with
  | [] => Ok []
  | x :: r =>
      match f x with
      | Ok None => ocollect f r
      | Ok (Some b) => match ocollect f r with Ok bs => Ok (b :: bs) | Err => Err | Panic => Panic end
      | Err => Err
      | Panic => Panic
      end
  end.

(** insertion sort on the chain name (Go: [sort.Sort] with [Less = ChainName <];
    the names are pairwise distinct, so every correct sort returns this list) *)
Fixpoint insert_by_name {X} (x : bytes * X) (l : list (bytes * X)) : list (bytes * X) :=
  match l with
  | [] => [x]
  | y :: r => match bytes_cmp (fst x) (fst y) with
              | Gt => y :: insert_by_name x r
              | _ => x :: y :: r
              end
  end.
Definition sort_by_name {X} (l : list (bytes * X)) : list (bytes * X) := fold_right insert_by_name [] l.

(** [GetAllConsensusStates]: append to the group of the chain name, new groups at the end *)
Fixpoint group_add {X} (name : bytes) (x : X) (g : list (bytes * list X)) : list (bytes * list X) :=
  match g with
  | [] => [(name, [x])]
  | (n, xs) :: r => if bytes_eqb n name then (n, xs ++ [x]) :: r else (n, xs) :: group_add name x r
  end.
Definition group_by_name {X} (l : list (bytes * X)) : list (bytes * list X) :=
  fold_left (fun g nx => group_add (fst nx) (snd nx) g) l [].

Section Genesis.
  (** * Oracles *)
  Variables CS CONS : Type.
  Variable cs_unmarshal : bytes -> option CS.        (* MustUnmarshalClientState; None = panic *)
  Variable cs_marshal : CS -> bytes.                 (* MustMarshalClientState *)
  Variable cs_type : CS -> ctype.                    (* the concrete Go type = ClientType() *)
  Variable cs_valid : CS -> bool.                    (* ClientState.Validate() == nil *)
  Variable cons_unmarshal : bytes -> option CONS.
  Variable cons_marshal : CONS -> bytes.
  Variable cons_type : CONS -> ctype.                (* ConsensusState.ClientType() *)
  Variable cons_valid : CONS -> bool.                (* ValidateBasic() == nil *)
  Variable rel_unmarshal : bytes -> option relayer.  (* cdc.MustUnmarshal(bz, &IdentifiedRelayer) *)
  Variable rel_marshal : relayer -> bytes.
  Variable acc_addr_ok : bytes -> bool.              (* sdk.AccAddressFromBech32(s) returns no error *)
  Variable tp_unmarshal : bytes -> option token_pair.
  Variable tp_marshal : token_pair -> bytes.
  Variable sha256 : bytes -> bytes.                  (* tmhash.Sum *)
  Variable hex_to_address : bytes -> bytes.          (* common.HexToAddress(s).Bytes() *)

  (** * Genesis states *)
  Record client_genesis := {
    g_clients : list (bytes * CS);                          (* Clients, sorted by ChainName *)
    g_consensus : list (bytes * list (height * CONS));      (* ClientsConsensus, sorted by ChainName *)
    g_metadata : list (bytes * list (bytes * bytes));       (* ClientsMetadata: per client, (key, value) *)
    g_native : bytes;                                       (* NativeChainName *)
    g_relayers : list relayer }.

  Record packet_genesis := {
    g_acks : list packet_state;
    g_commitments : list packet_state;
    g_receipts : list packet_state;
    g_send_seqs : list (bytes * bytes * N) }.

  Record genesis := {
    g_client : client_genesis;
    g_packet : packet_genesis;
    g_agg_params : bool * bool;                  (* EnableAggregate, EnableEVMHook *)
    g_pairs : list token_pair;
    g_rv_params : Rvesting.params }.

  (** the three modules' state *)
  Record mstate := {
    st_xibc : store;                             (* KV store "xibc" (client + packet keepers) *)
    st_agg : store;                              (* KV store "aggregate" *)
    st_agg_params : bool * bool;                 (* params subspace of aggregate *)
    st_rv_params : Rvesting.params }.            (* params subspace of rvesting *)

  (** * xibc client sub-module: export *)

  (** the key parsers are parameters so that the pre-repair export can be instantiated as well *)
  Section ExportWith.
    Variable p_clients : bytes -> outcome (seen bytes).               (* IterateClients on a full key *)
    Variable p_consensus : bytes -> outcome (seen (bytes * height)).  (* IterateConsensusStates on a full key *)
    Variable p_metadata : ctype -> store -> list (bytes * bytes).     (* ExportMetadata on the client's prefix store *)

    (** [GetAllGenesisClients] = IterateClients + Sort *)
    Definition all_genesis_clients (s : store) : outcome (list (bytes * CS)) :=
      l <- ocollect (fun kv =>
             sn <- p_clients (fst kv) ;;
             match sn with
             | Skip => Ok None
             | Got name => match cs_unmarshal (snd kv) with Some c => Ok (Some (name, c)) | None => Panic end
             end) (prefix_iter host_KeyClientStorePrefix s) ;;
      Ok (sort_by_name l).

    (** [GetAllConsensusStates] = IterateConsensusStates, grouped by chain name, + Sort *)
    Definition all_consensus_states (s : store) : outcome (list (bytes * list (height * CONS))) :=
      l <- ocollect (fun kv =>
             sn <- p_consensus (fst kv) ;;
             match sn with
             | Skip => Ok None
             | Got (name, h) => match cons_unmarshal (snd kv) with Some c => Ok (Some (name, (h, c))) | None => Panic end
             end) (prefix_iter host_KeyClientStorePrefix s) ;;
      Ok (sort_by_name (group_by_name l)).

    (** [GetAllClientMetadata(genClients)]: per client (in the order of genClients) the ExportMetadata of its type
        on [ClientStore(chainName)]; clients without metadata are left out *)
    Definition all_client_metadata (s : store) (clients : list (bytes * CS)) : list (bytes * list (bytes * bytes)) :=
      flat_map (fun nc =>
        let gms := p_metadata (cs_type (snd nc)) (sub_store (client_store_prefix (fst nc)) s) in
        if is_nil gms then [] else [(fst nc, gms)]) clients.

    (** [GetAllRelayers] *)
    Definition all_relayers (s : store) : outcome (list relayer) :=
      ocollect (fun kv => match rel_unmarshal (snd kv) with Some r => Ok (Some r) | None => Panic end)
               (prefix_iter clienttypes_KeyRelayers s).

    (** [GetChainName]: string(store.Get(key)), "" when absent *)
    Definition get_chain_name (s : store) : bytes :=
      match aget chain_name_key s with Some v => v | None => [] end.

    Definition export_client_with (s : store) : outcome client_genesis :=
      clients <- all_genesis_clients s ;;
      cons <- all_consensus_states s ;;
      rels <- all_relayers s ;;
      Ok {| g_clients := clients;
            g_metadata := all_client_metadata s clients;
            g_consensus := cons;
            g_native := get_chain_name s;
            g_relayers := rels |}.
  End ExportWith.

  (** ExportMetadata at /repo HEAD *)
  Definition is_got {A} (x : seen A) : bool := match x with Got _ => true | Skip => false end.

  Definition export_metadata (t : ctype) (cs : store) : list (bytes * bytes) :=
    match t with
    | TM => filter (fun kv => is_got (iter_processed_time (fst kv))) (prefix_iter host_KeyConsensusStatePrefix cs)
            ++ prefix_iter tm_KeyIterateConsensusStatePrefix cs
    | BSC => prefix_iter bsc_PrefixKeyRecentSingers cs ++ prefix_iter bsc_PrefixPendingValidators cs
    | ETH => prefix_iter eth_KeyIndexEthHeaderPrefix cs ++ prefix_iter eth_KeyMainRootPrefix cs
    | TSS => []
    end.

  Definition export_client : store -> outcome client_genesis :=
    export_client_with (fun k => Ok (iter_clients k)) (fun k => Ok (iter_consensus_states k)) export_metadata.

  (** the pre-repair export: Split-based key parsing (defect D7), Tendermint iteration keys not exported (D8) *)
  Definition export_metadata_old (t : ctype) (cs : store) : list (bytes * bytes) :=
    match t with
    | TM => filter (fun kv => is_got (iter_processed_time_old (fst kv))) (prefix_iter host_KeyConsensusStatePrefix cs)
    | _ => export_metadata t cs
    end.
  (** only D7 reverted / only D8 reverted *)
  Definition export_metadata_split (t : ctype) (cs : store) : list (bytes * bytes) :=
    match t with
    | TM => filter (fun kv => is_got (iter_processed_time_old (fst kv))) (prefix_iter host_KeyConsensusStatePrefix cs)
            ++ prefix_iter tm_KeyIterateConsensusStatePrefix cs
    | _ => export_metadata t cs
    end.
  Definition export_metadata_noiter (t : ctype) (cs : store) : list (bytes * bytes) :=
    match t with
    | TM => filter (fun kv => is_got (iter_processed_time (fst kv))) (prefix_iter host_KeyConsensusStatePrefix cs)
    | _ => export_metadata t cs
    end.

  Definition export_client_old : store -> outcome client_genesis :=
    export_client_with iter_clients_old iter_consensus_states_old export_metadata_old.
  Definition export_client_split : store -> outcome client_genesis :=
    export_client_with iter_clients_old iter_consensus_states_old export_metadata_split.
  Definition export_client_noiter : store -> outcome client_genesis :=
    export_client_with (fun k => Ok (iter_clients k)) (fun k => Ok (iter_consensus_states k)) export_metadata_noiter.

  (** * xibc client sub-module: import ([client.InitGenesis]) as the sequence of store.Set calls *)
  Definition relayer_writes (r : relayer) : bytes * bytes := (relayer_key (r_address r), rel_marshal r).

  Definition client_writes (g : client_genesis) : list (bytes * bytes) :=
    (* SetAllClientMetadata *)
    flat_map (fun igm => map (fun md => (client_store_prefix (fst igm) ++ fst md, snd md)) (snd igm)) (g_metadata g)
    (* SetClientState *)
    ++ map (fun nc => (full_client_state_key (fst nc), cs_marshal (snd nc))) (g_clients g)
    (* SetClientConsensusState *)
    ++ flat_map (fun ncs => map (fun hc => (full_consensus_state_key (fst ncs) (fst hc), cons_marshal (snd hc))) (snd ncs))
                (g_consensus g)
    (* RegisterRelayers *)
    ++ map relayer_writes (g_relayers g)
    (* SetChainName *)
    ++ [(chain_name_key, g_native g)].

  (** [prefix.Store.Set] panics on an empty key ([types.AssertValidKey]): a metadata entry with an empty key
      (SetAllClientMetadata), a relayer with an empty address (RegisterRelayers: the key is the address) *)
  Definition client_import_panics (g : client_genesis) : bool :=
    existsb (fun igm => existsb (fun md => is_nil (fst md)) (snd igm)) (g_metadata g)
    || existsb (fun r => is_nil (r_address r)) (g_relayers g).

  (** * xibc packet sub-module *)
  Definition triple_of (p : packet_state) : triple := {| t_src := ps_src p; t_dst := ps_dst p; t_seq := ps_seq p |}.

  Definition iterate_hashes (p : bytes) (s : store) : outcome (list packet_state) :=
    ocollect (fun kv =>
      t <- iterate_hashes_parse (fst kv) ;;
      Ok (Some {| ps_src := t_src t; ps_dst := t_dst t; ps_seq := t_seq t; ps_data := snd kv |})) (prefix_iter p s).

  (** [IteratePacketSequence]: a key [ParsePath] rejects ENDS the iteration (`return`) *)
  Fixpoint iterate_packet_sequence (l : store) : outcome (list (bytes * bytes * N)) :=
    match l with
    | [] => Ok []
    | (k, v) :: r =>
        match parse_path k with
        | Ok (a, b) =>
            n <- sdk_be_to_uint64 v ;;
            rest <- iterate_packet_sequence r ;;
            Ok ((a, b, n) :: rest)
        | _ => Ok []
        end
    end.

  Definition export_packet (s : store) : outcome packet_genesis :=
    acks <- iterate_hashes host_KeyPacketAckPrefix s ;;
    comms <- iterate_hashes host_KeyPacketCommitmentPrefix s ;;
    rcpts <- iterate_hashes host_KeyPacketReceiptPrefix s ;;
    seqs <- iterate_packet_sequence (prefix_iter host_KeyNextSeqSendPrefix s) ;;
    Ok {| g_acks := acks; g_commitments := comms; g_receipts := rcpts; g_send_seqs := seqs |}.

  Definition packet_writes (g : packet_genesis) : list (bytes * bytes) :=
    map (fun p => (packet_ack_key (triple_of p), ps_data p)) (g_acks g)
    ++ map (fun p => (packet_commitment_key (triple_of p), ps_data p)) (g_commitments g)
    ++ map (fun p => (packet_receipt_key (triple_of p), [x01])) (g_receipts g)          (* SetPacketReceipt ignores Data *)
    ++ map (fun x => (next_seq_send_key (fst (fst x)) (snd (fst x)), be_bytes 8 (snd x))) (g_send_seqs g).

  (** * xibc: ExportGenesis / InitGenesis into an empty store *)
  Definition export_xibc_with (ec : store -> outcome client_genesis) (s : store) : outcome (client_genesis * packet_genesis) :=
    c <- ec s ;; p <- export_packet s ;; Ok (c, p).
  Definition export_xibc := export_xibc_with export_client.

  Definition import_xibc (g : client_genesis * packet_genesis) : outcome store :=
    if client_import_panics (fst g) then Panic
    else Ok (apply_writes (packet_writes (snd g)) (apply_writes (client_writes (fst g)) [])).

  (** * xibc: Validate *)

  (** [validClients[name]]: the LAST client of that name in the list decides the type *)
  Fixpoint lookup_last {X} (name : bytes) (l : list (bytes * X)) : option X :=
    match l with
    | [] => None
    | (n, x) :: r => match lookup_last name r with
                     | Some y => Some y
                     | None => if bytes_eqb n name then Some x else None
                     end
    end.

  (** [IdentifiedRelayer.Validate] (the stateless checks of RegisterRelayerProposal.ValidateBasic) *)
  Definition relayer_valid (r : relayer) : bool :=
    acc_addr_ok (r_address r)
    && negb (is_nil (r_addresses r)) && Nat.eqb (length (r_addresses r)) (length (r_chains r))
    && forallb valid_chain_name (r_chains r).

  Definition validate_client (g : client_genesis) : bool :=
    forallb (fun nc => valid_chain_name (fst nc) && cs_valid (snd nc)) (g_clients g)
    && forallb (fun ncs =>
         match lookup_last (fst ncs) (g_clients g) with
         | None => false
         | Some c => forallb (fun hc => negb (height_is_zero (fst hc) && negb (has_height_zero (cs_type c)))
                                        && cons_valid (snd hc)
                                        && ctype_eqb (cs_type c) (cons_type (snd hc))) (snd ncs)
         end) (g_consensus g)
    && forallb (fun igm =>
         match lookup_last (fst igm) (g_clients g) with
         | None => false
         | Some _ => forallb (fun md => negb (is_nil (fst md)) && negb (is_nil (snd md))) (snd igm)
         end) (g_metadata g)
    && forallb relayer_valid (g_relayers g)
    && valid_chain_name (g_native g).

  (** [validateGenFields]; [PacketState.Validate]: Data == nil is an error (the model identifies nil and empty) *)
  Definition validate_gen_fields (src dst : bytes) (seq : N) : bool :=
    valid_src_chain src && valid_dst_chain dst && negb (seq =? 0).
  Definition validate_packet_state (p : packet_state) : bool :=
    negb (is_nil (ps_data p)) && validate_gen_fields (ps_src p) (ps_dst p) (ps_seq p).

  Definition validate_packet (g : packet_genesis) : bool :=
    forallb validate_packet_state (g_acks g)
    && forallb validate_packet_state (g_receipts g)
    && forallb validate_packet_state (g_commitments g)
    && forallb (fun x => validate_gen_fields (fst (fst x)) (snd (fst x)) (snd x)) (g_send_seqs g).

  Definition validate_xibc (g : client_genesis * packet_genesis) : bool :=
    validate_client (fst g) && validate_packet (snd g).

  (** * aggregate *)

  (** [TokenPair.GetID]: sha256(ERC20Address + "|" + Denoms[0]); index out of range without denominations *)
  Definition pair_id (p : token_pair) : outcome bytes :=
    match tp_denoms p with
    | [] => Panic
    | d :: _ => Ok (sha256 (tp_erc20 p ++ [x7c] ++ d))
    end.

  (** [GetAllTokenPairs] *)
  Definition export_agg (s : store) : outcome (list token_pair) :=
    ocollect (fun kv => match tp_unmarshal (snd kv) with Some p => Ok (Some p) | None => Panic end)
             (prefix_iter aggregate_KeyPrefixTokenPair s).

  Definition pair_writes (p : token_pair) (id : bytes) : list (bytes * bytes) :=
    (aggregate_KeyPrefixTokenPair ++ id, tp_marshal p)                                   (* SetTokenPair *)
    :: map (fun d => (aggregate_KeyPrefixTokenPairByDenom ++ d, id)) (tp_denoms p)         (* SetDenomsMap *)
    ++ [(aggregate_KeyPrefixTokenPairByERC20 ++ hex_to_address (tp_erc20 p), id)].         (* SetERC20Map *)

  Fixpoint import_agg_from (ps : list token_pair) (s : store) : outcome store :=
    match ps with
    | [] => Ok s
    | p :: r => id <- pair_id p ;; import_agg_from r (apply_writes (pair_writes p id) s)
    end.
  Definition import_agg (ps : list token_pair) : outcome store := import_agg_from ps [].

  (** [common.IsHexAddress]: optional 0x / 0X, then exactly 40 hex digits *)
  Definition is_hex_digit (b : byte) : bool :=
    let n := Byte.to_N b in
    ((48 <=? n) && (n <=? 57)) || ((97 <=? n) && (n <=? 102)) || ((65 <=? n) && (n <=? 70)).
  Definition strip_0x (s : bytes) : bytes :=
    match s with
    | x30 :: x78 :: r => r
    | x30 :: x58 :: r => r
    | _ => s
    end.
  Definition is_hex_address (s : bytes) : bool :=
    let r := strip_0x s in Nat.eqb (length r) 40 && forallb is_hex_digit r.

  (** [TokenPair.Validate] *)
  Definition validate_pair (p : token_pair) : bool :=
    forallb (fun d => Rvesting.valid_denom d && negb (is_hex_address d)) (tp_denoms p)
    && is_hex_address (tp_erc20 p).

  Definition bmem (x : bytes) (l : list bytes) : bool := existsb (bytes_eqb x) l.

  (** [aggregate GenesisState.Validate]: the loop with its two `seen` maps (Params.Validate never fails) *)
  Fixpoint validate_pairs (ps : list token_pair) (seen_erc20 seen_denom : list bytes) : bool :=
    match ps with
    | [] => true
    | p :: r =>
        if bmem (hex_to_address (tp_erc20 p)) seen_erc20 then false
        else if is_nil (tp_denoms p) then false
        else
          (fix denoms (ds : list bytes) (seen : list bytes) : bool :=
             match ds with
             | [] => validate_pair p && validate_pairs r (hex_to_address (tp_erc20 p) :: seen_erc20) seen
             | d :: ds' => if bmem d seen then false else denoms ds' (d :: seen)
             end) (tp_denoms p) seen_denom
    end.
  Definition validate_agg (ps : list token_pair) : bool := validate_pairs ps [] [].

  (** * rvesting: params only ([From] / [InitReward] are import-only and empty in every export) *)
  Definition validate_rv (p : Rvesting.params) : bool := Rvesting.validate_rewards (Rvesting.rewards p).

  (** * The three modules together *)
  Definition export_with (ec : store -> outcome client_genesis) (st : mstate) : outcome genesis :=
    x <- export_xibc_with ec (st_xibc st) ;;
    ps <- export_agg (st_agg st) ;;
    Ok {| g_client := fst x; g_packet := snd x; g_agg_params := st_agg_params st; g_pairs := ps;
          g_rv_params := st_rv_params st |}.
  Definition export := export_with export_client.
  Definition export_old := export_with export_client_old.

  Definition import (g : genesis) : outcome mstate :=
    x <- import_xibc (g_client g, g_packet g) ;;
    a <- import_agg (g_pairs g) ;;
    Ok {| st_xibc := x; st_agg := a; st_agg_params := g_agg_params g; st_rv_params := g_rv_params g |}.

  Definition validate (g : genesis) : bool :=
    validate_xibc (g_client g, g_packet g) && validate_agg (g_pairs g) && validate_rv (g_rv_params g).

  (** * Well-formed stores: "the keys are those the modules write"

      Executable, and phrased through the parsers: a key is acceptable when
      re-rendering what the iterator reads from it gives the key back.
      Proofs/GenesisKeys.v shows that every key built by the Go key builders
      from valid arguments (all byte patterns of heights) is accepted. *)

  Definition client_type_of (name : bytes) (s : store) : option ctype :=
    match aget (full_client_state_key name) s with
    | Some v => match cs_unmarshal v with Some c => Some (cs_type c) | None => None end
    | None => None
    end.

  (** the metadata paths [ExportMetadata] of type [t] exports (inside the client's prefix store) *)
  Definition metadata_path (t : ctype) (path : bytes) : bool :=
    match t with
    | TM => (is_prefix host_KeyConsensusStatePrefix path && is_got (iter_processed_time path))
            || is_prefix tm_KeyIterateConsensusStatePrefix path
    | BSC => is_prefix bsc_PrefixKeyRecentSingers path || is_prefix bsc_PrefixPendingValidators path
    | ETH => is_prefix eth_KeyIndexEthHeaderPrefix path || is_prefix eth_KeyMainRootPrefix path
    | TSS => false
    end.

  Definition canonical_cs (v : bytes) : bool :=
    match cs_unmarshal v with Some c => bytes_eqb (cs_marshal c) v | None => false end.
  Definition canonical_cons (v : bytes) : bool :=
    match cons_unmarshal v with Some c => bytes_eqb (cons_marshal c) v | None => false end.

  Definition wf_client_entry (s : store) (k v : bytes) : bool :=
    match parse_client_key k with
    | None => false
    | Some (name, path) =>
        if bytes_eqb path host_KeyClientState then canonical_cs v
        else match parse_consensus_state_key path with
             | Some h => canonical_cons v
             | None => match client_type_of name s with
                       | Some t => metadata_path t path && negb (is_nil path)
                       | None => false
                       end
             end
    end.

  Definition wf_packet_key (render_key : triple -> bytes) (k : bytes) : bool :=
    match iterate_hashes_parse k with Ok t => bytes_eqb k (render_key t) | _ => false end.

  Definition wf_xibc_entry (s : store) (kv : bytes * bytes) : bool :=
    let (k, v) := kv in
    if is_prefix host_KeyClientStorePrefix k then wf_client_entry s k v
    else if bytes_eqb k chain_name_key then true
    else if is_prefix clienttypes_KeyRelayers k then
      match rel_unmarshal v with
      | Some r => bytes_eqb k (relayer_key (r_address r)) && bytes_eqb (rel_marshal r) v && negb (is_nil (r_address r))
      | None => false
      end
    else if is_prefix host_KeyPacketAckPrefix k then wf_packet_key packet_ack_key k
    else if is_prefix host_KeyPacketCommitmentPrefix k then wf_packet_key packet_commitment_key k
    else if is_prefix host_KeyPacketReceiptPrefix k then wf_packet_key packet_receipt_key k && bytes_eqb v [x01]
    else if is_prefix host_KeyNextSeqSendPrefix k then
      match parse_path k with
      | Ok (a, b) => bytes_eqb k (next_seq_send_key a b) && Nat.eqb (length v) 8
      | _ => false
      end
    else false.

  (** the chain name is always set ([InitGenesis] writes it) *)
  Definition wf_xibc (s : store) : bool :=
    sorted s && forallb (wf_xibc_entry s) s && ahas chain_name_key s.

  (** aggregate: the pair entries sit under their id, the two indexes contain exactly the entries the pairs demand *)
  Definition agg_pairs (s : store) : list token_pair :=
    flat_map (fun kv => match tp_unmarshal (snd kv) with Some p => [p] | None => [] end)
             (prefix_iter aggregate_KeyPrefixTokenPair s).

  Definition id_or_nil (p : token_pair) : bytes := match pair_id p with Ok i => i | _ => [] end.

  Definition wf_agg_entry (s : store) (kv : bytes * bytes) : bool :=
    let (k, v) := kv in
    match k with
    | x01 :: id =>
        match tp_unmarshal v with
        | Some p => negb (is_nil (tp_denoms p)) && bytes_eqb id (id_or_nil p) && bytes_eqb (tp_marshal p) v
        | None => false
        end
    | x02 :: a => existsb (fun p => bytes_eqb a (hex_to_address (tp_erc20 p)) && bytes_eqb v (id_or_nil p)) (agg_pairs s)
    | x03 :: d => existsb (fun p => bmem d (tp_denoms p) && bytes_eqb v (id_or_nil p)) (agg_pairs s)
    | _ => false
    end.

  Definition agg_index_complete (s : store) (p : token_pair) : bool :=
    match aget (aggregate_KeyPrefixTokenPairByERC20 ++ hex_to_address (tp_erc20 p)) s with
    | Some v => bytes_eqb v (id_or_nil p) | None => false end
    && forallb (fun d => match aget (aggregate_KeyPrefixTokenPairByDenom ++ d) s with
                         | Some v => bytes_eqb v (id_or_nil p) | None => false end) (tp_denoms p).

  Definition wf_agg (s : store) : bool :=
    sorted s && forallb (wf_agg_entry s) s && forallb (agg_index_complete s) (agg_pairs s).

  Definition wf_state (st : mstate) : bool := wf_xibc (st_xibc st) && wf_agg (st_agg st).

  (** * Which well-formed states export a genesis that VALIDATES: per entry *)

  Definition valid_client_entry (s : store) (k v : bytes) : bool :=
    match parse_client_key k with
    | None => false
    | Some (name, path) =>
        if bytes_eqb path host_KeyClientState then
          valid_chain_name name && match cs_unmarshal v with Some c => cs_valid c | None => false end
        else match parse_consensus_state_key path with
             | Some h =>
                 match cons_unmarshal v, client_type_of name s with
                 | Some c, Some t =>
                     negb (height_is_zero h && negb (has_height_zero t))        (* zero height (TM / TSS only) *)
                     && cons_valid c
                     && ctype_eqb t (cons_type c)                               (* type agreement *)
                 | _, _ => false                                                (* no client for the chain name *)
                 end
             | None => negb (is_nil v)                                          (* kind 3: empty metadata value *)
             end
    end.

  Definition valid_packet_entry (k v : bytes) (need_data : bool) : bool :=
    match iterate_hashes_parse k with
    | Ok t => validate_gen_fields (t_src t) (t_dst t) (t_seq t) && (negb need_data || negb (is_nil v))
    | _ => false
    end.

  Definition valid_xibc_entry (s : store) (kv : bytes * bytes) : bool :=
    let (k, v) := kv in
    if is_prefix host_KeyClientStorePrefix k then valid_client_entry s k v
    else if bytes_eqb k chain_name_key then valid_chain_name v
    else if is_prefix clienttypes_KeyRelayers k then
      match rel_unmarshal v with Some r => relayer_valid r | None => false end
    else if is_prefix host_KeyPacketAckPrefix k then valid_packet_entry k v true
    else if is_prefix host_KeyPacketCommitmentPrefix k then valid_packet_entry k v true
    else if is_prefix host_KeyPacketReceiptPrefix k then valid_packet_entry k v true
    else if is_prefix host_KeyNextSeqSendPrefix k then
      match parse_path k, sdk_be_to_uint64 v with
      | Ok (a, b), Ok n => validate_gen_fields a b n
      | _, _ => false
      end
    else false.

  Definition valid_xibc (s : store) : bool := forallb (valid_xibc_entry s) s.

  Definition valid_state (st : mstate) : bool :=
    valid_xibc (st_xibc st) && validate_agg (agg_pairs (st_agg st)) && validate_rv (st_rv_params st).

  (** the three observations as separate predicates (for the classification of a failing export) *)
  Definition consensus_entries (s : store) : list (bytes * height * bytes) :=
    flat_map (fun kv => match iter_consensus_states (fst kv) with Got (n, h) => [(n, h, snd kv)] | Skip => [] end) s.

  Definition has_zero_height (s : store) : bool :=
    existsb (fun x => height_is_zero (snd (fst x))
                      && match client_type_of (fst (fst x)) s with Some t => negb (has_height_zero t) | None => true end)
            (consensus_entries s).
  Definition has_mixed_types (s : store) : bool :=
    existsb (fun x => match cons_unmarshal (snd x), client_type_of (fst (fst x)) s with
                      | Some c, Some t => negb (ctype_eqb t (cons_type c))
                      | _, _ => false end) (consensus_entries s).
  Definition has_empty_metadata (s : store) : bool :=
    existsb (fun kv => match parse_client_key (fst kv) with
                       | Some (_, path) => negb (bytes_eqb path host_KeyClientState)
                                           && negb (is_got (match parse_consensus_state_key path with Some h => Got h | None => Skip end))
                                           && is_nil (snd kv)
                       | None => false end) s.
  (** entries under "clients/<name>/" that the export of the client's type does not cover *)
  Definition has_foreign_metadata (s : store) : bool :=
    existsb (fun kv => is_prefix host_KeyClientStorePrefix (fst kv) && negb (wf_client_entry s (fst kv) (snd kv))) s.
End Genesis.
