(** Executable model of the Ethereum (ethash / Rinkeby-mode) light client of XIBC:
    header validation, EIP-1559 and difficulty arithmetic, the header index, the
    root -> main-branch index, the per-height consensus states, trusting-period
    pruning, the re-pointing of consensus states on a re-organisation
    ([RestrictChain]) and the keeper's [UpdateClient] around it.

    Go sources modelled (transcriptions of the code as it is, quirks included):
      x/xibc/clients/light-clients/eth/types/update.go         CheckHeaderAndUpdateState, checkValidity, update, RestrictChain
      x/xibc/clients/light-clients/eth/types/header.go         ValidateBasic, verifyHeader, VerifyCascadingFields (seal check = oracle)
      x/xibc/clients/light-clients/eth/types/verify_header.go  VerifyEip1559Header, VerifyGaslimit, CalcBaseFee, makeDifficultyCalculator
      x/xibc/clients/light-clients/eth/types/store.go          Set/Get header index, root-main index, GetConsensusState,
                                                               IterateConsensusStateAscending, deleteConsensusStateAndIndexHeader
      x/xibc/clients/light-clients/eth/types/client_state.go   Initialize, Status
      x/xibc/core/client/keeper/client.go                      CreateClient, UpdateClient
    Library behaviour modelled: go-ethereum [common.BytesToHash] (left-crop / left-pad),
    [big.Int] SetBytes / Uint64 / Div / Exp / Cmp, Go int64/uint64 conversions and wrap-around,
    the byte-ordered iteration of the KV store over the consensus-state keys
    ((revision number, height) big-endian = lexicographic numeric order).
    The store keys are modelled structurally: header index (hash, height),
    root-main index (root, height) -> header-index key, consensus states
    (revision number, revision height); the key FORMATS are the subject of C19.
    ORACLES (Section variables, tabulated by the harness from the real code):
      [hash h]      = Header.Hash() = keccak256(rlp(ToEthHeader h)) -- does NOT cover the revision number
      [ethash_ok h] = (Ethash.VerifySeal(ToVerifyHeader h) == nil). *)
From Teleport Require Import Base.Bytes Base.Outcome.
Local Open Scope N_scope.

(** * uint64 / int64 arithmetic with explicit wrap-around *)
Definition two64 : N := 18446744073709551616.
Definition two63 : N := 9223372036854775808.
Definition add64 (a b : N) : N := (a + b) mod two64.
Definition sub64 (a b : N) : N := (a mod two64 + two64 - b mod two64) mod two64.

(** Go [int64(x)] for a uint64 [x], the wrap of an int64 result, and [uint64(z)]. *)
Definition wrap_i64 (z : Z) : Z := ((z + 9223372036854775808) mod 18446744073709551616 - 9223372036854775808)%Z.
Definition i64_of_u64 (x : N) : Z := wrap_i64 (Z.of_N x).
Definition u64_of_i64 (z : Z) : N := Z.to_N (z mod 18446744073709551616)%Z.

Definition len {A} (l : list A) : N := N.of_nat (length l).

(** Byte-string equality that stops at the first difference ([vm_compute] is strict, so
    [Base.Bytes.bytes_eqb]'s [&&] always walks both strings); equal to [bytes_eqb]
    (Proofs/EthBase.v: [beq_eq]). *)
Fixpoint beq (a b : bytes) : bool :=
  match a, b with
  | [], [] => true
  | x :: a', y :: b' => if Byte.eqb x y then beq a' b' else false
  | _, _ => false
  end.

(** [common.BytesToHash]: keep the LAST 32 bytes, left-pad with zeros. *)
Definition fit (n : nat) (b : bytes) : bytes :=
  if (n <? length b)%nat then skipn (length b - n) b else repeat x00 (n - length b) ++ b.
Definition to_hash (b : bytes) : bytes := fit 32 b.

(** big-endian bytes -> number ([big.Int.SetBytes]) *)
Definition big (b : bytes) : N := fold_left (fun acc x => acc * 256 + Byte.to_N x) b 0.

(** * Headers (x/xibc/clients/light-clients/eth/types/eth.pb.go: Header) *)
Record header := {
  h_parent : bytes; h_uncle : bytes; h_coinbase : bytes; h_root : bytes; h_tx : bytes; h_receipt : bytes;
  h_bloom : bytes; h_diff : bytes;
  h_rev : N;            (* Height.RevisionNumber: relayer supplied, not covered by the hash *)
  h_num : N;            (* Height.RevisionHeight = block number *)
  h_gaslimit : N; h_gasused : N; h_time : N;
  h_extra : bytes; h_mix : bytes; h_nonce : N; h_basefee : bytes }.

(** short-circuit conjunction ([vm_compute] is strict: [a && b] would evaluate both) *)
Notation "a &&& b" := (if a then b else false) (at level 40, left associativity).

Definition header_eqb (a b : header) : bool :=
  (h_nonce a =? h_nonce b) &&& (h_num a =? h_num b) &&& (h_time a =? h_time b) &&& (h_rev a =? h_rev b)
  &&& beq (h_root a) (h_root b) &&& beq (h_extra a) (h_extra b) &&& beq (h_parent a) (h_parent b)
  &&& (h_gaslimit a =? h_gaslimit b) &&& (h_gasused a =? h_gasused b) &&& beq (h_basefee a) (h_basefee b)
  &&& beq (h_diff a) (h_diff b) &&& beq (h_uncle a) (h_uncle b) &&& beq (h_coinbase a) (h_coinbase b)
  &&& beq (h_tx a) (h_tx b) &&& beq (h_receipt a) (h_receipt b) &&& beq (h_bloom a) (h_bloom b)
  &&& beq (h_mix a) (h_mix b).

(** ConsensusState{Timestamp, Height, Root} *)
Record cstate := { c_time : N; c_rev : N; c_num : N; c_root : bytes }.

Definition cstate_of (h : header) : cstate :=
  {| c_time := h_time h; c_rev := h_rev h; c_num := h_num h; c_root := h_root h |}.

(** * Small maps: association lists; [mset] replaces the first binding or appends,
    [mdel] removes every binding, [mget] returns the first one. *)
Section KMap.
  Context {K V : Type} (eqb : K -> K -> bool).
  Fixpoint mget (k : K) (l : list (K * V)) : option V :=
    match l with
    | [] => None
    | (k', v) :: l' => if eqb k k' then Some v else mget k l'
    end.
  Fixpoint mset (k : K) (v : V) (l : list (K * V)) : list (K * V) :=
    match l with
    | [] => [(k, v)]
    | (k', v') :: l' => if eqb k k' then (k, v) :: l' else (k', v') :: mset k v l'
    end.
  Fixpoint mdel (k : K) (l : list (K * V)) : list (K * V) :=
    match l with
    | [] => []
    | (k', v') :: l' => if eqb k k' then mdel k l' else (k', v') :: mdel k l'
    end.
End KMap.

Definition hkey := (bytes * N)%type.            (* (hash or root, height) *)
Definition ckey := (N * N)%type.                (* (revision number, revision height) *)
Definition hkey_eqb (a b : hkey) : bool := if snd a =? snd b then beq (fst a) (fst b) else false.
Definition ckey_eqb (a b : ckey) : bool := if snd a =? snd b then fst a =? fst b else false.
Definition ckey_ltb (a b : ckey) : bool := (fst a <? fst b) || ((fst a =? fst b) && (snd a <? snd b)).

Definition imap := list (hkey * header).
Definition rmap := list (hkey * hkey).
Definition cmap := list (ckey * cstate).

Definition iget := @mget hkey header hkey_eqb.
Definition iset := @mset hkey header hkey_eqb.
Definition idel := @mdel hkey header hkey_eqb.
Definition rget := @mget hkey hkey hkey_eqb.
Definition rset := @mset hkey hkey hkey_eqb.
Definition rdel := @mdel hkey hkey hkey_eqb.
Definition cget := @mget ckey cstate ckey_eqb.
Definition cset := @mset ckey cstate ckey_eqb.
Definition cdel := @mdel ckey cstate ckey_eqb.

(** First entry of the ascending iteration over the consensus-state keys. *)
Fixpoint cfirst (l : cmap) : option (ckey * cstate) :=
  match l with
  | [] => None
  | e :: l' => match cfirst l' with
               | None => Some e
               | Some m => if ckey_ltb (fst m) (fst e) then Some m else Some e
               end
  end.

(** * Client state + client store.  [chain_id] and [trusting] never change in an
    update; the other client-state fields (contract address, delays) play no role
    here and are compared by the harness as "unchanged". *)
Record state := {
  head : header;                 (* ClientState.Header *)
  chain_id : N; trusting : N;
  idx : imap;                    (* ethHeaderIndex/<hash><height> -> header *)
  rmain : rmap;                  (* ethRootMain/<root><height> -> header index key *)
  cons : cmap }.                 (* consensusStates/<rev><height> *)

Definition rinkeby : N := 4.
Definition empty_uncle_hash : bytes :=
  [x1d;xcc;x4d;xe8;xde;xc7;x5d;x7a;xab;x85;xb5;x67;xb6;xcc;xd4;x1a;
   xd3;x12;x45;x1b;x94;x8a;x74;x13;xf0;xa1;x42;xfd;x40;xd4;x93;x47].

(** * Stateless checks *)

(** header.go: Header.ValidateBasic.  [Difficulty.Uint64()] is the low 64 bits. *)
Definition validate_basic (h : header) : bool :=
  (len (h_bloom h) <=? 256) && (h_gaslimit h <=? 9223372036854775807) && (h_gasused h <=? h_gaslimit h) &&
  (if 0 <? h_num h then negb (big (h_diff h) mod two64 =? 0) else true).

(** verify_header.go: VerifyGaslimit (int64 conversions written out). *)
Definition verify_gaslimit (pg hg : N) : bool :=
  let diff := wrap_i64 (i64_of_u64 pg - i64_of_u64 hg) in
  let diff := if (diff <? 0)%Z then wrap_i64 (diff * -1) else diff in
  let limit := pg / 1024 in
  if limit <=? u64_of_i64 diff then false
  else if hg <? 5000 then false else true.

(** verify_header.go: CalcBaseFee.  [big.Int.Div] panics on a zero divisor. *)
Definition calc_base_fee (p : header) : outcome N :=
  let target := h_gaslimit p / 2 in
  let bf := big (h_basefee p) in
  if h_gasused p =? target then Ok bf
  else if target =? 0 then Panic
  else if target <? h_gasused p then
    let y := bf * (h_gasused p - target) / target in
    Ok (bf + N.max (y / 8) 1)
  else
    let y := bf * (target - h_gasused p) / target in
    Ok (bf - y / 8).                  (* BigMax(bf - delta, 0): truncated subtraction *)

(** verify_header.go: makeDifficultyCalculator(9700000).  [big.Int.Div] is Euclidean;
    the divisors are positive, so it is [Z.div].  [Number] is
    [big.NewInt(int64(height))]. *)
Definition calc_difficulty (time : N) (p : header) : Z :=
  (let x := (Z.of_N time - Z.of_N (h_time p)) / 9 in
   let x := if beq (to_hash (h_uncle p)) empty_uncle_hash then 1 - x else 2 - x in
   let x := if x <? -99 then -99 else x in
   let pd := Z.of_N (big (h_diff p)) in
   let x := pd + pd / 2048 * x in
   let x := if x <? 131072 then 131072 else x in
   let number := i64_of_u64 (h_num p) in
   let fake := if 9699999 <=? number then number - 9699999 else 0 in
   let pc := fake / 100000 in
   if 1 <? pc then x + 2 ^ (pc - 2) else x)%Z.

(** * Variants of the code.  The model is parametrised by the repairs that exist as patches; [cur] is the code of
    /repo AS IT IS and is what every theorem of Props/C10.v is about.
      [v_d2]   commit db7007a (in /repo): RestrictChain collects the fork-height header too;
      [v_rev]  /var/tmp/fixes/C10/eth-revision-number.diff: checkValidity refuses a header whose revision number
               differs from the client's                                   -- NOT in /repo: [fix_rev = false];
      [v_exp]  /var/tmp/fixes/C10/eth-reorg-to-expired-branch.diff: checkValidity refuses a header whose
               timestamp is older than the trusting period                 -- NOT in /repo: [fix_exp = false];
      [v_root] /var/tmp/fixes/C10/eth-sibling-same-root.diff: RestrictChain finds the main-chain header of the new
               header's height by walking down from the head (not through the root-main slot) and re-points the
               root-main slots together with the consensus states          -- NOT in /repo: [fix_root = false].
    When one of the patches is committed to /repo the corresponding constant below becomes [true] (the
    correspondence check fails until it does); the proofs do not depend on the values. *)
Record variant := { v_d2 : bool; v_rev : bool; v_exp : bool; v_root : bool }.
Definition fix_rev : bool := true.
Definition fix_exp : bool := true.
Definition fix_root : bool := true.
Definition cur : variant := {| v_d2 := true; v_rev := fix_rev; v_exp := fix_exp; v_root := fix_root |}.
Definition pre_d2 : variant := {| v_d2 := false; v_rev := false; v_exp := false; v_root := false |}.     (* before db7007a *)
Definition unrepaired : variant := {| v_d2 := true; v_rev := false; v_exp := false; v_root := false |}.  (* after db7007a, no further repair *)

Section Oracles.
  Variable hash : header -> bytes.
  Variable ethash_ok : header -> bool.

  (** store.go: GetParentHeaderFromIndex ([height - 1] wraps at 0). *)
  Definition parent_of (ix : imap) (h : header) : option header :=
    iget (to_hash (h_parent h), sub64 (h_num h) 1) ix.

  (** header.go: verifyHeader *)
  Definition verify_header (bt : N) (s : state) (h : header) : outcome unit :=
    match parent_of (idx s) h with
    | None => Err
    | Some p =>
        if negb (beq (hash p) (to_hash (h_parent h))) then Err
        else if bt + 15 <? h_time h then Err
        else if h_time h <=? h_time p then Err
        else if negb (verify_gaslimit (h_gaslimit p) (h_gaslimit h)) then Err
        else match calc_base_fee p with
             | Panic => Panic
             | Err => Err
             | Ok e =>
                 if negb (big (h_basefee h) =? e) then Err
                 else if (calc_difficulty (h_time h) p =? Z.of_N (big (h_diff h)))%Z then Ok tt
                 else if chain_id s =? rinkeby then Ok tt else Err
             end
    end.

  (** the two candidate repairs of checkValidity (see [variant]) *)
  Definition rev_ok (v : variant) (s : state) (h : header) : bool := negb (v_rev v) || (h_rev h =? h_rev (head s)).
  Definition exp_ok (v : variant) (bt : N) (s : state) (h : header) : bool :=
    negb (v_exp v) || negb (add64 (h_time h) (trusting s) <? bt).

  (** update.go: checkValidity *)
  Definition check_validity_gen (v : variant) (bt : N) (s : state) (h : header) : outcome unit :=
    if negb (validate_basic h) then Err else
    if negb (rev_ok v s h) then Err else
    _ <- verify_header bt s h ;;
    if negb (exp_ok v bt s h) then Err else
    if chain_id s =? rinkeby then Ok tt
    else if 32 <? len (h_extra h) then Err
    else if ethash_ok h then Ok tt else Err.
  Definition check_validity := check_validity_gen cur.

  (** update.go: the pruning block of CheckHeaderAndUpdateState.  The callback
      returns true for the FIRST consensus state of the ascending iteration, so
      only the earliest one is examined.  store.go:
      deleteConsensusStateAndIndexHeader. *)
  Definition prune (bt : N) (s : state) : outcome state :=
    match cfirst (cons s) with
    | None => Ok s
    | Some (k, c) =>
        if add64 (c_time c) (trusting s) <? bt then
          match rget (to_hash (c_root c), snd k) (rmain s) with
          | None => Err
          | Some ik =>
              Ok {| head := head s; chain_id := chain_id s; trusting := trusting s;
                    idx := idel ik (idx s);
                    rmain := rdel (to_hash (c_root c), snd k) (rmain s);
                    cons := cdel k (cons s) |}
          end
        else Ok s
    end.

  (** update.go: update (header index and root-main index of the new header). *)
  Definition store_header (s : state) (h : header) : state :=
    {| head := head s; chain_id := chain_id s; trusting := trusting s;
       idx := iset (hash h, h_num h) h (idx s);
       rmain := rset (to_hash (h_root h), h_num h) (hash h, h_num h) (rmain s);
       cons := cons s |}.

  (** ** RestrictChain.  Loop 1: bring the new branch down to the height of the
      old head.  The collected hashes are kept newest-LAST in Go and consumed
      from the end; here the list is built in reverse and consumed from the
      front. *)
  Fixpoint walk1 (fuel : nat) (ix : imap) (new : header) (ti si : N) (acc : list bytes)
    : outcome (header * N * list bytes) :=
    if si <? ti then
      match fuel with
      | O => Err
      | S f => match parent_of ix new with
               | None => Err
               | Some p => walk1 f ix p (sub64 ti 1) si (hash new :: acc)
               end
      end
    else Ok (new, ti, acc).

  (** Loop 2: walk both branches down until the (raw) parent hashes agree. *)
  Fixpoint walk2 (fuel : nat) (ix : imap) (cur new : header) (ti : N) (acc : list bytes)
    : outcome (header * N * list bytes) :=
    if beq (h_parent cur) (h_parent new) then Ok (new, ti, acc)
    else match fuel with
         | O => Err
         | S f => match parent_of ix new with
                  | None => Err
                  | Some pn => match parent_of ix cur with
                               | None => Err
                               | Some pc => walk2 f ix pc pn (sub64 ti 1) (hash new :: acc)
                               end
                  end
         end.

  (** Loop 0 (variant [v_root] only): walk the old main chain down from the head to the height of the new header. *)
  Fixpoint walk0 (fuel : nat) (ix : imap) (cur : header) (si ti : N) : outcome header :=
    if ti <? si then
      match fuel with
      | O => Err
      | S f => match parent_of ix cur with
               | None => Err
               | Some p => walk0 f ix p (sub64 si 1) ti
               end
      end
    else Ok cur.

  (** Loop 3: re-point the consensus states (variant [v_root]: and the root-main slots) upwards from [ti]. *)
  Fixpoint repoint (fr : bool) (ix : imap) (rev ti : N) (hs : list bytes) (c : cmap) (rm : rmap) : outcome (cmap * rmap) :=
    match hs with
    | [] => Ok (c, rm)
    | x :: hs' => match iget (x, ti) ix with
                  | None => Err
                  | Some a => repoint fr ix rev (add64 ti 1) hs' (cset (rev, ti) (cstate_of a) c)
                                      (if fr then rset (to_hash (h_root a), ti) (x, ti) rm else rm)
                  end
    end.

  (** [fixed = true]: the code of /repo after commit db7007a (the fork-height header
      is collected too); [fixed = false]: the behaviour before it.  [s] is the store
      after [update] wrote the new header, [old] the client-state header. *)
  Definition restrict_chain_gen (fixed fr : bool) (s : state) (old new : header) : outcome (cmap * rmap) :=
    let fuel := S (length (idx s)) in
    let ti := h_num new in
    let rev := h_rev new in
    cs <- (if ti <? h_num old then
             if fr then cur <- walk0 fuel (idx s) old (h_num old) ti ;; Ok (cur, ti) else
             match cget (rev, ti) (cons s) with
             | None => Err
             | Some c => match rget (to_hash (c_root c), ti) (rmain s) with
                         | None => Err
                         | Some ik => match iget ik (idx s) with
                                      | None => Err
                                      | Some cur => Ok (cur, ti)
                                      end
                         end
             end
           else Ok (old, h_num old)) ;;
    r1 <- walk1 fuel (idx s) new ti (snd cs) [] ;;
    let '(new1, ti1, acc1) := r1 in
    r2 <- walk2 fuel (idx s) (fst cs) new1 ti1 acc1 ;;
    let '(new2, ti2, acc2) := r2 in
    repoint fr (idx s) rev ti2 (if fixed then hash new2 :: acc2 else acc2) (cons s) (rmain s).

  Definition restrict_chain := restrict_chain_gen true fix_root.
  Definition restrict_chain_old := restrict_chain_gen false false.

  (** update.go: CheckHeaderAndUpdateState.  Returns the new client state/store and
      the consensus state handed back to the keeper. *)
  Definition check_header_gen (v : variant) (bt : N) (s : state) (h : header) : outcome (state * cstate) :=
    match cget (h_rev (head s), h_num (head s)) (cons s) with
    | None => Err
    | Some _ =>
        _ <- check_validity_gen v bt s h ;;
        s1 <- prune bt s ;;
        let s2 := store_header s1 h in
        r3 <- (if negb (beq (hash (head s)) (h_parent h))
               then restrict_chain_gen (v_d2 v) (v_root v) s2 (head s) h else Ok (cons s2, rmain s2)) ;;
        Ok ({| head := h; chain_id := chain_id s; trusting := trusting s;
               idx := idx s2; rmain := snd r3; cons := fst r3 |}, cstate_of h)
    end.

  (** client_state.go: Status == Active *)
  Definition active (bt : N) (s : state) : bool :=
    match cget (h_rev (head s), h_num (head s)) (cons s) with
    | None => false
    | Some c => negb (add64 (c_time c) (trusting s) <? bt)
    end.

  (** keeper/client.go: UpdateClient (run by the message handler on a branch of the
      state that is dropped on error: [Err] = state unchanged). *)
  Definition update_client_gen (v : variant) (bt : N) (s : state) (h : header) : outcome state :=
    if negb (active bt s) then Err else
    r <- check_header_gen v bt s h ;;
    let '(s', c) := r in
    Ok {| head := head s'; chain_id := chain_id s'; trusting := trusting s';
          idx := idx s'; rmain := rmain s';
          cons := cset (h_rev h, h_num h) c (cons s') |}.

  Definition check_header := check_header_gen cur.
  Definition update_client := update_client_gen cur.
  Definition update_client_old := update_client_gen pre_d2.

  (** keeper/client.go: CreateClient + client_state.go: Initialize.  The consensus
      state is whatever the proposal carries (not derived from the header). *)
  Definition create_client (chain trust : N) (g : header) (c : cstate) : state :=
    {| head := g; chain_id := chain; trusting := trust;
       idx := [((hash g, h_num g), g)];
       rmain := [((to_hash (h_root g), h_num g), (hash g, h_num g))];
       cons := [((h_rev g, h_num g), c)] |}.

  (** * Specification-level predicates (used by the theorems of Props/C10.v and, on the
      IMPLEMENTATION's observed states, by the monitors of Model/EthCheck.v).  They do not
      use the step functions above. *)

  (** EIP-1559 base fee expected from the parent. *)
  Definition expected_base_fee (p : header) : N :=
    let target := h_gaslimit p / 2 in
    let bf := big (h_basefee p) in
    if h_gasused p =? target then bf
    else if target <? h_gasused p then bf + N.max 1 (bf * (h_gasused p - target) / target / 8)
    else bf - bf * (target - h_gasused p) / target / 8.

  (** |parent limit - limit| < parent limit / 1024 and limit >= 5000 *)
  Definition gaslimit_ok (pg hg : N) : bool :=
    (Z.abs (Z.of_N pg - Z.of_N hg) <? Z.of_N (pg / 1024))%Z && (5000 <=? hg).

  (** The header rules relative to the parent [p] at block time [bt]. *)
  Definition rules_b (bt chain : N) (p h : header) : bool :=
    validate_basic h && (h_time h <=? bt + 15) && (h_time p <? h_time h)
    && gaslimit_ok (h_gaslimit p) (h_gaslimit h)
    && (big (h_basefee h) =? expected_base_fee p)
    && ((chain =? rinkeby)
        || ((Z.of_N (big (h_diff h)) =? calc_difficulty (h_time h) p)%Z && (len (h_extra h) <=? 32) && ethash_ok h)).

  (** [h] is a rule-abiding child of the stored header its parent hash and number name. *)
  Definition valid_child_b (bt : N) (s : state) (h : header) : bool :=
    (1 <=? h_num h) && (h_num h <? two63) &&
    match iget (to_hash (h_parent h), h_num h - 1) (idx s) with
    | Some p => beq (hash p) (to_hash (h_parent h)) && rules_b bt (chain_id s) p h
    | None => false
    end.

  (** Descending chain of the STORED ancestors of [x] (ends where a parent is missing). *)
  Fixpoint chain_of (fuel : nat) (ix : imap) (x : header) : list header :=
    x :: match fuel with
         | O => []
         | S f => match parent_of ix x with Some p => chain_of f ix p | None => [] end
         end.
  Definition main_chain (s : state) : list header := chain_of (length (idx s)) (idx s) (head s).
  Definition at_height (l : list header) (k : N) : option header := find (fun a => h_num a =? k) l.
  Definition last_num (l : list header) (d : N) : N := h_num (last l {| h_parent := []; h_uncle := []; h_coinbase := []; h_root := [];
     h_tx := []; h_receipt := []; h_bloom := []; h_diff := []; h_rev := 0; h_num := d; h_gaslimit := 0; h_gasused := 0; h_time := 0;
     h_extra := []; h_mix := []; h_nonce := 0; h_basefee := [] |}).

  (** lowest height of the main chain that is still stored *)
  Definition base (s : state) : N := last_num (main_chain s) (h_num (head s)).

  (** the pruning step of an update at [bt] is due (earliest consensus state expired) *)
  Definition prune_due (bt : N) (s : state) : bool :=
    match cfirst (cons s) with
    | Some (_, c) => add64 (c_time c) (trusting s) <? bt
    | None => false
    end.

  (** "No header of the two branches above the fork point was pruned": walking down from the
      new header and from the head there is a height, not below [lo], at which both stored
      branches have headers with the same parent hash. *)
  Definition meets (s : state) (h : header) (lo : N) : bool :=
    existsb (fun x => (lo <=? h_num x) &&
                      match at_height (main_chain s) (h_num x) with
                      | Some y => beq (h_parent x) (h_parent y)
                      | None => false
                      end)
            (h :: match iget (to_hash (h_parent h), h_num h - 1) (idx s) with
                  | Some p => chain_of (length (idx s)) (idx s) p
                  | None => []
                  end).

  (** no OTHER stored header of the same height carries the same state root *)
  Definition fresh_root_b (s : state) (h : header) : bool :=
    forallb (fun e => let a := snd e in
                      negb ((h_num a =? h_num h) && beq (to_hash (h_root a)) (to_hash (h_root h)))
                      || beq (hash a) (hash h)) (idx s).

  (** a header stored under the hash and number of [h] is [h] itself (same bytes) *)
  Definition noalias_b (s : state) (h : header) : bool :=
    match iget (hash h, h_num h) (idx s) with Some a => header_eqb a h | None => true end.

  (** The hypotheses on the hash oracle, as a check on a finite list of headers: 32 bytes; equal
      hashes only for headers with the same block number and (normalised) parent hash. *)
  Definition hash_ok_b (l : list header) : bool :=
    forallb (fun a => Nat.eqb (length (hash a)) 32 &&
                      forallb (fun b => negb (beq (hash a) (hash b))
                                        || ((h_num a =? h_num b) && beq (to_hash (h_parent a)) (to_hash (h_parent b)))) l) l.

  (** Hypotheses of [no_wedge], evaluated on the state BEFORE the update. *)
  Definition should_accept (bt : N) (s : state) (h : header) : bool :=
    active bt s && valid_child_b bt s h && (h_rev h =? h_rev (head s)) && exp_ok cur bt s h
    && (fix_root || fresh_root_b s h) && noalias_b s h &&
    (beq (hash (head s)) (h_parent h)
     || meets s h (if prune_due bt s then base s + 1 else base s)).

  (** A history of submissions: (block time, header); rejected ones leave the state
      unchanged.  A panic stops the run. *)
  Fixpoint run (v : variant) (s : state) (l : list (N * header)) : outcome state :=
    match l with
    | [] => Ok s
    | (bt, h) :: l' =>
        match update_client_gen v bt s h with
        | Ok s' => run v s' l'
        | Err => run v s l'
        | Panic => Panic
        end
    end.
End Oracles.
