(** Executable model of the XIBC Tendermint light client
    (x/xibc/clients/light-clients/tendermint/types: update.go, client_state.go,
    store.go, header.go; x/xibc/core/client/keeper/client.go: UpdateClient) and
    of the parts of tendermint v0.34.16 it calls (light/verifier.go,
    types/validator_set.go, types/block.go, types/light.go).

    No proofs here.  Transcription of the code THAT EXISTS:
    - Go [int64] = [Z] with explicit wrap ([wrap64]) wherever Go can wrap,
      [uint64] = [N] ([add64], [u64]), [time.Time] = [Z] nanoseconds since the
      Unix epoch (the zero [time.Time] is [zero_time]), [time.Duration] = [Z] ns.
    - errors are [Err], run-time panics [Panic].
    - hash functions, signature verification and ICS-23 proof verification are
      Section variables (oracles); the correspondence harness tabulates the real
      functions. *)
From Teleport Require Import Base.Bytes Base.Outcome.
Local Open Scope Z_scope.

(** * Machine integers *)
Definition two63 : Z := 9223372036854775808.
Definition two64 : Z := 18446744073709551616.
Definition max_int64 : Z := 9223372036854775807.
Definition min_int64 : Z := -9223372036854775808.
Definition two64N : N := 18446744073709551616%N.

(** two's-complement wrap of an [int64] computation *)
Definition wrap64 (z : Z) : Z := (z + two63) mod two64 - two63.
(** Go conversion [uint64(x)] of an [int64] *)
Definition u64 (z : Z) : N := Z.to_N (z mod two64).
(** Go conversion [int64(x)] of a [uint64] *)
Definition i64 (n : N) : Z := wrap64 (Z.of_N n).
(** [uint64] addition as executed by Go *)
Definition add64 (a b : N) : N := ((a + b) mod two64N)%N.

(** * Heights (x/xibc/core/client/types/height.go) *)
Record height := mkH { h_rev : N; h_hgt : N }.

Definition h_cmp (a b : height) : comparison :=
  if (h_rev a =? h_rev b)%N then (h_hgt a ?= h_hgt b)%N else (h_rev a ?= h_rev b)%N.
Definition h_lt (a b : height) : bool := match h_cmp a b with Lt => true | _ => false end.
Definition h_lte (a b : height) : bool := match h_cmp a b with Gt => false | _ => true end.
Definition h_gt (a b : height) : bool := match h_cmp a b with Gt => true | _ => false end.
Definition h_eqb (a b : height) : bool := (h_rev a =? h_rev b)%N && (h_hgt a =? h_hgt b)%N.

(** * Byte-level helpers *)
Definition byte_of_N (n : N) : byte := match Byte.of_N n with Some b => b | None => x00 end.

Fixpoint be_bytes (k : nat) (n : N) : bytes :=
  match k with
  | O => []
  | S k' => be_bytes k' (n / 256)%N ++ [byte_of_N (n mod 256)%N]
  end.
(** [sdk.Uint64ToBigEndian] / [binary.BigEndian.PutUint64] *)
Definition be64 (n : N) : bytes := be_bytes 8 n.
Definition be_decode (b : bytes) : N := fold_left (fun acc x => acc * 256 + Byte.to_N x)%N b 0%N.
(** [binary.BigEndian.Uint64(b)]: panics when fewer than 8 bytes *)
Definition be_uint64 (b : bytes) : outcome N :=
  if (length b <? 8)%nat then Panic else Ok (be_decode (firstn 8 b)).

Definition blen (b : bytes) : Z := Z.of_nat (length b).

(** decimal rendering ([strconv.Itoa] / [FormatUint]) *)
Fixpoint dec_digits (fuel : nat) (n : N) (acc : bytes) : bytes :=
  match fuel with
  | O => acc
  | S f => let d := byte_of_N (48 + n mod 10)%N in
           if (n / 10 =? 0)%N then d :: acc else dec_digits f (n / 10)%N (d :: acc)
  end.
Definition dec_of_N (n : N) : bytes := dec_digits 40 n [].
Definition dash : byte := "-"%byte.
Definition newline : byte := x0a.
Definition dec_of_Z (z : Z) : bytes :=
  if z <? 0 then dash :: dec_of_N (Z.to_N (- z)) else dec_of_N (Z.to_N z).

Definition is_digit (b : byte) : bool := let n := Byte.to_N b in (48 <=? n)%N && (n <=? 57)%N.
Definition dec_parse (d : bytes) : N := fold_left (fun acc x => acc * 10 + (Byte.to_N x - 48))%N d 0%N.

(** * Chain identifiers (height.go: IsRevisionFormat, ParseChainID, SetRevisionNumber) *)
(** split at the LAST dash: [s = pre ++ "-" ++ post], [post] dash-free *)
Fixpoint split_last_dash (s : bytes) : option (bytes * bytes) :=
  match s with
  | [] => None
  | c :: t =>
      match split_last_dash t with
      | Some (a, b) => Some (c :: a, b)
      | None => if Byte.eqb c dash then Some ([], t) else None
      end
  end.

Definition revision_digits (d : bytes) : bool :=
  match d with
  | [] => false
  | c :: _ => negb (Byte.eqb c "0"%byte) && forallb is_digit d
  end.

(** the regular expression [^.*[^-]-{1}[1-9][0-9]*$] ('.' does not match a
    newline, [[^-]] does) read at byte level *)
Definition is_revision_format (s : bytes) : bool :=
  match split_last_dash s with
  | None => false
  | Some (pre, d) =>
      revision_digits d &&
      match rev pre with
      | [] => false
      | c :: rp => negb (Byte.eqb c dash) && forallb (fun x => negb (Byte.eqb x newline)) rp
      end
  end.

(** [ParseChainID]: panics when the digits do not fit a uint64 *)
Definition parse_chain_id (s : bytes) : outcome N :=
  if is_revision_format s then
    match split_last_dash s with
    | Some (_, d) => let n := dec_parse d in if (n <? two64N)%N then Ok n else Panic
    | None => Ok 0%N
    end
  else Ok 0%N.

(** [SetRevisionNumber] on a chain id in revision format: the last dash-separated
    element is replaced by [strconv.Itoa(int(revision))] *)
Definition set_revision_number (s : bytes) (revision : N) : bytes :=
  match split_last_dash s with
  | Some (pre, _) => pre ++ dash :: dec_of_Z (i64 revision)
  | None => s
  end.

(** * State types *)
Record client_state := {
  cs_chain_id : bytes;
  cs_tl_num : N;              (* TrustLevel.Numerator (uint64) *)
  cs_tl_den : N;
  cs_trusting : Z;            (* TrustingPeriod, ns *)
  cs_unbonding : Z;
  cs_drift : Z;               (* MaxClockDrift, ns *)
  cs_latest : height;
  cs_delay : N;               (* TimeDelay (uint64, ns) *)
  cs_rest : bytes             (* proof specs and Merkle prefix, opaque *)
}.

Definition with_latest (cs : client_state) (h : height) : client_state :=
  {| cs_chain_id := cs_chain_id cs; cs_tl_num := cs_tl_num cs; cs_tl_den := cs_tl_den cs;
     cs_trusting := cs_trusting cs; cs_unbonding := cs_unbonding cs; cs_drift := cs_drift cs;
     cs_latest := h; cs_delay := cs_delay cs; cs_rest := cs_rest cs |}.

Record cons_state := { c_time : Z; c_root : bytes; c_nvh : bytes }.

(** [ClientState.Validate] (client_state.go): chain id not blank, trust level
    accepted by tendermint's [light.ValidateTrustLevel] (whose [num*3] wraps in
    uint64) and — since fix d656e11 — with both fields at most MaxInt64, non-zero
    periods and latest height, trusting < unbonding period.
    (Proof specs are non-nil in every client the harness builds; Unicode white
    space beyond ASCII is not modelled.) *)
Definition is_space (b : byte) : bool :=
  let n := Byte.to_N b in ((9 <=? n) && (n <=? 13))%N || (n =? 32)%N.
Definition trust_level_valid (num den : N) : bool :=
  negb ((((num * 3) mod two64N <? den) || (den <? num) || (den =? 0))%N).
Definition client_validate_with (level_ok : N -> N -> bool) (cs : client_state) : bool :=
  negb (forallb is_space (cs_chain_id cs)) &&
  level_ok (cs_tl_num cs) (cs_tl_den cs) &&
  negb (cs_trusting cs =? 0) && negb (cs_unbonding cs =? 0) && negb (cs_drift cs =? 0) &&
  negb (h_hgt (cs_latest cs) =? 0)%N &&
  (cs_trusting cs <? cs_unbonding cs).
Definition client_validate : client_state -> bool :=
  client_validate_with (fun num den => trust_level_valid num den &&
                                       (num <=? 9223372036854775807)%N && (den <=? 9223372036854775807)%N).
(** Validate as it was before fix d656e11 (finding tm-trust-level-int64): kept for
    Refuted/C07_refuted.v, not part of the model of the current tree *)
Definition client_validate_old : client_state -> bool := client_validate_with trust_level_valid.

(** what a client-store value decodes to *)
Inductive value :=
| VClient (c : client_state)
| VCons (c : cons_state)
| VBytes (b : bytes).

(** * Client store: association list kept strictly sorted by key
    (= iteration order of the IAVL / cachekv store) *)
Definition store := list (bytes * value).

Fixpoint sget (k : bytes) (s : store) : option value :=
  match s with
  | [] => None
  | (k', v) :: t => if bytes_eqb k k' then Some v else sget k t
  end.

Fixpoint sset (k : bytes) (v : value) (s : store) : store :=
  match s with
  | [] => [(k, v)]
  | (k', v') :: t =>
      match bytes_cmp k k' with
      | Lt => (k, v) :: s
      | Eq => (k, v) :: t
      | Gt => (k', v') :: sset k v t
      end
  end.

Fixpoint sdel (k : bytes) (s : store) : store :=
  match s with
  | [] => []
  | (k', v') :: t => if bytes_eqb k k' then sdel k t else (k', v') :: sdel k t
  end.

(** first entry (in iteration order) whose key starts with [p] *)
Fixpoint first_with_prefix (p : bytes) (s : store) : option (bytes * value) :=
  match s with
  | [] => None
  | (k, v) :: t => if is_prefix p k then Some (k, v) else first_with_prefix p t
  end.

(** ** Keys (host/keys.go: ConsensusStateKey, ClientStateKey; store.go) *)
Definition client_key : bytes := B "clientState".
Definition cons_prefix : bytes := B "consensusStates/".
Definition iter_prefix : bytes := B "iterateConsensusStates".
Definition pt_suffix : bytes := B "/processedTime".
Definition height_bytes (h : height) : bytes := be64 (h_rev h) ++ be64 (h_hgt h).
Definition cons_key (h : height) : bytes := cons_prefix ++ height_bytes h.
Definition pt_key (h : height) : bytes := cons_key h ++ pt_suffix.
Definition iter_key (h : height) : bytes := iter_prefix ++ height_bytes h.

(** [GetConsensusState]: missing or undecodable => error *)
Definition get_cons (s : store) (h : height) : outcome cons_state :=
  match sget (cons_key h) s with
  | Some (VCons c) => Ok c
  | _ => Err
  end.

(** [GetHeightFromIterationKey]: slices [0:8] and [8:] of what follows the
    prefix, [binary.BigEndian.Uint64] on both (panics on short input) *)
Definition height_from_iter_key (k : bytes) : outcome height :=
  let be := skipn (length iter_prefix) k in
  if (length be <? 8)%nat then Panic else
  r <- be_uint64 (firstn 8 be) ;;
  h <- be_uint64 (skipn 8 be) ;;
  Ok (mkH r h).

(** [GetProcessedTime]: [sdk.BigEndianToUint64] of the stored bytes *)
Definition get_processed_time (s : store) (h : height) : option (outcome N) :=
  match sget (pt_key h) s with
  | None => None
  | Some (VBytes b) => Some (match b with [] => Ok 0%N | _ => be_uint64 b end)
  | Some _ => Some Panic   (* never written by this code: other value kinds live under other keys *)
  end.

(** * Protobuf-level header (what the relayer supplies) *)
Definition pubkey := (nat * bytes)%type.      (* 0 = ed25519, 1 = secp256k1 *)

Record pvalidator := { v_addr : bytes; v_pk : option pubkey; v_power : Z }.
Record pvalset := { vs_vals : list pvalidator; vs_proposer : option pvalidator }.
Record part_set_header := { ps_total : N; ps_hash : bytes }.
Record block_id := { b_hash : bytes; b_parts : part_set_header }.

Record pheader := {
  hd_version_block : N;
  hd_version_app : N;
  hd_chain_id : bytes;
  hd_height : Z;                (* int64 *)
  hd_time : Z;
  hd_last_block_id : block_id;
  hd_last_commit_hash : bytes;
  hd_data_hash : bytes;
  hd_vals_hash : bytes;
  hd_next_vals_hash : bytes;
  hd_cons_hash : bytes;
  hd_app_hash : bytes;
  hd_last_results_hash : bytes;
  hd_evidence_hash : bytes;
  hd_proposer : bytes
}.

Record commit_sig := { sg_flag : N; sg_addr : bytes; sg_time : Z; sg_sig : bytes }.
Record pcommit := { cm_height : Z; cm_round : Z; cm_block_id : block_id; cm_sigs : list commit_sig }.
Record signed_header := { sh_header : option pheader; sh_commit : option pcommit }.

Record header := {
  h_signed : option signed_header;
  h_valset : option pvalset;
  h_trusted_height : height;
  h_trusted_vals : option pvalset
}.

(** * Validator sets (types/validator.go, types/validator_set.go, crypto/encoding) *)
Record validator := { va_addr : bytes; va_pk : pubkey; va_power : Z }.

Definition max_total_power : Z := 1152921504606846975.   (* MaxInt64 / 8 *)
Definition address_size : Z := 20.
Definition hash_size : Z := 32.
Definition max_sig_size : Z := 64.
Definition max_chain_id_len : Z := 50.
Definition block_protocol : N := 11.
(** the zero [time.Time] (0001-01-01T00:00:00Z) in Unix nanoseconds *)
Definition zero_time : Z := -62135596800000000000.

(** [PubKeyFromProto] *)
Definition pk_from_proto (p : option pubkey) : outcome pubkey :=
  match p with
  | Some (O, b) => if blen b =? 32 then Ok (O, b) else Err
  | Some (S O, b) => if blen b =? 33 then Ok (S O, b) else Err
  | _ => Err
  end.

Definition validator_from_proto (v : pvalidator) : outcome validator :=
  pk <- pk_from_proto (v_pk v) ;;
  Ok {| va_addr := v_addr v; va_pk := pk; va_power := v_power v |}.

Fixpoint vals_from_proto (l : list pvalidator) : outcome (list validator) :=
  match l with
  | [] => Ok []
  | v :: t => x <- validator_from_proto v ;; r <- vals_from_proto t ;; Ok (x :: r)
  end.

(** [safeAddClip] *)
Definition safe_add_clip (a b : Z) : Z :=
  if (b >? 0) && (a >? max_int64 - b) then max_int64
  else if (b <? 0) && (a <? min_int64 - b) then min_int64
  else a + b.

(** [updateTotalVotingPower]: panics as soon as the running sum exceeds the cap *)
Fixpoint total_power_loop (sum : Z) (l : list validator) : outcome Z :=
  match l with
  | [] => Ok sum
  | v :: t => let s := safe_add_clip sum (va_power v) in
              if s >? max_total_power then Panic else total_power_loop s t
  end.

(** [Validator.ValidateBasic] (the key is present after conversion) *)
Definition validator_basic (v : validator) : bool :=
  (0 <=? va_power v) && (blen (va_addr v) =? address_size).

(** [ValidatorSetFromProto]: conversion, proposer, TotalVotingPower() (may
    panic, and runs BEFORE ValidateBasic), ValidateBasic.  Returns the
    validators and the cached total. *)
Definition valset_from_proto (vp : option pvalset) : outcome (list validator * Z) :=
  match vp with
  | None => Err
  | Some p =>
      vals <- vals_from_proto (vs_vals p) ;;
      prop <- match vs_proposer p with None => Err | Some q => validator_from_proto q end ;;
      tot <- total_power_loop 0 vals ;;
      match vals with
      | [] => Err
      | _ => if forallb validator_basic vals && validator_basic prop then Ok (vals, tot) else Err
      end
  end.

Definition hash_input (vals : list validator) : list (pubkey * Z) :=
  map (fun v => (va_pk v, va_power v)) vals.

(** * Stateless validation of headers and commits (types/block.go, types/light.go) *)
Definition validate_hash (b : bytes) : bool := (blen b =? 0) || (blen b =? hash_size).

(** [BlockIDFromProto] = PartSetHeader.ValidateBasic + BlockID.ValidateBasic *)
Definition block_id_ok (b : block_id) : bool :=
  validate_hash (ps_hash (b_parts b)) && validate_hash (b_hash b).

Definition block_id_is_zero (b : block_id) : bool :=
  (blen (b_hash b) =? 0) && (ps_total (b_parts b) =? 0)%N && (blen (ps_hash (b_parts b)) =? 0).

(** [Header.ValidateBasic] *)
Definition header_basic (h : pheader) : bool :=
  (hd_version_block h =? block_protocol)%N &&
  (blen (hd_chain_id h) <=? max_chain_id_len) &&
  (0 <? hd_height h) &&
  block_id_ok (hd_last_block_id h) &&
  validate_hash (hd_last_commit_hash h) &&
  validate_hash (hd_data_hash h) &&
  validate_hash (hd_evidence_hash h) &&
  (blen (hd_proposer h) =? address_size) &&
  validate_hash (hd_vals_hash h) &&
  validate_hash (hd_next_vals_hash h) &&
  validate_hash (hd_cons_hash h) &&
  validate_hash (hd_last_results_hash h).

(** [HeaderFromProto] *)
Definition header_from_proto (h : pheader) : bool :=
  block_id_ok (hd_last_block_id h) && header_basic h.

Definition flag_absent : N := 1.
Definition flag_commit : N := 2.
Definition flag_nil : N := 3.

(** [CommitSig.ValidateBasic] *)
Definition commit_sig_basic (s : commit_sig) : bool :=
  if (sg_flag s =? flag_absent)%N then
    (blen (sg_addr s) =? 0) && (sg_time s =? zero_time) && (blen (sg_sig s) =? 0)
  else if (sg_flag s =? flag_commit)%N || (sg_flag s =? flag_nil)%N then
    (blen (sg_addr s) =? address_size) && negb (blen (sg_sig s) =? 0) && (blen (sg_sig s) <=? max_sig_size)
  else false.

(** [Commit.ValidateBasic] *)
Definition commit_basic (c : pcommit) : bool :=
  (0 <=? cm_height c) && (0 <=? cm_round c) &&
  (if 1 <=? cm_height c then
     negb (block_id_is_zero (cm_block_id c)) &&
     negb (match cm_sigs c with [] => true | _ => false end) &&
     forallb commit_sig_basic (cm_sigs c)
   else true).

(** [CommitFromProto] *)
Definition commit_from_proto (c : pcommit) : bool :=
  block_id_ok (cm_block_id c) && forallb commit_sig_basic (cm_sigs c) && commit_basic c.

(** [SignedHeaderFromProto]: each present part is converted (and validated) *)
Definition signed_header_from_proto (sh : signed_header) : bool :=
  match sh_header sh with Some h => header_from_proto h | None => true end &&
  match sh_commit sh with Some c => commit_from_proto c | None => true end.

Definition for_block (s : commit_sig) : bool := (sg_flag s =? flag_commit)%N.

(** [safeMul] (int64; the negations and the product wrap as in Go) *)
Definition safe_mul (a b : Z) : Z * bool :=
  if (a =? 0) || (b =? 0) then (0, false) else
  let abs_b := if b <? 0 then wrap64 (- b) else b in
  let abs_a := if a <? 0 then wrap64 (- a) else a in
  if abs_a >? Z.quot max_int64 abs_b then (0, true) else (wrap64 (a * b), false).

Fixpoint index_of_addr (addr : bytes) (i : nat) (vals : list validator) : option (nat * validator) :=
  match vals with
  | [] => None
  | v :: t => if bytes_eqb (va_addr v) addr then Some (i, v) else index_of_addr addr (S i) t
  end.
(** [ValidatorSet.GetByAddress]: first validator carrying the address *)
Definition get_by_address (vals : list validator) (addr : bytes) : option (nat * validator) :=
  index_of_addr addr 0 vals.

Section Oracles.
  (** [ValidatorSet.Hash] as a function of the (public key, voting power) list it hashes *)
  Variable valset_hash : list (pubkey * Z) -> bytes.
  (** tendermint [Header.Hash] *)
  Variable header_hash : pheader -> bytes.
  (** [pk.VerifySignature(commit.VoteSignBytes(chainID, idx), commit.Signatures[idx].Signature)] *)
  Variable verify_sig : pubkey -> bytes -> pcommit -> nat -> bool.
  (** [cdc.Unmarshal(proof, &merkleProof)] succeeds *)
  Variable proof_decodes : bytes -> bool.
  (** [ApplyPrefix] + [MerkleProof.VerifyMembership] against a root for the
      commitment (false) / acknowledgement (true) path of (src, dst, seq) *)
  Variable membership_ok : client_state -> bytes -> bytes -> bool -> (bytes * bytes * N) -> bytes -> bool.

  (** ** [ValidatorSet.VerifyCommitLight] *)
  Fixpoint vcl_loop (chain : bytes) (c : pcommit) (needed : Z) (idx : nat) (tallied : Z)
           (sigs : list commit_sig) (vals : list validator) : outcome unit :=
    match sigs, vals with
    | s :: sigs', v :: vals' =>
        if negb (for_block s) then vcl_loop chain c needed (S idx) tallied sigs' vals' else
        if negb (verify_sig (va_pk v) chain c idx) then Err else
        let t := tallied + va_power v in
        if t >? needed then Ok tt else vcl_loop chain c needed (S idx) t sigs' vals'
    | _, _ => Err      (* ErrNotEnoughVotingPowerSigned *)
    end.

  Definition verify_commit_light (chain : bytes) (vals : list validator) (total : Z)
             (height : Z) (c : pcommit) : outcome unit :=
    if negb (length vals =? length (cm_sigs c))%nat then Err else
    if negb (height =? cm_height c) then Err else
    let needed := Z.quot (total * 2) 3 in
    vcl_loop chain c needed 0 0 (cm_sigs c) vals.

  (** ** [ValidatorSet.VerifyCommitLightTrusting] *)
  Fixpoint vclt_loop (chain : bytes) (c : pcommit) (tvals : list validator) (needed : Z) (idx : nat)
           (tallied : Z) (seen : list nat) (sigs : list commit_sig) : outcome unit :=
    match sigs with
    | [] => Err        (* ErrNotEnoughVotingPowerSigned *)
    | s :: sigs' =>
        if negb (for_block s) then vclt_loop chain c tvals needed (S idx) tallied seen sigs' else
        match get_by_address tvals (sg_addr s) with
        | None => vclt_loop chain c tvals needed (S idx) tallied seen sigs'
        | Some (vi, v) =>
            if existsb (Nat.eqb vi) seen then Err else       (* double vote *)
            if negb (verify_sig (va_pk v) chain c idx) then Err else
            let t := tallied + va_power v in
            if t >? needed then Ok tt else vclt_loop chain c tvals needed (S idx) t (vi :: seen) sigs'
        end
    end.

  Definition verify_commit_light_trusting (chain : bytes) (tvals : list validator) (ttotal : Z)
             (c : pcommit) (num den : N) : outcome unit :=
    if (den =? 0)%N then Err else
    let '(m, overflow) := safe_mul ttotal (i64 num) in
    if overflow then Err else
    let needed := wrap64 (Z.quot m (i64 den)) in
    vclt_loop chain c tvals needed 0 0 [] (cm_sigs c).

  (** ** [SignedHeader.ValidateBasic(chainID)] *)
  Definition signed_header_basic (h : pheader) (oc : option pcommit) (chain : bytes) : outcome pcommit :=
    match oc with
    | None => Err
    | Some c =>
        if negb (header_basic h) then Err else
        if negb (commit_basic c) then Err else
        if negb (bytes_eqb (hd_chain_id h) chain) then Err else
        if negb (cm_height c =? hd_height h) then Err else
        if negb (bytes_eqb (header_hash h) (b_hash (cm_block_id c))) then Err else
        Ok c
    end.

  (** ** light.Verify (VerifyAdjacent / VerifyNonAdjacent, verifyNewHeaderAndVals, HeaderExpired) *)
  Definition light_verify (chain : bytes) (t_height : Z) (t_time : Z) (t_nvh : bytes)
             (tvals : list validator) (ttotal : Z)
             (h : pheader) (oc : option pcommit) (vals : list validator) (total : Z)
             (trusting : Z) (now : Z) (drift : Z) (num den : N) : outcome unit :=
    let adjacent := hd_height h =? wrap64 (t_height + 1) in
    (* HeaderExpired *)
    if negb (t_time + trusting >? now) then Err else
    (* verifyNewHeaderAndVals *)
    c <- signed_header_basic h oc chain ;;
    if hd_height h <=? t_height then Err else
    if negb (hd_time h >? t_time) then Err else
    if negb (hd_time h <? now + drift) then Err else
    if negb (bytes_eqb (hd_vals_hash h) (valset_hash (hash_input vals))) then Err else
    if adjacent then
      if negb (bytes_eqb (hd_vals_hash h) t_nvh) then Err else
      verify_commit_light chain vals total (hd_height h) c
    else
      _ <- verify_commit_light_trusting chain tvals ttotal c num den ;;
      verify_commit_light chain vals total (hd_height h) c.

  (** ** header.go: GetHeight (nil dereference panics, ParseChainID may panic) *)
  Definition header_pheader (hdr : header) : outcome pheader :=
    match h_signed hdr with
    | None => Panic
    | Some sh => match sh_header sh with None => Panic | Some h => Ok h end
    end.

  Definition get_height (hdr : header) : outcome height :=
    h <- header_pheader hdr ;;
    r <- parse_chain_id (hd_chain_id h) ;;
    Ok (mkH r (u64 (hd_height h))).

  (** ** update.go: checkTrustedHeader *)
  Definition check_trusted_header (hdr : header) (cons : cons_state) : outcome (list validator * Z) :=
    tv <- valset_from_proto (h_trusted_vals hdr) ;;
    if bytes_eqb (c_nvh cons) (valset_hash (hash_input (fst tv))) then Ok tv else Err.

  Definition verification_chain_id (cs : client_state) (revision : N) : bytes :=
    if is_revision_format (cs_chain_id cs) then set_revision_number (cs_chain_id cs) revision
    else cs_chain_id cs.

  (** ** update.go: checkValidity *)
  Definition check_validity (cs : client_state) (cons : cons_state) (hdr : header) (now : Z) : outcome unit :=
    tv <- check_trusted_header hdr cons ;;
    hh <- get_height hdr ;;
    if negb (h_rev hh =? h_rev (h_trusted_height hdr))%N then Err else
    sh <- match h_signed hdr with Some sh => Ok sh | None => Panic end ;;
    if negb (signed_header_from_proto sh) then Err else
    ov <- valset_from_proto (h_valset hdr) ;;
    if h_lte hh (h_trusted_height hdr) then Err else
    h <- header_pheader hdr ;;
    let chain := verification_chain_id cs (h_rev hh) in
    light_verify chain (i64 (h_hgt (h_trusted_height hdr))) (c_time cons) (c_nvh cons) (fst tv) (snd tv)
                 h (sh_commit sh) (fst ov) (snd ov)
                 (cs_trusting cs) now (cs_drift cs) (cs_tl_num cs) (cs_tl_den cs).

  (** [ClientState.IsExpired] *)
  Definition is_expired (cs : client_state) (latest_ts now : Z) : bool :=
    negb (latest_ts + cs_trusting cs >? now).

  (** ** update.go: the pruning step of CheckHeaderAndUpdateState.  The callback
      returns [true] after the first height, so only the EARLIEST iteration key
      is examined. *)
  Definition prune_height (cs : client_state) (s : store) (now : Z) : outcome (option height) :=
    match first_with_prefix iter_prefix s with
    | None => Ok None
    | Some (k, _) =>
        ph <- height_from_iter_key k ;;
        c <- get_cons s ph ;;
        Ok (if is_expired cs (c_time c) now then Some ph else None)
    end.

  Definition delete_consensus (s : store) (h : height) : store :=
    sdel (iter_key h) (sdel (pt_key h) (sdel (cons_key h) s)).

  (** [setConsensusMetadata]: processed time = uint64(ctx.BlockTime().UnixNano()), iteration key *)
  Definition set_metadata (s : store) (h : height) (now : Z) : store :=
    sset (iter_key h) (VBytes (cons_key h)) (sset (pt_key h) (VBytes (be64 (u64 now))) s).

  Definition new_cons_state (h : pheader) : cons_state :=
    {| c_time := hd_time h; c_root := hd_app_hash h; c_nvh := hd_next_vals_hash h |}.

  (** ** update.go: CheckHeaderAndUpdateState.  Returns the new client state,
      the consensus state for the keeper to store, and the client store. *)
  Definition check_header_and_update_state (cs : client_state) (s : store) (hdr : header) (now : Z)
    : outcome (client_state * cons_state * store) :=
    cons <- get_cons s (h_trusted_height hdr) ;;
    _ <- check_validity cs cons hdr now ;;
    p <- prune_height cs s now ;;
    let s1 := match p with Some ph => delete_consensus s ph | None => s end in
    (* update *)
    hh <- get_height hdr ;;
    h <- header_pheader hdr ;;
    let cs' := if h_gt hh (cs_latest cs) then with_latest cs hh else cs in
    Ok (cs', new_cons_state h, set_metadata s1 hh now).

  (** ** client_state.go: Status (true = Active) *)
  Definition status_active (cs : client_state) (s : store) (now : Z) : bool :=
    match get_cons s (cs_latest cs) with
    | Ok c => negb (is_expired cs (c_time c) now)
    | _ => false
    end.

  (** ** keeper/client.go: UpdateClient on the client's prefix store *)
  Definition update_client (s : store) (hdr : header) (now : Z) : outcome store :=
    match sget client_key s with
    | Some (VClient cs) =>
        if negb (status_active cs s now) then Err else
        r <- check_header_and_update_state cs s hdr now ;;
        let '(cs', cons', s1) := r in
        hh <- get_height hdr ;;
        Ok (sset (cons_key hh) (VCons cons') (sset client_key (VClient cs') s1))
    | _ => Err
    end.

  (** BaseApp.runMsgs: a failing or panicking message leaves the state unchanged *)
  Definition deliver_update (s : store) (hdr : header) (now : Z) : store :=
    match update_client s hdr now with Ok s' => s' | _ => s end.

  (** ** keeper/client.go: CreateClient for a Tendermint client (SetClientState,
      Initialize = setConsensusMetadata at the latest height, SetClientConsensusState) *)
  Definition create_client (s : store) (cs : client_state) (cons : cons_state) (now : Z) : store :=
    sset (cons_key (cs_latest cs)) (VCons cons)
         (set_metadata (sset client_key (VClient cs) s) (cs_latest cs) now).

  (** ** client_state.go: verifyDelayPeriodPassed.  The uint64 addition wraps;
      since fix ea14df6 a wrapped sum (validTime < processedTime) is refused. *)
  Definition verify_delay_period_passed (s : store) (now : Z) (h : height) (delay : N) : outcome unit :=
    match get_processed_time s h with
    | None => Err
    | Some o =>
        pt <- o ;;
        let valid_time := add64 pt delay in
        if (valid_time <? pt)%N || (u64 now <? valid_time)%N then Err else Ok tt
    end.

  (** the gate as it was before fix ea14df6 (finding D12 / tm-delay-overflow):
      kept for Refuted/C07_refuted.v, not part of the model of the current tree *)
  Definition verify_delay_period_passed_old (s : store) (now : Z) (h : height) (delay : N) : outcome unit :=
    match get_processed_time s h with
    | None => Err
    | Some o =>
        pt <- o ;;
        let valid_time := add64 pt delay in
        if (u64 now <? valid_time)%N then Err else Ok tt
    end.

  (** ** client_state.go: produceVerificationArgs + VerifyPacketCommitment /
      VerifyPacketAcknowledgement ([ack] selects the path); [gate] is the delay gate *)
  Definition verify_packet_with (gate : store -> Z -> height -> N -> outcome unit)
             (cs : client_state) (s : store) (now : Z) (h : height) (proof : option bytes)
             (ack : bool) (path : bytes * bytes * N) (val : bytes) : outcome unit :=
    if h_lt (cs_latest cs) h then Err else
    match proof with
    | None => Err
    | Some pf =>
        if negb (proof_decodes pf) then Err else
        cons <- get_cons s h ;;
        _ <- gate s now h (cs_delay cs) ;;
        if membership_ok cs (c_root cons) pf ack path val then Ok tt else Err
    end.

  Definition verify_packet := verify_packet_with verify_delay_period_passed.
  Definition verify_packet_old := verify_packet_with verify_delay_period_passed_old.

  (** ** header.go: Header.ValidateBasic (run by MsgUpdateClient.ValidateBasic) *)
  Definition header_validate_basic (hdr : header) : outcome unit :=
    match h_signed hdr with
    | None => Err
    | Some sh =>
        match sh_header sh with
        | None => Err
        | Some h =>
            if negb (signed_header_from_proto sh) then Err else
            _ <- signed_header_basic h (sh_commit sh) (hd_chain_id h) ;;
            hh <- get_height hdr ;;
            if h_gt (h_trusted_height hdr) hh then Err else
            match h_valset hdr with
            | None => Err
            | Some _ =>
                ov <- valset_from_proto (h_valset hdr) ;;
                if bytes_eqb (hd_vals_hash h) (valset_hash (hash_input (fst ov))) then Ok tt else Err
            end
        end
    end.
End Oracles.

(** * Declarative notions used by the theorems and by the monitor *)
Section Spec.
  Variable verify_sig : pubkey -> bytes -> pcommit -> nat -> bool.

  Fixpoint number_from {A} (i : nat) (l : list A) : list (nat * A) :=
    match l with [] => [] | x :: t => (i, x) :: number_from (S i) t end.

  (** commit signature [i] is a valid signature FOR THE BLOCK by key [pk] *)
  Definition signs (chain : bytes) (c : pcommit) (pk : pubkey) (is : nat * commit_sig) : bool :=
    for_block (snd is) && verify_sig pk chain c (fst is).

  (** voting power of the header's own validators that signed: validator [i]
      counts when commit signature [i] is a valid block signature under its key *)
  Fixpoint signed_own_from (chain : bytes) (c : pcommit) (i : nat) (vals : list (pubkey * Z))
           (sigs : list commit_sig) : Z :=
    match vals, sigs with
    | v :: vals', s :: sigs' =>
        (if signs chain c (fst v) (i, s) then snd v else 0) + signed_own_from chain c (S i) vals' sigs'
    | _, _ => 0
    end.
  Definition signed_own (chain : bytes) (c : pcommit) (vals : list (pubkey * Z)) : Z :=
    signed_own_from chain c 0 vals (cm_sigs c).

  (** voting power of the trusted validators that signed: a trusted validator
      counts when SOME commit signature is a valid block signature under its key *)
  Definition signed_by (chain : bytes) (c : pcommit) (pk : pubkey) : bool :=
    existsb (signs chain c pk) (number_from 0 (cm_sigs c)).
  Definition signed_trusted (chain : bytes) (c : pcommit) (tvals : list (pubkey * Z)) : Z :=
    fold_right (fun v acc => (if signed_by chain c (fst v) then snd v else 0) + acc) 0 tvals.

  Definition total_of (vals : list (pubkey * Z)) : Z := fold_right (fun v acc => snd v + acc) 0 vals.
End Spec.
