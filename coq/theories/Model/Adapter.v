(** * C17 — the staking / governance system-contract adapters (executable model, no proofs).

    Transcribed code (Go, repository root = /repo):
    - [adapter/staking/hooks.go], [adapter/gov/hooks.go] : [PostTxProcessing]  -> [post_tx]
    - [adapter/staking/handler.go], [adapter/gov/handler.go] : the six handlers -> [msg_of_event]
    - [syscontracts/parser.go] : [ParseLog]                                     -> [parse_log]
      (go-ethereum v1.10.16 [accounts/abi] [UnpackIntoInterface] for the five
      argument shapes that occur: [unpack.go] [toGoType], [lengthPrefixPointsTo],
      [forEachUnpack], [forTupleUnpack], [ReadInteger])
    - [adapter/common/execute.go] : [ExecuteMsg] ([ValidateBasic] of the SDK
      messages, cosmos-sdk v0.45.2, then the message router)                    -> [execute_msg]
    - ethermint v0.13.0 [x/evm/keeper/hooks.go] [MultiEvmHooks] in the order of
      [app/app.go] (staking hook, then gov hook)                                -> [multi_hook]

    The native message handler reached through the router is a parameter
    ([exec]); [Model/AdapterNative.v] gives the SDK handlers' model. *)
From Teleport Require Import Base.Bytes Base.Outcome.
Local Open Scope N_scope.

(** ** Bytes and 32-byte words *)

Definition blen (b : bytes) : N := N.of_nat (length b).

(** [b[off : off+len]]; callers check the bounds first (Go would panic otherwise). *)
Definition slice (b : bytes) (off len : N) : bytes := firstn (N.to_nat len) (skipn (N.to_nat off) b).

(** big-endian value of a byte string = [new(big.Int).SetBytes] *)
Definition be_N (b : bytes) : N := fold_left (fun acc x => acc * 256 + Byte.to_N x) b 0.

Definition byte_of_N (n : N) : byte := match Byte.of_N n with Some b => b | None => x00 end.

(** the [k] low-order bytes of [n], big-endian *)
Fixpoint be_bytes (k : nat) (n : N) : bytes :=
  match k with
  | O => []
  | S k' => be_bytes k' (n / 256) ++ [byte_of_N (n mod 256)]
  end.

Definition word_of_N (n : N) : bytes := be_bytes 32 n.

Definition zeros (n : nat) : bytes := repeat x00 n.
Definition zero_addr : bytes := zeros 20.

(** ** go-ethereum ABI decoding (the part used by the event shapes) *)

(** [toGoType]: "if index+32 > len(output) -> error", then [output[index:index+32]] *)
Definition word_at (d : bytes) (i : N) : option bytes :=
  if i + 32 <=? blen d then Some (slice d i 32) else None.

Definition dec_addr (w : bytes) : bytes := skipn 12 w.       (* common.BytesToAddress: the last 20 bytes *)
Definition dec_u64 (w : bytes) : N := be_N (skipn 24 w).     (* ReadInteger: binary.BigEndian.Uint64(b[len(b)-8:]) — high bytes ignored *)
Definition dec_u32 (w : bytes) : N := be_N (skipn 28 w).     (* binary.BigEndian.Uint32(b[len(b)-4:]) *)
Definition dec_u256 (w : bytes) : N := be_N w.

(** [lengthPrefixPointsTo(index, output)] = Some (start, length) *)
Definition length_prefix (d : bytes) (i : N) : option (N * N) :=
  match word_at d i with
  | None => None
  | Some w =>
      let off_end := be_N w + 32 in
      if blen d <? off_end then None else
      if 63 <? N.size off_end then None else
      let len := be_N (slice d (off_end - 32) 32) in
      let total := off_end + len in
      if 63 <? N.size total then None else
      if blen d <? total then None else Some (off_end, len)
  end.

Definition dec_string (d : bytes) (i : N) : option bytes :=
  match length_prefix d i with
  | Some (s, l) => Some (slice d s l)
  | None => None
  end.

(** [forEachUnpack] for the slice of static tuples [(uint32,uint64)[]]: the bound check is
    [32*size > len(output)] (sic), every element is then read by [toGoType]/[forTupleUnpack] with
    its own bound checks. *)
Fixpoint dec_opt_elems (d' : bytes) (k : nat) (j : N) : option (list (N * N)) :=
  match k with
  | O => Some []
  | S k' =>
      if blen d' <? 64 * j + 32 then None else
      let o := skipn (N.to_nat (64 * j)) d' in
      if blen o <? 64 then None else
      match dec_opt_elems d' k' (j + 1) with
      | None => None
      | Some r => Some ((dec_u32 (slice o 0 32), dec_u64 (slice o 32 32)) :: r)
      end
  end.

Definition dec_opts (d : bytes) (i : N) : option (list (N * N)) :=
  match length_prefix d i with
  | None => None
  | Some (s, n) =>
      let d' := skipn (N.to_nat s) d in
      if blen d' <? 32 * n then None else dec_opt_elems d' (N.to_nat n) 0
  end.

(** ** Events of Staking.sol and Gov.sol (all fields non-indexed) *)

Inductive evkind := KDelegated | KUndelegated | KRedelegated | KWithdrew | KVoted | KVotedWeighted.

(** decoded event; an amount is [None] when the Go field stays a nil [*big.Int] (empty log data) *)
Inductive event :=
| EDelegated (d v : bytes) (a : option N)
| EUndelegated (d v : bytes) (a : option N)
| ERedelegated (d s t : bytes) (a : option N)
| EWithdrew (d v : bytes)
| EVoted (d : bytes) (pid opt : N)
| EVotedW (d : bytes) (pid : N) (opts : list (N * N)).

Definition omap2 {A B C} (f : A -> B -> C) (a : option A) (b : option B) : option C :=
  match a, b with Some x, Some y => Some (f x y) | _, _ => None end.

(** [Arguments.UnpackValues]: argument [k] is read at [32*k] *)
Definition unpack_event (k : evkind) (d : bytes) : option event :=
  match k with
  | KDelegated | KUndelegated =>
      match word_at d 0, dec_string d 32, word_at d 64 with
      | Some w0, Some v, Some w2 =>
          Some (match k with KDelegated => EDelegated | _ => EUndelegated end (dec_addr w0) v (Some (dec_u256 w2)))
      | _, _, _ => None
      end
  | KRedelegated =>
      match word_at d 0, dec_string d 32, dec_string d 64, word_at d 96 with
      | Some w0, Some s, Some t, Some w3 => Some (ERedelegated (dec_addr w0) s t (Some (dec_u256 w3)))
      | _, _, _, _ => None
      end
  | KWithdrew =>
      match word_at d 0, dec_string d 32 with
      | Some w0, Some v => Some (EWithdrew (dec_addr w0) v)
      | _, _ => None
      end
  | KVoted =>
      match word_at d 0, word_at d 32, word_at d 64 with
      | Some w0, Some w1, Some w2 => Some (EVoted (dec_addr w0) (dec_u64 w1) (dec_u32 w2))
      | _, _, _ => None
      end
  | KVotedWeighted =>
      match word_at d 0, word_at d 32, dec_opts d 64 with
      | Some w0, Some w1, Some os => Some (EVotedW (dec_addr w0) (dec_u64 w1) os)
      | _, _, _ => None
      end
  end.

(** the zero value of the Go event struct *)
Definition zero_event (k : evkind) : event :=
  match k with
  | KDelegated => EDelegated zero_addr [] None
  | KUndelegated => EUndelegated zero_addr [] None
  | KRedelegated => ERedelegated zero_addr [] [] None
  | KWithdrew => EWithdrew zero_addr []
  | KVoted => EVoted zero_addr 0 0
  | KVotedWeighted => EVotedW zero_addr 0 []
  end.

(** [syscontracts.ParseLog]: data is unpacked only when non-empty; then [abi.ParseTopics] with the
    (empty) list of indexed arguments fails unless there is no topic besides the signature. *)
Definition parse_log (k : evkind) (ntopics : nat) (d : bytes) : option event :=
  match (match d with [] => Some (zero_event k) | _ => unpack_event k d end) with
  | None => None
  | Some ev => if Nat.eqb ntopics 1 then Some ev else None
  end.

(** ** Native messages *)

Inductive msg :=
| MDelegate (d v : bytes) (a : Z)
| MUndelegate (d v : bytes) (a : Z)
| MRedelegate (d s t : bytes) (a : Z)
| MWithdraw (d v : bytes)
| MVote (d : bytes) (pid : N) (opt : Z)                 (* Option : VoteOption = int32 *)
| MVoteW (d : bytes) (pid : N) (opts : list (Z * Z)).   (* (int32 option, int64 w): Weight = NewDecWithPrec(w, 2) *)

(** Go conversions [types.VoteOption(uint32)] (int32) and [int64(uint64)] *)
Definition to_int32 (n : N) : Z :=
  let m := (n mod 4294967296)%N in if (m <? 2147483648)%N then Z.of_N m else (Z.of_N m - 4294967296)%Z.
Definition to_int64 (n : N) : Z :=
  let m := (n mod 18446744073709551616)%N in
  if (m <? 9223372036854775808)%N then Z.of_N m else (Z.of_N m - 18446744073709551616)%Z.

(** The handlers of [adapter/*/handler.go] after [ParseLog]: the signer is the event's first field
    (bech32 of its 20 bytes — kept as the 20 bytes here), amounts go through
    [sdk.NewIntFromBigInt] (identity on uint256 in SDK v0.45.2: 256-bit bound) and [sdk.NewCoin],
    which dereferences a nil amount: panic. *)
Definition msg_of_event (e : event) : outcome msg :=
  match e with
  | EDelegated d v (Some a) => Ok (MDelegate d v (Z.of_N a))
  | EUndelegated d v (Some a) => Ok (MUndelegate d v (Z.of_N a))
  | ERedelegated d s t (Some a) => Ok (MRedelegate d s t (Z.of_N a))
  | EDelegated _ _ None | EUndelegated _ _ None | ERedelegated _ _ _ None => Panic
  | EWithdrew d v => Ok (MWithdraw d v)
  | EVoted d pid opt => Ok (MVote d pid (to_int32 opt))
  | EVotedW d pid [] => Err                                   (* "Must have options" *)
  | EVotedW d pid os => Ok (MVoteW d pid (map (fun ow => (to_int32 (fst ow), to_int64 (snd ow))) os))
  end.

(** [ValidateBasic] of the SDK messages (v0.45.2): only emptiness of the address strings, positivity
    of the amount, validity of options and weights — no bech32 parsing here. *)
Definition valid_option (o : Z) : bool := ((1 <=? o) && (o <=? 4))%Z.

Fixpoint weights_ok (seen : list Z) (total : Z) (os : list (Z * Z)) : bool :=
  match os with
  | [] => (total =? 100)%Z
  | (o, w) :: r =>
      (0 <? w)%Z && (w <=? 100)%Z && valid_option o &&
      negb (existsb (Z.eqb o) seen) && weights_ok (o :: seen) (total + w)%Z r
  end.

Definition nonempty (b : bytes) : bool := match b with [] => false | _ => true end.

Definition validate_basic (m : msg) : bool :=
  match m with
  | MDelegate _ v a | MUndelegate _ v a => nonempty v && (0 <? a)%Z
  | MRedelegate _ s t a => nonempty s && nonempty t && (0 <? a)%Z
  | MWithdraw _ v => nonempty v
  | MVote _ _ o => valid_option o
  | MVoteW _ _ os => match os with [] => false | _ => weights_ok [] 0%Z os end
  end.

(** ** Logs and the hooks *)

Record log := { l_addr : bytes; l_topics : list bytes; l_data : bytes }.

Inductive hkind := HStaking | HGov.

(** [syscontracts/contracts.go] *)
Definition staking_addr : bytes := zeros 16 ++ [x10; x00; x00; x01].
Definition gov_addr : bytes := zeros 16 ++ [x10; x00; x00; x02].
Definition sys_addr (h : hkind) : bytes := match h with HStaking => staking_addr | HGov => gov_addr end.

(** event ids = keccak256 of the signatures ([abi.Events[name].ID]; the constants of
    [syscontracts/*/generated.go]); the correspondence check compares them with the real ones. *)
Definition topic_of (k : evkind) : bytes :=
  match k with
  | KDelegated => [xc1;x81;xd2;x11;xc1;x37;x9e;x7c;xa1;x30;xa7;x07;xf3;xb1;xd4;x91;x77;xb2;xc9;xea;xca;x63;xf5;xb1;xc0;xfc;xed;x95;x7b;xd9;x4d;x19]
  | KUndelegated => [xb6;xbe;x07;x74;x8c;xf5;xd5;x07;x5d;xe9;x02;x4d;x60;xc8;xda;xdb;x23;x46;x19;x0b;x73;x43;x18;xa4;x9a;x33;x07;x74;xab;x1e;xff;xc6]
  | KRedelegated => [x1e;x4f;x99;xba;xc1;xee;x5d;x1d;x13;xed;x93;xa8;xfe;xbb;xb6;x73;x0c;x17;x60;xe6;xb4;x0b;x62;xf4;x97;x1e;xcd;x57;xf1;x84;xc2;x0b]
  | KWithdrew => [x27;x1a;x84;xb5;xab;xc7;x46;x45;xa8;xaf;x43;xaf;x4d;xa7;xb3;x54;x0b;xb0;xac;x76;x03;xfb;xae;x9f;xf8;xb2;xe2;xdf;x54;x83;x32;xd0]
  | KVoted => [xd1;x4e;xfc;xcb;xe7;x7f;x09;xe3;x13;x99;x93;x75;x3f;x0e;x0d;x88;x3c;x70;xf9;xc3;x77;x19;x6f;x3a;x1d;x57;xec;x20;xa6;xd9;x42;x97]
  | KVotedWeighted => [x47;x2a;x83;xd6;x3c;x58;xb6;x8a;x77;xd3;xfd;x34;x76;x70;x9b;x32;x8e;xac;x4e;x05;x8c;x6c;x4f;xd8;x8c;x94;x46;xf1;x97;x82;xcc;x7b]
  end.

Definition kinds_of (h : hkind) : list evkind :=
  match h with
  | HStaking => [KDelegated; KUndelegated; KRedelegated; KWithdrew]
  | HGov => [KVoted; KVotedWeighted]
  end.

(** the [handlers] map lookup by the first topic *)
Definition handler_of (h : hkind) (t : bytes) : option evkind :=
  find (fun k => bytes_eqb t (topic_of k)) (kinds_of h).

Section Hook.
  Variable S : Type.
  (** the handler the message router dispatches to *)
  Variable exec : msg -> S -> outcome S.

  (** [adapter/common.ExecuteMsg] *)
  Definition execute_msg (m : msg) (s : S) : outcome S :=
    if validate_basic m then exec m s else Err.

  (** one of [HandleDelegated] ... [HandleVotedWeighted] *)
  Definition handle (k : evkind) (l : log) (s : S) : outcome S :=
    match parse_log k (length (l_topics l)) (l_data l) with
    | None => Err
    | Some ev => m <- msg_of_event ev ;; execute_msg m s
    end.

  (** [PostTxProcessing] of one adapter.  The Go function mutates the context it is given and
      returns an error (or panics) — the result is the pair (how it ended, state reached): the
      effects of the handlers that already ran are still in the context when a later one fails;
      discarding them is the CALLER's job ([deliver] below; ethermint's temporary context).
      The state reported for a failing handler is the one before that handler (what a failing
      SDK handler leaves behind is not modelled; every caller in scope discards it). *)
  Fixpoint post_tx (h : hkind) (logs : list log) (s : S) : outcome unit * S :=
    match logs with
    | [] => (Ok tt, s)
    | l :: rest =>
        if bytes_eqb (l_addr l) (sys_addr h) then
          match l_topics l with
          | [] => (Panic, s)                             (* log.Topics[0] *)
          | t0 :: _ =>
              match handler_of h t0 with
              | None => post_tx h rest s                 (* "continue" *)
              | Some k =>
                  match handle k l s with
                  | Ok s' => post_tx h rest s'
                  | Err => (Err, s)
                  | Panic => (Panic, s)
                  end
              end
          end
        else post_tx h rest s
    end.

  (** ethermint [MultiEvmHooks] over (stakingHook, govHook, ...): the remaining hooks of app.go
      (aggregate, xibc packet) look at other contracts' logs and are outside this model. *)
  Definition multi_hook (logs : list log) (s : S) : outcome unit * S :=
    match post_tx HStaking logs s with
    | (Ok _, s1) => post_tx HGov logs s1
    | r => r
    end.

  (** ethermint [ApplyTransaction] for a USER transaction whose EVM execution succeeded with
      receipt logs [logs] (modelled; validated by the correspondence, not proved about ethermint):
      EVM state changes and hooks run in a temporary context which is committed only when the
      hooks return nil; a panic is recovered by BaseApp.runTx, which discards everything.
      [evm] = the EVM's own state changes (already applied to the temporary context). *)
  Definition deliver (evm : S -> S) (logs : list log) (s : S) : outcome unit * S :=
    match multi_hook logs (evm s) with
    | (Ok _, s') => (Ok tt, s')
    | (r, _) => (r, s)
    end.
End Hook.
Arguments execute_msg {S}.
Arguments handle {S}.
Arguments post_tx {S}.
Arguments multi_hook {S}.
Arguments deliver {S}.

(** ** Solidity side (modelled from [syscontracts/contracts_src/*.sol]; validated by the
    correspondence on real EVM runs, not proved): ABI encoding of the emitted events. *)

Definition pad32 (b : bytes) : bytes := b ++ zeros (N.to_nat ((32 - blen b mod 32) mod 32)).
Definition padded_len (b : bytes) : N := blen b + (32 - blen b mod 32) mod 32.
Definition enc_addr (a : bytes) : bytes := zeros 12 ++ a.
Definition enc_string (s : bytes) : bytes := word_of_N (blen s) ++ pad32 s.

Definition encode_event (e : event) : bytes :=
  match e with
  | EDelegated d v a | EUndelegated d v a =>
      enc_addr d ++ word_of_N 96 ++ word_of_N (match a with Some x => x | None => 0 end) ++ enc_string v
  | ERedelegated d s t a =>
      enc_addr d ++ word_of_N 128 ++ word_of_N (128 + 32 + padded_len s)
      ++ word_of_N (match a with Some x => x | None => 0 end) ++ enc_string s ++ enc_string t
  | EWithdrew d v => enc_addr d ++ word_of_N 64 ++ enc_string v
  | EVoted d pid opt => enc_addr d ++ word_of_N pid ++ word_of_N opt
  | EVotedW d pid os =>
      enc_addr d ++ word_of_N pid ++ word_of_N 96 ++ word_of_N (N.of_nat (length os))
      ++ flat_map (fun ow => word_of_N (fst ow) ++ word_of_N (snd ow)) os
  end.

Definition kind_of_event (e : event) : evkind :=
  match e with
  | EDelegated _ _ _ => KDelegated | EUndelegated _ _ _ => KUndelegated | ERedelegated _ _ _ _ => KRedelegated
  | EWithdrew _ _ => KWithdrew | EVoted _ _ _ => KVoted | EVotedW _ _ _ => KVotedWeighted
  end.

Definition hook_of_kind (k : evkind) : hkind :=
  match k with KVoted | KVotedWeighted => HGov | _ => HStaking end.

(** the log an [emit] of event [e] produces when the code runs at address [self] *)
Definition log_of_event (self : bytes) (e : event) : log :=
  {| l_addr := self; l_topics := [topic_of (kind_of_event e)]; l_data := encode_event e |}.
