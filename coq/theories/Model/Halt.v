(** Executable model of the code of /repo that runs OUTSIDE per-transaction panic
    recovery (property C15): governance proposal handlers executed by
    gov.EndBlocker, BeginBlockers, InitGenesis.  Every function returns an
    [outcome]: [Ok] / [Err] (ordinary error return) / [Panic] (run-time panic,
    which at these call sites halts the chain).  LIBRARY panics are part of the
    model: integer division by zero, slice bounds, [BytesToBloom] /
    [BytesToBlockNonce] on over-long input, rlp refusing a negative big.Int
    (turned into an explicit [panic] by [encodeSigHeader]), [store.Set] with an
    empty key, [Subspace.SetParamSet] on a value its validator rejects,
    [panic(err)] after a failed bank transfer.

    Go sources transcribed (as of /repo HEAD; [*_old] = the pinned commit, kept
    for Refuted/C15_refuted.v):
      x/xibc/core/client/types/proposal.go        ValidateBasic of the four proposals
      x/xibc/core/client/proposal_handler.go      NewClientProposalHandler, handle*
      x/xibc/core/client/keeper/proposal.go       HandleCreateClient ... HandleRegisterRelayer
      x/xibc/core/client/keeper/client.go         CreateClient, UpgradeClient, ToggleClient
      x/xibc/core/client/types/codec.go           UnpackClientState, UnpackConsensusState
      x/xibc/core/host/validate.go                ClientIdentifierValidator
      x/xibc/clients/light-clients/tendermint/types/client_state.go  Validate, Initialize, UpgradeState, Status
      x/xibc/clients/light-clients/bsc/types/client_state.go, header.go, bsc.go, store.go
                                                  Validate, Header.ValidateBasic, ToBscHeader, Initialize, UpgradeState,
                                                  ecrecover, encodeSigHeader, ParseValidators, DeleteAllSigner, Status
      x/xibc/clients/light-clients/eth/types/client_state.go, header.go  Validate, Header.ValidateBasic, ToEthHeader,
                                                  Initialize, UpgradeState, Status
      x/xibc/clients/tss-client/types/client_state.go                 Validate, Initialize, UpgradeState, Status
      x/xibc/core/client/genesis.go, types/genesis.go, x/xibc/core/packet/genesis.go, types/genesis.go
      x/aggregate/genesis.go, types/genesis.go, types/token_pair.go
      x/rvesting/keeper/genesis.go, types/genesis.go (parameters and BeginBlocker: Model/Rvesting.v)
    cosmos-sdk v0.45.2: gov ValidateAbstract, MsgSubmitProposal decoding (Any
    unpacking), sdk.ValidateDenom, Coins.Validate, prefix store key assertion. *)
From Coq Require Import String.
From Teleport Require Import Base.Bytes Base.Outcome Model.Rvesting Model.HaltGuardIR Gen.HaltGuardsGen.
Local Open Scope N_scope.

Definition two64 : N := 18446744073709551616.
Definition two63 : N := 9223372036854775808.

(** * Library layer *)

(** [strings.TrimSpace(s) == ""]: every rune of [s] is Unicode white space
    (U+0009..U+000D, U+0020, U+0085, U+00A0, U+1680, U+2000..U+200A, U+2028,
    U+2029, U+202F, U+205F, U+3000); bytes that are not valid UTF-8 are not. *)
Fixpoint blank_fuel (fuel : nat) (s : bytes) : bool :=
  match fuel with
  | O => match s with [] => true | _ => false end
  | S fuel' =>
      match s with
      | [] => true
      | c :: t =>
          let n := Byte.to_N c in
          if ((9 <=? n) && (n <=? 13)) || (n =? 32) then blank_fuel fuel' t
          else match n, t with
               | 194, d :: t' => let m := Byte.to_N d in if (m =? 133) || (m =? 160) then blank_fuel fuel' t' else false
               | 225, d :: e :: t' => if (Byte.to_N d =? 154) && (Byte.to_N e =? 128) then blank_fuel fuel' t' else false
               | 226, d :: e :: t' =>
                   let m := Byte.to_N d in let k := Byte.to_N e in
                   if ((m =? 128) && (((128 <=? k) && (k <=? 138)) || (k =? 168) || (k =? 169) || (k =? 175)))
                      || ((m =? 129) && (k =? 159))
                   then blank_fuel fuel' t' else false
               | 227, d :: e :: t' => if (Byte.to_N d =? 128) && (Byte.to_N e =? 128) then blank_fuel fuel' t' else false
               | _, _ => false
               end
      end
  end.
Definition blank (s : bytes) : bool := blank_fuel (List.length s) s.

Definition lenN {A} (l : list A) : N := N.of_nat (List.length l).

(** host.IsValidID character class: [a-zA-Z0-9._+\-#\[\]<>]. *)
Definition id_char (b : byte) : bool :=
  let n := Byte.to_N b in
  is_alpha b || is_digit b || (n =? 46) || (n =? 95) || (n =? 43) || (n =? 45) || (n =? 35)
  || (n =? 91) || (n =? 93) || (n =? 60) || (n =? 62).

Definition has_slash (s : bytes) : bool := existsb (fun b => Byte.to_N b =? 47) s.

(** host.ClientIdentifierValidator = defaultIdentifierValidator(id, 3, 64) (also Src/DstChainValidator). *)
Definition identifier_ok (id : bytes) : bool :=
  negb (blank id) && negb (has_slash id) && (3 <=? lenN id) && (lenN id <=? 64)
  && negb (match id with [] => true | _ => false end) && forallb id_char id.

(** gov ValidateAbstract (title, description): only the description's length matters. *)
Definition abstract_ok (title : bytes) (desc_len : N) : bool :=
  negb (blank title) && (lenN title <=? 140) && negb (desc_len =? 0) && (desc_len <=? 10000).

(** common.BytesToHash: the last 32 bytes, left-padded with zeros. *)
Fixpoint drop {A} (n : nat) (l : list A) : list A :=
  match n, l with O, _ => l | S n', _ :: t => drop n' t | S _, [] => [] end.
Definition bytes_to_hash (b : bytes) : bytes :=
  let n := List.length b in
  if Nat.leb 32 n then drop (n - 32) b else repeat x00 (32 - n) ++ b.

Definition zero_hash : bytes := repeat x00 32.
(** types.CalcUncleHash(nil) = Keccak256(RLP([])) (a constant of go-ethereum). *)
Definition uncle_hash : bytes :=
  [x1d;xcc;x4d;xe8;xde;xc7;x5d;x7a;xab;x85;xb5;x67;xb6;xcc;xd4;x1a;
   xd3;x12;x45;x1b;x94;x8a;x74;x13;xf0;xa1;x42;xfd;x40;xd4;x93;x47].

(** new(big.Int).SetBytes(b).Uint64(): the low 64 bits of the big-endian value. *)
Definition be_value (b : bytes) : N := fold_left (fun acc c => acc * 256 + Byte.to_N c) b 0.
Definition big_uint64 (b : bytes) : N := be_value b mod two64.

(** * Client and consensus states as decoded from a proposal / genesis file *)
Record height := mkH { h_rev : N; h_ht : N }.

Definition height_eqb (a b : height) : bool := (h_rev a =? h_rev b) && (h_ht a =? h_ht b).
Definition height_ltb (a b : height) : bool :=
  (h_rev a <? h_rev b) || ((h_rev a =? h_rev b) && (h_ht a <? h_ht b)).

(** BSC / ETH header: the fields the code in scope looks at.  Byte fields whose
    content is only hashed are represented by their length. *)
Record header := {
  hd_height : height;
  hd_extra_len : N;
  hd_mix : bytes;
  hd_uncle : bytes;
  hd_root : bytes;        (* state root: compared with the consensus state's root by the ETH client (aa5560b) *)
  hd_diff : bytes;
  hd_bloom_len : N;
  hd_nonce_len : N;       (* BSC only; the ETH nonce is a uint64 *)
  hd_gas_limit : N;
  hd_gas_used : N
}.

Inductive client_state :=
| CsTM (chain_id : bytes) (tl_num tl_den : N) (trusting unbonding drift : Z) (latest : height) (nspecs : N)
| CsBSC (hd : header) (chain_id epoch trusting : N)
        (seal_ok : bool)   (* crypto.Ecrecover on (sealHash, seal) succeeds AND the signer equals the coinbase *)
| CsETH (hd : header) (trusting : N)
| CsTSS (addr_ok : bool).  (* sdk.AccAddressFromBech32(TssAddress) succeeds *)

Inductive cons_state :=
| ConsTM (ts : N)          (* Timestamp.Unix() *)
| ConsBSC (ts : N)
| ConsETH (ts : N) (root : bytes)   (* Timestamp, Root *)
| ConsTSS
| ConsGarbage.   (* bytes under a consensus-state key that do not decode (genesis metadata only) *)

(** An [Any] slot after MsgSubmitProposal / genesis decoding. *)
Inductive any (A : Type) :=
| AnyNil                 (* field absent *)
| AnyEmptyUrl            (* empty type URL: decoding leaves the cached value nil *)
| AnyWrong               (* unregistered / other-interface / undecodable payload: decoding fails *)
| AnyVal (a : A).
Arguments AnyNil {A}. Arguments AnyEmptyUrl {A}. Arguments AnyWrong {A}. Arguments AnyVal {A} a.

Inductive ctype := TTM | TBSC | TETH | TTSS.
Definition ctype_eqb (a b : ctype) : bool :=
  match a, b with TTM, TTM | TBSC, TBSC | TETH, TETH | TTSS, TTSS => true | _, _ => false end.

Definition client_type (cs : client_state) : ctype :=
  match cs with CsTM _ _ _ _ _ _ _ _ => TTM | CsBSC _ _ _ _ _ => TBSC | CsETH _ _ => TETH | CsTSS _ => TTSS end.

(** ConsensusState.ClientType(); [None] for undecodable bytes.  (At the pinned
    commit the ETH consensus state answered "bsc"; only the comparison with
    TSS is used by the code in scope, so that quirk is invisible here.) *)
Definition cons_type (c : cons_state) : option ctype :=
  match c with ConsTM _ => Some TTM | ConsBSC _ => Some TBSC | ConsETH _ _ => Some TETH | ConsTSS => Some TTSS | ConsGarbage => None end.

Definition latest_height (cs : client_state) : height :=
  match cs with
  | CsTM _ _ _ _ _ _ l _ => l
  | CsBSC hd _ _ _ _ => hd_height hd
  | CsETH hd _ => hd_height hd
  | CsTSS _ => mkH 0 0
  end.

(** * Stateless validation *)

(** tendermint ClientState.Validate; light.ValidateTrustLevel multiplies in uint64. *)
Definition validate_tm (chain_id : bytes) (tl_num tl_den : N) (trusting unbonding drift : Z) (latest : height) (nspecs : N) : outcome unit :=
  if blank chain_id then Err
  else if ((tl_num * 3) mod two64 <? tl_den) || (tl_den <? tl_num) || (tl_den =? 0) then Err
  else if (two63 - 1 <? tl_num) || (two63 - 1 <? tl_den) then Err       (* fields above MaxInt64 (d656e11) *)
  else if (trusting =? 0)%Z then Err
  else if (unbonding =? 0)%Z then Err
  else if (drift =? 0)%Z then Err
  else if h_ht latest =? 0 then Err
  else if (unbonding <=? trusting)%Z then Err
  else if nspecs =? 0 then Err        (* ProofSpecs == nil: a decoded empty list is nil *)
  else Ok tt.

(** bsc Header.ToBscHeader: BytesToBloom / BytesToBlockNonce ([Bloom.SetBytes], [BlockNonce.SetBytes] of
    bsc.go) panic on input longer than the array ([bloomByteLength], [nonceByteLength]: regenerated constants). *)
Definition to_bsc_header (hd : header) : outcome unit :=
  if bsc_bloom_byte_length <? hd_bloom_len hd then Panic else if bsc_nonce_byte_length <? hd_nonce_len hd then Panic else Ok tt.

(** What the regenerated guards (Gen/HaltGuardsGen.v, from the Go source of Header.ValidateBasic / ecrecover of
    both header types) may talk about: field paths of the Go [Header]. *)
Definition header_env (hd : header) : genv :=
  {| g_len := [("Bloom", hd_bloom_len hd); ("Nonce", hd_nonce_len hd); ("Extra", hd_extra_len hd);
               ("MixDigest", lenN (hd_mix hd)); ("UncleHash", lenN (hd_uncle hd)); ("Root", lenN (hd_root hd));
               ("Difficulty", lenN (hd_diff hd))]%string;
     g_fld := [("GasLimit", hd_gas_limit hd); ("GasUsed", hd_gas_used hd);
               ("Height.RevisionHeight", h_ht (hd_height hd)); ("Height.RevisionNumber", h_rev (hd_height hd))]%string |}.

(** The part of bsc Header.ValidateBasic that the translator leaves opaque (hash comparisons) and the nested
    difficulty test, which converts the header. *)
Definition bsc_header_validate_rest (hd : header) : outcome unit :=
  if negb (bytes_eqb (bytes_to_hash (hd_mix hd)) zero_hash) then Err
  else if negb (bytes_eqb (bytes_to_hash (hd_uncle hd)) uncle_hash) then Err
  else if 0 <? h_ht (hd_height hd) then
    (_ <- to_bsc_header hd ;; if big_uint64 (hd_diff hd) =? 0 then Err else Ok tt)
  else Ok tt.

(** The environment of a ClientState.Validate: its own unsigned fields and the header's under "Header." (the
    translator inlines the tail call [return m.Header.ValidateBasic()] and prefixes the paths). *)
Definition prefixed (p : string) (l : list (string * N)) : list (string * N) := map (fun kv => ((p ++ fst kv)%string, snd kv)) l.
Definition client_env (hd : header) (flds : list (string * N)) : genv :=
  {| g_len := prefixed "Header." (g_len (header_env hd)); g_fld := flds ++ prefixed "Header." (g_fld (header_env hd)) |}.

(** pinned commit (hand transcription, kept for Refuted/): only the two extra-data length checks *)
Definition bsc_header_validate_old (hd : header) : outcome unit :=
  if hd_extra_len hd <? 32 then Err else if hd_extra_len hd <? 97 then Err else bsc_header_validate_rest hd.

Definition bsc_client_env (hd : header) (chain_id epoch trusting : N) : genv :=
  client_env hd [("ChainId", chain_id); ("Epoch", epoch); ("TrustingPeriod", trusting)]%string.

(** bsc ClientState.Validate at /repo HEAD: the REGENERATED guards of Validate and of the Header.ValidateBasic it
    ends in (Epoch == 0; lengths of bloom, nonce, extra data), then the hand-written remainder. *)
Definition validate_bsc (hd : header) (chain_id epoch trusting : N) : outcome unit :=
  if guards_reject (bsc_client_env hd chain_id epoch trusting) bsc_client_validate_guards then Err else bsc_header_validate_rest hd.
(** pinned commit: no epoch check, no length checks *)
Definition validate_bsc_old (hd : header) : outcome unit := bsc_header_validate_old hd.

(** eth Header.ToEthHeader: go-ethereum's types.BytesToBloom panics on more than BloomByteLength = 256 bytes. *)
Definition to_eth_header (hd : header) : outcome unit := if 256 <? hd_bloom_len hd then Panic else Ok tt.

Definition eth_header_validate_rest (hd : header) : outcome unit :=
  if 0 <? h_ht (hd_height hd) then
    (_ <- to_eth_header hd ;; if big_uint64 (hd_diff hd) =? 0 then Err else Ok tt)
  else Ok tt.

Definition eth_client_env (hd : header) (trusting : N) : genv := client_env hd [("TrustingPeriod", trusting)]%string.

(** eth ClientState.Validate = Header.ValidateBasic at HEAD: regenerated guards (bloom length, gas limit cap, gas
    used), then the nested difficulty test. *)
Definition validate_eth (hd : header) (trusting : N) : outcome unit :=
  if guards_reject (eth_client_env hd trusting) eth_client_validate_guards then Err else eth_header_validate_rest hd.
(** pinned commit: no bloom length check *)
Definition validate_eth_old (hd : header) : outcome unit :=
  if two63 - 1 <? hd_gas_limit hd then Err
  else if hd_gas_limit hd <? hd_gas_used hd then Err
  else eth_header_validate_rest hd.

Definition validate_client_gen (old : bool) (cs : client_state) : outcome unit :=
  match cs with
  | CsTM c n d t u dr l s => validate_tm c n d t u dr l s
  | CsBSC hd chain_id epoch trusting _ => if old then validate_bsc_old hd else validate_bsc hd chain_id epoch trusting
  | CsETH hd trusting => if old then validate_eth_old hd else validate_eth hd trusting
  | CsTSS addr_ok => if addr_ok then Ok tt else Err
  end.
Definition validate_client := validate_client_gen false.

(** types.UnpackClientState / UnpackConsensusState on a decoded Any. *)
Definition unpack {A} (a : any A) : outcome A :=
  match a with AnyVal v => Ok v | _ => Err end.

(** The four xibc proposals. *)
Inductive xprop :=
| PCreate (title : bytes) (desc_len : N) (chain : bytes) (cs : any client_state) (kst : any cons_state)
| PUpgrade (title : bytes) (desc_len : N) (chain : bytes) (cs : any client_state) (kst : any cons_state)
| PToggle (title : bytes) (desc_len : N) (chain : bytes) (cs : any client_state) (kst : any cons_state)
| PRelayer (title : bytes) (desc_len : N)
           (addr : bytes)          (* the Address string: it becomes the store key of the relayer *)
           (addr_decodes : bool)   (* oracle: bech32 decoding, prefix and length verification of a non-blank string succeed *)
           (chains : list bytes) (n_addresses : N).

(** sdk.AccAddressFromBech32 (cosmos-sdk v0.45.2 types/address.go): a blank string ([strings.TrimSpace] empty) is
    refused before anything is decoded. *)
Definition acc_address_from_bech32 (addr : bytes) (decodes : bool) : bool := negb (blank addr) && decodes.

Definition is_wrong {A} (a : any A) : bool := match a with AnyWrong => true | _ => false end.

(** Decoding of MsgSubmitProposal by the application codec (UnpackInterfaces) followed by
    MsgSubmitProposal.ValidateBasic -> Content.ValidateBasic. *)
Definition client_prop_validate (old : bool) (title : bytes) (desc_len : N) (chain : bytes) (cs : any client_state) (kst : any cons_state) : outcome unit :=
  if is_wrong cs || is_wrong kst then Err          (* rejected when the transaction is decoded *)
  else if negb (abstract_ok title desc_len) then Err
  else if negb (identifier_ok chain) then Err
  else (c <- unpack cs ;; validate_client_gen old c).

Definition xprop_validate_gen (old : bool) (p : xprop) : outcome unit :=
  match p with
  | PCreate t d ch cs kst | PUpgrade t d ch cs kst | PToggle t d ch cs kst => client_prop_validate old t d ch cs kst
  | PRelayer t d addr decodes chains n_addr =>
      if negb (abstract_ok t d) then Err
      else if negb (acc_address_from_bech32 addr decodes) then Err
      else if (n_addr =? 0) || negb (n_addr =? lenN chains) then Err
      else if forallb identifier_ok chains then Ok tt else Err
  end.
Definition xprop_validate := xprop_validate_gen false.
Definition xprop_validate_old := xprop_validate_gen true.

(** * Client stores *)

(** What the handlers read back from a client-prefixed store: the client state, the
    consensus states (sorted by height = iteration order of their keys) and the keys under
    the "recentSingers" prefix (the bytes after the prefix, in key order).  Everything else
    in the store (processed times, iteration keys, header indexes, pending validators) is
    only written by the code in scope. *)
Record cstore := { c_client : option client_state; c_cons : list (height * cons_state); c_signers : list bytes }.

Definition empty_store : cstore := {| c_client := None; c_cons := []; c_signers := [] |}.

Fixpoint cons_set (l : list (height * cons_state)) (h : height) (c : cons_state) : list (height * cons_state) :=
  match l with
  | [] => [(h, c)]
  | (h', c') :: t =>
      if height_eqb h h' then (h, c) :: t
      else if height_ltb h h' then (h, c) :: l
      else (h', c') :: cons_set t h c
  end.

Fixpoint cons_del (l : list (height * cons_state)) (h : height) : list (height * cons_state) :=
  match l with
  | [] => []
  | (h', c') :: t => if height_eqb h h' then t else (h', c') :: cons_del t h
  end.

Fixpoint cons_get (l : list (height * cons_state)) (h : height) : option cons_state :=
  match l with
  | [] => None
  | (h', c') :: t => if height_eqb h h' then Some c' else cons_get t h
  end.

(** Decimal rendering ([fmt.Sprintf("%d")]) and parsing ([strconv.ParseUint(s, 10, 64)]). *)
Definition digit_byte (d : N) : byte := match Byte.of_N (48 + d) with Some b => b | None => x30 end.
Fixpoint dec_fuel (fuel : nat) (n : N) (acc : bytes) : bytes :=
  match fuel with
  | O => acc
  | S f => let acc' := digit_byte (n mod 10) :: acc in if n / 10 =? 0 then acc' else dec_fuel f (n / 10) acc'
  end.
Definition dec (n : N) : bytes := dec_fuel 25 n [].

Definition parse_uint64 (s : bytes) : option N :=
  match s with
  | [] => None
  | _ => if forallb is_digit s then
           let v := fold_left (fun acc c => acc * 10 + (Byte.to_N c - 48)) s 0 in
           if v <? two64 then Some v else None
         else None
  end.

(** strings.Split(s, "/") *)
Fixpoint split_slash (s : bytes) (cur : bytes) : list bytes :=
  match s with
  | [] => [rev cur]
  | c :: t => if Byte.to_N c =? 47 then rev cur :: split_slash t [] else split_slash t (c :: cur)
  end.
Fixpoint split_dash (s : bytes) (cur : bytes) : list bytes :=
  match s with
  | [] => [rev cur]
  | c :: t => if Byte.to_N c =? 45 then rev cur :: split_dash t [] else split_dash t (c :: cur)
  end.

(** clienttypes.ParseHeight *)
Definition parse_height (s : bytes) : option height :=
  match split_dash s [] with
  | [a; b] => match parse_uint64 a, parse_uint64 b with Some r, Some h => Some (mkH r h) | _, _ => None end
  | _ => None
  end.

Definition signer_suffix (h : height) : bytes := x2f :: dec (h_rev h) ++ x2d :: dec (h_ht h).

Fixpoint sorted_insert (k : bytes) (l : list bytes) : list bytes :=
  match l with
  | [] => [k]
  | x :: t => match bytes_cmp k x with Eq => l | Lt => k :: l | Gt => x :: sorted_insert k t end
  end.

Definition remove_key (k : bytes) (l : list bytes) : list bytes := filter (fun x => negb (bytes_eqb x k)) l.

(** bsc DeleteAllSigner over the keys "recentSingers"++suffix, in key order:
    [keys := strings.Split(key, "/"); ParseHeight(keys[1])] - index out of range when the key
    has no separator, error return when the height does not parse.  Returns the heights to delete. *)
Fixpoint delete_all_signer (suffixes : list bytes) : outcome (list height) :=
  match suffixes with
  | [] => Ok []
  | s :: t =>
      match split_slash s [] with
      | _ :: part :: _ =>
          match parse_height part with
          | Some h => match delete_all_signer t with Ok l => Ok (h :: l) | o => o end
          | None => Err
          end
      | _ => Panic     (* keys[1]: index out of range *)
      end
  end.

(** The repaired parser (0d61436, parseRecentSignerKey): an error unless the key splits into exactly two parts. *)
Fixpoint delete_all_signer_strict (suffixes : list bytes) : outcome (list height) :=
  match suffixes with
  | [] => Ok []
  | s :: t =>
      match split_slash s [] with
      | [_; part] =>
          match parse_height part with
          | Some h => match delete_all_signer_strict t with Ok l => Ok (h :: l) | o => o end
          | None => Err
          end
      | _ => Err
      end
  end.

(** * Initialize / UpgradeState / Status *)
Section Clients.
  Variable now : N.   (* uint64(ctx.BlockTime().Unix()) *)
  Variable strict : bool.   (* recent-signer keys parsed with the length check (0d61436); false = the pinned parser *)
  Variable native : bytes.  (* Keeper.GetChainName: the bytes under "chainName"; the EMPTY string when the key is unset
                               (store.Get returns nil, string(nil) = "") *)

  (** bsc ecrecover + the coinbase comparison.  [old]: the chain id goes through
      big.NewInt(int64(ChainId)); rlp refuses a negative big.Int and encodeSigHeader panics. *)
  Definition bsc_recover (old : bool) (hd : header) (chain_id : N) (seal_ok : bool) : outcome unit :=
    if guards_reject (header_env hd) bsc_ecrecover_guards then Err     (* regenerated: len(header.Extra) < extraSeal *)
    else if (hd_extra_len hd <? bsc_extra_seal) || (hd_extra_len hd <? 65) then
      Panic     (* header.Extra[len(header.Extra)-extraSeal:], then encodeSigHeader: header.Extra[:len(header.Extra)-65] *)
    else if old && (two63 <=? chain_id) then Panic
    else if seal_ok then Ok tt else Err.

  (** bsc ParseValidators: extra[extraVanity : len(extra)-extraSeal], then len % addressLength (regenerated constants) *)
  Definition parse_validators (hd : header) : outcome unit :=
    if hd_extra_len hd <? bsc_extra_vanity + bsc_extra_seal then Panic
    else if (hd_extra_len hd - (bsc_extra_vanity + bsc_extra_seal)) mod bsc_address_length =? 0 then Ok tt else Err.

  Definition bsc_set_signer (st : cstore) (hd : header) : cstore :=
    {| c_client := c_client st; c_cons := c_cons st; c_signers := sorted_insert (signer_suffix (hd_height hd)) (c_signers st) |}.

  Definition bsc_initialize (old : bool) (st : cstore) (hd : header) (chain_id epoch : N) (seal_ok : bool) : outcome cstore :=
    if epoch =? 0 then Panic                       (* Height.RevisionHeight % m.Epoch *)
    else if negb (h_ht (hd_height hd) mod epoch =? 0) then Err
    else _ <- bsc_recover old hd chain_id seal_ok ;;
         let st' := bsc_set_signer st hd in
         _ <- parse_validators hd ;;
         Ok st'.

  Definition bsc_upgrade (old : bool) (st : cstore) (hd : header) (chain_id epoch trusting : N) (seal_ok : bool) : outcome cstore :=
    if epoch =? 0 then Panic
    else if negb (h_ht (hd_height hd) mod epoch =? 0) then Err
    else
      (* IterateConsensusStateAscending: the callback always stops after the first consensus state *)
      let pruned :=
        match c_cons st with
        | [] => Ok (c_cons st)
        | (h, c) :: _ =>
            match c with
            | ConsBSC ts => Ok (if (ts + trusting) mod two64 <? now then cons_del (c_cons st) h else c_cons st)
            | _ => Err            (* GetConsensusState: not a BSC consensus state -> pruneError *)
            end
        end in
      kst' <- pruned ;;
      dels <- (if strict then delete_all_signer_strict (c_signers st) else delete_all_signer (c_signers st)) ;;
      let signers' := fold_left (fun l h => remove_key (signer_suffix h) l) dels (c_signers st) in
      _ <- bsc_recover old hd chain_id seal_ok ;;
      let st' := bsc_set_signer {| c_client := c_client st; c_cons := kst'; c_signers := signers' |} hd in
      _ <- parse_validators hd ;;
      Ok st'.

  (** ConsensusState.GetRoot() as the ETH client reads it.  Only an ETH consensus state reaches the ETH client at
      HEAD (keeper.validateConsensusType precedes); for the other kinds the model takes the empty root (their real
      roots are not part of the model - the outcome can only differ between Ok and Err). *)
  Definition cons_root (k : cons_state) : bytes := match k with ConsETH _ r => r | _ => [] end.

  (** eth checkConsensusRoot (aa5560b; HEAD only): [state == nil] cannot hold for an unpacked Any; BOTH operands of
      the comparison are evaluated, so header.ToEthHeader() (BytesToBloom) runs whatever the roots are. *)
  Definition eth_check_root (hd : header) (k : cons_state) : outcome unit :=
    _ <- to_eth_header hd ;;
    if bytes_eqb (bytes_to_hash (cons_root k)) (bytes_to_hash (hd_root hd)) then Ok tt else Err.

  (** eth Initialize = UpgradeState: checkConsensusRoot (HEAD), MarshalInterface(header) (cannot fail for a decoded
      header), SetEthHeaderIndex(header.Hash()) -> ToEthHeader -> BytesToBloom. *)
  Definition eth_initialize (old : bool) (st : cstore) (hd : header) (k : cons_state) : outcome cstore :=
    _ <- (if old then Ok tt else eth_check_root hd k) ;;
    _ <- to_eth_header hd ;; Ok st.

  Definition initialize_gen (old : bool) (st : cstore) (cs : client_state) (kst : cons_state) : outcome cstore :=
    match cs with
    | CsTM _ _ _ _ _ _ _ _ => match kst with ConsTM _ => Ok st | _ => Err end
    | CsBSC hd chain_id epoch _ seal_ok => bsc_initialize old st hd chain_id epoch seal_ok
    | CsETH hd _ => eth_initialize old st hd kst
    | CsTSS _ => Ok st
    end.

  Definition upgrade_state_gen (old : bool) (st : cstore) (cs : client_state) (kst : cons_state) : outcome cstore :=
    match cs with
    | CsTM _ _ _ _ _ _ _ _ => Ok st
    | CsBSC hd chain_id epoch trusting seal_ok => bsc_upgrade old st hd chain_id epoch trusting seal_ok
    | CsETH hd _ => eth_initialize old st hd kst
    | CsTSS _ => Ok st
    end.

  (** ClientState.Status: 0 Active, 1 Expired, 2 Unknown.  Never an error, never a panic. *)
  Definition status (st : cstore) (cs : client_state) : N :=
    match cs with
    | CsTSS _ => 0
    | CsTM _ _ _ trusting _ _ l _ =>
        match cons_get (c_cons st) l with
        | Some (ConsTM ts) => if (Z.of_N ts * 1000000000 + trusting <=? Z.of_N now * 1000000000)%Z then 1 else 0
        | _ => 2
        end
    | CsBSC hd _ _ trusting _ =>
        match cons_get (c_cons st) (hd_height hd) with
        | Some (ConsBSC ts) => if (ts + trusting) mod two64 <? now then 1 else 0
        | _ => 2
        end
    | CsETH hd trusting =>
        match cons_get (c_cons st) (hd_height hd) with
        | Some (ConsETH ts _) => if (ts + trusting) mod two64 <? now then 1 else 0
        | _ => 2
        end
    end.

  (** * Keeper life cycle (x/xibc/core/client/keeper/client.go) *)
  Definition set_client (st : cstore) (cs : client_state) : cstore :=
    {| c_client := Some cs; c_cons := c_cons st; c_signers := c_signers st |}.
  Definition set_cons (st : cstore) (h : height) (c : cons_state) : cstore :=
    {| c_client := c_client st; c_cons := cons_set (c_cons st) h c; c_signers := c_signers st |}.

  Definition is_tss_cons (c : cons_state) : bool := match c with ConsTSS => true | _ => false end.

  Definition create_client (old : bool) (st : cstore) (cs : client_state) (kst : cons_state) : outcome cstore :=
    st1 <- initialize_gen old (set_client st cs) cs kst ;;
    Ok (if is_tss_cons kst then st1 else set_cons st1 (latest_height cs) kst).

  Definition upgrade_client (old : bool) (st : cstore) (cs : client_state) (kst : cons_state) : outcome cstore :=
    match c_client st with
    | None => Err
    | Some cur =>
        if negb (ctype_eqb (client_type cur) (client_type cs)) then Err
        else match upgrade_state_gen old st cs kst with
             | Ok st1 =>
                 let st2 := set_client st1 cs in
                 (* HEAD: no consensus state for a TSS client; pinned commit: always stored *)
                 Ok (if negb old && ctype_eqb (client_type cs) TTSS then st2 else set_cons st2 (latest_height cs) kst)
             | Err => Err          (* wrapped into ErrUpgradeClient *)
             | Panic => Panic
             end
    end.

  Definition toggle_client (old : bool) (st : cstore) (cs : client_state) (kst : cons_state) : outcome cstore :=
    match c_client st with
    | None => Err
    | Some cur =>
        if ctype_eqb (client_type cur) (client_type cs) then Err
        else
          (* HEAD: the client store is cleared and the NEW client state initialises; pinned commit: the store was
             kept and the OLD client state initialised *)
          st1 <- initialize_gen old (set_client (if old then st else empty_store) cs) (if old then cur else cs) kst ;;
          Ok (if negb old && is_tss_cons kst then st1 else set_cons st1 (latest_height cs) kst)
    end.

  (** * Module state and proposal handlers *)
  Definition xstate := list (bytes * cstore).

  Fixpoint xget (s : xstate) (chain : bytes) : cstore :=
    match s with
    | [] => empty_store
    | (k, v) :: t => if bytes_eqb k chain then v else xget t chain
    end.
  Definition xset (s : xstate) (chain : bytes) (v : cstore) : xstate := (chain, v) :: s.

  (** keeper.validateConsensusType (HEAD only): the consensus state must be of the proposed client's type. *)
  Definition cons_type_ok (old : bool) (c : client_state) (k : cons_state) : outcome unit :=
    if old then Ok tt
    else match cons_type k with Some t => if ctype_eqb t (client_type c) then Ok tt else Err | None => Err end.

  (** keeper.Handle*Client + the handler's event (GetLatestHeight().String() on a value height). *)
  Definition handle_xprop_gen (old : bool) (s : xstate) (p : xprop) : outcome xstate :=
    match p with
    | PCreate _ _ chain cs kst =>
        (* HEAD (a9e74e1): the chain's own name is refused first; never true for an unset name, a validated chain
           name has at least three characters *)
        if negb old && bytes_eqb chain native then Err else
        match c_client (xget s chain) with
        | Some _ => Err
        | None => c <- unpack cs ;; k <- unpack kst ;; _ <- cons_type_ok old c k ;;
                  st' <- create_client old (xget s chain) c k ;; Ok (xset s chain st')
        end
    | PUpgrade _ _ chain cs kst =>
        c <- unpack cs ;; k <- unpack kst ;; _ <- cons_type_ok old c k ;;
        st' <- upgrade_client old (xget s chain) c k ;; Ok (xset s chain st')
    | PToggle _ _ chain cs kst =>
        match c_client (xget s chain) with
        | None => Err
        | Some _ => c <- unpack cs ;; k <- unpack kst ;; _ <- cons_type_ok old c k ;;
                    st' <- toggle_client old (xget s chain) c k ;; Ok (xset s chain st')
        end
    | PRelayer _ _ addr _ _ _ =>
        (* RegisterRelayers: RelayerStore.Set([]byte(address), ...): the prefix store panics "key is nil" on an empty key *)
        if lenN addr =? 0 then Panic else Ok s
    end.
  Definition handle_xprop := handle_xprop_gen false.
  Definition handle_xprop_old := handle_xprop_gen true.

  (** gov.EndBlocker: cache context, written only on success, NO recover. *)
  Definition gov_exec {S P} (handler : S -> P -> outcome S) (s : S) (p : P) : outcome S :=
    match handler s p with Ok s' => Ok s' | Err => Ok s | Panic => Panic end.
End Clients.

(** * Genesis *)

(** ** xibc: client genesis + packet genesis *)
Record gx_packet := { gp_src : bytes; gp_dst : bytes; gp_seq : N; gp_data_len : N }.

Record gx_relayer := {
  rl_addr_len : N;            (* len(Address) *)
  rl_bech32 : bool;           (* sdk.AccAddressFromBech32(Address) succeeds (it never does for the empty string) *)
  rl_chains : list bytes;
  rl_n_addresses : N
}.

(** IdentifiedRelayer.Validate (= the checks of RegisterRelayerProposal.ValidateBasic) *)
Definition relayer_ok (r : gx_relayer) : bool :=
  negb (rl_addr_len r =? 0) && rl_bech32 r
  && negb (rl_n_addresses r =? 0) && (rl_n_addresses r =? lenN (rl_chains r)) && forallb identifier_ok (rl_chains r).

Record gx_genesis := {
  gx_clients : list (bytes * any client_state);
  gx_consensus : list (bytes * list (height * any cons_state));
  gx_metadata : list (bytes * list (bytes * N));      (* chain, (key, value length) *)
  gx_relayers : list gx_relayer;
  gx_native : bytes;
  gx_acks : list gx_packet; gx_commitments : list gx_packet; gx_receipts : list gx_packet; gx_seqs : list gx_packet
}.

Fixpoint assoc_type (l : list (bytes * ctype)) (k : bytes) : option ctype :=
  match l with [] => None | (k', v) :: t => if bytes_eqb k' k then Some v else assoc_type t k end.

(** [map] semantics of validClients: later entries overwrite earlier ones. *)
Fixpoint gx_validate_clients (l : list (bytes * any client_state)) (acc : list (bytes * ctype)) : outcome (list (bytes * ctype)) :=
  match l with
  | [] => Ok acc
  | (chain, a) :: t =>
      if negb (identifier_ok chain) then Err
      else match a with
           | AnyNil => Panic          (* client.ClientState.GetCachedValue() on a nil *Any *)
           | AnyVal cs => _ <- validate_client cs ;; gx_validate_clients t ((chain, client_type cs) :: acc)
           | _ => Err
           end
  end.

Definition gx_validate_cons_one (ty : ctype) (hc : height * any cons_state) : outcome unit :=
  let (h, a) := hc in
  if (h_rev h =? 0) && (h_ht h =? 0) && negb (ctype_eqb ty TETH) && negb (ctype_eqb ty TBSC) then Err
  else match a with
       | AnyNil => Panic
       | AnyVal c =>
           (* ConsensusState.ValidateBasic: tendermint wants root, hash (well formed in every generated state) and
              a positive Unix time; the other types accept everything *)
           if match c with ConsTM ts => ts =? 0 | _ => false end then Err
           else match cons_type c with Some t => if ctype_eqb t ty then Ok tt else Err | None => Err end
       | _ => Err
       end.

Fixpoint all_ok {A} (f : A -> outcome unit) (l : list A) : outcome unit :=
  match l with [] => Ok tt | x :: t => _ <- f x ;; all_ok f t end.

(** PacketState.Validate + the extra emptiness test for acknowledgements and commitments.  After the JSON
    decoding of a genesis file a present-but-empty data field is an empty, non-nil slice: [Data == nil] (absent
    field) does not occur in the generated files, and receipts with empty data are accepted. *)
Definition packet_env (p : gx_packet) : genv :=
  {| g_len := [("Data", gp_data_len p); ("SrcChain", lenN (gp_src p)); ("DstChain", lenN (gp_dst p))]%string; g_fld := [("Sequence", gp_seq p)]%string |}.

(** [guards]: the regenerated per-element guards of the loop of packet GenesisState.Validate the entry belongs to
    (acknowledgements, commitments: data must not be empty; receipts: none). *)
Definition gx_validate_packet (guards : list gcond) (p : gx_packet) : outcome unit :=
  if negb (identifier_ok (gp_src p)) then Err
  else if negb (identifier_ok (gp_dst p)) then Err
  else if gp_seq p =? 0 then Err
  else if guards_reject (packet_env p) guards then Err else Ok tt.

Definition gx_validate_seq (p : gx_packet) : outcome unit :=
  if negb (identifier_ok (gp_src p)) then Err
  else if negb (identifier_ok (gp_dst p)) then Err
  else if gp_seq p =? 0 then Err else Ok tt.

(** The genesis file decodes (JSON codec + UnpackInterfaces). *)
Definition gx_decodes (g : gx_genesis) : bool :=
  forallb (fun c : bytes * any client_state => negb (is_wrong (snd c))) (gx_clients g)
  && forallb (fun cc : bytes * list (height * any cons_state) => forallb (fun hc : height * any cons_state => negb (is_wrong (snd hc))) (snd cc)) (gx_consensus g).

(** GenesisMetadata.Validate: the regenerated guards (empty key, empty value). *)
Definition metadata_env (kv : bytes * N) : genv := {| g_len := [("Key", lenN (fst kv)); ("Value", snd kv)]%string; g_fld := [] |}.
Definition gx_validate_metadata (kv : bytes * N) : outcome unit :=
  if guards_reject (metadata_env kv) genesis_metadata_validate_guards then Err else Ok tt.

(** [relayer_check]: whether GenesisState.Validate looks at the relayers (it does since d9df21a; it did not at the
    pinned commit). *)
Definition gx_validate_gen (relayer_check : bool) (g : gx_genesis) : outcome unit :=
  if negb (gx_decodes g) then Err else
  types <- gx_validate_clients (gx_clients g) [] ;;
  _ <- all_ok (fun cc : bytes * list (height * any cons_state) =>
                 match assoc_type types (fst cc) with
                 | None => Err
                 | Some ty => all_ok (gx_validate_cons_one ty) (snd cc)
                 end) (gx_consensus g) ;;
  _ <- all_ok (fun m : bytes * list (bytes * N) =>
                 match assoc_type types (fst m) with
                 | None => Err
                 | Some _ => all_ok gx_validate_metadata (snd m)
                 end) (gx_metadata g) ;;
  _ <- (if relayer_check && negb (forallb relayer_ok (gx_relayers g)) then Err else Ok tt) ;;
  _ <- (if identifier_ok (gx_native g) then Ok tt else Err) ;;
  _ <- all_ok (gx_validate_packet packet_genesis_ack_guards) (gx_acks g) ;;
  _ <- all_ok (gx_validate_packet []) (gx_receipts g) ;;
  _ <- all_ok (gx_validate_packet packet_genesis_commitment_guards) (gx_commitments g) ;;
  all_ok gx_validate_seq (gx_seqs g).

Definition gx_validate := gx_validate_gen true.
Definition gx_validate_old := gx_validate_gen false.

(** client.InitGenesis + packet.InitGenesis.  An empty relayer address reaches
    RelayerStore.Set([]byte(""), ...) and the prefix store panics "key is nil". *)
Definition gx_init (g : gx_genesis) : outcome unit :=
  (* SetAllClientMetadata: store.Set(key, value) - an empty key panics; a decoded empty value is non-nil *)
  _ <- all_ok (fun m : bytes * list (bytes * N) =>
                 all_ok (fun kv : bytes * N => if lenN (fst kv) =? 0 then Panic else Ok tt) (snd m)) (gx_metadata g) ;;
  _ <- all_ok (fun c : bytes * any client_state => match snd c with AnyVal _ => Ok tt | _ => Panic end) (gx_clients g) ;;
  _ <- all_ok (fun cc : bytes * list (height * any cons_state) =>
                 all_ok (fun hc : height * any cons_state => match snd hc with AnyVal _ => Ok tt | _ => Panic end) (snd cc)) (gx_consensus g) ;;
  (* RegisterRelayers: RelayerStore.Set([]byte(address), ...) *)
  _ <- all_ok (fun r : gx_relayer => if rl_addr_len r =? 0 then Panic else Ok tt) (gx_relayers g) ;;
  (* packet.InitGenesis: SetPacketAcknowledgement / SetPacketCommitment store the data as the VALUE: store.Set panics
     "value is nil" on a nil slice, which is what an absent data field decodes to (over-approximated: every empty
     data); the keys are formatted and never empty *)
  _ <- all_ok (fun p : gx_packet => if gp_data_len p =? 0 then Panic else Ok tt) (gx_acks g) ;;
  all_ok (fun p : gx_packet => if gp_data_len p =? 0 then Panic else Ok tt) (gx_commitments g).

(** The module state InitGenesis leaves behind, as far as the proposal handlers read it back: per
    listed client its client state (last entry wins), the consensus states (metadata written under
    consensus-state keys first - undecodable bytes - then the listed ones) and the metadata keys under
    the "recentSingers" prefix. *)
Fixpoint strip_prefix (p s : bytes) : option bytes :=
  match p, s with
  | [], _ => Some s
  | x :: p', y :: s' => if Byte.eqb x y then strip_prefix p' s' else None
  | _ :: _, [] => None
  end.

Definition parse_cons_key (k : bytes) : option height :=
  match strip_prefix (B "consensusStates/") k with
  | Some r => if lenN r =? 16 then Some (mkH (be_value (firstn 8 r)) (be_value (skipn 8 r))) else None
  | None => None
  end.

Definition gx_store (g : gx_genesis) (chain : bytes) : cstore :=
  let items := flat_map (fun m : bytes * list (bytes * N) => if bytes_eqb (fst m) chain then map fst (snd m) else []) (gx_metadata g) in
  let signers := fold_left (fun l k => match strip_prefix (B "recentSingers") k with Some suf => sorted_insert suf l | None => l end) items [] in
  let cons0 := fold_left (fun l k => match parse_cons_key k with Some h => cons_set l h ConsGarbage | None => l end) items [] in
  let listed := flat_map (fun cc : bytes * list (height * any cons_state) => if bytes_eqb (fst cc) chain then snd cc else []) (gx_consensus g) in
  let cons1 := fold_left (fun l (hc : height * any cons_state) => match snd hc with AnyVal c => cons_set l (fst hc) c | _ => l end) listed cons0 in
  let client := fold_left (fun acc (c : bytes * any client_state) =>
                             if bytes_eqb (fst c) chain then match snd c with AnyVal cs => Some cs | _ => acc end else acc) (gx_clients g) None in
  {| c_client := client; c_cons := cons1; c_signers := signers |}.

Definition gx_state (g : gx_genesis) : list (bytes * cstore) := map (fun c : bytes * any client_state => (fst c, gx_store g (fst c))) (gx_clients g).

(** ** aggregate *)
Definition is_hex_digit (b : byte) : bool :=
  let n := Byte.to_N b in is_digit b || ((65 <=? n) && (n <=? 70)) || ((97 <=? n) && (n <=? 102)).

(** common.IsHexAddress: optional 0x / 0X, then exactly 40 hex digits. *)
Definition is_hex_address (s : bytes) : bool :=
  let body := match s with
              | a :: b :: t => if (Byte.to_N a =? 48) && ((Byte.to_N b =? 120) || (Byte.to_N b =? 88)) then t else s
              | _ => s
              end in
  (lenN body =? 40) && forallb is_hex_digit body.

Record ga_pair := { gp_erc20 : bytes; gp_denoms : list bytes }.

(** common.HexToAddress as a map key, for strings that are hex addresses: the 40 digits, case folded.
    (For other strings the value is irrelevant here: TokenPair.Validate rejects them before the
    address is recorded, and every exit in between is an error return.) *)
Definition lower_byte (b : byte) : byte :=
  let n := Byte.to_N b in
  if (65 <=? n) && (n <=? 90) then match Byte.of_N (n + 32) with Some c => c | None => b end else b.
Definition addr_key (s : bytes) : bytes :=
  let body := match s with
              | a :: b :: t => if (Byte.to_N a =? 48) && ((Byte.to_N b =? 120) || (Byte.to_N b =? 88)) then t else s
              | _ => s
              end in
  map lower_byte body.

(** aggregate GenesisState.Validate (HEAD: contract duplicates keyed by address, every denomination
    checked, empty list rejected; [old]: keyed by spelling, only Denoms[0], indexed before any length check). *)
(** the inner loop over one pair's denominations: [None] = duplicate, else the extended seen-set *)
Fixpoint denoms_fresh (ds seen : list bytes) : option (list bytes) :=
  match ds with
  | [] => Some seen
  | d :: ds' => if mem d seen then None else denoms_fresh ds' (d :: seen)
  end.

Definition ga_pair_env (p : ga_pair) : genv :=
  {| g_len := [("Denoms", lenN (gp_denoms p)); ("ERC20Address", lenN (gp_erc20 p))]%string; g_fld := [] |}.

Fixpoint ga_validate_pairs (old : bool) (l : list ga_pair) (seen_erc20 seen_denom : list bytes) : outcome unit :=
  match l with
  | [] => Ok tt
  | p :: t =>
      if mem (if old then gp_erc20 p else addr_key (gp_erc20 p)) seen_erc20 then Err
      else if old then
        match gp_denoms p with
        | [] => Panic                               (* b.Denoms[0] *)
        | d0 :: _ =>
            if mem d0 seen_denom then Err
            else if negb (forallb valid_denom (gp_denoms p)) then Err
            else if negb (is_hex_address (gp_erc20 p)) then Err
            else ga_validate_pairs old t (gp_erc20 p :: seen_erc20) (d0 :: seen_denom)
        end
      else
        (* HEAD: the regenerated guards of the loop body (a pair without denominations is rejected) *)
        if guards_reject (ga_pair_env p) aggregate_genesis_pair_guards then Err
        else
            match denoms_fresh (gp_denoms p) seen_denom with
            | None => Err
            | Some seen =>
                (* TokenPair.Validate: valid denominations that do not read as hex addresses *)
                if negb (forallb (fun d => valid_denom d && negb (is_hex_address d)) (gp_denoms p)) then Err
                else if negb (is_hex_address (gp_erc20 p)) then Err
                else ga_validate_pairs old t (addr_key (gp_erc20 p) :: seen_erc20) seen
            end
  end.

Definition ga_validate (l : list ga_pair) : outcome unit := ga_validate_pairs false l [] [].
Definition ga_validate_old (l : list ga_pair) : outcome unit := ga_validate_pairs true l [] [].

(** aggregate.InitGenesis: pair.GetID() indexes Denoms[0]. *)
Definition ga_init (l : list ga_pair) : outcome unit :=
  all_ok (fun p => match gp_denoms p with [] => Panic | _ => Ok tt end) l.

(** ** rvesting *)
Local Open Scope Z_scope.

(** sdk.Coins.Validate *)
Fixpoint coins_sorted_valid (low : bytes) (l : list (bytes * Z)) : bool :=
  match l with
  | [] => true
  | (d, a) :: t => valid_denom d && bytes_ltb low d && (0 <? a) && coins_sorted_valid d t
  end.
Definition coins_valid (l : list (bytes * Z)) : bool :=
  match l with
  | [] => true
  | (d, a) :: t => valid_denom d && (0 <? a) && coins_sorted_valid d t
  end.

Record gr_genesis := {
  gr_rewards : list (bytes * Z);
  gr_from_empty : bool;           (* len(From) == 0 *)
  gr_from_ok : bool;              (* sdk.AccAddressFromBech32(From) succeeds *)
  gr_init : list (bytes * Z);     (* InitReward *)
  gr_from_bal : balmap            (* spendable balances of From when InitGenesis runs *)
}.

Definition gr_validate (g : gr_genesis) : outcome unit :=
  if negb (validate_rewards (gr_rewards g)) then Err
  else if gr_from_empty g then Ok tt
  else if negb (gr_from_ok g) then Err
  else if coins_valid (gr_init g) then Ok tt else Err.

Definition covers (bal : balmap) (l : list (bytes * Z)) : bool := forallb (fun c => snd c <=? get bal (fst c)) l.

(** keeper.InitGenesis: SetParams (Subspace.SetParamSet panics when the validator rejects the value),
    then SendCoinsFromAccountToModule, [panic(err)] on failure. *)
Definition gr_init_genesis (g : gr_genesis) : outcome unit :=
  if negb (validate_rewards (gr_rewards g)) then Panic
  else if gr_from_empty g then Ok tt
  else if negb (gr_from_ok g) then Panic
  else if negb (coins_valid (gr_init g)) then Panic           (* SendCoins: ErrInvalidCoins *)
  else if covers (gr_from_bal g) (gr_init g) then Ok tt else Panic.   (* insufficient funds *)
