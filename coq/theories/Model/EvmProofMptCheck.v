(** Correspondence definitions for the Gallina MPT verifier (Model/EvmProofMpt.v) and for the delay getters,
    evaluated by [vm_compute] on what harness/cmd/c08 recorded from go-ethereum's [trie.VerifyProof] and from
    the two client copies.  No proofs here. *)
From Teleport Require Import Base.Bytes Base.Outcome Model.EvmProof Model.EvmProofCheck Model.EvmProofMpt Model.EvmProofTrie.
Local Open Scope N_scope.

(** ** 1. [trie.VerifyProof] called directly (harness mode "mpt") *)
Record mcase := {
  m_root : bytes;
  m_key : bytes;
  m_nodes : list bytes;
  m_res : option bytes;                  (* None: error; Some []: (nil, nil) or an empty value; Some v *)
  m_panic : bool;
  m_keccak : list (bytes * bytes);       (* crypto.Keccak256 of every node of the list *)
  m_tryget : option bytes                (* full-database cases: what geth's Trie.TryGet finds for the key ([] = absent) *)
}.

Definition table_keccak (t : list (bytes * bytes)) (x : bytes) : bytes :=
  match assoc x t with Some h => h | None => [] end.

Definition all_hashed (t : list (bytes * bytes)) (nodes : list bytes) : bool :=
  forallb (fun n => match assoc n t with Some _ => true | None => false end) nodes.

(** Kinds: 5 the Gallina verifier and go-ethereum disagree (value / absent / error / panic);
    7 the Gallina walk ran out of rounds (the Go loop would not have ended);
    8 a node of the list has no Keccak entry in the table;
    10 (full-database cases) the node database does not resolve the key to what geth's Trie.TryGet finds -- the notion
    of "world" of the theorems ([resolves] / [db_value] / [commits_db]) is not geth's trie reader;
    11 (full-database cases) a node go-ethereum wrote is not [enc_node] of its decoding -- the trie encoder of
    Model/EvmProofTrie.v is not go-ethereum's. *)
Definition walk_vs_go (w : wres) (res : option bytes) (panicked : bool) : list nat :=
  match w with
  | WLoop => [7%nat]
  | WPanic => if panicked then [] else [5%nat]
  | WValue v =>
      if panicked then [5%nat]
      else match res with Some r => if bytes_eqb v r then [] else [5%nat] | None => [5%nat] end
  | WAbsent =>
      if panicked then [5%nat]
      else match res with Some [] => [] | _ => [5%nat] end
  | WMissing | WBad =>
      if panicked then [5%nat] else match res with None => [] | Some _ => [5%nat] end
  end.

Definition mpt_entry_check (t : list (bytes * bytes)) (root key : bytes) (nodes : list bytes)
           (res : option bytes) (panicked : bool) : list nat :=
  if all_hashed t nodes then
    walk_vs_go (walk (table_keccak t) nodes (walk_fuel nodes key) root (keybytes_to_hex key)) res panicked
  else [8%nat].

Definition tryget_check (c : mcase) : list nat :=
  match m_tryget c with
  | None => []
  | Some g =>
      match mpt_verify_g (table_keccak (m_keccak c)) (m_root c) (m_key c) (m_nodes c) with
      | Some v => if bytes_eqb v g then [] else [10%nat]
      | None => [10%nat]
      end
  end.

Definition reencode_check (c : mcase) : list nat :=
  match m_tryget c with
  | None => []
  | Some _ =>
      if forallb (fun n => match decode_node n with Some nd => bytes_eqb (enc_node nd) n | None => false end) (m_nodes c)
      then [] else [11%nat]
  end.

Definition mcase_check (c : mcase) : list (nat * nat) :=
  map (fun k => (0%nat, k)) (mpt_entry_check (m_keccak c) (m_root c) (m_key c) (m_nodes c) (m_res c) (m_panic c) ++
                             tryget_check c ++ reencode_check c).

Definition mpt_mismatches (cs : list mcase) : list (nat * (nat * nat)) :=
  flat_map (fun ic => map (fun m => (fst ic, m)) (mcase_check (snd ic))) (number 0 cs).

(** the verdict of the Gallina verifier per case (statistics): 0 value, 1 absent, 2 error, 3 panic, 4 loop *)
Definition mpt_verdicts (cs : list mcase) : list nat :=
  map (fun c => match walk (table_keccak (m_keccak c)) (m_nodes c) (walk_fuel (m_nodes c) (m_key c)) (m_root c)
                           (keybytes_to_hex (m_key c)) with
                | WValue _ => 0 | WAbsent => 1 | WMissing | WBad => 2 | WPanic => 3 | WLoop => 4
                end%nat) cs.

(** ** 2. The [trie.VerifyProof] tables of the verification cases, and the whole model with the Gallina
    verifier in place of the table oracle.  Step 2 = an entry of the table, step 0 / 1 = ETH / BSC copy.
    Kind 6: the model with the Gallina MPT verifier disagrees with the observed outcome class. *)
Definition model_class_g (c : ecase) (k : client_kind) : nat :=
  oclass (verify (keccak_of c) (mpt_verify_g (keccak_of c)) (json_of c) (cs_of c k) (cstore_of c) (c_height c) (c_proof c)
                 (c_ack c) (c_src c) (c_dst c) (c_seq c) (c_commitment c)).

Definition ecase_mpt_check (c : ecase) : list (nat * nat) :=
  flat_map (fun e => match e with
                     | (root, key, nodes, res) =>
                         map (fun k => (2%nat, k)) (mpt_entry_check (c_keccak c) root key nodes res false)
                     end) (c_mpt c) ++
  (if Nat.eqb (model_class_g c ETH) (c_eth_class c) then [] else [(0%nat, 6%nat)]) ++
  (if Nat.eqb (model_class_g c BSC) (c_bsc_class c) then [] else [(1%nat, 6%nat)]).

Definition mpt_table_mismatches (cs : list ecase) : list (nat * (nat * nat)) :=
  flat_map (fun ic => map (fun m => (fst ic, m)) (ecase_mpt_check (snd ic))) (number 0 cs).

(** ** 3. [GetDelayBlock] / [GetDelayTime] of both copies (harness mode "delay") *)
Record dcase := {
  d_nvals : N; d_block_interval : N; d_eth_block_delay : N; d_eth_time_delay : N;
  (* observed *)
  d_bsc_delay_block : N; d_bsc_delay_time : N; d_eth_delay_block_obs : N; d_eth_delay_time_obs : N
}.

(** Kinds: 41 BSC GetDelayBlock, 42 BSC GetDelayTime, 43 ETH GetDelayBlock, 44 ETH GetDelayTime differ from the
    model; 45 (monitor) the BSC confirmation depth is not "more than half of the validators". *)
Definition dcase_check (c : dcase) : list (nat * nat) :=
  let cs_b := {| cs_kind := BSC; cs_head := {| rn := 0; rh := 0 |}; cs_contract := []; cs_block_delay := 0;
                 cs_nvalidators := d_nvals c |} in
  let cs_e := {| cs_kind := ETH; cs_head := {| rn := 0; rh := 0 |}; cs_contract := [];
                 cs_block_delay := d_eth_block_delay c; cs_nvalidators := 0 |} in
  (if delay_block cs_b =? d_bsc_delay_block c then [] else [(0%nat, 41%nat)]) ++
  (if delay_time BSC (d_nvals c) (d_block_interval c) (d_eth_time_delay c) =? d_bsc_delay_time c then [] else [(0%nat, 42%nat)]) ++
  (if delay_block cs_e =? d_eth_delay_block_obs c then [] else [(0%nat, 43%nat)]) ++
  (if delay_time ETH (d_nvals c) (d_block_interval c) (d_eth_time_delay c) =? d_eth_delay_time_obs c then [] else [(0%nat, 44%nat)]) ++
  (if (d_nvals c <? 2 * d_bsc_delay_block c) && (2 * (d_bsc_delay_block c - 1) <=? d_nvals c) then [] else [(0%nat, 45%nat)]).

Definition delay_mismatches (cs : list dcase) : list (nat * (nat * nat)) :=
  flat_map (fun ic => map (fun m => (fst ic, m)) (dcase_check (snd ic))) (number 0 cs).
