(** Correspondence and monitor definitions for C16, evaluated by [vm_compute] on the cases the harness
    (harness/cmd/c16) ran on the real stack (no proofs here). *)
From Coq Require Import List ZArith Bool.
From Teleport Require Import Base.Bytes Base.Outcome Model.Ics20 Model.Ics20Transfer.
Import ListNotations.
Local Open Scope Z_scope.

(** Projected observables of one state: the receiver's and the module's balances of the denomination the hook
    computes, the receiver's balance of the denomination the transfer application credits, the ERC-20 side, the two
    registry facts about that denomination, and a digest of everything else (other balances, supplies, pairs). *)
Record snap := {
  sn_recv_voucher : Z; sn_recv_got : Z; sn_mod_voucher : Z; sn_supply : Z;
  sn_tokens : Z; sn_mod_tokens : Z; sn_tok_supply : Z;
  sn_indexed : bool; sn_pair : bool; sn_rest : bytes }.

Record callobs := {
  co_class : nat;          (* 0 returned, 1 error (core only), 2 panic *)
  co_ack_nil : bool; co_ack_ok : bool; co_ack : bytes;
  co_status : nat;         (* EventIBCAggregate status: 9 none, 1 success, 2 failed *)
  co_post : snap }.

Record coreobs := {
  cr_ran : bool; cr_class : nat; cr_stored : bool; cr_commit : bytes; cr_receipt : bool; cr_status : nat; cr_post : snap }.

Record cbobs := { cb_bare : nat; cb_stack : nat; cb_same : bool }.

(** what the concrete model of the transfer application needs (bare run): parameters and the funds of the credited
    denomination held by the channel escrow and the transfer module account, and its supply, before / after *)
Record trobs := {
  tr_recv_blocked : bool; tr_recv_enabled : bool; tr_denom_ok : bool;
  tr_escrow : bytes; tr_tmodule : bytes;
  tr_pre_esc : Z; tr_pre_tmod : Z; tr_pre_supply : Z;
  tr_post_esc : Z; tr_post_tmod : Z; tr_post_supply : Z }.

Record case := {
  k_pkt : packet;
  (* oracle values: the real library functions on this packet *)
  k_decoded : option ftpd;
  k_amount : option Z;
  k_recv : option bytes;
  k_sha : list (bytes * bytes);       (* sha256 on every argument the real code hashed *)
  k_hook_denom : bytes;               (* observed types.IBCDenom(destPort, destChannel, data.Denom) *)
  k_got_denom : bytes;                (* observed denomination credited by the transfer keeper ([] = none / invalid) *)
  k_evm_recv : bytes;                 (* observed common.BytesToAddress(receiver) *)
  (* the state *)
  k_module : bytes;
  k_reg : nat;                        (* 0 not indexed, 1 indexed with a stored pair, 2 indexed without pair *)
  k_contract : bytes; k_alive : bool; k_owner : nat; k_pair_enabled : bool;
  k_agg_enabled : bool; k_blocked : bool; k_send_disabled : bool;
  k_pre : snap;
  (* the three runs *)
  k_bare : callobs; k_stack : callobs; k_core : coreobs;
  k_ackcb : cbobs; k_tocb : cbobs;
  (* Keeper.OnRecvPacket called directly on the state before the packet with an acknowledgement of the harness *)
  k_hook : callobs; k_hook_ack : bytes;
  k_tr : trobs;
  k_mods_blocked : bool }.               (* bank.BlockedAddr(aggregate module) && bank.BlockedAddr(transfer module) *)

Fixpoint lookup (t : list (bytes * bytes)) (x : bytes) : option bytes :=
  match t with [] => None | (k, v) :: t' => if bytes_eqb k x then Some v else lookup t' x end.

Definition sha_of (k : case) (x : bytes) : bytes := match lookup (k_sha k) x with Some h => h | None => [] end.

Definition pair_id : bytes := [x01].

Definition recv_of (k : case) : bytes := match k_recv k with Some r => r | None => [] end.

(** the model state described by a snapshot (registry part from the case) *)
Definition state_of (k : case) (indexed pair : bool) (s : snap) : cstate :=
  let d := k_hook_denom k in
  let r := recv_of k in
  let c := k_contract k in
  {| c_enabled := k_agg_enabled k;
     c_denom_idx := if indexed then [(d, if pair then pair_id else [x02])] else [];
     c_erc20_idx := if pair then [(c, pair_id)] else [];
     c_pairs := if pair then [(pair_id, {| cp_erc20 := c; cp_denoms := [d]; cp_enabled := k_pair_enabled k; cp_owner := k_owner k |})] else [];
     c_bank := [((r, d), sn_recv_voucher s); ((k_module k, d), sn_mod_voucher s); ((r, k_got_denom k), sn_recv_got s)];
     c_supply := [(d, sn_supply s)];
     c_tokens := [((c, k_evm_recv k), sn_tokens s); ((c, k_module k), sn_mod_tokens s)];
     c_tok_total := [(c, sn_tok_supply s)];
     c_code := if k_alive k then [c] else [];
     c_blocked := if k_blocked k then [k_evm_recv k] else [];
     c_send_disabled := if k_send_disabled k then [d] else [] |}.

Definition pre_state (k : case) : cstate := state_of k (sn_indexed (k_pre k)) (sn_pair (k_pre k)) (k_pre k).

(** the wrapped application as observed on the discarded branch *)
Definition transfer_oracle (k : case) (_ : cstate) (_ : packet) : outcome (cstate * ack) :=
  match co_class (k_bare k) with
  | 0%nat => Ok (state_of k (sn_indexed (k_pre k)) (sn_pair (k_pre k)) (co_post (k_bare k)),
                 {| ack_success := co_ack_ok (k_bare k); ack_bytes := co_ack (k_bare k) |})
  | 1%nat => Err
  | _ => Panic
  end.

Definition m_middleware (k : case) :=
  middleware cstate (sha_of k) (fun _ => k_decoded k) (fun _ => k_amount k) (fun _ => k_recv k)
             (c_is_registered) (convert_coin (k_module k)) (transfer_oracle k).

Definition Zeqb := Z.eqb.

(** the keeper hook alone, on the state before the packet, with the harness' own (successful) acknowledgement *)
Definition m_hook (k : case) :=
  hook cstate (sha_of k) (fun _ => k_decoded k) (fun _ => k_amount k) (fun _ => k_recv k)
       c_is_registered (convert_coin (k_module k)) (pre_state k) (k_pkt k)
       {| ack_success := true; ack_bytes := k_hook_ack k |}.

(** the concrete transfer application on the funds of the credited denomination *)
Definition tr_state (k : case) : cstate :=
  let g := k_got_denom k in let r := recv_of k in let t := k_tr k in
  {| c_enabled := true; c_denom_idx := []; c_erc20_idx := []; c_pairs := [];
     c_bank := [((r, g), sn_recv_got (k_pre k)); ((tr_escrow t, g), tr_pre_esc t); ((tr_tmodule t, g), tr_pre_tmod t)];
     c_supply := [(g, tr_pre_supply t)];
     c_tokens := []; c_tok_total := []; c_code := [];
     c_blocked := if tr_recv_blocked t then [r] else [];
     c_send_disabled := [] |}.

Definition m_transfer (k : case) :=
  let t := k_tr k in
  ctransfer (sha_of k) (fun _ => k_decoded k) (fun _ => k_amount k) (fun _ => k_recv k) (fun _ => tr_denom_ok t)
            (fun _ => co_ack (k_bare k)) (tr_recv_enabled t) (tr_tmodule t) (fun _ _ => tr_escrow t)
            (tr_state k) (k_pkt k).

(** the funds part of a model state against an observed snapshot *)
Definition funds_match (k : case) (s : cstate) (o : snap) : bool :=
  let d := k_hook_denom k in let r := recv_of k in let c := k_contract k in let M := k_module k in
  (bal s r d =? sn_recv_voucher o) && (bal s M d =? sn_mod_voucher o) && (get1 (c_supply s) d =? sn_supply o) &&
  (bal s r (k_got_denom k) =? sn_recv_got o) &&
  (tok s c (k_evm_recv k) =? sn_tokens o) && (tok s c M =? sn_mod_tokens o) && (get1 (c_tok_total s) c =? sn_tok_supply o).

Definition registry_match (k : case) (s : cstate) (o : snap) : bool :=
  Bool.eqb (c_is_registered s (k_hook_denom k)) (sn_indexed o) &&
  Bool.eqb (match find1 (c_denom_idx s) (k_hook_denom k) with
            | Some id => match find1 (c_pairs s) id with Some _ => true | None => false end
            | None => false end) (sn_pair o).

Definition opt_status (p : option hook_path) : nat := match p with Some h => path_status h | None => 9 end.

(** ** Model vs implementation.  Kinds:
    1 stack outcome class, 2 returned acknowledgement, 3 hook event status, 4 funds after the stack,
    5 registry after the stack, 6 core outcome class, 7 stored acknowledgement, 8 funds/registry after core,
    9 IBCDenom transcription, 10 received-denomination transcription, 11 sha table miss, 12 BytesToAddress,
    13 the model of ibc-go's transfer application (Model/Ics20Transfer.v) vs the bare module: class, success flag,
       bytes of the result acknowledgement, funds of the credited denomination (receiver, channel escrow, transfer
       module account, supply),
    14 the keeper hook called directly vs the model's [hook]: class, returned acknowledgement, status, funds, registry *)
Definition cmp_case (k : case) : list nat :=
  let pkt := k_pkt k in
  let e9 := match k_decoded k with
            | Some d =>
                (if bytes_eqb (ibc_denom (sha_of k) (pk_dport pkt) (pk_dchan pkt) (fd_denom d)) (k_hook_denom k) then [] else [9%nat]) ++
                (match k_got_denom k with
                 | [] => []
                 | g => if bytes_eqb (received_denom (sha_of k) pkt d) g then [] else [10%nat]
                 end) ++
                (match lookup (k_sha k) (denom_prefix (pk_dport pkt) (pk_dchan pkt) ++ fd_denom d) with Some _ => [] | None => [11%nat] end)
            | None => []
            end in
  let e12 := if bytes_eqb (evm_addr (recv_of k)) (k_evm_recv k) then [] else [12%nat] in
  let st := k_stack k in
  let estack :=
    match m_middleware k (pre_state k) pkt with
    | Ok (s', oa, hp) =>
        if negb (Nat.eqb (co_class st) 0) then [1%nat] else
        (match oa with
         | None => if co_ack_nil st then [] else [2%nat]
         | Some a => if negb (co_ack_nil st) && Bool.eqb (ack_success a) (co_ack_ok st) && bytes_eqb (ack_bytes a) (co_ack st)
                     then [] else [2%nat]
         end) ++
        (if Nat.eqb (opt_status hp) (co_status st) then [] else [3%nat]) ++
        (if funds_match k s' (co_post st) then [] else [4%nat]) ++
        (if registry_match k s' (co_post st) then [] else [5%nat])
    | Err => if Nat.eqb (co_class st) 1 then [] else [1%nat]
    | Panic => if Nat.eqb (co_class st) 2 then [] else [1%nat]
    end in
  let co := k_core k in
  let ecore :=
    if negb (cr_ran co) then [] else
    match core_recv cstate (sha_of k) (m_middleware k) (pre_state k) pkt with
    | Ok (s', oc) =>
        if negb (Nat.eqb (cr_class co) 0) then [6%nat] else
        (match oc with
         | None => if cr_stored co then [7%nat] else []
         | Some c => if cr_stored co && bytes_eqb c (cr_commit co) then [] else [7%nat]
         end) ++
        (if funds_match k s' (cr_post co) && registry_match k s' (cr_post co) then [] else [8%nat])
    | Err => if Nat.eqb (cr_class co) 1 then [] else [6%nat]
    | Panic => if Nat.eqb (cr_class co) 2 then [] else [6%nat]
    end in
  let b := k_bare k in
  let etr :=
    match m_transfer k with
    | Ok (s', a) =>
        if negb (Nat.eqb (co_class b) 0) then [13%nat] else
        let g := k_got_denom k in let t := k_tr k in
        if Bool.eqb (ack_success a) (co_ack_ok b) && bytes_eqb (ack_bytes a) (co_ack b) &&
           (match g with
            | [] => true
            | _ => (bal s' (recv_of k) g =? sn_recv_got (co_post b)) && (bal s' (tr_escrow t) g =? tr_post_esc t) &&
                   (bal s' (tr_tmodule t) g =? tr_post_tmod t) && (get1 (c_supply s') g =? tr_post_supply t)
            end)
        then [] else [13%nat]
    | Err => [13%nat]
    | Panic => if Nat.eqb (co_class b) 2 then [] else [13%nat]
    end in
  let h := k_hook k in
  let ehook :=
    match m_hook k with
    | Ok (s', oa, hp) =>
        if negb (Nat.eqb (co_class h) 0) then [14%nat] else
        if (match oa with
            | None => co_ack_nil h
            | Some a => negb (co_ack_nil h) && Bool.eqb (ack_success a) (co_ack_ok h) && bytes_eqb (ack_bytes a) (co_ack h)
            end) &&
           Nat.eqb (path_status hp) (co_status h) && funds_match k s' (co_post h) && registry_match k s' (co_post h)
        then [] else [14%nat]
    | Err => [14%nat]
    | Panic => if Nat.eqb (co_class h) 2 then [] else [14%nat]
    end in
  e9 ++ e12 ++ estack ++ ecore ++ etr ++ ehook.

Fixpoint number {A} (i : nat) (l : list A) : list (nat * A) :=
  match l with [] => [] | x :: l' => (i, x) :: number (S i) l' end.

Definition mismatches (ks : list case) : list (nat * (nat * nat)) :=
  flat_map (fun ik => map (fun m => (fst ik, (0%nat, m))) (cmp_case (snd ik))) (number 0 ks).

(** ** Monitors: the property on the implementation's observations alone. *)
Definition snap_funds_eqb (a b : snap) : bool :=
  (sn_recv_voucher a =? sn_recv_voucher b) && (sn_recv_got a =? sn_recv_got b) && (sn_mod_voucher a =? sn_mod_voucher b) &&
  (sn_supply a =? sn_supply b) && (sn_tokens a =? sn_tokens b) && (sn_mod_tokens a =? sn_mod_tokens b) &&
  (sn_tok_supply a =? sn_tok_supply b) && bytes_eqb (sn_rest a) (sn_rest b).

Definition snap_eqb (a b : snap) : bool :=
  snap_funds_eqb a b && Bool.eqb (sn_indexed a) (sn_indexed b) && Bool.eqb (sn_pair a) (sn_pair b).

(** full conversion of [a] coins of the hook denomination between two observed snapshots: the receiver's coins go
    down by [a], the tokens of BytesToAddress(receiver) up by [a]; module-owned contract: coins escrowed, tokens
    minted; external contract: tokens released from the module's holdings, coins burned.  Nothing else moves.
    [same]: the receiver IS the module account (its coin / token entries are then one and the same). *)
Definition full_conversion_obs (owner : nat) (same : bool) (a : Z) (b s : snap) : bool :=
  bytes_eqb (sn_rest b) (sn_rest s) && Bool.eqb (sn_indexed b) (sn_indexed s) && Bool.eqb (sn_pair b) (sn_pair s) &&
  (0 <? a) &&
  if same then false else
  (sn_recv_voucher s =? sn_recv_voucher b - a) && (sn_tokens s =? sn_tokens b + a) &&
  match owner with
  | 1%nat => (sn_mod_voucher s =? sn_mod_voucher b + a) && (sn_supply s =? sn_supply b) &&
             (sn_mod_tokens s =? sn_mod_tokens b) && (sn_tok_supply s =? sn_tok_supply b + a)
  | 2%nat => (sn_mod_voucher s =? sn_mod_voucher b) && (sn_supply s =? sn_supply b - a) &&
             (sn_mod_tokens s =? sn_mod_tokens b - a) && (sn_tok_supply s =? sn_tok_supply b)
  | _ => false
  end.

(** Kinds:
    21 the stack returned nil where the wrapped application returned an acknowledgement
    22 the stack's acknowledgement differs from the wrapped application's (success flag or bytes)
    23 the stack's outcome class differs from the wrapped application's (panic vs return)
    24 core: no acknowledgement committed for a packet the wrapped application acknowledged
    25 core: committed acknowledgement is not the commitment of the wrapped application's acknowledgement
    26 core: state after an error acknowledgement differs from the state before the packet
    27 core: state after a successful acknowledgement differs from the state after the stack
    28 core: outcome class differs from the wrapped application's / receipt missing
    31 conversion neither complete nor absent (funds after the stack are neither those after the wrapped application
       nor a full conversion of exactly the packet amount)
    32 failed transfer: the stack changed funds/registry relative to the wrapped application
    33 coins of the received denomination were touched although the hook's denomination is a different one
    34 registry changed although the funds did not and the contract is alive
    41 full conversion credited an EVM address that is not the receiver's own (receiver address is not 20 bytes)
    51 oracle hypothesis: the wrapped application acknowledged success for undecodable data / bad amount / bad receiver
    52 oracle hypothesis: a successful non-returning receive did not credit exactly the amount (or touched the registry)
    53 hypothesis of the atomicity / end-to-end theorems: the aggregate or the transfer module account is not a blocked address
    61 OnAcknowledgementPacket of the stack differs from the wrapped application's
    62 OnTimeoutPacket of the stack differs from the wrapped application's
    71 the keeper hook, called directly, returned nil or an acknowledgement other than the one it was given
    72 the keeper hook, called directly, left funds that are neither those before the call nor a full conversion of
       exactly the packet amount (or changed the registry of a live contract without converting) *)
Definition mon_case (k : case) : list nat :=
  let b := k_bare k in let s := k_stack k in let c := k_core k in
  let same_acc := bytes_eqb (recv_of k) (k_module k) in
  let t1 :=
    if negb (Nat.eqb (co_class b) (co_class s)) then [23%nat]
    else if negb (Nat.eqb (co_class b) 0) then []
    else if co_ack_nil s && negb (co_ack_nil b) then [21%nat]
    else if Bool.eqb (co_ack_ok b) (co_ack_ok s) && bytes_eqb (co_ack b) (co_ack s) && Bool.eqb (co_ack_nil b) (co_ack_nil s)
         then [] else [22%nat] in
  let t2 :=
    if negb (cr_ran c) then [] else
    if Nat.eqb (co_class b) 2 then (if Nat.eqb (cr_class c) 2 then [] else [28%nat]) else
    if negb (Nat.eqb (cr_class c) 0) || negb (cr_receipt c) then [28%nat] else
    (if negb (cr_stored c) then [24%nat]
     else if bytes_eqb (cr_commit c) (match lookup (k_sha k) (co_ack b) with Some h => h | None => [] end) then [] else [25%nat]) ++
    (if co_ack_ok b
     then (if Nat.eqb (co_class s) 0 && negb (snap_eqb (cr_post c) (co_post s)) then [27%nat] else [])
     else (if snap_eqb (cr_post c) (k_pre k) then [] else [26%nat])) in
  let t3 :=
    if negb (Nat.eqb (co_class b) 0 && Nat.eqb (co_class s) 0) then [] else
    let pb := co_post b in let ps := co_post s in
    if negb (co_ack_ok b) then (if snap_eqb pb ps then [] else [32%nat]) else
    let untouched := snap_funds_eqb pb ps in
    let full := match k_amount k with
                | Some a => full_conversion_obs (k_owner k) same_acc a pb ps
                | None => false
                end in
    (if untouched || full then [] else [31%nat]) ++
    (if negb (bytes_eqb (k_got_denom k) (k_hook_denom k)) && negb (sn_recv_got pb =? sn_recv_got ps) then [33%nat] else []) ++
    (if untouched && k_alive k && negb (Bool.eqb (sn_indexed pb) (sn_indexed ps) && Bool.eqb (sn_pair pb) (sn_pair ps)) then [34%nat] else []) ++
    (if full && negb untouched && negb (Nat.eqb (length (recv_of k)) 20) then [41%nat] else []) in
  let t5 :=
    if negb (Nat.eqb (co_class b) 0 && co_ack_ok b) then [] else
    match k_decoded k, k_amount k, k_recv k with
    | Some d, Some a, Some r =>
        if negb (0 <? a) then [51%nat] else
        if receiver_chain_is_source (pk_sport (k_pkt k)) (pk_schan (k_pkt k)) (fd_denom d) then [] else
        let p := k_pre k in let q := co_post b in
        if (sn_recv_voucher q =? sn_recv_voucher p + (if same_acc then 0 else a)) && (sn_supply q =? sn_supply p + a) &&
           (sn_mod_voucher q =? sn_mod_voucher p) && (sn_tokens q =? sn_tokens p) && (sn_mod_tokens q =? sn_mod_tokens p) &&
           (sn_tok_supply q =? sn_tok_supply p) && Bool.eqb (sn_indexed p) (sn_indexed q) && Bool.eqb (sn_pair p) (sn_pair q)
        then [] else [52%nat]
    | _, _, _ => [51%nat]
    end in
  let t6 :=
    (if Nat.eqb (cb_bare (k_ackcb k)) (cb_stack (k_ackcb k)) && cb_same (k_ackcb k) then [] else [61%nat]) ++
    (if Nat.eqb (cb_bare (k_tocb k)) (cb_stack (k_tocb k)) && cb_same (k_tocb k) then [] else [62%nat]) in
  let h := k_hook k in
  let t7 :=
    if negb (Nat.eqb (co_class h) 0) then [] else
    (if negb (co_ack_nil h) && co_ack_ok h && bytes_eqb (co_ack h) (k_hook_ack k) then [] else [71%nat]) ++
    let p := k_pre k in let q := co_post h in
    let untouched := snap_funds_eqb p q in
    let full := match k_amount k with
                | Some a => full_conversion_obs (k_owner k) same_acc a p q
                | None => false
                end in
    if (untouched && (negb (k_alive k) || (Bool.eqb (sn_indexed p) (sn_indexed q) && Bool.eqb (sn_pair p) (sn_pair q))))
       || (full && Nat.eqb (length (recv_of k)) 20)
    then [] else [72%nat] in
  let t8 := if k_mods_blocked k then [] else [53%nat] in
  t1 ++ t2 ++ t3 ++ t5 ++ t6 ++ t7 ++ t8.

Definition monitor_failures (ks : list case) : list (nat * (nat * nat)) :=
  flat_map (fun ik => map (fun m => (fst ik, (0%nat, m))) (mon_case (snd ik))) (number 0 ks).
