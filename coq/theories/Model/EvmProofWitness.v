(** Two cases recorded from the real code by harness/cmd/c08 (both are replayed from
    harness/cmd/c08/corpus.jsonl, cases 900001 and 900002, at the start of every check).  The tables [c_keccak] /
    [c_mpt] / [c_json] hold the values the REAL crypto.Keccak256, trie.VerifyProof and encoding/json returned for
    these arguments; [c_eth_class] / [c_bsc_class] are the outcome classes of the two Go copies at /repo HEAD
    after fix commit 0ebe7e9.  Generated with tools/py/props/c08.py [case_term]; used as concrete witnesses in
    Props/C08.v (non-vacuity) and Refuted/C08_refuted.v.  The proof bytes are represented by "sha256:" ++ digest
    (the model only hands them to the [json_proof] oracle). *)
From Teleport Require Import Base.Bytes Base.Outcome Model.EvmProof Model.EvmProofCheck.
Local Open Scope N_scope.

(** honest proof, head 0-80641, proof height 0-80605, ETH delay 14, BSC 27 validators (delay 14),
    value with 14 leading zero bytes: accepted by both copies *)
Definition witness_honest : ecase :=
{| c_ack := false; c_head := {| rn := 0%N; rh := 80641%N |}; c_eth_delay := 14%N; c_bsc_vals := 27%N; c_contract :=
  [x2e;x1d;x4d;x26;xb2;xc4;x88;x79;xf7;x13;x1e;x87;x33;x79;x6a;xbb;x59;xf8;x79;xb5]; c_store :=
  [([x63;x6f;x6e;x73;x65;x6e;x73;x75;x73;x53;x74;x61;x74;x65;x73;x2f;x00;x00;x00;x00;x00;x00;x00;x00;x00;x00;x00;x00;x00;x01;x3a;xdd],
  (Some
  [xee;x87;x34;x15;x44;xd2;x1d;x10;x29;xf8;x52;x8d;xcd;xf6;x17;x5a;x01;xc0;x0c;x43;x85;x05;x74;xa8;x37;x4c;xe2;x11;xa7;x06;xfb;xeb]));
  ([x63;x6f;x6e;x73;x65;x6e;x73;x75;x73;x53;x74;x61;x74;x65;x73;x2f;x00;x00;x00;x00;x00;x00;x00;x00;x00;x00;x00;x00;x00;x01;x3a;xdf],
  (Some
  [x26;xc6;xb6;x08;x38;x0a;xec;xa9;xb9;xe3;xaa;xb7;xda;xb4;x0b;x34;xb5;x77;x80;x3e;x7f;x78;x2e;x99;xcc;xf2;x04;x7d;x6c;x1c;x15;x5b]));
  ([x63;x6f;x6e;x73;x65;x6e;x73;x75;x73;x53;x74;x61;x74;x65;x73;x2f;x00;x00;x00;x00;x00;x00;x00;x00;x00;x00;x00;x00;x00;x01;x3a;xe0],
  (Some
  [x26;xc6;xb6;x08;x38;x0a;xec;xa9;xb9;xe3;xaa;xb7;xda;xb4;x0b;x34;xb5;x77;x80;x3e;x7f;x78;x2e;x99;xcc;xf2;x04;x7d;x6c;x1c;x15;x5b]));
  ([x63;x6f;x6e;x73;x65;x6e;x73;x75;x73;x53;x74;x61;x74;x65;x73;x2f;x00;x00;x00;x00;x00;x00;x00;x00;x00;x00;x00;x00;x00;x01;x3a;xe1],
  (Some
  [x26;xc6;xb6;x08;x38;x0a;xec;xa9;xb9;xe3;xaa;xb7;xda;xb4;x0b;x34;xb5;x77;x80;x3e;x7f;x78;x2e;x99;xcc;xf2;x04;x7d;x6c;x1c;x15;x5b]))];
  c_height := (Some {| rn := 0%N; rh := 80605%N |}); c_proof := (Some
  [x73;x68;x61;x32;x35;x36;x3a;xe8;xbd;x7f;x0f;xe8;x53;xc3;xfa;x09;x86;xc2;x5d;xcd;xc9;xa8;xd7;xd6;xe8;xea;xe8;xd9;xcf;x55;x74;x48;x21;x69;x5e;x52;xa6;xe7;xcf]);
  c_src := [x71;x61;x5f;x31]; c_dst := [x63;x68;x61;x69;x6e;x2d;x78]; c_seq := 1557%N; c_commitment :=
  [x00;x00;x00;x00;x00;x00;x00;x00;x00;x00;x00;x00;x00;x00;xda;x40;x7e;x3c;x21;x3b;x0a;x0d;x22;xca;x20;xc6;x30;xf6;x86;xaa;x0a;x20];
  c_json := (Some {| p_address :=
  [x30;x78;x32;x65;x31;x64;x34;x64;x32;x36;x62;x32;x63;x34;x38;x38;x37;x39;x66;x37;x31;x33;x31;x65;x38;x37;x33;x33;x37;x39;x36;x61;x62;x62;x35;x39;x66;x38;x37;x39;x62;x35];
  p_balance := [x30;x78;x39;x34;x62;x39;x64;x66;x30;x39;x66;x65]; p_code_hash :=
  [x30;x78;x36;x64;x63;x61;x31;x39;x62;x39;x34;x35;x32;x39;x33;x32;x39;x34;x66;x39;x66;x30;x38;x33;x65;x38;x32;x66;x36;x61;x37;x32;x64;x31;x31;x31;x36;x63;x61;x39;x62;x65;x34;x38;x61;x64;x65;x61;x64;x38;x38;x66;x39;x30;x39;x37;x38;x34;x38;x34;x66;x32;x62;x64;x61;x35];
  p_nonce := [x30;x78;x34;x34;x37;x66;x66;x33;x66;x39;x39;x37;x38;x39;x61;x30;x32;x62]; p_storage_hash :=
  [x30;x78;x32;x35;x61;x64;x38;x38;x30;x30;x63;x32;x37;x31;x64;x38;x66;x66;x63;x64;x34;x38;x34;x63;x63;x64;x33;x39;x35;x36;x32;x36;x33;x30;x66;x66;x30;x64;x37;x65;x39;x35;x62;x31;x34;x35;x35;x61;x62;x66;x61;x35;x34;x62;x66;x65;x61;x39;x61;x35;x33;x36;x62;x37;x37;x36];
  p_account_proof :=
  [[x30;x78;x66;x38;x35;x31;x38;x30;x38;x30;x38;x30;x38;x30;x38;x30;x38;x30;x38;x30;x38;x30;x38;x30;x38;x30;x61;x30;x38;x63;x66;x61;x62;x30;x30;x35;x33;x62;x64;x35;x63;x30;x31;x37;x32;x32;x64;x32;x63;x61;x34;x37;x37;x38;x39;x64;x30;x37;x64;x31;x38;x61;x63;x32;x62;x62;x65;x34;x62;x37;x63;x64;x62;x32;x62;x39;x32;x62;x31;x31;x62;x64;x39;x32;x37;x66;x31;x39;x34;x39;x66;x39;x61;x30;x62;x37;x62;x37;x32;x38;x65;x33;x35;x39;x63;x63;x36;x34;x65;x37;x65;x37;x32;x64;x38;x62;x63;x66;x30;x35;x62;x30;x33;x37;x30;x66;x33;x36;x63;x32;x34;x37;x61;x32;x33;x30;x39;x31;x36;x33;x39;x38;x62;x39;x34;x63;x62;x64;x30;x66;x36;x33;x31;x37;x33;x61;x37;x36;x38;x30;x38;x30;x38;x30;x38;x30;x38;x30];
  [x30;x78;x66;x38;x37;x36;x61;x30;x33;x33;x35;x34;x66;x35;x64;x62;x30;x36;x33;x35;x65;x36;x32;x64;x61;x65;x66;x37;x35;x62;x30;x61;x61;x30;x64;x65;x39;x32;x38;x38;x66;x65;x36;x32;x37;x37;x35;x35;x62;x35;x64;x38;x63;x62;x39;x31;x39;x34;x63;x65;x33;x61;x32;x65;x37;x31;x33;x30;x35;x65;x61;x62;x62;x38;x35;x33;x66;x38;x35;x31;x38;x38;x34;x34;x37;x66;x66;x33;x66;x39;x39;x37;x38;x39;x61;x30;x32;x62;x38;x35;x39;x34;x62;x39;x64;x66;x30;x39;x66;x65;x61;x30;x32;x35;x61;x64;x38;x38;x30;x30;x63;x32;x37;x31;x64;x38;x66;x66;x63;x64;x34;x38;x34;x63;x63;x64;x33;x39;x35;x36;x32;x36;x33;x30;x66;x66;x30;x64;x37;x65;x39;x35;x62;x31;x34;x35;x35;x61;x62;x66;x61;x35;x34;x62;x66;x65;x61;x39;x61;x35;x33;x36;x62;x37;x37;x36;x61;x30;x36;x64;x63;x61;x31;x39;x62;x39;x34;x35;x32;x39;x33;x32;x39;x34;x66;x39;x66;x30;x38;x33;x65;x38;x32;x66;x36;x61;x37;x32;x64;x31;x31;x31;x36;x63;x61;x39;x62;x65;x34;x38;x61;x64;x65;x61;x64;x38;x38;x66;x39;x30;x39;x37;x38;x34;x38;x34;x66;x32;x62;x64;x61;x35]];
  p_storage_proof := [(Some {| sr_key :=
  [x30;x78;x30;x65;x63;x64;x64;x30;x36;x61;x62;x64;x62;x62;x38;x64;x38;x37;x65;x62;x63;x35;x39;x36;x35;x32;x34;x36;x65;x31;x35;x39;x39;x38;x62;x36;x39;x35;x33;x36;x39;x36;x32;x61;x64;x32;x36;x30;x39;x63;x61;x63;x61;x38;x63;x66;x33;x38;x63;x64;x32;x63;x35;x61;x39;x38];
  sr_value :=
  [x30;x78;x64;x61;x34;x30;x37;x65;x33;x63;x32;x31;x33;x62;x30;x61;x30;x64;x32;x32;x63;x61;x32;x30;x63;x36;x33;x30;x66;x36;x38;x36;x61;x61;x30;x61;x32;x30];
  sr_proof :=
  [[x30;x78;x66;x38;x35;x31;x38;x30;x61;x30;x30;x36;x39;x39;x63;x39;x39;x31;x36;x65;x61;x64;x32;x31;x62;x39;x36;x39;x62;x31;x39;x61;x30;x63;x61;x65;x39;x33;x35;x34;x62;x38;x39;x63;x35;x39;x39;x66;x61;x63;x34;x36;x32;x36;x62;x30;x38;x32;x64;x31;x65;x37;x33;x36;x38;x63;x64;x35;x38;x36;x34;x64;x34;x65;x38;x30;x38;x30;x38;x30;x38;x30;x61;x30;x37;x63;x65;x38;x62;x61;x35;x63;x35;x35;x30;x38;x66;x37;x64;x64;x66;x36;x30;x32;x37;x65;x61;x32;x35;x30;x34;x63;x37;x31;x32;x39;x65;x36;x36;x39;x30;x38;x66;x37;x64;x30;x61;x63;x65;x34;x34;x33;x34;x31;x33;x35;x63;x61;x30;x38;x38;x65;x61;x66;x64;x31;x39;x37;x38;x30;x38;x30;x38;x30;x38;x30;x38;x30;x38;x30;x38;x30;x38;x30;x38;x30;x38;x30];
  [x30;x78;x66;x35;x61;x30;x33;x63;x61;x64;x39;x33;x33;x34;x65;x36;x37;x32;x31;x61;x35;x35;x31;x35;x33;x63;x38;x64;x63;x66;x37;x65;x33;x31;x34;x62;x31;x32;x61;x62;x38;x30;x64;x35;x65;x30;x62;x30;x64;x65;x64;x64;x39;x62;x38;x36;x30;x36;x61;x30;x31;x66;x31;x34;x31;x32;x64;x32;x30;x37;x39;x33;x39;x32;x64;x61;x34;x30;x37;x65;x33;x63;x32;x31;x33;x62;x30;x61;x30;x64;x32;x32;x63;x61;x32;x30;x63;x36;x33;x30;x66;x36;x38;x36;x61;x61;x30;x61;x32;x30]]
  |})] |}); c_keccak := [([x2e;x1d;x4d;x26;xb2;xc4;x88;x79;xf7;x13;x1e;x87;x33;x79;x6a;xbb;x59;xf8;x79;xb5],
  [xb3;x54;xf5;xdb;x06;x35;xe6;x2d;xae;xf7;x5b;x0a;xa0;xde;x92;x88;xfe;x62;x77;x55;xb5;xd8;xcb;x91;x94;xce;x3a;x2e;x71;x30;x5e;xab]);
  ([x0e;xcd;xd0;x6a;xbd;xbb;x8d;x87;xeb;xc5;x96;x52;x46;xe1;x59;x98;xb6;x95;x36;x96;x2a;xd2;x60;x9c;xac;xa8;xcf;x38;xcd;x2c;x5a;x98],
  [x1c;xad;x93;x34;xe6;x72;x1a;x55;x15;x3c;x8d;xcf;x7e;x31;x4b;x12;xab;x80;xd5;xe0;xb0;xde;xdd;x9b;x86;x06;xa0;x1f;x14;x12;xd2;x07]);
  ([x63;x6f;x6d;x6d;x69;x74;x6d;x65;x6e;x74;x73;x2f;x71;x61;x5f;x31;x2f;x63;x68;x61;x69;x6e;x2d;x78;x2f;x73;x65;x71;x75;x65;x6e;x63;x65;x73;x2f;x31;x35;x35;x37;x00;x00;x00;x00;x00;x00;x00;x00;x00;x00;x00;x00;x00;x00;x00;x00;x00;x00;x00;x00;x00;x00;x00;x00;x00;x00;x00;x00;x00;x00;x00;xd0],
  [x0e;xcd;xd0;x6a;xbd;xbb;x8d;x87;xeb;xc5;x96;x52;x46;xe1;x59;x98;xb6;x95;x36;x96;x2a;xd2;x60;x9c;xac;xa8;xcf;x38;xcd;x2c;x5a;x98])];
  c_mpt :=
  [([xee;x87;x34;x15;x44;xd2;x1d;x10;x29;xf8;x52;x8d;xcd;xf6;x17;x5a;x01;xc0;x0c;x43;x85;x05;x74;xa8;x37;x4c;xe2;x11;xa7;x06;xfb;xeb],
  [xb3;x54;xf5;xdb;x06;x35;xe6;x2d;xae;xf7;x5b;x0a;xa0;xde;x92;x88;xfe;x62;x77;x55;xb5;xd8;xcb;x91;x94;xce;x3a;x2e;x71;x30;x5e;xab],
  [[xf8;x51;x80;x80;x80;x80;x80;x80;x80;x80;x80;x80;xa0;x8c;xfa;xb0;x05;x3b;xd5;xc0;x17;x22;xd2;xca;x47;x78;x9d;x07;xd1;x8a;xc2;xbb;xe4;xb7;xcd;xb2;xb9;x2b;x11;xbd;x92;x7f;x19;x49;xf9;xa0;xb7;xb7;x28;xe3;x59;xcc;x64;xe7;xe7;x2d;x8b;xcf;x05;xb0;x37;x0f;x36;xc2;x47;xa2;x30;x91;x63;x98;xb9;x4c;xbd;x0f;x63;x17;x3a;x76;x80;x80;x80;x80;x80];
  [xf8;x76;xa0;x33;x54;xf5;xdb;x06;x35;xe6;x2d;xae;xf7;x5b;x0a;xa0;xde;x92;x88;xfe;x62;x77;x55;xb5;xd8;xcb;x91;x94;xce;x3a;x2e;x71;x30;x5e;xab;xb8;x53;xf8;x51;x88;x44;x7f;xf3;xf9;x97;x89;xa0;x2b;x85;x94;xb9;xdf;x09;xfe;xa0;x25;xad;x88;x00;xc2;x71;xd8;xff;xcd;x48;x4c;xcd;x39;x56;x26;x30;xff;x0d;x7e;x95;xb1;x45;x5a;xbf;xa5;x4b;xfe;xa9;xa5;x36;xb7;x76;xa0;x6d;xca;x19;xb9;x45;x29;x32;x94;xf9;xf0;x83;xe8;x2f;x6a;x72;xd1;x11;x6c;xa9;xbe;x48;xad;xea;xd8;x8f;x90;x97;x84;x84;xf2;xbd;xa5]],
  (Some
  [xf8;x51;x88;x44;x7f;xf3;xf9;x97;x89;xa0;x2b;x85;x94;xb9;xdf;x09;xfe;xa0;x25;xad;x88;x00;xc2;x71;xd8;xff;xcd;x48;x4c;xcd;x39;x56;x26;x30;xff;x0d;x7e;x95;xb1;x45;x5a;xbf;xa5;x4b;xfe;xa9;xa5;x36;xb7;x76;xa0;x6d;xca;x19;xb9;x45;x29;x32;x94;xf9;xf0;x83;xe8;x2f;x6a;x72;xd1;x11;x6c;xa9;xbe;x48;xad;xea;xd8;x8f;x90;x97;x84;x84;xf2;xbd;xa5]));
  ([x25;xad;x88;x00;xc2;x71;xd8;xff;xcd;x48;x4c;xcd;x39;x56;x26;x30;xff;x0d;x7e;x95;xb1;x45;x5a;xbf;xa5;x4b;xfe;xa9;xa5;x36;xb7;x76],
  [x1c;xad;x93;x34;xe6;x72;x1a;x55;x15;x3c;x8d;xcf;x7e;x31;x4b;x12;xab;x80;xd5;xe0;xb0;xde;xdd;x9b;x86;x06;xa0;x1f;x14;x12;xd2;x07],
  [[xf8;x51;x80;xa0;x06;x99;xc9;x91;x6e;xad;x21;xb9;x69;xb1;x9a;x0c;xae;x93;x54;xb8;x9c;x59;x9f;xac;x46;x26;xb0;x82;xd1;xe7;x36;x8c;xd5;x86;x4d;x4e;x80;x80;x80;x80;xa0;x7c;xe8;xba;x5c;x55;x08;xf7;xdd;xf6;x02;x7e;xa2;x50;x4c;x71;x29;xe6;x69;x08;xf7;xd0;xac;xe4;x43;x41;x35;xca;x08;x8e;xaf;xd1;x97;x80;x80;x80;x80;x80;x80;x80;x80;x80;x80];
  [xf5;xa0;x3c;xad;x93;x34;xe6;x72;x1a;x55;x15;x3c;x8d;xcf;x7e;x31;x4b;x12;xab;x80;xd5;xe0;xb0;xde;xdd;x9b;x86;x06;xa0;x1f;x14;x12;xd2;x07;x93;x92;xda;x40;x7e;x3c;x21;x3b;x0a;x0d;x22;xca;x20;xc6;x30;xf6;x86;xaa;x0a;x20]],
  (Some [x92;xda;x40;x7e;x3c;x21;x3b;x0a;x0d;x22;xca;x20;xc6;x30;xf6;x86;xaa;x0a;x20]))]; c_copies_agree := true;
  c_eth_class := 0; c_bsc_class := 0; c_honest := true; c_gt_word := (Some
  [x00;x00;x00;x00;x00;x00;x00;x00;x00;x00;x00;x00;x00;x00;xda;x40;x7e;x3c;x21;x3b;x0a;x0d;x22;xca;x20;xc6;x30;xf6;x86;xaa;x0a;x20])
  |}.

(** the same kind of honest proof, but: head 1-96135, proof height 0-96141 (revision number 0 < 1, revision
    height ABOVE the head), ETH delay 8, BSC 14 validators (delay 8): accepted by both copies before fix
    0ebe7e9, rejected by both since *)
Definition witness_above_head : ecase :=
{| c_ack := true; c_head := {| rn := 1%N; rh := 96135%N |}; c_eth_delay := 8%N; c_bsc_vals := 14%N; c_contract :=
  [xc3;xdc;xb0;xb2;xfb;x86;x69;xb3;x91;xca;x93;xd1;xed;xab;x7f;xc2;x51;x42;xb5;x53]; c_store :=
  [([x63;x6f;x6e;x73;x65;x6e;x73;x75;x73;x53;x74;x61;x74;x65;x73;x2f;x00;x00;x00;x00;x00;x00;x00;x00;x00;x00;x00;x00;x00;x01;x77;x8d],
  (Some
  [x7f;x7e;x4f;x5e;x8d;x06;xa8;x2f;x7c;xa0;xa0;x83;x8b;xb5;xb4;xcc;xd4;xcd;x6c;x34;x5c;xbe;xd8;xdb;x5a;x0b;x9c;xa9;x5b;xe5;xe0;x1f]))];
  c_height := (Some {| rn := 0%N; rh := 96141%N |}); c_proof := (Some
  [x73;x68;x61;x32;x35;x36;x3a;x21;x2a;x47;x71;x00;x63;x0f;x72;x3f;xa8;xdb;x4c;x50;x46;xc7;x7d;x54;x9d;xae;x01;x7a;x58;x77;xe2;xe9;x27;x16;x6c;xec;x6c;x42;x63]);
  c_src := []; c_dst := [x61;x2f;x62]; c_seq := 0%N; c_commitment :=
  [x00;x00;x00;x00;x00;x00;x00;x00;x00;x00;x00;x00;x00;x00;x00;x00;x00;x00;x00;x00;x00;x00;x70;xf9;x08;x09;xcb;x52;xa7;xf8;x4d;x14];
  c_json := (Some {| p_address :=
  [x30;x78;x63;x33;x64;x63;x62;x30;x62;x32;x66;x62;x38;x36;x36;x39;x62;x33;x39;x31;x63;x61;x39;x33;x64;x31;x65;x64;x61;x62;x37;x66;x63;x32;x35;x31;x34;x32;x62;x35;x35;x33];
  p_balance := [x30;x78;x62;x32;x65;x32;x33;x39;x64;x32;x33;x66]; p_code_hash :=
  [x30;x78;x62;x31;x33;x35;x66;x38;x35;x30;x61;x32;x34;x32;x62;x61;x38;x65;x66;x66;x37;x30;x63;x35;x38;x63;x32;x65;x61;x61;x61;x66;x36;x36;x37;x61;x33;x38;x63;x37;x32;x61;x36;x64;x34;x34;x35;x62;x32;x31;x33;x32;x38;x36;x64;x65;x32;x66;x31;x33;x35;x36;x39;x64;x61;x36];
  p_nonce := [x30;x78;x30]; p_storage_hash :=
  [x30;x78;x33;x38;x35;x34;x31;x39;x64;x36;x31;x64;x39;x30;x30;x66;x61;x39;x66;x37;x32;x66;x66;x35;x63;x34;x31;x38;x31;x61;x61;x38;x65;x38;x64;x34;x61;x39;x39;x63;x64;x34;x33;x32;x63;x36;x30;x65;x32;x63;x35;x63;x37;x36;x64;x64;x62;x35;x61;x33;x33;x36;x30;x31;x66;x62];
  p_account_proof :=
  [[x30;x78;x66;x38;x37;x31;x38;x30;x38;x30;x61;x30;x30;x33;x61;x61;x64;x63;x38;x35;x38;x61;x31;x36;x62;x64;x34;x64;x34;x61;x65;x63;x63;x61;x39;x34;x61;x63;x64;x63;x34;x39;x34;x38;x31;x32;x30;x30;x36;x31;x35;x34;x30;x32;x35;x66;x30;x33;x37;x38;x66;x34;x61;x37;x32;x35;x61;x38;x32;x35;x35;x65;x33;x63;x33;x38;x38;x30;x38;x30;x61;x30;x30;x31;x31;x64;x37;x61;x32;x30;x30;x38;x66;x62;x39;x61;x63;x62;x30;x64;x33;x65;x66;x32;x64;x34;x33;x39;x38;x37;x33;x35;x36;x39;x64;x38;x64;x33;x39;x38;x66;x64;x39;x62;x37;x39;x37;x31;x66;x32;x61;x36;x37;x65;x35;x62;x66;x34;x34;x31;x38;x63;x63;x32;x66;x30;x38;x30;x38;x30;x38;x30;x38;x30;x38;x30;x38;x30;x38;x30;x61;x30;x63;x36;x62;x62;x33;x62;x39;x38;x37;x66;x62;x30;x31;x38;x38;x63;x31;x61;x34;x66;x32;x30;x36;x61;x63;x31;x31;x66;x61;x33;x65;x63;x62;x33;x31;x34;x38;x33;x39;x38;x39;x32;x64;x35;x66;x33;x34;x37;x32;x62;x62;x61;x34;x38;x63;x62;x39;x30;x66;x31;x38;x61;x33;x36;x38;x30;x38;x30;x38;x30];
  [x30;x78;x66;x38;x36;x65;x61;x30;x33;x32;x64;x33;x61;x34;x30;x30;x34;x33;x30;x33;x35;x61;x36;x62;x36;x34;x35;x37;x39;x65;x34;x36;x61;x61;x31;x65;x32;x30;x32;x36;x63;x61;x63;x61;x31;x35;x61;x65;x30;x36;x35;x30;x38;x34;x62;x36;x36;x34;x64;x31;x38;x65;x30;x36;x33;x34;x61;x61;x34;x31;x66;x31;x62;x38;x34;x62;x66;x38;x34;x39;x38;x30;x38;x35;x62;x32;x65;x32;x33;x39;x64;x32;x33;x66;x61;x30;x33;x38;x35;x34;x31;x39;x64;x36;x31;x64;x39;x30;x30;x66;x61;x39;x66;x37;x32;x66;x66;x35;x63;x34;x31;x38;x31;x61;x61;x38;x65;x38;x64;x34;x61;x39;x39;x63;x64;x34;x33;x32;x63;x36;x30;x65;x32;x63;x35;x63;x37;x36;x64;x64;x62;x35;x61;x33;x33;x36;x30;x31;x66;x62;x61;x30;x62;x31;x33;x35;x66;x38;x35;x30;x61;x32;x34;x32;x62;x61;x38;x65;x66;x66;x37;x30;x63;x35;x38;x63;x32;x65;x61;x61;x61;x66;x36;x36;x37;x61;x33;x38;x63;x37;x32;x61;x36;x64;x34;x34;x35;x62;x32;x31;x33;x32;x38;x36;x64;x65;x32;x66;x31;x33;x35;x36;x39;x64;x61;x36]];
  p_storage_proof := [(Some {| sr_key :=
  [x30;x78;x65;x66;x65;x36;x61;x31;x61;x33;x65;x38;x64;x35;x30;x64;x37;x65;x36;x61;x62;x61;x36;x34;x34;x36;x64;x39;x31;x33;x65;x31;x33;x62;x31;x38;x64;x64;x34;x62;x36;x34;x65;x36;x36;x30;x35;x64;x62;x38;x39;x31;x66;x37;x33;x64;x37;x35;x31;x61;x64;x63;x62;x39;x62;x65];
  sr_value := [x30;x78;x37;x30;x66;x39;x30;x38;x30;x39;x63;x62;x35;x32;x61;x37;x66;x38;x34;x64;x31;x34]; sr_proof :=
  [[x30;x78;x66;x38;x37;x31;x61;x30;x65;x39;x62;x61;x35;x39;x64;x62;x33;x62;x34;x34;x36;x63;x62;x33;x38;x65;x61;x64;x65;x66;x33;x62;x39;x36;x33;x62;x32;x34;x35;x35;x38;x34;x30;x35;x39;x62;x62;x30;x32;x62;x65;x33;x32;x65;x66;x63;x38;x30;x34;x37;x63;x63;x38;x61;x35;x34;x33;x62;x62;x31;x34;x35;x38;x30;x38;x30;x38;x30;x38;x30;x38;x30;x38;x30;x61;x30;x33;x36;x61;x63;x30;x61;x36;x36;x66;x61;x30;x33;x32;x64;x35;x61;x33;x62;x61;x65;x66;x31;x62;x63;x62;x62;x65;x34;x63;x38;x35;x39;x34;x31;x35;x63;x66;x34;x31;x36;x32;x39;x31;x37;x62;x36;x37;x65;x35;x62;x39;x38;x35;x37;x65;x31;x31;x65;x64;x62;x38;x33;x65;x38;x38;x30;x38;x30;x38;x30;x61;x30;x38;x65;x65;x30;x62;x38;x65;x64;x34;x36;x34;x63;x33;x66;x35;x35;x65;x33;x35;x61;x61;x63;x30;x37;x33;x30;x35;x37;x33;x31;x35;x62;x64;x62;x62;x63;x35;x30;x65;x38;x61;x39;x31;x66;x65;x36;x61;x37;x39;x34;x30;x63;x61;x65;x38;x39;x61;x39;x37;x64;x62;x38;x63;x33;x38;x30;x38;x30;x38;x30;x38;x30;x38;x30];
  [x30;x78;x65;x64;x61;x30;x33;x31;x31;x63;x63;x64;x63;x33;x61;x61;x32;x66;x66;x34;x30;x32;x30;x38;x33;x34;x30;x66;x37;x65;x38;x61;x30;x39;x65;x30;x39;x33;x38;x38;x30;x63;x39;x30;x61;x66;x33;x65;x61;x65;x34;x66;x39;x32;x62;x63;x37;x39;x33;x37;x37;x63;x38;x34;x37;x37;x32;x31;x39;x63;x38;x62;x38;x61;x37;x30;x66;x39;x30;x38;x30;x39;x63;x62;x35;x32;x61;x37;x66;x38;x34;x64;x31;x34]]
  |})] |}); c_keccak := [([xc3;xdc;xb0;xb2;xfb;x86;x69;xb3;x91;xca;x93;xd1;xed;xab;x7f;xc2;x51;x42;xb5;x53],
  [x22;xd3;xa4;x00;x43;x03;x5a;x6b;x64;x57;x9e;x46;xaa;x1e;x20;x26;xca;xca;x15;xae;x06;x50;x84;xb6;x64;xd1;x8e;x06;x34;xaa;x41;xf1]);
  ([xef;xe6;xa1;xa3;xe8;xd5;x0d;x7e;x6a;xba;x64;x46;xd9;x13;xe1;x3b;x18;xdd;x4b;x64;xe6;x60;x5d;xb8;x91;xf7;x3d;x75;x1a;xdc;xb9;xbe],
  [x01;x1c;xcd;xc3;xaa;x2f;xf4;x02;x08;x34;x0f;x7e;x8a;x09;xe0;x93;x88;x0c;x90;xaf;x3e;xae;x4f;x92;xbc;x79;x37;x7c;x84;x77;x21;x9c]);
  ([x61;x63;x6b;x73;x2f;x2f;x61;x2f;x62;x2f;x73;x65;x71;x75;x65;x6e;x63;x65;x73;x2f;x30;x00;x00;x00;x00;x00;x00;x00;x00;x00;x00;x00;x00;x00;x00;x00;x00;x00;x00;x00;x00;x00;x00;x00;x00;x00;x00;x00;x00;x00;x00;x00;xd0],
  [xef;xe6;xa1;xa3;xe8;xd5;x0d;x7e;x6a;xba;x64;x46;xd9;x13;xe1;x3b;x18;xdd;x4b;x64;xe6;x60;x5d;xb8;x91;xf7;x3d;x75;x1a;xdc;xb9;xbe])];
  c_mpt :=
  [([x7f;x7e;x4f;x5e;x8d;x06;xa8;x2f;x7c;xa0;xa0;x83;x8b;xb5;xb4;xcc;xd4;xcd;x6c;x34;x5c;xbe;xd8;xdb;x5a;x0b;x9c;xa9;x5b;xe5;xe0;x1f],
  [x22;xd3;xa4;x00;x43;x03;x5a;x6b;x64;x57;x9e;x46;xaa;x1e;x20;x26;xca;xca;x15;xae;x06;x50;x84;xb6;x64;xd1;x8e;x06;x34;xaa;x41;xf1],
  [[xf8;x71;x80;x80;xa0;x03;xaa;xdc;x85;x8a;x16;xbd;x4d;x4a;xec;xca;x94;xac;xdc;x49;x48;x12;x00;x61;x54;x02;x5f;x03;x78;xf4;xa7;x25;xa8;x25;x5e;x3c;x38;x80;x80;xa0;x01;x1d;x7a;x20;x08;xfb;x9a;xcb;x0d;x3e;xf2;xd4;x39;x87;x35;x69;xd8;xd3;x98;xfd;x9b;x79;x71;xf2;xa6;x7e;x5b;xf4;x41;x8c;xc2;xf0;x80;x80;x80;x80;x80;x80;x80;xa0;xc6;xbb;x3b;x98;x7f;xb0;x18;x8c;x1a;x4f;x20;x6a;xc1;x1f;xa3;xec;xb3;x14;x83;x98;x92;xd5;xf3;x47;x2b;xba;x48;xcb;x90;xf1;x8a;x36;x80;x80;x80];
  [xf8;x6e;xa0;x32;xd3;xa4;x00;x43;x03;x5a;x6b;x64;x57;x9e;x46;xaa;x1e;x20;x26;xca;xca;x15;xae;x06;x50;x84;xb6;x64;xd1;x8e;x06;x34;xaa;x41;xf1;xb8;x4b;xf8;x49;x80;x85;xb2;xe2;x39;xd2;x3f;xa0;x38;x54;x19;xd6;x1d;x90;x0f;xa9;xf7;x2f;xf5;xc4;x18;x1a;xa8;xe8;xd4;xa9;x9c;xd4;x32;xc6;x0e;x2c;x5c;x76;xdd;xb5;xa3;x36;x01;xfb;xa0;xb1;x35;xf8;x50;xa2;x42;xba;x8e;xff;x70;xc5;x8c;x2e;xaa;xaf;x66;x7a;x38;xc7;x2a;x6d;x44;x5b;x21;x32;x86;xde;x2f;x13;x56;x9d;xa6]],
  (Some
  [xf8;x49;x80;x85;xb2;xe2;x39;xd2;x3f;xa0;x38;x54;x19;xd6;x1d;x90;x0f;xa9;xf7;x2f;xf5;xc4;x18;x1a;xa8;xe8;xd4;xa9;x9c;xd4;x32;xc6;x0e;x2c;x5c;x76;xdd;xb5;xa3;x36;x01;xfb;xa0;xb1;x35;xf8;x50;xa2;x42;xba;x8e;xff;x70;xc5;x8c;x2e;xaa;xaf;x66;x7a;x38;xc7;x2a;x6d;x44;x5b;x21;x32;x86;xde;x2f;x13;x56;x9d;xa6]));
  ([x38;x54;x19;xd6;x1d;x90;x0f;xa9;xf7;x2f;xf5;xc4;x18;x1a;xa8;xe8;xd4;xa9;x9c;xd4;x32;xc6;x0e;x2c;x5c;x76;xdd;xb5;xa3;x36;x01;xfb],
  [x01;x1c;xcd;xc3;xaa;x2f;xf4;x02;x08;x34;x0f;x7e;x8a;x09;xe0;x93;x88;x0c;x90;xaf;x3e;xae;x4f;x92;xbc;x79;x37;x7c;x84;x77;x21;x9c],
  [[xf8;x71;xa0;xe9;xba;x59;xdb;x3b;x44;x6c;xb3;x8e;xad;xef;x3b;x96;x3b;x24;x55;x84;x05;x9b;xb0;x2b;xe3;x2e;xfc;x80;x47;xcc;x8a;x54;x3b;xb1;x45;x80;x80;x80;x80;x80;x80;xa0;x36;xac;x0a;x66;xfa;x03;x2d;x5a;x3b;xae;xf1;xbc;xbb;xe4;xc8;x59;x41;x5c;xf4;x16;x29;x17;xb6;x7e;x5b;x98;x57;xe1;x1e;xdb;x83;xe8;x80;x80;x80;xa0;x8e;xe0;xb8;xed;x46;x4c;x3f;x55;xe3;x5a;xac;x07;x30;x57;x31;x5b;xdb;xbc;x50;xe8;xa9;x1f;xe6;xa7;x94;x0c;xae;x89;xa9;x7d;xb8;xc3;x80;x80;x80;x80;x80];
  [xed;xa0;x31;x1c;xcd;xc3;xaa;x2f;xf4;x02;x08;x34;x0f;x7e;x8a;x09;xe0;x93;x88;x0c;x90;xaf;x3e;xae;x4f;x92;xbc;x79;x37;x7c;x84;x77;x21;x9c;x8b;x8a;x70;xf9;x08;x09;xcb;x52;xa7;xf8;x4d;x14]],
  (Some [x8a;x70;xf9;x08;x09;xcb;x52;xa7;xf8;x4d;x14]))]; c_copies_agree := true; c_eth_class := 1; c_bsc_class := 1;
  c_honest := true; c_gt_word := (Some
  [x00;x00;x00;x00;x00;x00;x00;x00;x00;x00;x00;x00;x00;x00;x00;x00;x00;x00;x00;x00;x00;x00;x70;xf9;x08;x09;xcb;x52;xa7;xf8;x4d;x14])
  |}.
