(** * Executable model of go-ethereum's Merkle-Patricia proof verification (C08)

    Go code transcribed (go-ethereum v1.10.16, module cache):
    - trie/proof.go: [VerifyProof], [get] (with [skipResolved = true])
    - trie/node.go: [decodeNode], [decodeShort], [decodeFull], [decodeRef]
    - trie/encoding.go: [keybytesToHex], [compactToHex], [hasTerm]
    - rlp/raw.go: [readKind], [readSize], [Split], [SplitString], [SplitList], [CountValues]
    - light/nodeset.go: [NodeList.Put], [NodeList.NodeSet] / [Store], [NodeSet.Put] (first entry of a hash wins),
      [NodeSet.Get]

    The only external function is [keccak256] (a Section variable).  [mpt_verify_g keccak256 root key nodes] is
    [trie.VerifyProof(root, key, NodeList(nodes).NodeSet())] in the result convention of Model/EvmProof.v:
    [None] = error, [Some []] = (nil, nil) i.e. the proof shows the key is absent (or holds an empty value),
    [Some v] = the value.

    No proofs in this file. *)
From Teleport Require Import Base.Bytes Base.Outcome Model.EvmProof.
Local Open Scope N_scope.

(** ** rlp/raw.go *)

Inductive rkind := KByte | KString | KList.

(** [readSize(b, slen)], [slen] in 1..8: big-endian number of the first [slen] bytes; sizes below 56 and a
    leading zero byte are rejected. *)
Definition read_size (b : bytes) (slen : nat) : option N :=
  if (length b <? slen)%nat then None
  else
    let lb := firstn slen b in
    match lb with
    | [] => None
    | b0 :: _ =>
        let s := N_of_be lb in
        if (s <? 56) || Byte.eqb b0 x00 then None else Some s
    end.

(** [readKind]: kind, tag size, content size. *)
Definition read_kind (buf : bytes) : option (rkind * N * N) :=
  match buf with
  | [] => None
  | b :: t =>
      let n := nb b in
      let r :=
        if n <? 128 then Some (KByte, 0, 1)
        else if n <? 184 then
          let cs := n - 128 in
          if (cs =? 1) && (match t with x :: _ => nb x <? 128 | [] => false end) then None
          else Some (KString, 1, cs)
        else if n <? 192 then
          match read_size t (N.to_nat (n - 183)) with
          | None => None
          | Some cs => Some (KString, n - 183 + 1, cs)
          end
        else if n <? 248 then Some (KList, 1, n - 192)
        else
          match read_size t (N.to_nat (n - 247)) with
          | None => None
          | Some cs => Some (KList, n - 247 + 1, cs)
          end in
      match r with
      | None => None
      | Some (k, ts, cs) =>
          (* Reject values larger than the input slice. *)
          if N.of_nat (length buf) - ts <? cs then None else Some (k, ts, cs)
      end
  end.

(** [Split]: kind, content, rest *)
Definition rlp_split (b : bytes) : option (rkind * bytes * bytes) :=
  match read_kind b with
  | None => None
  | Some (k, ts, cs) =>
      Some (k, firstn (N.to_nat cs) (skipn (N.to_nat ts) b), skipn (N.to_nat (ts + cs)) b)
  end.

Definition split_string (b : bytes) : option (bytes * bytes) :=
  match rlp_split b with
  | Some (KList, _, _) => None
  | Some (_, c, r) => Some (c, r)
  | None => None
  end.

Definition split_list (b : bytes) : option (bytes * bytes) :=
  match rlp_split b with
  | Some (KList, c, r) => Some (c, r)
  | _ => None
  end.

(** [CountValues]; every value takes at least one byte, so [length b] rounds suffice *)
Fixpoint count_values_fuel (fuel : nat) (b : bytes) : option nat :=
  match b with
  | [] => Some 0%nat
  | _ =>
      match fuel with
      | O => None
      | S f =>
          match read_kind b with
          | None => None
          | Some (_, ts, cs) =>
              match count_values_fuel f (skipn (N.to_nat (ts + cs)) b) with
              | Some c => Some (S c)
              | None => None
              end
          end
      end
  end.

Definition count_values (b : bytes) : option nat := count_values_fuel (length b) b.

(** ** trie/encoding.go *)

Fixpoint nibbles (k : bytes) : bytes :=
  match k with
  | [] => []
  | b :: r => byte_of_N (nb b / 16) :: byte_of_N (nb b mod 16) :: nibbles r
  end.

(** [keybytesToHex]: the nibbles followed by the terminator 16 *)
Definition keybytes_to_hex (k : bytes) : bytes := nibbles k ++ [x10].

(** [hasTerm] *)
Definition has_term (s : bytes) : bool :=
  match rev s with
  | x :: _ => Byte.eqb x x10
  | [] => false
  end.

(** [compactToHex] *)
Definition compact_to_hex (c : bytes) : bytes :=
  match c with
  | [] => []
  | _ =>
      let base := keybytes_to_hex c in
      match base with
      | [] => []
      | b0 :: _ =>
          let base' := if nb b0 <? 2 then removelast base else base in
          skipn (N.to_nat (2 - nb b0 mod 2)) base'
      end
  end.

(** ** trie/node.go *)

Inductive node :=
| NNil
| NHash (h : bytes)
| NValue (v : bytes)
| NShort (key : bytes) (val : node)
| NFull (children : list node).     (* 17 children; the last one is [NNil] or [NValue] *)

Section Decode.
  (** the recursive call [decodeNode(nil, buf)] of [decodeRef] (embedded node) *)
  Variable dn : bytes -> option node.

  (** [decodeRef]: the node and the rest of the buffer *)
  Definition decode_ref (buf : bytes) : option (node * bytes) :=
    match rlp_split buf with
    | None => None
    | Some (KList, _, rest) =>
        if (32 <? length buf - length rest)%nat then None
        else match dn buf with
             | Some n => Some (n, rest)
             | None => None
             end
    | Some (KString, val, rest) =>
        match length val with
        | O => Some (NNil, rest)
        | 32%nat => Some (NHash val, rest)
        | _ => None
        end
    | Some (KByte, _, _) => None
    end.

  (** [decodeShort] *)
  Definition decode_short (elems : bytes) : option node :=
    match split_string elems with
    | None => None
    | Some (kbuf, rest) =>
        let key := compact_to_hex kbuf in
        if has_term key then
          match split_string rest with
          | Some (val, _) => Some (NShort key (NValue val))
          | None => None
          end
        else
          match decode_ref rest with
          | Some (r, _) => Some (NShort key r)
          | None => None
          end
    end.

  Fixpoint decode_refs (k : nat) (elems : bytes) : option (list node * bytes) :=
    match k with
    | O => Some ([], elems)
    | S k' =>
        match decode_ref elems with
        | None => None
        | Some (c, rest) =>
            match decode_refs k' rest with
            | Some (cs, rest') => Some (c :: cs, rest')
            | None => None
            end
        end
    end.

  (** [decodeFull] *)
  Definition decode_full (elems : bytes) : option node :=
    match decode_refs 16 elems with
    | None => None
    | Some (cs, rest) =>
        match split_string rest with
        | None => None
        | Some (val, _) => Some (NFull (cs ++ [match val with [] => NNil | _ => NValue val end]))
        end
    end.

  (** [decodeNode] (one level) *)
  Definition decode_node_step (buf : bytes) : option node :=
    match buf with
    | [] => None
    | _ =>
        match split_list buf with
        | None => None
        | Some (elems, _) =>
            match count_values elems with
            | Some 2%nat => decode_short elems
            | Some 17%nat => decode_full elems
            | _ => None
            end
        end
    end.
End Decode.

(** An embedded node is a list of at most 32 bytes inside its parent, so the nesting depth is bounded by the
    length of the buffer; [decode_node] uses [length buf + 1] levels. *)
Fixpoint decode_node_fuel (fuel : nat) (buf : bytes) : option node :=
  match fuel with
  | O => None
  | S f => decode_node_step (decode_node_fuel f) buf
  end.

Definition decode_node (buf : bytes) : option node := decode_node_fuel (S (length buf)) buf.

(** ** trie/proof.go *)

(** result of [get(n, key, true)]: [(keyrest, cld)] with [cld] nil, a hash node or a value node; [key[0]] on an
    empty key is a run-time panic *)
Inductive gres := GNil | GHash (rest h : bytes) | GValue (v : bytes) | GPanic.

Fixpoint get (n : node) (key : bytes) : gres :=
  match n with
  | NShort k v =>
      (* len(key) < len(n.Key) || !bytes.Equal(n.Key, key[:len(n.Key)]) *)
      if is_prefix k key then get v (skipn (length k) key) else GNil
  | NFull cs =>
      match key with
      | [] => GPanic                       (* key[0] *)
      | k0 :: kr =>
          (fix pick (l : list node) (i : nat) {struct l} : gres :=
             match l with
             | [] => GNil                  (* not reached: 17 children, nibbles are at most 16 *)
             | c :: l' => match i with O => get c kr | S i' => pick l' i' end
             end) cs (N.to_nat (nb k0))
      end
  | NHash h => GHash key h
  | NNil => GNil
  | NValue v => GValue v
  end.

Inductive wres := WValue (v : bytes) | WAbsent | WMissing | WBad | WPanic | WLoop.

Section Walk.
  Variable keccak256 : bytes -> bytes.

  (** [NodeList.NodeSet()] then [Get(want)]: every node is stored under its Keccak hash, the first node of a
      hash wins. *)
  Fixpoint find_node (nodes : list bytes) (want : bytes) : option bytes :=
    match nodes with
    | [] => None
    | n :: r => if bytes_eqb (keccak256 n) want then Some n else find_node r want
    end.

  (** the loop of [VerifyProof].  The Go loop has no bound; it can only run forever on a cycle of hash
      references (which needs a Keccak cycle); [WLoop] stands for that. *)
  Fixpoint walk (nodes : list bytes) (fuel : nat) (want key : bytes) : wres :=
    match fuel with
    | O => WLoop
    | S f =>
        match find_node nodes want with
        | None => WMissing
        | Some buf =>
            match decode_node buf with
            | None => WBad
            | Some n =>
                match get n key with
                | GNil => WAbsent
                | GHash rest h => walk nodes f h rest
                | GValue v => WValue v
                | GPanic => WPanic
                end
            end
        end
    end.

  (** Every round either ends or moves to a (hash, key suffix) state; more rounds than there are such states
      means a repeated state, i.e. the Go loop does not end. *)
  Definition walk_fuel (nodes : list bytes) (key : bytes) : nat := S (S (length nodes) * S (S (2 * length key))).

  Definition mpt_verify_g (root key : bytes) (nodes : list bytes) : option bytes :=
    match walk nodes (walk_fuel nodes key) root (keybytes_to_hex key) with
    | WValue v => Some v
    | WAbsent => Some []
    | _ => None
    end.
End Walk.
