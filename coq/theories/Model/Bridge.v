(** Executable model of the VALUE layer of XIBC cross-chain calls (property C03).

    Go / byte code modelled (behaviour of the byte-code-only system contracts was
    reverse-engineered by probing two/three real chains, DESIGN.md 9.4 and
    notes/C03.md, and is pinned on every run by the correspondence check):

      syscontracts/xibc_endpoint Endpoint.crossChainCall      -> [transfer_chain]
      syscontracts/xibc_packet   Packet.sendPacket / addPacketFee / onRecvPacket /
                                 setAckStatus / sendPacketFeeToRelayer / OnAcknowledgePacket
      syscontracts/xibc_endpoint Endpoint.onRecvPacket / onAcknowledgementPacket
      x/xibc/keeper/msg_server.go  RecvPacket       -> [recv_chain] (callback on a state
                                   branch, written back only for result code 0; error ack
                                   otherwise) ; [recv_chain_old] = the code before commit
                                   0a3e419 (callback on the parent context, effects kept)
      x/xibc/keeper/msg_server.go  Acknowledgement  -> [ack_chain]
      x/xibc/core/packet/keeper/evm.go CallEVMWithData (EVM message + post-tx hooks atomic)

    The packet layer (commitments, receipts, proofs, sequences: properties C01/C02/C04/C05,
    Model/Packet.v) is kept abstract: a global table of the packets sent so far with a
    GHOST status.  [Recv] is accepted only for a packet that was sent and not yet received
    (commitment proof + receipt check), [Ack] only for a received, not yet acknowledged
    packet and only with the acknowledgement the destination wrote (ack proof + commitment
    deletion).  Amounts are unbounded [N]; the contracts use checked uint256 arithmetic
    (an overflow reverts), the harness keeps all amounts below 2^128. *)
From Coq Require Import List NArith Bool.
From Teleport Require Import Base.Outcome.
Import ListNotations.
Local Open Scope N_scope.

(** * Identifiers *)
Definition chain := nat.
Definition token := nat.            (* per chain; 0 = the chain's native coin *)
Bind Scope nat_scope with chain.
Bind Scope nat_scope with token.

Inductive holder :=
| User (n : nat)
| Endpoint                           (* 0x..20000002: holds the escrow *)
| PacketC                            (* 0x..20000001: holds the relayer fees *)
| Execute                            (* 0x..20000003: executes call data *)
| Agent                              (* 0x..40000001 *)
| Relayer.                           (* the relayer's account on the chain *)

Definition holder_eqb (a b : holder) : bool :=
  match a, b with
  | User n, User m => Nat.eqb n m
  | Endpoint, Endpoint | PacketC, PacketC | Execute, Execute | Agent, Agent | Relayer, Relayer => true
  | _, _ => false
  end.

Inductive status := Sent | RecvOk | RecvErr | AckOk | Refunded.

(** Call data carried by a packet, by the way its execution on the destination ends. *)
Inductive calldata :=
| CdNone
| CdOk (e : nat)      (* succeeds and leaves an observable contract effect #e (an ERC-20 allowance) *)
| CdRevert            (* the inner call reverts: the packet contract RETURNS result code 3 *)
| CdHookFail          (* EVM execution succeeds, a post-transaction hook fails (Staking.delegate to an
                         invalid validator): CallEVMWithData returns an error -> code 1 *)
| CdAgent (ref : nat) (rcv : option holder) (dst : chain) (fee : N).
                      (* Agent.send(refundAddress = user [ref], receiver, dstChain, feeAmount): the agent contract
                         forwards what THIS packet delivered to it, minus the fee, to chain [dst] (multi-hop);
                         a [dst] without light client makes the SendPacket hook fail -> code 1 *)

(** Callback address of a packet: none, a contract without callback() (the acknowledgement can never be
    processed), or the agent contract (set by the agent on the packets it sends: on an error acknowledgement
    it passes the refund on to user [ref]). *)
Inductive callback := CbNone | CbBroken | CbAgent (ref : nat).

Record packet := {
  p_src : chain; p_dst : chain; p_seq : N;
  p_sender : holder;               (* a user, or the agent contract (onward packets) *)
  p_recv : option holder;          (* None: the receiver string is not an address *)
  p_token : token;                 (* token on the source chain *)
  p_ori : option token;            (* Some t: RETURN transfer of a bound token, t = origin token on the destination *)
  p_amount : N;                    (* in units of the origin token; 0 = no transfer data *)
  p_cd : calldata;
  p_cb : callback;
  (* ghost *)
  p_status : status;
  p_code : N;                      (* result code of the acknowledgement written by the destination *)
  p_delivered : N;                 (* amount minted / released on the destination by this packet and kept *)
  p_refunded : N;                  (* amount given back to the sender on the source *)
  p_feepaid : N                    (* number of times the relayer fee of this packet was paid out *)
}.

(** * One chain's ledger *)
Record cstate := {
  bal : token -> holder -> N;          (* ERC-20 balanceOf / bank balance of the EVM denomination *)
  supply : token -> N;                 (* ERC-20 totalSupply *)
  out_tokens : token -> chain -> N;    (* endpoint.outTokens[token][dst] *)
  bind_amt : token -> chain -> N;      (* endpoint.bindings[token/src].amount *)
  next_seq : chain -> N;               (* packet.getNextSequenceSend(dst) *)
  ack_status : chain -> N -> N;        (* packet.getAckStatus(dst, seq): 0 | 1 ok | 2 failed *)
  fees : chain -> N -> token * N;      (* packet.packetFees[dst/seq] *)
  effects : nat -> N                   (* allowance left by successful call data #e *)
}.

Record state := { chains : chain -> cstate; packets : list packet }.

(** Static configuration: which chains exist and the token bindings registered in the endpoint
    contracts (aggregate keeper, [RegisterERC20Trace] -> [bindToken]).
    [trace c src ori = Some (loc, k)]: on chain [c] token [loc] represents token [ori] of chain [src],
    one unit of [ori] = [k] = 10^scale units of [loc].  [bound c loc dst = Some (ori, k)] is the same
    relation read from the local token. *)
Record config := {
  nchains : nat;
  trace : chain -> chain -> token -> option (token * N);
  bound : chain -> token -> chain -> option (token * N)
}.

(** * Point updates *)
Definition upd1 {A} (f : nat -> A) (k : nat) (v : A) : nat -> A :=
  fun k' => if Nat.eqb k k' then v else f k'.

Definition upd_bal (b : token -> holder -> N) (t : token) (h : holder) (v : N) : token -> holder -> N :=
  fun t' h' => if Nat.eqb t t' && holder_eqb h h' then v else b t' h'.

Definition upd_tc (f : token -> chain -> N) (t : token) (c : chain) (v : N) : token -> chain -> N :=
  fun t' c' => if Nat.eqb t t' && Nat.eqb c c' then v else f t' c'.

Definition upd_cs {A} (f : chain -> N -> A) (c : chain) (s : N) (v : A) : chain -> N -> A :=
  fun c' s' => if Nat.eqb c c' && N.eqb s s' then v else f c' s'.

Definition set_bal cs b := {| bal := b; supply := supply cs; out_tokens := out_tokens cs; bind_amt := bind_amt cs;
  next_seq := next_seq cs; ack_status := ack_status cs; fees := fees cs; effects := effects cs |}.
Definition set_supply cs x := {| bal := bal cs; supply := x; out_tokens := out_tokens cs; bind_amt := bind_amt cs;
  next_seq := next_seq cs; ack_status := ack_status cs; fees := fees cs; effects := effects cs |}.
Definition set_out cs x := {| bal := bal cs; supply := supply cs; out_tokens := x; bind_amt := bind_amt cs;
  next_seq := next_seq cs; ack_status := ack_status cs; fees := fees cs; effects := effects cs |}.
Definition set_bind cs x := {| bal := bal cs; supply := supply cs; out_tokens := out_tokens cs; bind_amt := x;
  next_seq := next_seq cs; ack_status := ack_status cs; fees := fees cs; effects := effects cs |}.
Definition set_next cs x := {| bal := bal cs; supply := supply cs; out_tokens := out_tokens cs; bind_amt := bind_amt cs;
  next_seq := x; ack_status := ack_status cs; fees := fees cs; effects := effects cs |}.
Definition set_ackst cs x := {| bal := bal cs; supply := supply cs; out_tokens := out_tokens cs; bind_amt := bind_amt cs;
  next_seq := next_seq cs; ack_status := x; fees := fees cs; effects := effects cs |}.
Definition set_fees cs x := {| bal := bal cs; supply := supply cs; out_tokens := out_tokens cs; bind_amt := bind_amt cs;
  next_seq := next_seq cs; ack_status := ack_status cs; fees := x; effects := effects cs |}.
Definition set_effects cs x := {| bal := bal cs; supply := supply cs; out_tokens := out_tokens cs; bind_amt := bind_amt cs;
  next_seq := next_seq cs; ack_status := ack_status cs; fees := fees cs; effects := x |}.

(** ERC-20 / bank primitives on one chain *)
Definition credit cs t h a := set_bal cs (upd_bal (bal cs) t h (bal cs t h + a)).
Definition debit cs t h a := set_bal cs (upd_bal (bal cs) t h (bal cs t h - a)).
Definition move cs t from to a := credit (debit cs t from a) t to a.
Definition mint cs t h a := set_supply (credit cs t h a) (upd1 (supply cs) t (supply cs t + a)).
Definition burn cs t h a := set_supply (debit cs t h a) (upd1 (supply cs) t (supply cs t - a)).

(** * Endpoint.crossChainCall: the token part.
    A token bound to the destination chain is BURNED ([amt] is given in origin units, [amt * k] local
    units disappear, [bindings.amount] decreases); any other token is ESCROWED in the endpoint and
    counted in [outTokens].  [None] = the transaction reverts.  Result: new ledger and the packet's
    [oriToken]. *)
Definition take_tokens (cfg : config) (c : chain) (cs : cstate) (u : holder) (tok : token) (amt : N) (dst : chain)
  : option (cstate * option token) :=
  if amt =? 0 then Some (cs, None)
  else match bound cfg c tok dst with
       | Some (ori, k) =>
           let real := amt * k in
           if (real <=? bal cs tok u) && (real <=? bind_amt cs tok dst) && (real <=? supply cs tok) then
             Some (set_bind (burn cs tok u real) (upd_tc (bind_amt cs) tok dst (bind_amt cs tok dst - real)), Some ori)
           else None
       | None =>
           if amt <=? bal cs tok u then
             Some (set_out (move cs tok u Endpoint amt) (upd_tc (out_tokens cs) tok dst (out_tokens cs tok dst + amt)), None)
           else None
       end.

(** The relayer fee is escrowed in the packet contract. *)
Definition take_fee (cs : cstate) (u : holder) (ftok : token) (fee : N) : option cstate :=
  if fee <=? bal cs ftok u then Some (move cs ftok u PacketC fee) else None.

(* observed: endpoint, packet and execute contracts reject plain value; the agent contract accepts it *)
Definition is_contract (h : holder) : bool :=
  match h with Endpoint | PacketC | Execute => true | _ => false end.

Definition is_none {A} (o : option A) : bool := match o with None => true | Some _ => false end.
Definition cd_is_none (cd : calldata) : bool := match cd with CdNone => true | _ => false end.

(** Endpoint.crossChainCall by [h] on chain [c], EVM part: tokens and fee are taken, the packet is handed to the
    packet contract (sequence, fee entry). [None] = the EVM execution reverts. *)
Definition transfer_evm (cfg : config) (c : chain) (cs : cstate) (h : holder) (tok : token) (amt : N) (dst : chain)
  (rcv : option holder) (cd : calldata) (cb : callback) (ftok : token) (fee : N) : option (cstate * packet) :=
  if (amt =? 0) && cd_is_none cd then None
  else match take_tokens cfg c cs h tok amt dst with
       | None => None
       | Some (cs1, ori) =>
           match take_fee cs1 h ftok fee with
           | None => None
           | Some cs2 =>
               let sq := next_seq cs dst in
               let cs3 := set_fees (set_next cs2 (upd1 (next_seq cs2) dst (sq + 1))) (upd_cs (fees cs2) dst sq (ftok, fee)) in
               Some (cs3, {| p_src := c; p_dst := dst; p_seq := sq; p_sender := h; p_recv := rcv; p_token := tok;
                             p_ori := ori; p_amount := amt; p_cd := cd; p_cb := cb;
                             p_status := Sent; p_code := 0; p_delivered := 0; p_refunded := 0; p_feepaid := 0 |})
           end
       end.

(** The SendPacket post-transaction hook fails (and the whole transaction with it) when the destination is this
    chain or has no light client. *)
Definition dst_ok (cfg : config) (c dst : chain) : bool :=
  negb (Nat.eqb c dst) && Nat.ltb dst (nchains cfg) && Nat.ltb c (nchains cfg).

(** A crossChainCall transaction (atomic). *)
Definition transfer_chain (cfg : config) (c : chain) (cs : cstate) (h : holder) (tok : token) (amt : N) (dst : chain)
  (rcv : option holder) (cd : calldata) (cb : callback) (ftok : token) (fee : N) : option (cstate * packet) :=
  if dst_ok cfg c dst then transfer_evm cfg c cs h tok amt dst rcv cd cb ftok fee else None.

(** * Packet.onRecvPacket -> Endpoint.onRecvPacket: the token part on the destination.
    [None] = the packet contract reports result code 2 (no effect): token not bound, malformed
    receiver, or (unreachable, see Proofs) not enough escrow.  Result: ledger and delivered amount. *)
Definition give_tokens (cfg : config) (cs : cstate) (p : packet) : option (cstate * N) :=
  if p_amount p =? 0 then Some (cs, 0)
  else match p_recv p with
       | None => None
       | Some r =>
           match p_ori p with
           | None =>
               match trace cfg (p_dst p) (p_src p) (p_token p) with
               | None => None
               | Some (loc, k) =>
                   let real := p_amount p * k in
                   Some (set_bind (mint cs loc r real) (upd_tc (bind_amt cs) loc (p_src p) (bind_amt cs loc (p_src p) + real)), real)
               end
           | Some t =>
               (* the native coin cannot be released to a system contract (they do not accept plain value) *)
               if Nat.eqb t 0 && is_contract r then None else
               if (p_amount p <=? out_tokens cs t (p_src p)) && (p_amount p <=? bal cs t Endpoint) then
                 Some (set_out (move cs t Endpoint r (p_amount p))
                         (upd_tc (out_tokens cs) t (p_src p) (out_tokens cs t (p_src p) - p_amount p)), p_amount p)
               else None
           end
       end.

(** The token the packet delivered on this chain and the number of local units per packet unit. *)
Definition delivered_token (cfg : config) (p : packet) : option (token * N) :=
  match p_ori p with
  | Some t => Some (t, 1)
  | None => trace cfg (p_dst p) (p_src p) (p_token p)
  end.

(** Agent.send executed (through the execute contract) after packet [p] delivered [d] units to the agent.
    Observed: the agent acts only on what THIS packet delivered to the agent itself (tokens it holds from
    elsewhere are not touched; another receiver -> the call reverts); fee = feeAmount * 10^scale of the incoming
    binding; the rest is sent on (a token bound to the next chain goes the burn path: amount in origin units);
    callback address = the agent.  Result: (code, ledger after the EVM part, onward packet):
    code 3 = the inner call reverted (ledger = after the token part), code 1 = the EVM part succeeded and the
    SendPacket hook failed (ledger = what the EVM had done: kept only by the OLD RecvPacket). *)
Definition agent_send (cfg : config) (c : chain) (cs1 : cstate) (p : packet) (d : N)
  (ref : nat) (rcv2 : option holder) (dst2 : chain) (fee : N) : N * cstate * option packet :=
  match p_recv p, delivered_token cfg p with
  | Some Agent, Some (T, kin) =>
      let feer := fee * kin in
      (* the endpoint refuses this chain as destination inside the EVM (the inner call reverts) *)
      if (p_amount p =? 0) || (d <=? feer) || Nat.eqb c dst2 then (3, cs1, None)
      else
        let L := d - feer in
        let amt2 := match bound cfg c T dst2 with
                    | Some (_, k2) =>
                        match p_ori p with
                        | None => if (k2 =? 0) || negb (L mod k2 =? 0) then None else Some (L / k2)
                        | Some _ =>
                            (* observed (8 probes, notes/C03.md): when the INCOMING packet was itself a return (the agent
                               received released escrow) the agent does not convert to origin units of the next chain:
                               the inner call reverts unless the scale of that binding is 0, whatever else the agent holds *)
                            if k2 =? 1 then Some L else None
                        end
                    | None => Some L
                    end in
        match amt2 with
        | None => (3, cs1, None)
        | Some a2 =>
            match transfer_evm cfg c cs1 Agent T a2 dst2 rcv2 CdNone (CbAgent ref) T feer with
            | None => (3, cs1, None)
            | Some (cs2, q) => if dst_ok cfg c dst2 then (0, cs2, Some q) else (1, cs2, None)
            end
        end
  | _, _ => (3, cs1, None)
  end.

(** Execution of the call data after a successful token part: result code, ledger, onward packet. *)
Definition run_calldata (cfg : config) (cs : cstate) (p : packet) (d : N) : N * cstate * option packet :=
  match p_cd p with
  | CdNone => (0, cs, None)
  | CdOk e => (0, set_effects cs (upd1 (effects cs) e 7), None)
  | CdRevert => (3, cs, None)
  | CdHookFail => (1, cs, None)
  | CdAgent ref rcv2 dst2 fee => agent_send cfg (p_dst p) cs p d ref rcv2 dst2 fee
  end.

(** msg_server.RecvPacket (repaired): the callback runs on a branch that is written back only for
    result code 0.  Result: (code, destination ledger, delivered amount, onward packet). *)
Definition recv_chain (cfg : config) (cs : cstate) (p : packet) : N * cstate * N * option packet :=
  match give_tokens cfg cs p with
  | None => (2, cs, 0, None)
  | Some (cs1, d) =>
      let '(code, cs2, onw) := run_calldata cfg cs1 p d in
      if code =? 0 then (0, cs2, d, onw) else (code, cs, 0, None)
  end.

(** msg_server.RecvPacket BEFORE commit 0a3e419: the callback ran on the parent context, so whatever
    the contract had done before reporting a non-zero code (the token part), and whatever the EVM had
    committed before a hook failed, was kept. *)
Definition recv_chain_old (cfg : config) (cs : cstate) (p : packet) : N * cstate * N * option packet :=
  match give_tokens cfg cs p with
  | None => (2, cs, 0, None)
  | Some (cs1, d) =>
      let '(code, cs2, onw) := run_calldata cfg cs1 p d in (code, cs2, d, onw)
  end.

(** * msg_server.Acknowledgement on the source chain: setAckStatus, sendPacketFeeToRelayer,
    OnAcknowledgePacket (refund for every non-zero code).  [None] = the message fails (state kept). *)
Definition give_back (cfg : config) (cs : cstate) (p : packet) : option (cstate * N) :=
  if p_code p =? 0 then Some (cs, 0)
  else if p_amount p =? 0 then None   (* observed: OnAcknowledgePacket reverts for an error acknowledgement of a packet
                                         without transfer data; the message fails, the packet can never be acknowledged *)
  else match p_ori p with
       | None =>
           if (p_amount p <=? out_tokens cs (p_token p) (p_dst p)) && (p_amount p <=? bal cs (p_token p) Endpoint) then
             Some (set_out (move cs (p_token p) Endpoint (p_sender p) (p_amount p))
                     (upd_tc (out_tokens cs) (p_token p) (p_dst p) (out_tokens cs (p_token p) (p_dst p) - p_amount p)),
                   p_amount p)
           else None
       | Some _ =>
           match bound cfg (p_src p) (p_token p) (p_dst p) with
           | None => None
           | Some (_, k) =>
               let real := p_amount p * k in
               Some (set_bind (mint cs (p_token p) (p_sender p) real)
                       (upd_tc (bind_amt cs) (p_token p) (p_dst p) (bind_amt cs (p_token p) (p_dst p) + real)), real)
           end
       end.

(** who ends up with a refund: the sender, or the user named by the agent when the agent sent the packet *)
Definition refund_target (p : packet) : holder :=
  match p_cb p with CbAgent ref => User ref | _ => p_sender p end.

Definition ack_chain (cfg : config) (cs : cstate) (p : packet) : option (cstate * N) :=
  match p_cb p with
  | CbBroken => None
  | _ =>
      let cs1 := set_ackst cs (upd_cs (ack_status cs) (p_dst p) (p_seq p) (if p_code p =? 0 then 1 else 2)) in
      let '(ft, f) := fees cs (p_dst p) (p_seq p) in
      if f <=? bal cs1 ft PacketC then
        match give_back cfg (move cs1 ft PacketC Relayer f) p with
        | None => None
        | Some (cs2, r) =>
            (* Agent.callback: an error acknowledgement's refund is passed on to the refund address *)
            Some (match p_cb p with
                  | CbAgent ref => if r =? 0 then cs2 else move cs2 (p_token p) (p_sender p) (User ref) r
                  | _ => cs2
                  end, r)
        end
      else None
  end.

(** Packet.addPacketFee: anybody may raise the fee of a packet that is not yet acknowledged.  Observed: the
    contract does NOT check that the packet was sent; a fee pre-paid for a future sequence is overwritten
    by that packet's own fee when it is sent (the pre-paid amount stays in the packet contract). *)
Definition addfee_chain (cs : cstate) (u : nat) (dst : chain) (sq : N) (amt : N) : option cstate :=
  let '(ft, f) := fees cs dst sq in
  if (ack_status cs dst sq =? 0) && (amt <=? bal cs ft (User u)) then
    Some (set_fees (move cs ft (User u) PacketC amt) (upd_cs (fees cs) dst sq (ft, f + amt)))
  else None.

(** * Global steps *)
Inductive op :=
| Transfer (c : chain) (u : nat) (tok : token) (amt : N) (dst : chain) (rcv : option holder)
           (cd : calldata) (broken_cb : bool) (ftok : token) (fee : N)
| Recv (src dst : chain) (sq : N)
| Ack (src dst : chain) (sq : N)
| AddFee (c : chain) (u : nat) (dst : chain) (sq : N) (amt : N)
| Fault (k : nat) (src dst : chain) (sq : N).
           (* a relay message that is NOT the authentic relay of packet (src, dst, sq) in its current state, delivered
              by a registered relayer with a genuine proof of whatever the counterparty really stores.  Kinds produced by
              the harness: 0 MsgRecvPacket whose packet bytes were altered (amount / receiver); 1 MsgAcknowledgement
              whose acknowledgement bytes were forged (result code flipped between success and error); 2 MsgRecvPacket
              delivered to a chain that is not the packet's destination; 3 MsgAcknowledgement delivered to a chain that
              is not the packet's source; 4 MsgAcknowledgement whose packet bytes were altered; 5 (not a relay message) a
              PacketSent event carrying a well-formed packet (src, dst, next sequence) emitted by a contract that is not the
              packet contract: evm_hooks.PostTxProcessing must ignore it, nothing was escrowed for it.  packet.go
              (ValidatePacket, commitment comparison, VerifyPacketCommitment / VerifyPacketAcknowledgement) must
              reject every one of them: the model has no transition for them. *)

Definition key_is (src dst : chain) (sq : N) (p : packet) : bool :=
  Nat.eqb (p_src p) src && Nat.eqb (p_dst p) dst && N.eqb (p_seq p) sq.

Fixpoint lookup (src dst : chain) (sq : N) (ps : list packet) : option packet :=
  match ps with
  | [] => None
  | p :: ps' => if key_is src dst sq p then Some p else lookup src dst sq ps'
  end.

Definition update (src dst : chain) (sq : N) (f : packet -> packet) (ps : list packet) : list packet :=
  map (fun p => if key_is src dst sq p then f p else p) ps.

Definition set_chain (s : state) (c : chain) (cs : cstate) (ps : list packet) : state :=
  {| chains := upd1 (chains s) c cs; packets := ps |}.

Definition on_recv (code delivered : N) (p : packet) : packet :=
  {| p_src := p_src p; p_dst := p_dst p; p_seq := p_seq p; p_sender := p_sender p; p_recv := p_recv p;
     p_token := p_token p; p_ori := p_ori p; p_amount := p_amount p; p_cd := p_cd p; p_cb := p_cb p;
     p_status := if code =? 0 then RecvOk else RecvErr; p_code := code; p_delivered := delivered;
     p_refunded := p_refunded p; p_feepaid := p_feepaid p |}.

Definition on_ack (refunded : N) (p : packet) : packet :=
  {| p_src := p_src p; p_dst := p_dst p; p_seq := p_seq p; p_sender := p_sender p; p_recv := p_recv p;
     p_token := p_token p; p_ori := p_ori p; p_amount := p_amount p; p_cd := p_cd p; p_cb := p_cb p;
     p_status := if p_code p =? 0 then AckOk else Refunded; p_code := p_code p; p_delivered := p_delivered p;
     p_refunded := p_refunded p + refunded; p_feepaid := p_feepaid p + 1 |}.

Definition is_sent (p : packet) : bool := match p_status p with Sent => true | _ => false end.
Definition is_received (p : packet) : bool := match p_status p with RecvOk | RecvErr => true | _ => false end.

(** [Err] = the transaction / message is rejected and the state is unchanged. *)
Definition opt_list {A} (o : option A) : list A := match o with Some x => [x] | None => [] end.

Definition step_gen (recv : config -> cstate -> packet -> N * cstate * N * option packet) (cfg : config) (s : state) (o : op)
  : outcome state :=
  match o with
  | Transfer c u tok amt dst rcv cd broken ftok fee =>
      match transfer_chain cfg c (chains s c) (User u) tok amt dst rcv cd (if broken then CbBroken else CbNone) ftok fee with
      | None => Err
      | Some (cs, p) => Ok (set_chain s c cs (packets s ++ [p]))
      end
  | Recv src dst sq =>
      match lookup src dst sq (packets s) with
      | None => Err
      | Some p =>
          if is_sent p then
            let '(code, cs, d, onw) := recv cfg (chains s dst) p in
            Ok (set_chain s dst cs (update src dst sq (on_recv code d) (packets s) ++ opt_list onw))
          else Err
      end
  | Ack src dst sq =>
      match lookup src dst sq (packets s) with
      | None => Err
      | Some p =>
          if is_received p then
            match ack_chain cfg (chains s src) p with
            | None => Err
            | Some (cs, r) => Ok (set_chain s src cs (update src dst sq (on_ack r) (packets s)))
            end
          else Err
      end
  | AddFee c u dst sq amt =>
      match addfee_chain (chains s c) u dst sq amt with
      | None => Err
      | Some cs => Ok (set_chain s c cs (packets s))
      end
  | Fault _ _ _ _ => Err
  end.

Definition step := step_gen recv_chain.
Definition step_old := step_gen recv_chain_old.

(** A history is any list of operations of any chains in any order; rejected ones change nothing. *)
Definition apply_gen recv cfg (s : state) (o : op) : state :=
  match step_gen recv cfg s o with Ok s' => s' | _ => s end.

Definition run_gen recv cfg (s : state) (h : list op) : state := fold_left (apply_gen recv cfg) h s.
Definition run := run_gen recv_chain.
Definition run_old := run_gen recv_chain_old.
