(** * Executable model of the XIBC packet core (C01 C02 C04 C05)

    Transcribes, line by line,
      x/xibc/keeper/msg_server.go            RecvPacket, Acknowledgement (HEAD: callback on a state branch,
                                             written back only for a nil error and result code 0)
      x/xibc/core/packet/keeper/packet.go    SendPacket, RecvPacket, WriteAcknowledgement, AcknowledgePacket
      x/xibc/core/packet/keeper/keeper.go    store accessors, ValidatePacket
      x/xibc/core/packet/keeper/evm_hooks.go PostTxProcessing: PacketSent log -> SendPacket
      x/xibc/core/packet/keeper/evm.go       CallPacket / CallEVMWithData (message + hooks on a branch that is
                                             committed only if both succeed)
      x/xibc/core/packet/types/packet.go     ValidateBasic, CommitPacket, CommitAcknowledgement
      x/xibc/core/client/keeper/relayer.go   relayer look-ups
    including the quirks (decode guard [err != nil && Sequence == 0], TSS [proof := signer], relay branch,
    unguarded relay-ack write).  No proofs in this file.

    Chain state = packet families of the xibc KV store (association list of raw key/value bytes) + registered
    clients (name -> type) + chain name + relayer registry + abstract contract side (the packet contract's send
    counter as set through [setSequence], and a ghost log of the callback invocations that persisted).
    External functions are Section variables (oracles): key builders (host/keys.go), ABI codecs, sha256, the light
    clients' verification functions, bech32, strings.EqualFold.  What the EVM does in a callback is INPUT of the
    operation ([cbres]: chosen by the environment / history, observed by the harness). *)
From Teleport Require Import Base.Bytes Base.Outcome Base.AList.
Local Open Scope N_scope.

(** ** uint64 <-> 8 big-endian bytes (sdk.Uint64ToBigEndian / sdk.BigEndianToUint64) *)
Definition byte_of_N (n : N) : byte :=
  match Byte.of_N (n mod 256) with Some b => b | None => x00 end.

Fixpoint be_bytes (k : nat) (n : N) : bytes :=
  match k with
  | O => []
  | S k' => be_bytes k' (n / 256) ++ [byte_of_N n]
  end.

Definition unbe (l : bytes) : N := fold_left (fun a b => a * 256 + Byte.to_N b) l 0.

Definition two64 : N := 18446744073709551616.
Definition be64 (n : N) : bytes := be_bytes 8 n.
Definition add64 (a b : N) : N := (a + b) mod two64.

(** ** Data *)
Record packet := mkPacket {
  p_src : bytes; p_dst : bytes; p_seq : N; p_sender : bytes;
  p_tdata : bytes; p_cdata : bytes; p_cb : bytes; p_fee : N }.

Record ackt := mkAck { a_code : N; a_result : bytes; a_message : bytes; a_relayer : bytes; a_fee : N }.

Definition triple := (bytes * bytes * N)%type.
Definition triple_of (p : packet) : triple := (p_src p, p_dst p, p_seq p).

Definition height := (N * N)%type.   (* revision number, revision height *)

Record recv_msg := mkRecv { rm_packet : bytes; rm_proof : bytes; rm_height : height; rm_signer : bytes }.
Record ack_msg := mkAckMsg { am_packet : bytes; am_ack : bytes; am_proof : bytes; am_height : height; am_signer : bytes }.

(** Ghost log: what persisted on the contract side / which acknowledgements were written. *)
Inductive event :=
| EvOnRecv (p : packet)                          (* packet contract onRecvPacket(p), effects kept *)
| EvAckWritten (t : triple) (h : bytes)          (* WriteAcknowledgement stored hash h for t *)
| EvRelayAck (t : triple) (h : bytes)            (* relay branch of AcknowledgePacket stored h for t *)
| EvSetSeq (d : bytes) (n : N)                   (* packet contract setSequence(d, n) *)
| EvSent (p : packet)                            (* SendPacket succeeded for p *)
| EvAckStatus (d : bytes) (q : N) (st : N)       (* setAckStatus(d, q, st) *)
| EvFee (d : bytes) (q : N) (r : bytes)          (* sendPacketFeeToRelayer(d, q, r) *)
| EvOnAck (p : packet) (a : ackt).               (* OnAcknowledgePacket(p, a) *)

Record app := mkApp {
  cseq : alist N;          (* packet contract: sequences[dst] as last set by setSequence; absent = 1 (observed) *)
  log : list event }.

Definition ctype := N.     (* 0 = tss, 1 = tendermint, 2 = bsc, 3 = eth *)
Definition is_tss (c : ctype) : bool := c =? 0.

Record cstate := mkState {
  st_store : alist bytes;                          (* receipts/ acks/ commitments/ nextSequenceSend/ *)
  st_clients : alist ctype;                        (* clients/{name}/clientState exists, with its type *)
  st_name : bytes;                                 (* "chainName" *)
  st_relayers : alist (list bytes * list bytes);   (* "relayers"{address} -> (chains, addresses), store order *)
  st_app : app }.

(** What one EVM call of the module into the packet contract does (CallPacket): the call itself may fail
    (revert, or another post-transaction hook fails) — then NOTHING persists (CallEVMWithData's branch) —
    otherwise the packet hook calls SendPacket for each PacketSent log, in order; the first failing SendPacket
    fails the whole call.  The Boolean of a send = whether SendPacket's own call of [setSequence] succeeds.
    [cb_ret] = the return data unpacked as (code, result, message) for onRecvPacket (None = unpack error). *)
Record cbres := mkCb {
  cb_fail : bool;
  cb_sends : list (packet * bool);
  cb_ret : option (N * bytes * bytes) }.

Inductive action :=
| ARecv (m : recv_msg) (cb : cbres)                          (* MsgRecvPacket *)
| AAck (m : ack_msg) (cb1 cb2 cb3 : cbres)                   (* MsgAcknowledgement: setAckStatus, sendPacketFeeToRelayer, OnAcknowledgePacket *)
| ASend (cb : cbres)                                         (* a user EVM transaction whose logs reach the packet hook *)
| AUpdateClient (name : bytes) (ok : bool)                   (* MsgUpdateClient: touches clients/{name}/ only *)
| ANextBlock
| ARegisterClient (name : bytes) (c : ctype) (ok : bool)     (* gov CreateClientProposal (ok = Initialize succeeded) *)
| AToggleClient (name : bytes) (c : ctype) (ok : bool)       (* gov ToggleClientProposal *)
| ARegisterRelayer (addr : bytes) (chains addrs : list bytes) (* gov RegisterRelayerProposal *)
| AUpgradeClient (name : bytes) (c : ctype) (ok : bool).     (* gov UpgradeClientProposal (ok = UpgradeState succeeded) *)

Definition kind_commit : N := 0.
Definition kind_ack : N := 1.

Definition receipt_value : bytes := [x01].                        (* []byte{byte(1)} *)
Definition msg_callback_failed : bytes := B "receive packet callback failed".
Definition msg_dst_not_found : bytes := B "dstChain not found".

Definition is_nil (b : bytes) : bool := match b with [] => true | _ => false end.

(** The external functions, as one record of oracle arguments of the model. *)
Record params := mkParams {
  (** host/keys.go *)
  receipt_key : bytes -> bytes -> N -> bytes;
  ack_key : bytes -> bytes -> N -> bytes;
  commitment_key : bytes -> bytes -> N -> bytes;
  nextseq_key : bytes -> bytes -> bytes;
  (** host.ClientIdentifierValidator (checked by the gov proposals' ValidateBasic) *)
  valid_name : bytes -> bool;
  (** Packet.ABIDecode: the struct as left by the call, and whether an error was returned *)
  decode : bytes -> packet * bool;
  abi_pack : packet -> option bytes;             (* Packet.ABIPack *)
  sha256 : bytes -> bytes;
  decode_ack : bytes -> option ackt;             (* Acknowledgement.ABIDecode *)
  pack_ack : ackt -> option bytes;               (* Acknowledgement.ABIPack *)
  (** ClientState.VerifyPacketCommitment / VerifyPacketAcknowledgement of the client stored under a name:
      environment (block time, that client's store), client name, client type, kind, proof height, proof,
      (src, dst, seq), value *)
  client_verify : N -> bytes -> ctype -> N -> height -> bytes -> bytes -> bytes -> N -> bytes -> bool;
  bech32_decode : bytes -> option bytes;         (* sdk.AccAddressFromBech32 *)
  equal_fold : bytes -> bytes -> bool }.         (* strings.EqualFold *)

Section Packet.
  Variable P : params.
  Local Notation receipt_key := (receipt_key P).
  Local Notation ack_key := (ack_key P).
  Local Notation commitment_key := (commitment_key P).
  Local Notation nextseq_key := (nextseq_key P).
  Local Notation valid_name := (valid_name P).
  Local Notation decode := (decode P).
  Local Notation abi_pack := (abi_pack P).
  Local Notation sha256 := (sha256 P).
  Local Notation decode_ack := (decode_ack P).
  Local Notation pack_ack := (pack_ack P).
  Local Notation client_verify := (client_verify P).
  Local Notation bech32_decode := (bech32_decode P).
  Local Notation equal_fold := (equal_fold P).

  Definition rkey (t : triple) := let '(s, d, q) := t in receipt_key s d q.
  Definition akey (t : triple) := let '(s, d, q) := t in ack_key s d q.
  Definition ckey (t : triple) := let '(s, d, q) := t in commitment_key s d q.

  (** *** state updates *)
  Definition set_kv (k v : bytes) (s : cstate) : cstate :=
    mkState (aset k v (st_store s)) (st_clients s) (st_name s) (st_relayers s) (st_app s).
  Definition del_kv (k : bytes) (s : cstate) : cstate :=
    mkState (adel k (st_store s)) (st_clients s) (st_name s) (st_relayers s) (st_app s).
  Definition add_log (e : event) (s : cstate) : cstate :=
    mkState (st_store s) (st_clients s) (st_name s) (st_relayers s)
            (mkApp (cseq (st_app s)) (log (st_app s) ++ [e])).
  Definition set_cseq (d : bytes) (n : N) (s : cstate) : cstate :=
    mkState (st_store s) (st_clients s) (st_name s) (st_relayers s)
            (mkApp (aset d n (cseq (st_app s))) (log (st_app s))).
  Definition set_clients (c : alist ctype) (s : cstate) : cstate :=
    mkState (st_store s) c (st_name s) (st_relayers s) (st_app s).
  Definition set_relayers (r : alist (list bytes * list bytes)) (s : cstate) : cstate :=
    mkState (st_store s) (st_clients s) (st_name s) r (st_app s).

  Definition sget (k : bytes) (s : cstate) : option bytes := aget k (st_store s).

  (** packet contract view getNextSequenceSend(dst) *)
  Definition cseq_view (s : cstate) (d : bytes) : N :=
    match aget d (cseq (st_app s)) with Some n => n | None => 1 end.

  (** *** keeper.go: GetNextSequenceSend (nil -> 1; sdk.BigEndianToUint64: empty -> 0, fewer than 8 bytes ->
      binary.BigEndian.Uint64 panics, otherwise the first 8 bytes) *)
  Definition next_seq (s : cstate) (src dst : bytes) : outcome N :=
    match sget (nextseq_key src dst) s with
    | None => Ok 1
    | Some [] => Ok 0
    | Some bz => if Nat.ltb (length bz) 8 then Panic else Ok (unbe (firstn 8 bz))
    end.

  (** *** types/packet.go: ValidateBasic *)
  Definition validate_basic (p : packet) : bool :=
    negb (is_nil (p_src p)) && negb (is_nil (p_dst p)) && negb (bytes_eqb (p_src p) (p_dst p))
    && negb (p_seq p =? 0) && negb (is_nil (p_cdata p) && is_nil (p_tdata p)).

  (** *** keeper.go: ValidatePacket *)
  Definition validate_packet (s : cstate) (p : packet) : bool :=
    validate_basic p &&
    negb (negb (bytes_eqb (p_dst p) (st_name s)) && negb (bytes_eqb (p_src p) (st_name s))).

  (** *** packet.go: SendPacket.  [setseq_ok]: outcome of CallPacket(ctx, "setSequence", dst, next+1). *)
  Definition send_packet (s : cstate) (p : packet) (setseq_ok : bool) : outcome cstate :=
    if negb (validate_basic p) then Err else
    if negb (bytes_eqb (p_src p) (st_name s)) then Err else
    match aget (p_dst p) (st_clients s) with
    | None => Err
    | Some _ =>
        nxt <- next_seq s (p_src p) (p_dst p) ;;
        if negb (p_seq p =? nxt) then Err else
        match abi_pack p with
        | None => Err
        | Some bz =>
            let nxt' := add64 nxt 1 in
            let s1 := set_kv (nextseq_key (p_src p) (p_dst p)) (be64 nxt') s in
            if negb setseq_ok then Err else
            let s2 := add_log (EvSetSeq (p_dst p) nxt') (set_cseq (p_dst p) nxt' s1) in
            let s3 := set_kv (commitment_key (p_src p) (p_dst p) (p_seq p)) (sha256 bz) s2 in
            Ok (add_log (EvSent p) s3)
        end
    end.

  (** evm_hooks.go: PostTxProcessing — SendPacket for every PacketSent log, first error aborts *)
  Fixpoint hook_sends (s : cstate) (l : list (packet * bool)) : outcome cstate :=
    match l with
    | [] => Ok s
    | (p, ok) :: l' => s' <- send_packet s p ok ;; hook_sends s' l'
    end.

  (** evm.go: CallPacket -> CallEVMWithData: message + hooks on a branch, committed only if both succeed;
      [e] is the ghost record of the call's contract-side effect. *)
  Definition call_packet (s : cstate) (e : event) (cb : cbres) : outcome cstate :=
    if cb_fail cb then Err else hook_sends (add_log e s) (cb_sends cb).

  (** *** packet.go: RecvPacket (keeper) *)
  Definition recv_keeper (env : N) (s : cstate) (m : recv_msg) : outcome cstate :=
    let '(p, err) := decode (rm_packet m) in
    if err && (p_seq p =? 0) then Err else
    if negb (validate_packet s p) then Err else
    match sget (receipt_key (p_src p) (p_dst p) (p_seq p)) s with
    | Some _ => Err
    | None =>
        match aget (p_src p) (st_clients s) with
        | None => Err
        | Some ct =>
            match abi_pack p with
            | None => Err
            | Some bz =>
                let commitment := sha256 bz in
                let proof := if is_tss ct then rm_signer m else rm_proof m in
                if negb (client_verify env (p_src p) ct kind_commit (rm_height m) proof
                                       (p_src p) (p_dst p) (p_seq p) commitment) then Err else
                let s1 := set_kv (receipt_key (p_src p) (p_dst p) (p_seq p)) receipt_value s in
                match aget (p_dst p) (st_clients s1) with
                | Some _ =>
                    if negb (bytes_eqb (p_dst p) (st_name s1))
                    then Ok (set_kv (commitment_key (p_src p) (p_dst p) (p_seq p)) commitment s1)
                    else Ok s1
                | None => Ok s1
                end
            end
        end
    end.

  (** *** packet.go: WriteAcknowledgement *)
  Definition write_ack (s : cstate) (p : packet) (ackbz : bytes) : outcome cstate :=
    if is_nil ackbz then Err else
    match sget (ack_key (p_src p) (p_dst p) (p_seq p)) s with
    | Some _ => Err
    | None =>
        match aget (p_src p) (st_clients s) with
        | None => Err
        | Some _ =>
            let h := sha256 ackbz in
            let s1 := add_log (EvAckWritten (triple_of p) h) (set_kv (ack_key (p_src p) (p_dst p) (p_seq p)) h s) in
            match abi_pack p with
            | None => Err
            | Some _ => Ok s1
            end
        end
    end.

  (** *** relayer.go *)
  Fixpoint find_chain (chain : bytes) (chains addrs : list bytes) : outcome (option bytes) :=
    match chains with
    | [] => Ok None
    | c :: chains' =>
        if bytes_eqb c chain
        then match addrs with a :: _ => Ok (Some a) | [] => Panic end   (* ir.Addresses[i] *)
        else find_chain chain chains' (tl addrs)
    end.

  (** GetRelayerAddressOnOtherChain *)
  Definition relayer_on_other_chain (s : cstate) (chain addr : bytes) : outcome (option bytes) :=
    match aget addr (st_relayers s) with
    | None => Ok None
    | Some (chains, addrs) => find_chain chain chains addrs
    end.

  (** GetRelayerAddressOnTeleport: all records in store order, all entries in order *)
  Fixpoint find_fold (chain addr : bytes) (chains addrs : list bytes) : outcome bool :=
    match chains with
    | [] => Ok false
    | c :: chains' =>
        if bytes_eqb c chain
        then match addrs with
             | a :: _ => if equal_fold a addr then Ok true else find_fold chain addr chains' (tl addrs)
             | [] => Panic
             end
        else find_fold chain addr chains' (tl addrs)
    end.

  Fixpoint relayer_on_teleport_in (rs : alist (list bytes * list bytes)) (chain addr : bytes) : outcome (option bytes) :=
    match rs with
    | [] => Ok None
    | (a, (chains, addrs)) :: rs' =>
        b <- find_fold chain addr chains addrs ;;
        if b then Ok (Some a) else relayer_on_teleport_in rs' chain addr
    end.

  Definition relayer_on_teleport (s : cstate) (chain addr : bytes) : outcome (option bytes) :=
    relayer_on_teleport_in (st_relayers s) chain addr.

  (** *** msg_server.go: RecvPacket *)
  Definition recv_handler (env : N) (s : cstate) (m : recv_msg) (cb : cbres) : outcome cstate :=
    s1 <- recv_keeper env s m ;;
    let '(p, err) := decode (rm_packet m) in
    if err then Err else
    orel <- relayer_on_other_chain s1 (p_src p) (rm_signer m) ;;
    match orel with
    | None => Err
    | Some relayer =>
        if bytes_eqb (p_dst p) (st_name s1) then
          match call_packet s1 (EvOnRecv p) cb with
          | Panic => Panic
          | Err =>
              match pack_ack (mkAck 1 [] msg_callback_failed relayer (p_fee p)) with
              | None => Err
              | Some bz => write_ack s1 p bz
              end
          | Ok s2 =>
              match cb_ret cb with
              | None => Err
              | Some (code, result, message) =>
                  let s3 := if code =? 0 then s2 else s1 in
                  match pack_ack (mkAck code result message relayer (p_fee p)) with
                  | None => Err
                  | Some bz => write_ack s3 p bz
                  end
              end
          end
        else
          match aget (p_dst p) (st_clients s1) with
          | None =>
              match pack_ack (mkAck 1 [] msg_dst_not_found relayer (p_fee p)) with
              | None => Err
              | Some bz => write_ack s1 p bz
              end
          | Some _ => Ok s1
          end
    end.

  (** *** packet.go: AcknowledgePacket.  [bytes.Equal(nil, x)] holds iff x is empty. *)
  Definition ack_keeper (env : N) (s : cstate) (m : ack_msg) : outcome cstate :=
    let '(p, err) := decode (am_packet m) in
    if err then Err else
    if negb (validate_packet s p) then Err else
    let stored := match sget (commitment_key (p_src p) (p_dst p) (p_seq p)) s with Some c => c | None => [] end in
    match abi_pack p with
    | None => Err
    | Some bz =>
        if negb (bytes_eqb stored (sha256 bz)) then Err else
        match aget (p_dst p) (st_clients s) with
        | None => Err
        | Some ct =>
            let ackc := sha256 (am_ack m) in
            let proof := if is_tss ct then am_signer m else am_proof m in
            if negb (client_verify env (p_dst p) ct kind_ack (am_height m) proof
                                   (p_src p) (p_dst p) (p_seq p) ackc) then Err else
            let s1 := del_kv (commitment_key (p_src p) (p_dst p) (p_seq p)) s in
            if negb (bytes_eqb (p_src p) (st_name s1)) then
              match aget (p_src p) (st_clients s1) with
              | None => Err
              | Some _ =>
                  Ok (add_log (EvRelayAck (triple_of p) ackc)
                        (set_kv (ack_key (p_src p) (p_dst p) (p_seq p)) ackc s1))
              end
            else Ok s1
        end
    end.

  (** len(ack.String()) == 0: every field has its zero value *)
  Definition ack_empty (a : ackt) : bool :=
    (a_code a =? 0) && is_nil (a_result a) && is_nil (a_message a) && is_nil (a_relayer a) && (a_fee a =? 0).

  (** *** msg_server.go: Acknowledgement *)
  Definition ack_handler (env : N) (s : cstate) (m : ack_msg) (cb1 cb2 cb3 : cbres) : outcome cstate :=
    s1 <- ack_keeper env s m ;;
    let '(p, err) := decode (am_packet m) in
    if err then Err else
    match decode_ack (am_ack m) with
    | None => Err
    | Some a =>
        if ack_empty a then Err else
        if bytes_eqb (p_src p) (st_name s1) then
          s2 <- call_packet s1 (EvAckStatus (p_dst p) (p_seq p) (if a_code a =? 0 then 1 else 2)) cb1 ;;
          orel <- relayer_on_teleport s2 (p_dst p) (a_relayer a) ;;
          match orel with
          | None => Err
          | Some r =>
              match bech32_decode r with
              | None => Err
              | Some addr =>
                  s3 <- call_packet s2 (EvFee (p_dst p) (p_seq p) addr) cb2 ;;
                  call_packet s3 (EvOnAck p a) cb3
              end
          end
        else Ok s1
    end.

  (** *** everything else *)
  (** proposal.go HandleCreateClient at HEAD (fix a9e74e1): a client under the chain's OWN name is refused *)
  Definition register_client (s : cstate) (name : bytes) (c : ctype) (ok : bool) : outcome cstate :=
    if negb (valid_name name) then Err else         (* CreateClientProposal.ValidateBasic *)
    if bytes_eqb name (st_name s) then Err else     (* p.ChainName == GetChainName(ctx) *)
    match aget name (st_clients s) with
    | Some _ => Err                                   (* ErrClientExists *)
    | None => if ok then Ok (set_clients (aset name c (st_clients s)) s) else Err
    end.

  (** the same handler BEFORE fix a9e74e1 (kept for Refuted/C04_selfclient.v, Refuted/C05_selfclient.v) *)
  Definition register_client_prefix (s : cstate) (name : bytes) (c : ctype) (ok : bool) : outcome cstate :=
    if negb (valid_name name) then Err else
    match aget name (st_clients s) with
    | Some _ => Err
    | None => if ok then Ok (set_clients (aset name c (st_clients s)) s) else Err
    end.

  (** client.go UpgradeClient (gov UpgradeClientProposal): needs an EXISTING client of the SAME type; the client
      table (name -> type) is unchanged, only that client's own store is rewritten *)
  Definition upgrade_client (s : cstate) (name : bytes) (c : ctype) (ok : bool) : outcome cstate :=
    if negb (valid_name name) then Err else
    match aget name (st_clients s) with
    | None => Err
    | Some c0 => if c0 =? c then (if ok then Ok s else Err) else Err
    end.

  Definition toggle_client (s : cstate) (name : bytes) (c : ctype) (ok : bool) : outcome cstate :=
    if negb (valid_name name) then Err else
    match aget name (st_clients s) with
    | None => Err
    | Some c0 => if c0 =? c then Err else if ok then Ok (set_clients (aset name c (st_clients s)) s) else Err
    end.

  (** One message / transaction.  [env] = everything outside this model that verification may depend on
      (block time, the light clients' own stores); it is an input of every operation. *)
  Definition exec (env : N) (s : cstate) (a : action) : outcome cstate :=
    match a with
    | ARecv m cb => recv_handler env s m cb
    | AAck m cb1 cb2 cb3 => ack_handler env s m cb1 cb2 cb3
    | ASend cb => if cb_fail cb then Err else hook_sends s (cb_sends cb)
    | AUpdateClient _ ok => if ok then Ok s else Err
    | ANextBlock => Ok s
    | ARegisterClient name c ok => register_client s name c ok
    | AToggleClient name c ok => toggle_client s name c ok
    | ARegisterRelayer addr chains addrs => Ok (set_relayers (aset addr (chains, addrs) (st_relayers s)) s)
    | AUpgradeClient name c ok => upgrade_client s name c ok
    end.

  (** the chain BEFORE fix a9e74e1: only the client-creating proposal differs *)
  Definition exec_prefix (env : N) (s : cstate) (a : action) : outcome cstate :=
    match a with
    | ARegisterClient name c ok => register_client_prefix s name c ok
    | _ => exec env s a
    end.

  (** *** types/msgs.go: MsgRecvPacket.ValidateBasic / MsgAcknowledgement.ValidateBasic — the stateless checks BaseApp
      runs (validateBasicTxMsgs) before any handler: non-zero proof height (Height.IsZero: both components 0), signer
      a bech32 account address, packet bytes decode without error, Packet.ValidateBasic; acknowledgement bytes
      non-empty. *)
  Definition height_zero (h : height) : bool := (fst h =? 0) && (snd h =? 0).

  Definition msg_basic (a : action) : bool :=
    match a with
    | ARecv m _ =>
        negb (height_zero (rm_height m)) &&
        match bech32_decode (rm_signer m) with Some _ => true | None => false end &&
        (let '(p, err) := decode (rm_packet m) in negb err && validate_basic p)
    | AAck m _ _ _ =>
        negb (height_zero (am_height m)) && negb (is_nil (am_ack m)) &&
        match bech32_decode (am_signer m) with Some _ => true | None => false end &&
        (let '(p, err) := decode (am_packet m) in negb err && validate_basic p)
    | _ => true
    end.

  (** one delivered message: stateless validation, then the handler *)
  Definition deliver (env : N) (s : cstate) (a : action) : outcome cstate :=
    if msg_basic a then exec env s a else Err.

  (** BaseApp.runMsgs / ethermint ApplyTransaction: an error or a (recovered) panic leaves the state unchanged. *)
  Definition op := (N * action)%type.

  Definition step (s : cstate) (o : op) : cstate * bool :=
    match deliver (fst o) s (snd o) with
    | Ok s' => (s', true)
    | _ => (s, false)
    end.

  Fixpoint run (s : cstate) (l : list op) : cstate :=
    match l with
    | [] => s
    | o :: l' => run (fst (step s o)) l'
    end.

  Definition step_prefix (s : cstate) (o : op) : cstate * bool :=
    match (if msg_basic (snd o) then exec_prefix (fst o) s (snd o) else Err) with
    | Ok s' => (s', true)
    | _ => (s, false)
    end.

  Fixpoint run_prefix (s : cstate) (l : list op) : cstate :=
    match l with
    | [] => s
    | o :: l' => run_prefix (fst (step_prefix s o)) l'
    end.
End Packet.
