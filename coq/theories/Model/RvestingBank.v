(** The part of the cosmos-sdk v0.45.2 bank keeper the C20 world model needs: an indexed family of accounts
    (0 = rvesting pool, 1 = fee collector, 2 = distribution module account, 3.. = everybody else), the stored
    total supply, [SendCoins] (x/bank/keeper/send.go: subUnlockedCoins / addCoins), [MintCoins] and [BurnCoins]
    (x/bank/keeper/keeper.go).  SDK code: specification taken from the library source, validated by the
    correspondence run (harness mode "world").  No proofs here. *)
From Teleport Require Import Base.Bytes Base.Outcome Model.Rvesting.
Local Open Scope Z_scope.

Definition accts := list balmap.

Definition A_POOL : nat := 0.
Definition A_FEE : nat := 1.
Definition A_DISTR : nat := 2.

Definition acct (a : accts) (i : nat) : balmap := nth i a [].

Fixpoint set_acct (a : accts) (i : nat) (m : balmap) : accts :=
  match i, a with
  | O, [] => [m]
  | O, _ :: t => m :: t
  | S i', [] => [] :: set_acct [] i' m
  | S i', x :: t => x :: set_acct t i' m
  end.

(** Sum of the balances of denomination [d] over all accounts. *)
Fixpoint sumd (a : accts) (d : bytes) : Z :=
  match a with
  | [] => 0
  | m :: t => get m d + sumd t d
  end.

(** sdk.Coins.IsValid (types/coin.go): non-empty lists must have valid denominations, strictly positive amounts,
    and be strictly sorted by denomination; the empty list is valid. *)
Fixpoint coins_sorted_from (low : bytes) (l : list (bytes * Z)) : bool :=
  match l with
  | [] => true
  | (d, a) :: t => valid_denom d && bytes_ltb low d && (0 <? a) && coins_sorted_from d t
  end.

Definition coins_is_valid (l : list (bytes * Z)) : bool :=
  match l with
  | [] => true
  | (d, a) :: t => valid_denom d && (0 <? a) && coins_sorted_from d t
  end.

Definition sub_coin (a : accts) (i : nat) (c : bytes * Z) : accts :=
  set_acct a i (upd (acct a i) (fst c) (get (acct a i) (fst c) - snd c)).
Definition add_coin (a : accts) (i : nat) (c : bytes * Z) : accts :=
  set_acct a i (upd (acct a i) (fst c) (get (acct a i) (fst c) + snd c)).

Definition sub_coins (a : accts) (i : nat) (l : list (bytes * Z)) : accts := fold_left (fun st c => sub_coin st i c) l a.
Definition add_coins (a : accts) (i : nat) (l : list (bytes * Z)) : accts := fold_left (fun st c => add_coin st i c) l a.

(** subUnlockedCoins: coin by coin, each checked against the balance as already reduced ([None] = insufficient
    funds; the partial writes are discarded with the caller's cache context / by the panic). *)
Fixpoint sub_checked (a : accts) (i : nat) (l : list (bytes * Z)) : option accts :=
  match l with
  | [] => Some a
  | c :: t => if snd c <=? get (acct a i) (fst c) then sub_checked (sub_coin a i c) i t else None
  end.

(** bank.SendCoins: [Err] leaves the caller to roll back (a transaction) or to panic (InitGenesis, AllocateTokens). *)
Definition bank_send (a : accts) (i j : nat) (l : list (bytes * Z)) : outcome accts :=
  if negb (coins_is_valid l) then Err
  else match sub_checked a i l with
       | Some a1 => Ok (add_coins a1 j l)
       | None => Err
       end.

(** Supply bookkeeping: one stored amount per denomination. *)
Definition sup_add (s : balmap) (l : list (bytes * Z)) : balmap := fold_left (fun st c => upd st (fst c) (get st (fst c) + snd c)) l s.
Definition sup_sub (s : balmap) (l : list (bytes * Z)) : balmap := fold_left (fun st c => upd st (fst c) (get st (fst c) - snd c)) l s.

(** bank.MintCoins(module i, l): the module account is credited and the supply increased (permission to mint is
    the caller's business: app.go's maccPerms, see [Model/RvestingCode.v]). *)
Definition bank_mint (a : accts) (s : balmap) (i : nat) (l : list (bytes * Z)) : outcome (accts * balmap) :=
  if negb (coins_is_valid l) then Err else Ok (add_coins a i l, sup_add s l).

(** bank.BurnCoins(module i, l). *)
Definition bank_burn (a : accts) (s : balmap) (i : nat) (l : list (bytes * Z)) : outcome (accts * balmap) :=
  if negb (coins_is_valid l) then Err
  else match sub_checked a i l with
       | Some a1 => Ok (a1, sup_sub s l)
       | None => Err
       end.

(** bank.GetAllBalances as a coin list: the positive balances (one entry per denomination). *)
Definition all_balances (m : balmap) : list (bytes * Z) :=
  flat_map (fun d => if 0 <? get m d then [(d, get m d)] else []) (distinct (map fst m)).
