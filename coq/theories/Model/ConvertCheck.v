(** Correspondence and monitor definitions for C11, evaluated by [vm_compute] on the histories the
    harness (harness/cmd/c11) ran on the real code.  No proofs here.

    [mismatches]        model (Model/Convert.v instantiated with the concrete tokens of Model/ConvertTokens.v)
                        versus implementation, step by step, on the complete observed state;
    [monitor_failures]  the property itself evaluated on the IMPLEMENTATION's observations only (it never calls
                        the model's flows): exact amount or nothing, gates, backing. *)
From Teleport Require Import Base.Bytes Base.Outcome Model.Convert Model.ConvertTokens.
Local Open Scope Z_scope.

(** * What the harness reports *)
Record tok_obs := {
  to_addr : Z;
  to_kind : Z;                  (* 1 deployed by the module, 2-5 see ConvertTokens *)
  to_contract : bool;           (* GetAccountWithoutBalance != nil && IsContract *)
  to_owner : Z;
  to_total : option Z;          (* totalSupply() as reported *)
  to_bals : list (option Z);    (* balanceOf(a) as reported, one per tracked address *)
  to_allow : list ((Z * Z) * Z);(* kinds 1-2: allowance(owner, spender) as reported, for every pair an approval
                                   was ever attempted on in this history *)
  to_ledger : list Z;           (* kind 5: raw storage slot of each tracked address *)
  to_cfg : list Z               (* kind 5: storage slots 0..9 *)
}.

Record obs := {
  o_params : bool; o_evm_call : bool; o_send_default : bool; o_send : list (bytes * bool);
  o_addrs : list Z;             (* tracked addresses *)
  o_exists : list bool;         (* ... has an auth account *)
  o_blocked : list bool;        (* ... bank BlockedAddr *)
  o_bank : bmap;                (* every balance in the bank store *)
  o_supply : smap;              (* every supply entry *)
  o_pairs : list (bytes * pair);(* raw prefix 1 *)
  o_erc20 : list (Z * bytes);   (* raw prefix 2 *)
  o_denom : list (bytes * bytes);(* raw prefix 3 *)
  o_toks : list tok_obs
}.

Inductive sop :=
| SReload                                       (* set-up / governance step: the model adopts the observed state *)
| SMsg (m : msg)
| STokenCall (c caller : Z) (cl : call)
| SBankSend (from to : Z) (d : bytes) (a : Z)
| SHook (r : Z) (d : bytes) (a : Z)             (* Keeper.OnRecvPacket with a packet that decodes to receiver r (20
                                                   bytes), hook denomination d, amount a; class 0 = the hook reported
                                                   STATUS_SUCCESS, 1 = it returned otherwise, 2 = it panicked *)
| SNoop.                                        (* Keeper.OnRecvPacket with a packet it must drop before touching the
                                                   state: undecodable amount / receiver not 20 bytes *)

Record cstep := { cs_op : sop; cs_class : nat; cs_obs : obs }.
Record hist := { h_module : Z; h_init : obs; h_steps : list cstep }.

(** * Generic helpers *)
Fixpoint number {A} (i : nat) (l : list A) : list (nat * A) :=
  match l with [] => [] | x :: l' => (i, x) :: number (S i) l' end.

Fixpoint zip {A B} (a : list A) (b : list B) : list (A * B) :=
  match a, b with x :: a', y :: b' => (x, y) :: zip a' b' | _, _ => [] end.

Definition oz_eqb (a b : option Z) : bool :=
  match a, b with Some x, Some y => x =? y | None, None => true | _, _ => false end.

Fixpoint list_eqb {A} (e : A -> A -> bool) (a b : list A) : bool :=
  match a, b with
  | [], [] => true
  | x :: a', y :: b' => e x y && list_eqb e a' b'
  | _, _ => false
  end.

Definition pair_eqb (p q : pair) : bool :=
  bytes_eqb (p_id p) (p_id q) && (p_erc20 p =? p_erc20 q) && list_eqb bytes_eqb (p_denoms p) (p_denoms q)
  && Bool.eqb (p_enabled p) (p_enabled q) && (p_owner p =? p_owner q).

Definition opair_eqb (a b : option pair) : bool :=
  match a, b with Some p, Some q => pair_eqb p q | None, None => true | _, _ => false end.

(** equality of two association lists as maps (over the keys of both) *)
Definition amap_eqb {K V} (keqb : K -> K -> bool) (veqb : V -> V -> bool) (d : V) (m1 m2 : list (K * V)) : bool :=
  forallb (fun k => veqb (aget keqb d m1 k) (aget keqb d m2 k)) (map fst m1 ++ map fst m2).

Definition index_of (a : Z) (l : list Z) : option nat :=
  (fix go (i : nat) (l : list Z) := match l with [] => None | x :: l' => if x =? a then Some i else go (S i) l' end) 0%nat l.

Definition nth_oz (l : list (option Z)) (i : nat) : option Z := nth i l None.

(** * From an observation to a model state *)
Definition select {A} (l : list A) (f : list bool) : list A :=
  map fst (filter snd (zip l f)).

Definition bal_map (addrs : list Z) (bals : list (option Z)) : zmap :=
  flat_map (fun ab => match snd ab with Some v => [(fst ab, v)] | None => [] end) (zip addrs bals).

Definition std_of (o : obs) (t : tok_obs) : std_token :=
  {| st_bal := bal_map (o_addrs o) (to_bals t); st_total := match to_total t with Some v => v | None => 0 end;
     st_allow := to_allow t |}.

Definition etoken_of (o : obs) (t : tok_obs) : etoken :=
  {| et_kind := to_kind t; et_owner := to_owner t; et_alive := to_contract t;
     et_std := std_of o t;
     et_store := zip (o_addrs o) (to_ledger t) ++ zip [0;1;2;3;4;5;6;7;8;9] (to_cfg t) |}.

Definition state_of (o : obs) : state xstate :=
  {| s_params := o_params o; s_evm_call := o_evm_call o;
     s_pairs := o_pairs o; s_erc20 := o_erc20 o; s_denom := o_denom o;
     s_bank := o_bank o; s_supply := o_supply o;
     s_blocked := select (o_addrs o) (o_blocked o);
     s_send_default := o_send_default o; s_send := o_send o;
     s_accts := select (o_addrs o) (o_exists o);
     s_mtok := flat_map (fun t => if to_kind t =? 1 then [(to_addr t, std_of o t)] else []) (o_toks o);
     s_ext := flat_map (fun t => if to_kind t =? 1 then [] else [(to_addr t, etoken_of o t)]) (o_toks o) |}.

(** * Model versus implementation *)
(** what the model predicts a view call (from the module, on a discarded branch, calls enabled) returns *)
Definition model_view (MODULE : Z) (s : state xstate) (c : Z) (cl : call) : option Z :=
  let s1 := set_flags s (s_params s) true (s_send_default s) (s_send s) in
  let '(_, r) := evm_call xcall0 MODULE s1 c MODULE cl in
  if cr_ok r then cr_ret r else None.

Definition tok_matches (MODULE : Z) (s : state xstate) (o : obs) (t : tok_obs) : bool :=
  let c := to_addr t in
  (* reported balances *)
  forallb (fun ab => oz_eqb (model_view MODULE s c (CBalanceOf (fst ab))) (snd ab)) (zip (o_addrs o) (to_bals t))
  && Bool.eqb (is_contract xcontract0 s c) (to_contract t)
  && (if to_kind t =? 1 then
        match find_mtok s c with
        | Some m => oz_eqb (Some (st_total m)) (to_total t)
                    && forallb (fun kv => alget (st_allow m) (fst (fst kv)) (snd (fst kv)) =? snd kv) (to_allow t)
        | None => false
        end
      else
        match afind Z.eqb (s_ext s) c with
        | None => false
        | Some e =>
            if to_kind t =? 5
            then forallb (fun av => zget (et_store e) (fst av) =? snd av)
                         (zip (o_addrs o) (to_ledger t) ++ zip [0;1;2;3;4;5;6;7;8;9] (to_cfg t))
            else if to_contract t then
                   oz_eqb (Some (st_total (et_std e))) (to_total t)
                   && forallb (fun kv => alget (st_allow (et_std e)) (fst (fst kv)) (snd (fst kv)) =? snd kv) (to_allow t)
                 else true
        end).

(** kinds: 2 flags, 3 registry, 4 bank, 5 supply, 6 accounts, 7 tokens *)
Definition state_mismatch (MODULE : Z) (s : state xstate) (o : obs) : list nat :=
  (if Bool.eqb (s_params s) (o_params o) && Bool.eqb (s_evm_call s) (o_evm_call o)
      && Bool.eqb (s_send_default s) (o_send_default o)
      && amap_eqb bytes_eqb Bool.eqb (s_send_default s) (s_send s) (o_send o) then [] else [2%nat])
  ++ (if amap_eqb bytes_eqb opair_eqb None (map (fun kp => (fst kp, Some (snd kp))) (s_pairs s))
                                           (map (fun kp => (fst kp, Some (snd kp))) (o_pairs o))
         && amap_eqb Z.eqb bytes_eqb [] (s_erc20 s) (o_erc20 o)
         && amap_eqb bytes_eqb bytes_eqb [] (s_denom s) (o_denom o) then [] else [3%nat])
  ++ (if amap_eqb bkey_eqb Z.eqb 0 (s_bank s) (o_bank o) then [] else [4%nat])
  ++ (if amap_eqb bytes_eqb Z.eqb 0 (s_supply s) (o_supply o) then [] else [5%nat])
  ++ (if forallb (fun ae => Bool.eqb (zmem (fst ae) (s_accts s)) (snd ae)) (zip (o_addrs o) (o_exists o))
      then [] else [6%nat])
  ++ (if forallb (tok_matches MODULE s o) (o_toks o) then [] else [7%nat]).

Definition model_step (MODULE : Z) (s : state xstate) (op : sop) (o : obs) : state xstate * nat :=
  match op with
  | SReload => (state_of o, 9%nat)
  | SMsg m => deliver xcall0 xcontract0 MODULE s m
  | STokenCall c caller cl => token_call xcall0 MODULE s c caller cl
  | SBankSend f t d a => bank_send s f t d a
  | SHook r d a => hook_recv xcall0 xcontract0 MODULE s r d a
  | SNoop => (s, 1%nat)
  end.

Fixpoint cmp_steps (MODULE : Z) (i : nat) (s : state xstate) (l : list cstep) : list (nat * nat) :=
  match l with
  | [] => []
  | c :: l' =>
      let '(s', cls) := model_step MODULE s (cs_op c) (cs_obs c) in
      match cs_op c with
      | SReload => cmp_steps MODULE (S i) s' l'
      | _ =>
          if negb (Nat.eqb cls (cs_class c)) then [(i, 1%nat)] else
          match state_mismatch MODULE s' (cs_obs c) with
          | [] => cmp_steps MODULE (S i) s' l'
          | k :: _ => [(i, k)]
          end
      end
  end.

Definition cmp_hist (h : hist) : list (nat * nat) :=
  (* the state reconstructed from an observation must itself match that observation (self-check of state_of) *)
  match state_mismatch (h_module h) (state_of (h_init h)) (h_init h) with
  | k :: _ => [(0%nat, (100 + k)%nat)]
  | [] => cmp_steps (h_module h) 0 (state_of (h_init h)) (h_steps h)
  end.

Definition mismatches (hs : list hist) : list (nat * (nat * nat)) :=
  flat_map (fun ih => map (fun m => (fst ih, m)) (cmp_hist (snd ih))) (number 0 hs).

(** * Monitors (implementation trace only) *)
Definition tok_obs_eqb (a b : tok_obs) : bool :=
  (to_addr a =? to_addr b) && (to_kind a =? to_kind b) && Bool.eqb (to_contract a) (to_contract b)
  && oz_eqb (to_total a) (to_total b) && list_eqb oz_eqb (to_bals a) (to_bals b)
  (* allowances: the list of observed (owner, spender) pairs grows during a history; equal on the pairs both list *)
  && forallb (fun kv => match afind akey_eqb (to_allow b) (fst kv) with Some v => v =? snd kv | None => true end) (to_allow a)
  && list_eqb Z.eqb (to_ledger a) (to_ledger b) && list_eqb Z.eqb (to_cfg a) (to_cfg b).

Definition registry_eqb (o o' : obs) : bool :=
  list_eqb (fun a b => bytes_eqb (fst a) (fst b) && pair_eqb (snd a) (snd b)) (o_pairs o) (o_pairs o')
  && list_eqb (fun a b => (fst a =? fst b) && bytes_eqb (snd a) (snd b)) (o_erc20 o) (o_erc20 o')
  && list_eqb (fun a b => bytes_eqb (fst a) (fst b) && bytes_eqb (snd a) (snd b)) (o_denom o) (o_denom o').

Definition flags_eqb (o o' : obs) : bool :=
  Bool.eqb (o_params o) (o_params o') && Bool.eqb (o_evm_call o) (o_evm_call o')
  && Bool.eqb (o_send_default o) (o_send_default o')
  && list_eqb (fun a b => bytes_eqb (fst a) (fst b) && Bool.eqb (snd a) (snd b)) (o_send o) (o_send o').

Definition bank_eqb (o o' : obs) : bool := amap_eqb bkey_eqb Z.eqb 0 (o_bank o) (o_bank o').
Definition supply_eqb (o o' : obs) : bool := amap_eqb bytes_eqb Z.eqb 0 (o_supply o) (o_supply o').

Definition obs_eqb (o o' : obs) : bool :=
  flags_eqb o o' && registry_eqb o o' && bank_eqb o o' && supply_eqb o o'
  && list_eqb Bool.eqb (o_exists o) (o_exists o') && list_eqb tok_obs_eqb (o_toks o) (o_toks o').

Definition bmem (d : bytes) (l : list bytes) : bool := existsb (bytes_eqb d) l.

(** the pairs of the registry that list denomination [d] (specification-level resolution: by scanning the
    pairs, not through the index the code uses) *)
Definition pairs_listing (o : obs) (d : bytes) : list pair :=
  map snd (filter (fun kp => bmem d (p_denoms (snd kp))) (o_pairs o)).

Definition find_tok (o : obs) (c : Z) : option tok_obs :=
  find (fun t => to_addr t =? c) (o_toks o).

Definition flag_of (o : obs) (f : obs -> list bool) (a : Z) : bool :=
  match index_of a (o_addrs o) with Some i => nth i (f o) false | None => false end.

Definition reported (o : obs) (t : tok_obs) (a : Z) : option Z :=
  match index_of a (o_addrs o) with Some i => nth_oz (to_bals t) i | None => None end.

(** bank after = bank before + deltas (deltas applied in order to the observed map) *)
Definition bank_apply (deltas : list ((Z * bytes) * Z)) (b : bmap) : bmap :=
  fold_left (fun m kd => bset m (fst (fst kd)) (snd (fst kd)) (bget m (fst (fst kd)) (snd (fst kd)) + snd kd)) deltas b.
Definition bank_delta_ok_m (b b' : bmap) (deltas : list ((Z * bytes) * Z)) : bool :=
  amap_eqb bkey_eqb Z.eqb 0 (bank_apply deltas b) b'.
Definition bank_delta_ok (o o' : obs) (deltas : list ((Z * bytes) * Z)) : bool :=
  bank_delta_ok_m (o_bank o) (o_bank o') deltas.

Definition supply_delta_ok_m (sp sp' : smap) (d : bytes) (dv : Z) : bool :=
  amap_eqb bytes_eqb Z.eqb 0 (sset sp d (sget sp d + dv)) sp'.
Definition supply_delta_ok (o o' : obs) (d : bytes) (dv : Z) : bool :=
  supply_delta_ok_m (o_supply o) (o_supply o') d dv.

(** the bank / supply deltas monitor kinds 28 / 29 require of a successful conversion of [a] coins of [d]
    (module-owned pair: escrow; external pair: supply) *)
Definition mon_bank_deltas (MODULE : Z) (is_cc modown : bool) (sender receiver : Z) (d : bytes) (a : Z)
  : list ((Z * bytes) * Z) :=
  if is_cc then ((sender, d), - a) :: (if modown then [((MODULE, d), a)] else [])
  else ((receiver, d), a) :: (if modown then [((MODULE, d), - a)] else []).
Definition mon_supply_delta (is_cc modown : bool) (a : Z) : Z := if modown then 0 else if is_cc then - a else a.

(** all tracked balances of a token equal except at [a], which moved by [dv]; total moved by [dt] *)
Definition tok_delta_ok (o : obs) (t t' : tok_obs) (a dv dt : Z) : bool :=
  forallb (fun x => match x with
                    | (ad, (Some v, Some v')) => if ad =? a then v' =? v + dv else v' =? v
                    | _ => false end)
          (zip (o_addrs o) (zip (to_bals t) (to_bals t')))
  && (length (to_bals t) =? length (to_bals t'))%nat
  && match to_total t, to_total t' with Some x, Some x' => x' =? x + dt | _, _ => false end.

Definition other_toks_same (o o' : obs) (c : Z) : bool :=
  list_eqb (fun t t' => if to_addr t =? c then to_addr t' =? c else tok_obs_eqb t t') (o_toks o) (o_toks o').

(** accounts: nothing disappears; only [who] may have been created *)
Definition exists_ok (o o' : obs) (who : Z) : bool :=
  forallb (fun x => match x with (ad, (e, e')) => if ad =? who then implb e e' else Bool.eqb e e' end)
          (zip (o_addrs o) (zip (o_exists o) (o_exists o')))
  && (length (o_exists o) =? length (o_exists o'))%nat.

(** registry after a self-destruct clean-up: exactly pair [p] and its index entries are gone *)
Definition registry_minus_ok (o o' : obs) (p : pair) : bool :=
  amap_eqb bytes_eqb opair_eqb None
     (map (fun kp => (fst kp, Some (snd kp))) (filter (fun kp => negb (bytes_eqb (fst kp) (p_id p))) (o_pairs o)))
     (map (fun kp => (fst kp, Some (snd kp))) (o_pairs o'))
  && amap_eqb Z.eqb bytes_eqb [] (filter (fun kv => negb (fst kv =? p_erc20 p)) (o_erc20 o)) (o_erc20 o')
  && amap_eqb bytes_eqb bytes_eqb [] (filter (fun kv => negb (bmem (fst kv) (p_denoms p))) (o_denom o)) (o_denom o').

(** ** Exact amount or nothing, and the gates.  Failure kinds:
    21 a failed message changed something         22 converted although the module is disabled
    23 converted although the pair is disabled     24 paid out to a blocked address
    25 converted to another address although sending the coin is disabled
    26 converted a denomination that no pair / several pairs list, or through the wrong contract
    27 self-destruct clean-up did more than deleting the pair
    28 bank balances did not move by exactly the amount      29 supply moved wrongly
    30 token balances did not move by exactly the amount     31 another token / registry / flags / accounts changed *)
Definition mon_msg (MODULE : Z) (o : obs) (m : msg) (cls : nat) (o' : obs) : list nat :=
  if negb (Nat.eqb cls 0) then (if obs_eqb o o' then [] else [21%nat]) else
  let '(d, a, sender, receiver, viacontract) :=
    match m with
    | MCC c => (cc_denom c, cc_amount c, cc_sender c, hex_to_addr (cc_receiver c), None)
    | MCE c => (ce_denom c, ce_amount c, hex_to_addr (ce_sender c), ce_receiver c, Some (hex_to_addr (ce_contract c)))
    end in
  if negb (o_params o) then [22%nat] else
  match pairs_listing o d with
  | [p] =>
      if match viacontract with Some c => negb (c =? p_erc20 p) | None => false end then [26%nat] else
      if negb (p_enabled p) then [23%nat] else
      if flag_of o o_blocked receiver then [24%nat] else
      if negb (sender =? receiver) && negb (aget bytes_eqb (o_send_default o) (o_send o) d) then [25%nat] else
      match find_tok o (p_erc20 p), find_tok o' (p_erc20 p) with
      | Some t, Some t' =>
          if negb (to_contract t) then
            (if bank_eqb o o' && supply_eqb o o' && list_eqb tok_obs_eqb (o_toks o) (o_toks o') && flags_eqb o o'
                && list_eqb Bool.eqb (o_exists o) (o_exists o') && registry_minus_ok o o' p then [] else [27%nat])
          else
          let modown := p_owner p =? 1 in
          let is_cc := match m with MCC _ => true | MCE _ => false end in
          (* bank *)
          (if bank_delta_ok o o' (mon_bank_deltas MODULE is_cc modown sender receiver d a) then [] else [28%nat])
          ++ (if supply_delta_ok o o' d (mon_supply_delta is_cc modown a) then [] else [29%nat])
          ++ (if (if is_cc
                  then (* the receiver's token balance grew by exactly a *)
                       if modown && (to_kind t =? 1) then tok_delta_ok o t t' receiver a a
                       else match reported o t receiver, reported o' t' receiver with
                            | Some v, Some v' => v' =? v + a | _, _ => false end
                  else if modown && (to_kind t =? 1) then tok_delta_ok o t t' sender (- a) (- a)
                       else (* the module's escrow grew by exactly a *)
                            match reported o t MODULE, reported o' t' MODULE with
                            | Some v, Some v' => v' =? v + a | _, _ => false end)
              then [] else [30%nat])
          ++ (if other_toks_same o o' (p_erc20 p) && registry_eqb o o' && flags_eqb o o'
                 && exists_ok o o' (if is_cc then MODULE else receiver) then [] else [31%nat])
      | _, _ => [26%nat]
      end
  | _ => [26%nat]
  end.

(** ** Backing, after every step.  41: a module-owned contract's supply exceeds the escrowed coins of its
    denominations; 42: the voucher supply of an external pair (listing only the voucher) exceeds the module's
    token balance. *)
Definition escrow_sum (MODULE : Z) (o : obs) (ds : list bytes) : Z :=
  fold_left (fun acc d => acc + bget (o_bank o) MODULE d) ds 0.

Definition mon_backing (MODULE : Z) (o : obs) : list nat :=
  flat_map (fun kp =>
    let p := snd kp in
    match find_tok o (p_erc20 p) with
    | None => []
    | Some t =>
        if negb (to_contract t) then [] else
        if (p_owner p =? 1) && (to_kind t =? 1) then
          match to_total t with
          | Some tot => if tot <=? escrow_sum MODULE o (p_denoms p) then [] else [41%nat]
          | None => [41%nat]
          end
        else if (p_owner p =? 2) && negb (to_kind t =? 1) then
          match p_denoms p with
          | [v] =>
              let mb := match reported o t MODULE with
                        | Some b => Some b
                        | None => match index_of MODULE (o_addrs o) with
                                  | Some i => nth_error (to_ledger t) i | None => None end
                        end in
              match mb with
              | Some b => if sget (o_supply o) v <=? b then [] else [42%nat]
              | None => []
              end
          | _ => []
          end
        else []
    end) (o_pairs o).

Fixpoint mon_steps (MODULE : Z) (i : nat) (backing_ok : bool) (o : obs) (l : list cstep) : list (nat * nat) :=
  match l with
  | [] => []
  | c :: l' =>
      let o' := cs_obs c in
      let e := match cs_op c with
               | SMsg m => mon_msg MODULE o m (cs_class c) o'
               | SHook r d a =>
                   (* all or nothing: reported success = exactly the conversion of [a] for the receiver (same
                      requirements as a successful MsgConvertCoin with sender = receiver = r); anything else =
                      nothing changed *)
                   if Nat.eqb (cs_class c) 0 then mon_msg MODULE o (MCC (hook_msg r d a)) 0 o'
                   else if obs_eqb o o' then [] else [21%nat]
               | SNoop => if obs_eqb o o' then [] else [21%nat]
               | SReload => []
               | _ => if negb (Nat.eqb (cs_class c) 0) && negb (obs_eqb o o') then [21%nat] else []
               end in
      let b := if backing_ok then mon_backing MODULE o' else [] in
      map (fun k => (i, k)) (e ++ b)
      ++ mon_steps MODULE (S i) (backing_ok && match b with [] => true | _ => false end) o' l'
  end.

Definition mon_hist (h : hist) : list (nat * nat) :=
  mon_steps (h_module h) 0 (match mon_backing (h_module h) (h_init h) with [] => true | _ => false end)
            (h_init h) (h_steps h).

Definition monitor_failures (hs : list hist) : list (nat * (nat * nat)) :=
  flat_map (fun ih => map (fun m => (fst ih, m)) (mon_hist (snd ih))) (number 0 hs).
