(** A small concrete instance of the BSC client model (toy oracles, 5 and 7
    validators) used by the non-vacuity examples of Props/C09.v and by the
    witnesses of Refuted/C09_refuted.v.  Definitions only. *)
From Teleport Require Import Base.Bytes Base.Outcome Model.Bsc.
Local Open Scope N_scope.

(** toy oracles: the hash of a header is a function of its number and state root, every header is
    sealed by the account it names as coinbase *)
Definition toy_hash (h : header) : bytes := to_hash (be64 (h_num h) ++ h_root h).
Definition toy_er (_ : N) (h : header) : option bytes := Some (h_coinbase h).

Definition addr (b : byte) : bytes := repeat b 20.
Definition vA := addr x0a. Definition vB := addr x0b. Definition vC := addr x0c. Definition vD := addr x0d.
Definition vE := addr x0e. Definition vF := addr x0f. Definition vG := addr x10.

Definition mk_header (num : N) (parent_hash : bytes) (coinbase : bytes) (difficulty : N) (vals : list bytes) : header :=
  {| h_rev := 0; h_num := num; h_parent := parent_hash; h_uncle := uncleHash; h_coinbase := coinbase;
     h_root := be64 (num + 77); h_txhash := zeros 32; h_receipt := zeros 32; h_bloom := zeros 256;
     h_diff := [match Byte.of_N difficulty with Some b => b | None => x00 end];
     h_gaslimit := 30000000; h_gasused := 21000; h_time := 1000 + 3 * (num mod 1000);
     h_extra := zeros 32 ++ List.concat vals ++ zeros 65; h_mix := zeros 32; h_nonce := zeros 8 |}.

Definition child (parent : header) (coinbase : bytes) (difficulty : N) : header :=
  mk_header (h_num parent + 1) (toy_hash parent) coinbase difficulty [].

(** ** five validators (limit 3: a sealer must not have sealed either of the last two blocks), created at height 0 *)
Definition vals5 := [vC; vA; vE; vB; vD].          (* unsorted on purpose: the turn goes by the sorted list *)
Definition g5 : header := mk_header 0 (zeros 32) vA 2 vals5.
Definition cs5 : cstate :=
  {| c_header := g5; c_chain := 56; c_epoch := 200; c_interval := 3; c_vals := vals5; c_contract := []; c_trust := 1000000000 |}.
Definition c5 : consstate := {| cs_time := h_time g5; cs_height := hheight g5; cs_root := h_root g5 |}.

Definition b1 := child g5 vB 2.            (* block 1: in turn is sorted[1] = B *)
Definition b2_same := child b1 vB 1.       (* block 2 by B again (out of turn) *)
Definition b2 := child b1 vC 2.            (* block 2: in turn C *)
Definition b3_recent := child b2 vB 1.     (* block 3 by B, which sealed block 1 *)
Definition b3 := child b2 vD 2.            (* block 3: in turn D *)
Definition b4 := child b3 vB 1.            (* block 4 by B: block 1 has left the window of the last two *)

(** ** seven validators (limit 4), created at height 1000, trusting period 12 seconds *)
Definition vals7 := [vA; vB; vC; vD; vE; vF; vG].
Definition g7 : header := mk_header 1000 (zeros 32) vA 1 vals7.
Definition cs7 : cstate :=
  {| c_header := g7; c_chain := 56; c_epoch := 200; c_interval := 3; c_vals := vals7; c_contract := []; c_trust := 12 |}.
Definition c7 : consstate := {| cs_time := h_time g7; cs_height := hheight g7; cs_root := h_root g7 |}.

Definition p1 := child g7 vB 1.            (* 1001 (time 1003): in turn sorted[1001 mod 7 = 0] = A *)
Definition p2 := child p1 vC 1.            (* 1002 (time 1006): in turn B *)
Definition p3_recent := child p2 vA 1.     (* 1003 by A, which sealed 1000 — one of the last three blocks *)
Definition p3 := child p2 vD 1.            (* 1003: in turn C *)

(** keeper-level update with the code before the repairs c10316e / 5f05f37 *)
Definition update_client_old (bt : N) (cs : cstate) (st : cstore) (h : header) : cstore * result cstate :=
  if negb (active bt cs st) then (st, RErr 109)
  else match check_header_and_update_old toy_hash toy_er bt cs st h with
       | (st', ROk (cs', c')) => (set_cons st' (hheight h) c', ROk cs')
       | (st', RErr k) => (st', RErr k)
       | (st', RPanic) => (st', RPanic)
       end.

(** ** three validators (limit 2) growing to eight (limit 5), epoch 4, created at height 8: the witness that the
    recent-signer window is the KEPT window when the set grows by more than two limit steps
    (Refuted/C09_refuted.v, [C09_window_without_kept_refuted]) *)
Definition vH := addr x11.
Definition vals3 := [vA; vB; vC].
Definition vals8 := [vA; vB; vC; vD; vE; vF; vG; vH].
Definition g3 : header := mk_header 8 (zeros 32) vA 1 vals3.
Definition cs3 : cstate :=
  {| c_header := g3; c_chain := 56; c_epoch := 4; c_interval := 3; c_vals := vals3; c_contract := []; c_trust := 1000000000 |}.
Definition c3 : consstate := {| cs_time := h_time g3; cs_height := hheight g3; cs_root := h_root g3 |}.
Definition w9 := child g3 vB 1.                                   (* 9: switch to the pending list (the same three) *)
Definition w10 := child w9 vC 1.                                  (* 10 sealed by C *)
Definition w11 := child w10 vA 1.                                 (* 11: the entry of 9 leaves the store *)
Definition w12 := mk_header 12 (toy_hash w11) vB 1 vals8.         (* 12: epoch header announcing eight validators; entry of 10 leaves *)
Definition w13 := child w12 vA 1.                                 (* 13: the eight come into force (13 mod 4 = 3/2), limit 5 *)
Definition w14 := child w13 vC 1.                                 (* 14 sealed by C again: 10 is one of the last four blocks *)
