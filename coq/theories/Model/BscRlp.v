(** The two hashes of the BSC client, opened up to their pre-images: what exactly the block hash and the
    seal hash of a header cover.  With this file the oracles of [Model.Bsc] ([hdr_hash], [ecrecover]) are no
    longer opaque functions of the header record: they are keccak256 / secp256k1 recovery (the remaining
    oracles) applied to the RLP byte strings defined here.

    Go sources modelled:
      x/xibc/clients/light-clients/bsc/types/header.go   Hash, ToBscHeader, sealHash, encodeSigHeader, ecrecover
      x/xibc/clients/light-clients/bsc/types/hashing.go  rlpHash (the error of rlp.Encode is DROPPED)
      x/xibc/clients/light-clients/bsc/types/bsc.go      BscHeader (field order), BytesToBloom, BytesToBlockNonce
    Library behaviour modelled (go-ethereum v1.10.16 rlp): a struct / []interface{} is the list of its fields, a
    byte slice or byte array a string, uint64 and *big.Int the string of the minimal big-endian bytes, a NEGATIVE
    *big.Int an error returned before anything is written.
    The RLP primitives and their lemmas are those of [Model.EvmProof] / [Proofs.EvmProofRlp] (C08). *)
From Teleport Require Import Base.Bytes Base.Outcome Model.Bsc.
From Teleport Require Model.EvmProof.
Local Open Scope N_scope.

Definition rlp_bytes (b : bytes) : bytes := EvmProof.rlp_string b.
(** uint64 (and a non-negative *big.Int below 2^256) *)
Definition rlp_uint (n : N) : bytes := EvmProof.rlp_string (EvmProof.be_min n).
(** [new(big.Int).SetBytes(b)] encoded: the bytes without their leading zeros *)
Definition rlp_bigbytes (b : bytes) : bytes := EvmProof.rlp_string (EvmProof.strip_zeros b).

(** the part of the extra data that is signed (everything but the 65-byte seal) and the seal *)
Definition extra_unsealed (e : bytes) : bytes := firstn (length e - 65) e.
Definition extra_seal (e : bytes) : bytes := skipn (length e - 65) e.

(** How one element of a hashed list is encoded, by its Go type *)
Inductive enc :=
| EBig (f : N -> header -> N)          (* a *big.Int argument (the chain id) *)
| EBytes (f : header -> bytes)         (* []byte, common.Hash, common.Address, Bloom, BlockNonce *)
| EUint (f : header -> N)              (* uint64; also Number = big.NewInt(int64(height)) while that is not negative *)
| EBigBytes (f : header -> bytes).     (* a *big.Int filled by SetBytes *)

Definition enc_item (chain : N) (h : header) (e : enc) : bytes :=
  match e with
  | EBig f => rlp_uint (f chain h)
  | EBytes f => rlp_bytes (f h)
  | EUint f => rlp_uint (f h)
  | EBigBytes f => rlp_bigbytes (f h)
  end.

Local Open Scope string_scope.

(** ** encodeSigHeader: the RAW fields as submitted (no BytesToHash normalisation), the difficulty as raw
    bytes, the chain id first; the revision number and the seal are not in it.
    The element names and their order are regenerated from header.go (Gen/BscConstsGen.v [bsc_seal_items]) and
    compared with this table by Proofs/BscGenTie.v. *)
Definition seal_schema : list (string * enc) :=
  [ ("chainId", EBig (fun c _ => c));
    ("ParentHash", EBytes h_parent); ("UncleHash", EBytes h_uncle); ("Coinbase", EBytes h_coinbase);
    ("Root", EBytes h_root); ("TxHash", EBytes h_txhash); ("ReceiptHash", EBytes h_receipt);
    ("Bloom", EBytes h_bloom); ("Difficulty", EBytes h_diff);
    ("Height.RevisionHeight", EUint h_num); ("GasLimit", EUint h_gaslimit); ("GasUsed", EUint h_gasused);
    ("Time", EUint h_time);
    ("Extra[:len(header.Extra)-65]", EBytes (fun h => extra_unsealed (h_extra h)));
    ("MixDigest", EBytes h_mix); ("Nonce", EBytes h_nonce) ].
Definition seal_items (chain : N) (h : header) : list bytes := map (fun e => enc_item chain h (snd e)) seal_schema.
Definition seal_rlp (chain : N) (h : header) : bytes := EvmProof.rlp_list (seal_items chain h).

(** ** Hash() = rlpHash(ToBscHeader()): the NORMALISED fields (32-byte hashes, 20-byte address, 256-byte bloom,
    8-byte nonce, the difficulty as a number), the whole extra data (seal included); the revision number is not
    in it.  [Number = big.NewInt(int64(height))] is negative from 2^63 on: rlp.Encode fails, rlpHash ignores the
    error and hashes NOTHING — every such header has the hash keccak256("").
    Field order, Go types and the filling expressions are regenerated from bsc.go / header.go
    (Gen/BscConstsGen.v [bsc_block_items]) and compared with this table by Proofs/BscGenTie.v. *)
Definition bloom256 (b : bytes) : bytes := zeros (256 - length b) ++ b.
Definition nonce8 (b : bytes) : bytes := zeros (8 - length b) ++ b.

Definition block_schema : list (string * string * string * enc) :=
  [ ("ParentHash", "common.Hash", "common.BytesToHash(h.ParentHash)", EBytes (fun h => to_hash (h_parent h)));
    ("UncleHash", "common.Hash", "common.BytesToHash(h.UncleHash)", EBytes (fun h => to_hash (h_uncle h)));
    ("Coinbase", "common.Address", "common.BytesToAddress(h.Coinbase)", EBytes (fun h => to_addr (h_coinbase h)));
    ("Root", "common.Hash", "common.BytesToHash(h.Root)", EBytes (fun h => to_hash (h_root h)));
    ("TxHash", "common.Hash", "common.BytesToHash(h.TxHash)", EBytes (fun h => to_hash (h_txhash h)));
    ("ReceiptHash", "common.Hash", "common.BytesToHash(h.ReceiptHash)", EBytes (fun h => to_hash (h_receipt h)));
    ("Bloom", "Bloom", "BytesToBloom(h.Bloom)", EBytes (fun h => bloom256 (h_bloom h)));
    ("Difficulty", "*big.Int", "big.SetBytes(h.Difficulty)", EBigBytes h_diff);
    ("Number", "*big.Int", "big.NewInt(int64(h.Height.RevisionHeight))", EUint h_num);
    ("GasLimit", "uint64", "h.GasLimit", EUint h_gaslimit);
    ("GasUsed", "uint64", "h.GasUsed", EUint h_gasused);
    ("Time", "uint64", "h.Time", EUint h_time);
    ("Extra", "[]byte", "h.Extra", EBytes h_extra);
    ("MixDigest", "common.Hash", "common.BytesToHash(h.MixDigest)", EBytes (fun h => to_hash (h_mix h)));
    ("Nonce", "BlockNonce", "BytesToBlockNonce(h.Nonce)", EBytes (fun h => nonce8 (h_nonce h))) ].
Definition block_items (h : header) : list bytes := map (fun e => enc_item 0 h (snd e)) block_schema.
Definition block_rlp (h : header) : bytes :=
  if (h_num h <? two63)%N then EvmProof.rlp_list (block_items h) else [].

Local Close Scope string_scope.

(** the two lists written out *)
Lemma seal_items_eq chain h : seal_items chain h =
  [ rlp_uint chain;
    rlp_bytes (h_parent h); rlp_bytes (h_uncle h); rlp_bytes (h_coinbase h); rlp_bytes (h_root h);
    rlp_bytes (h_txhash h); rlp_bytes (h_receipt h); rlp_bytes (h_bloom h); rlp_bytes (h_diff h);
    rlp_uint (h_num h); rlp_uint (h_gaslimit h); rlp_uint (h_gasused h); rlp_uint (h_time h);
    rlp_bytes (extra_unsealed (h_extra h)); rlp_bytes (h_mix h); rlp_bytes (h_nonce h) ].
Proof. reflexivity. Qed.

Lemma block_items_eq h : block_items h =
  [ rlp_bytes (to_hash (h_parent h)); rlp_bytes (to_hash (h_uncle h)); rlp_bytes (to_addr (h_coinbase h));
    rlp_bytes (to_hash (h_root h)); rlp_bytes (to_hash (h_txhash h)); rlp_bytes (to_hash (h_receipt h));
    rlp_bytes (bloom256 (h_bloom h)); rlp_bigbytes (h_diff h);
    rlp_uint (h_num h); rlp_uint (h_gaslimit h); rlp_uint (h_gasused h); rlp_uint (h_time h);
    rlp_bytes (h_extra h); rlp_bytes (to_hash (h_mix h)); rlp_bytes (nonce8 (h_nonce h)) ].
Proof. reflexivity. Qed.

Section Hashes.
  Variable keccak : bytes -> bytes.                       (* keccak256 *)
  Variable recover : bytes -> bytes -> option bytes.      (* digest -> 65-byte signature -> account (crypto.Ecrecover +
                                                             keccak of the public key); None = error *)
  (** the instances of the oracles of [Model.Bsc] *)
  Definition block_hash (h : header) : bytes := keccak (block_rlp h).
  Definition seal_hash (chain : N) (h : header) : bytes := keccak (seal_rlp chain h).
  Definition seal_recover (chain : N) (h : header) : option bytes :=
    if len (h_extra h) <? extraSeal then None
    else recover (seal_hash chain h) (extra_seal (h_extra h)).
End Hashes.

(** What the seal covers, as a value: two headers with the same [sealed_part] (and chain id) have the same seal
    pre-image, and conversely (Proofs/BscRlp.v). *)
Definition sealed_part (h : header) :=
  (h_parent h, h_uncle h, h_coinbase h, h_root h, h_txhash h, h_receipt h, h_bloom h, h_diff h,
   (h_num h, h_gaslimit h, h_gasused h, h_time h), extra_unsealed (h_extra h), h_mix h, h_nonce h).

(** What the block hash covers (for numbers below 2^63). *)
Definition hashed_part (h : header) :=
  (to_hash (h_parent h), to_hash (h_uncle h), to_addr (h_coinbase h), to_hash (h_root h), to_hash (h_txhash h),
   to_hash (h_receipt h), bloom256 (h_bloom h), EvmProof.strip_zeros (h_diff h),
   (h_num h, h_gaslimit h, h_gasused h, h_time h), h_extra h, to_hash (h_mix h), nonce8 (h_nonce h)).

(** Go value ranges: every uint64 field below 2^64 and the encodings shorter than 2^64 bytes *)
Definition enc_ranges (chain : N) (h : header) : Prop :=
  chain < two64 /\ h_num h < two64 /\ h_gaslimit h < two64 /\ h_gasused h < two64 /\ h_time h < two64 /\
  N.of_nat (length (List.concat (seal_items chain h))) < two64 /\
  N.of_nat (length (List.concat (block_items h))) < two64.
