(** C15, aggregate part: stateless validation of the eight aggregate proposals (exact) and the
    control-flow skeleton of their handlers down to every potential panic site.

    Everything the handlers read from other components - the parameter store, the bank keeper
    (supply, denomination metadata), the token-pair indexes, the EVM (contract deployment,
    [name()/symbol()/decimals()] queries, calls of the endpoint contract) - is an ORACLE: a field of
    [aenv].  The theorems of Proofs/HaltAgg.v hold for every oracle (every module state, every
    contract behaviour); the trusted assumption is that the oracles themselves return (ethermint's
    [ApplyMessage], go-ethereum's [abi.Pack]/[UnpackIntoInterface], the bank keeper and the stores do
    not panic on these arguments).

    Go sources: x/aggregate/types/proposal.go (ValidateBasic), x/aggregate/proposal_handler.go,
    x/aggregate/keeper/proposals.go, keeper/evm.go, keeper/token_pairs.go, types/token_pair.go
    (GetID), types/utils.go (EqualMetadata); cosmos-sdk x/bank/types/metadata.go (Metadata.Validate),
    ibc-go transfer/types/trace.go (ValidateIBCDenom), math/big (Int.SetString). *)
From Teleport Require Import Base.Bytes Base.Outcome Model.Rvesting Model.Halt.
Local Open Scope N_scope.

Record denom_unit := { du_denom : bytes; du_exp : N; du_aliases : list bytes }.
Record metadata := { md_name : bytes; md_symbol : bytes; md_base : bytes; md_display : bytes; md_units : list denom_unit }.

(** DenomUnit.Validate *)
Fixpoint aliases_ok (l : list bytes) (seen : list bytes) : bool :=
  match l with
  | [] => true
  | a :: t => negb (mem a seen) && negb (blank a) && aliases_ok t (a :: seen)
  end.
Definition unit_ok (u : denom_unit) : bool := valid_denom (du_denom u) && aliases_ok (du_aliases u) [].

(** The loop of bank Metadata.Validate; returns hasDisplay. *)
Fixpoint units_loop (base display : bytes) (first : bool) (cur : N) (seen : list bytes) (has_display : bool) (l : list denom_unit) : option bool :=
  match l with
  | [] => Some has_display
  | u :: t =>
      if first && (negb (bytes_eqb (du_denom u) base) || negb (du_exp u =? 0)) then None
      else if negb first && (du_exp u <=? cur) then None
      else if mem (du_denom u) seen then None
      else if negb (unit_ok u) then None
      else units_loop base display false (du_exp u) (du_denom u :: seen) (has_display || bytes_eqb (du_denom u) display) t
  end.

Definition metadata_ok (m : metadata) : bool :=
  negb (blank (md_name m)) && negb (blank (md_symbol m)) && valid_denom (md_base m) && valid_denom (md_display m)
  && match units_loop (md_base m) (md_display m) true 0 [] false (md_units m) with Some true => true | _ => false end.

(** strings.SplitN(s, "/", 2) *)
Fixpoint split_first_slash (s : bytes) (acc : bytes) : bytes * option bytes :=
  match s with
  | [] => (rev acc, None)
  | c :: t => if Byte.to_N c =? 47 then (rev acc, Some t) else split_first_slash t (c :: acc)
  end.

Definition ibc_prefix : bytes := B "ibc".

(** ibc-go transfer ValidateIBCDenom *)
Definition ibc_denom_ok (d : bytes) : bool :=
  valid_denom d &&
  match split_first_slash d [] with
  | (_, None) => negb (bytes_eqb d ibc_prefix)
  | (p, Some rest) =>
      if bytes_eqb p ibc_prefix then
        negb (blank rest) && forallb is_hex_digit rest && (lenN rest =? 64)
      else true
  end.

Fixpoint is_infix (p s : bytes) : bool :=
  is_prefix p s || match s with [] => false | _ :: t => is_infix p t end.

(** x/aggregate/types validateIBC *)
Definition validate_ibc (m : metadata) : bool :=
  match split_first_slash (md_base m) [] with
  | (_, None) => negb (blank (md_base m)) || false
  | (p, Some _) => bytes_eqb p ibc_prefix && is_infix (B "channel-") (md_name m) && is_prefix ibc_prefix (md_symbol m)
  end.

(** new(big.Int).SetString(s, 10): optional sign, then one or more ASCII digits, nothing else. *)
Definition parse_int (s : bytes) : option Z :=
  let (neg, body) := match s with
                     | c :: t => if Byte.to_N c =? 45 then (true, t) else if Byte.to_N c =? 43 then (false, t) else (false, s)
                     | [] => (false, s)
                     end in
  match body with
  | [] => None
  | _ => if forallb is_digit body then
           let v := Z.of_N (fold_left (fun acc c => acc * 10 + (Byte.to_N c - 48)) body 0) in
           Some (if neg then (- v)%Z else v)
         else None
  end.

Inductive aprop :=
| ARegisterCoin (title : bytes) (dlen : N) (md : metadata)
| AAddCoin (title : bytes) (dlen : N) (md : metadata) (contract : bytes)
| ARegisterERC20 (title : bytes) (dlen : N) (addr : bytes)
| AToggle (title : bytes) (dlen : N) (token : bytes)
| AUpdate (title : bytes) (dlen : N) (addr new_addr : bytes)
| ATrace (title : bytes) (dlen : N) (addr token chain : bytes) (scale : N)
| AEnableLimit (title : bytes) (dlen : N) (addr period limit max_amount min_amount : bytes)
| ADisableLimit (title : bytes) (dlen : N) (addr : bytes).

Definition limits_ok (period limit max_amount min_amount : bytes) : bool :=
  match parse_int period, parse_int min_amount, parse_int max_amount, parse_int limit with
  | Some p, Some mn, Some mx, Some l => ((0 <? p) && (0 <? mn) && (mn <? mx) && (mx <? l))%Z
  | _, _, _, _ => false
  end.

(** Content.ValidateBasic of the eight proposals (no Any inside: decoding cannot fail). *)
Definition aprop_validate (p : aprop) : outcome unit :=
  let ok (b : bool) : outcome unit := if b then Ok tt else Err in
  match p with
  | ARegisterCoin t d md => ok (metadata_ok md && ibc_denom_ok (md_base md) && validate_ibc md && abstract_ok t d)
  | AAddCoin t d md c => ok (metadata_ok md && ibc_denom_ok (md_base md) && validate_ibc md && is_hex_address c && abstract_ok t d)
  | ARegisterERC20 t d a => ok (is_hex_address a && abstract_ok t d)
  | AToggle t d tok => ok ((is_hex_address tok || valid_denom tok) && abstract_ok t d)
  | AUpdate t d a n => ok (is_hex_address a && is_hex_address n && abstract_ok t d)
  | ATrace t d a tok ch sc => ok (is_hex_address a && negb (blank tok) && negb (blank ch) && (sc <=? 18) && abstract_ok t d)
  | AEnableLimit t d a p l mx mn => ok (is_hex_address a && limits_ok p l mx mn && abstract_ok t d)
  | ADisableLimit t d a => ok (is_hex_address a && abstract_ok t d)
  end.

(** * Handlers *)

Record pair := { p_erc20 : bytes; p_denoms : list bytes }.

(** The oracles: the module / bank / EVM state the handlers read and what the EVM answers. *)
Record aenv := {
  e_enabled : bool;                                  (* params.EnableAggregate *)
  e_evm_denom : bytes;                               (* evm params *)
  e_denom_registered : bytes -> bool;                (* IsDenomRegistered *)
  e_erc20_registered : bytes -> bool;                (* IsERC20Registered *)
  e_has_supply : bytes -> bool;                      (* bank HasSupply *)
  e_bank_meta : bytes -> option metadata;            (* bank GetDenomMetaData *)
  e_meta_equal : bool;                               (* EqualMetadata's field comparisons *)
  e_pair_id : bytes -> option bytes;                 (* GetERC20Map / GetDenomMap / GetTokenPairID: nil or an id *)
  e_pair : bytes -> option pair;                     (* GetTokenPair by id *)
  e_id_same : bool;                                  (* AddCoin: bytes.Equal(id, pair.GetID()) *)
  e_abi_pack_ok : bool;                              (* abi.Pack *)
  e_evm_ok : bool;                                   (* CallEVMWithData: GetSequence, ApplyMessage, !res.Failed() *)
  e_query_erc20 : bytes -> option (bytes * bytes * N);  (* QueryERC20: name, symbol, decimals *)
  e_created_meta_ok : bool;                          (* CreateCoinMetadata: metadata.Validate() of the generated metadata *)
  e_update_matches : bool                            (* UpdateTokenPairERC20: metadata / ERC20 detail comparisons *)
}.

(** TokenPair.GetID: tp.Denoms[0] *)
Definition pair_id (p : pair) : outcome unit := match p_denoms p with [] => Panic | _ => Ok tt end.

(** keeper.SetTokenPair / DeleteTokenPair: both compute GetID first.  Returns the pair written. *)
Definition set_token_pair (p : pair) : outcome pair := _ <- pair_id p ;; Ok p.

Definition ok_if (b : bool) : outcome unit := if b then Ok tt else Err.

(** verifyMetadata -> EqualMetadata: [b.DenomUnits[i]] is guarded by the length comparison. *)
Definition verify_metadata (e : aenv) (md : metadata) : outcome unit :=
  match e_bank_meta e (md_base md) with
  | None => Ok tt
  | Some stored =>
      if e_meta_equal e then
        if negb (lenN (md_units stored) =? lenN (md_units md)) then Err
        else match md_units stored with [] => Ok tt | _ => Err (* pointers of distinct DenomUnit values differ *) end
      else Err
  end.

(** DeployERC20Contract: coinMetadata.DenomUnits[0] *)
Definition deploy_erc20 (e : aenv) (md : metadata) : outcome unit :=
  match md_units md with
  | [] => Panic
  | _ => _ <- ok_if (e_abi_pack_ok e) ;; ok_if (e_evm_ok e)
  end.

Definition register_coin_checks (e : aenv) (md : metadata) : outcome unit :=
  _ <- ok_if (e_enabled e) ;;
  _ <- ok_if (negb (is_hex_address (md_base md))) ;;
  _ <- ok_if (negb (bytes_eqb (md_base md) (e_evm_denom e))) ;;
  _ <- ok_if (negb (e_denom_registered e (md_base md))) ;;
  _ <- ok_if (e_has_supply e (md_base md)) ;;
  verify_metadata e md.

(** Each handler returns the token pairs it stored (for the state invariant). *)
Definition handle_aprop (e : aenv) (p : aprop) : outcome (list pair) :=
  match p with
  | ARegisterCoin _ _ md =>
      _ <- register_coin_checks e md ;;
      _ <- deploy_erc20 e md ;;
      w <- set_token_pair {| p_erc20 := []; p_denoms := [md_base md] |} ;;
      Ok [w]
  | AAddCoin _ _ md contract =>
      _ <- ok_if (is_hex_address contract) ;;
      _ <- register_coin_checks e md ;;
      match e_pair_id e contract with
      | None => Err                                  (* GetTokenPair(nil) -> not found *)
      | Some id =>
          match e_pair e id with
          | None => Err
          | Some pr =>
              let pr' := {| p_erc20 := p_erc20 pr; p_denoms := p_denoms pr ++ [md_base md] |} in
              _ <- pair_id pr' ;;
              _ <- ok_if (e_id_same e) ;;
              w <- set_token_pair pr' ;;
              _ <- pair_id pr' ;;
              Ok [w]
          end
      end
  | ARegisterERC20 _ _ addr =>
      _ <- ok_if (e_enabled e) ;;
      _ <- ok_if (negb (e_erc20_registered e addr)) ;;
      match e_query_erc20 e addr with
      | None => Err
      | Some (name, symbol, decimals) =>
          _ <- ok_if (match e_bank_meta e addr with None => true | Some _ => false end) ;;
          _ <- ok_if (negb (e_denom_registered e addr)) ;;
          _ <- ok_if (e_created_meta_ok e) ;;
          w <- set_token_pair {| p_erc20 := addr; p_denoms := [addr] |} ;;   (* Denoms = [metadata.Name] *)
          Ok [w]
      end
  | AToggle _ _ tok =>
      match e_pair_id e tok with
      | None => Err
      | Some id =>
          match e_pair e id with
          | None => Err
          | Some pr => w <- set_token_pair pr ;; Ok [w]
          end
      end
  | AUpdate _ _ addr new_addr =>
      match e_pair_id e addr with
      | None => Err
      | Some id =>
          _ <- ok_if (negb (e_erc20_registered e new_addr)) ;;
          match e_pair e id with
          | None => Err
          | Some pr =>
              match p_denoms pr with
              | [] => Panic                              (* pair.Denoms[0] *)
              | d0 :: _ =>
                  match e_bank_meta e d0 with
                  | None => Err
                  | Some stored =>
                      match md_units stored with
                      | [] => Err                        (* "safety check" *)
                      | _ =>
                          match e_query_erc20 e new_addr with
                          | None => Err
                          | Some _ =>
                              _ <- ok_if (e_update_matches e) ;;
                              _ <- pair_id pr ;;                                  (* DeleteTokenPair *)
                              w <- set_token_pair {| p_erc20 := new_addr; p_denoms := p_denoms pr |} ;;
                              Ok [w]
                          end
                      end
                  end
              end
          end
      end
  | ATrace _ _ _ _ _ _ => _ <- ok_if (e_abi_pack_ok e) ;; _ <- ok_if (e_evm_ok e) ;; Ok []
  | AEnableLimit _ _ _ period limit mx mn =>
      (* new(big.Int).SetString(...) results are passed to abi.Pack unchecked: a nil *big.Int is dereferenced *)
      match parse_int period, parse_int limit, parse_int mx, parse_int mn with
      | Some _, Some _, Some _, Some _ => _ <- ok_if (e_abi_pack_ok e) ;; _ <- ok_if (e_evm_ok e) ;; Ok []
      | _, _, _, _ => Panic
      end
  | ADisableLimit _ _ _ => _ <- ok_if (e_abi_pack_ok e) ;; _ <- ok_if (e_evm_ok e) ;; Ok []
  end.

(** State invariant: every stored token pair has at least one denomination. *)
Definition pair_wf (p : pair) : Prop := p_denoms p <> [].
Definition aenv_wf (e : aenv) : Prop := forall id p, e_pair e id = Some p -> pair_wf p.

(** * Correspondence cases *)
Record astep_obs := { ao_prop : option aprop (* None: parameter change *); ao_v : nat; ao_x : nat }.
Record acase := { ac_steps : list astep_obs }.

(** Kinds: 1 validation class differs, 4 executed although not validated.  The execution class of
    the aggregate handlers depends on the oracles and is checked by the monitor only. *)
Fixpoint cmp_asteps (i : nat) (l : list astep_obs) : list (nat * nat) :=
  match l with
  | [] => []
  | o :: l' =>
      match ao_prop o with
      | None => cmp_asteps (S i) l'
      | Some p =>
          let v := oclass (aprop_validate p) in
          if negb (Nat.eqb v (ao_v o)) then [(i, 1%nat)]
          else if negb (Nat.eqb v 0) && negb (Nat.eqb (ao_x o) 9) then [(i, 4%nat)]
          else cmp_asteps (S i) l'
      end
  end.
Definition cmp_acase (c : acase) : list (nat * nat) := cmp_asteps 0 (ac_steps c).
