(** Executable model of the XIBC client lifecycle (property C18).

    Go sources modelled (transcriptions; the Go function is cited at each definition):
      x/xibc/core/client/types/proposal.go     ValidateBasic of the Create/Upgrade/Toggle/RegisterRelayer proposals
      x/xibc/core/host/validate.go             ClientIdentifierValidator
      x/xibc/core/client/proposal_handler.go   NewClientProposalHandler (run by gov on a cache context, written on success)
      x/xibc/core/client/keeper/proposal.go    HandleCreateClient / HandleUpgradeClient / HandleToggleClient / HandleRegisterRelayer
      x/xibc/core/client/keeper/client.go      CreateClient, UpgradeClient, ToggleClient, UpdateClient
      x/xibc/core/client/keeper/relayer.go     RegisterRelayers, AuthRelayer
      x/xibc/keeper/msg_server.go              UpdateClient (AuthRelayer, CheckMsg)
      x/xibc/clients/light-clients/{tendermint,bsc,eth}/types/{client_state,update,store}.go and
      x/xibc/clients/tss-client/types/{client_state,update,header}.go:
        Initialize, UpgradeState, Status, the gates of VerifyPacketCommitment, and the STORE EFFECTS of
        CheckHeaderAndUpdateState (pruning, metadata, new client / consensus state).

    What is an oracle here (other properties model the inside): "the remaining header checks pass"
    ([hv]: Tendermint light.Verify + validator hashes; BSC gas limits, difficulty / in-turn; ETH EIP-1559,
    difficulty, future-time), [clientState.Validate()] of a proposal ([p_validate]), the header hashes, the
    BSC seal recovery ([eh_signer]) and validator parsing ([eh_vals]), "the honest proof verifies against
    this root" (root = the fixture root).  ETH forks ([RestrictChain], C10) are outside the modelled
    fragment: the model answers [Err] and [LifecycleCheck] flags any such case explicitly.

    Keys are structured ([ckey]); [LifecycleCheck.render_key] renders them with the REGENERATED key formats
    of Gen/KeysGen.v and the correspondence compares them with the raw keys of the real store.  The byte
    order of the big-endian height keys is the numeric order of (revision, height) < 2^64, which is what
    [first_cons] / [first_iter] (the iterators' first element) use.

    Code variants ([cfg]): the repaired behaviours are switches, so that the pinned behaviours stay
    available for Refuted/C18_*.v and so that repairs that have not landed yet are modelled as absent. *)
From Teleport Require Import Base.Bytes Base.Outcome Base.AList.
Local Open Scope N_scope.

(** * Basic data *)
Inductive ctype := TM | BSC | ETH | TSS.

Definition ctype_eqb (a b : ctype) : bool :=
  match a, b with TM, TM | BSC, BSC | ETH, ETH | TSS, TSS => true | _, _ => false end.

Definition ctype_code (t : ctype) : nat := match t with TM => 0 | BSC => 1 | ETH => 2 | TSS => 3 end.

(** clienttypes.Height: (revision number, revision height), both uint64 *)
Definition height := (N * N)%type.
Definition h_eqb (a b : height) : bool := (fst a =? fst b) && (snd a =? snd b).
(** Height.LT (Compare: revision numbers first) *)
Definition h_lt (a b : height) : bool := if fst a =? fst b then snd a <? snd b else fst a <? fst b.

Definition two64 : N := 18446744073709551616.
Definition add64 (a b : N) : N := (a + b) mod two64.
Definition sub64 (a b : N) : N := (a + two64 - b mod two64) mod two64.

(** common.BytesToHash: a byte string as a 32-byte hash — longer strings are cropped from the LEFT (the last 32 bytes
    are kept), shorter ones are left-padded with zeros *)
Definition hash32 (b : bytes) : bytes :=
  let n := length b in
  if (32 <? n)%nat then skipn (n - 32) b else repeat x00 (32 - n) ++ b.

Fixpoint bmem (x : bytes) (l : list bytes) : bool :=
  match l with [] => false | y :: l' => bytes_eqb x y || bmem x l' end.
Fixpoint bdistinct (l : list bytes) : list bytes :=
  match l with [] => [] | x :: l' => if bmem x l' then bdistinct l' else x :: bdistinct l' end.
Definition lenN {A} (l : list A) : N := N.of_nat (length l).

(** * Client store: keys and values *)
Inductive ckey :=
| KClient                              (* clientState *)
| KCons (h : height)                   (* consensusStates/{rev}{height} *)
| KPTime (h : height)                  (* consensusStates/{rev}{height}/processedTime      (Tendermint) *)
| KIter (h : height)                   (* iterateConsensusStates{rev}{height}              (Tendermint) *)
| KSigner (h : height)                 (* recentSingers/{rev}-{height}                     (BSC) *)
| KPending                             (* pendingValidators                                (BSC) *)
| KHIdx (hash : bytes) (n : N)         (* ethHeaderIndex/{hash}{height}                    (ETH) *)
| KRootMain (root : bytes) (n : N).    (* ethRootMain/{root}{height}                       (ETH) *)

Definition ckey_eqb (a b : ckey) : bool :=
  match a, b with
  | KClient, KClient | KPending, KPending => true
  | KCons x, KCons y | KPTime x, KPTime y | KIter x, KIter y | KSigner x, KSigner y => h_eqb x y
  | KHIdx x n, KHIdx y m | KRootMain x n, KRootMain y m => bytes_eqb x y && (n =? m)
  | _, _ => false
  end.

(** A consensus state of any of the four types: what the lifecycle reads (type, timestamp — ns for
    Tendermint, s for BSC/ETH —, root) and a digest of the full encoded state. *)
Record cons_state := { cs_type : ctype; cs_ts : N; cs_root : bytes; cs_dg : bytes }.

(** A BSC / ETH header: the fields the lifecycle reads and the oracle values computed by the real code
    (hash, recovered sealer, parsed validator list, digest of the consensus state an update creates). *)
Record evm_hdr := {
  eh_height : height; eh_hash : bytes; eh_parent : bytes; eh_root : bytes; eh_time : N; eh_dg : bytes;
  eh_coinbase : bytes; eh_signer : option bytes; eh_vals : option (list bytes); eh_cons_dg : bytes }.

Inductive client_state :=
| ClTm (latest : height) (trusting drift delay : N) (rest : bytes)            (* periods in ns *)
| ClBsc (hd : evm_hdr) (epoch : N) (vals : list bytes) (trusting : N) (rest : bytes)
| ClEth (hd : evm_hdr) (block_delay trusting : N) (rest : bytes)
| ClTss (addr : bytes) (rest : bytes).

Definition type_of (c : client_state) : ctype :=
  match c with ClTm _ _ _ _ _ => TM | ClBsc _ _ _ _ _ => BSC | ClEth _ _ _ _ => ETH | ClTss _ _ => TSS end.

(** GetLatestHeight *)
Definition latest_of (c : client_state) : height :=
  match c with
  | ClTm l _ _ _ _ => l
  | ClBsc hd _ _ _ _ => eh_height hd
  | ClEth hd _ _ _ => eh_height hd
  | ClTss _ _ => (0, 0)
  end.

Inductive value :=
| VClient (c : client_state)
| VCons (c : cons_state)
| VTime (t : N)                        (* processed time, ns *)
| VRefCons (h : height)                (* iteration key value: the consensus state key *)
| VAddr (a : bytes)                    (* recent signer *)
| VVals (l : list bytes)               (* pending validators *)
| VHeader (h : evm_hdr)                (* indexed ETH header *)
| VRefHIdx (hash : bytes) (n : N).     (* root-main value: the header index key *)

Definition cstore := list (ckey * value).

Fixpoint sget (k : ckey) (s : cstore) : option value :=
  match s with [] => None | (k', v) :: s' => if ckey_eqb k k' then Some v else sget k s' end.
Definition sdel (k : ckey) (s : cstore) : cstore := filter (fun kv => negb (ckey_eqb k (fst kv))) s.
Definition sset (k : ckey) (v : value) (s : cstore) : cstore := (k, v) :: sdel k s.

(** GetConsensusState of client type [t]: error when absent or of another type *)
Definition get_cons (t : ctype) (h : height) (s : cstore) : option cons_state :=
  match sget (KCons h) s with
  | Some (VCons cs) => if ctype_eqb (cs_type cs) t then Some cs else None
  | _ => None
  end.

(** First key of an ascending prefix iteration = smallest (revision, height). *)
Definition hmin (a : option height) (b : height) : option height :=
  match a with None => Some b | Some x => if h_lt b x then Some b else Some x end.
Definition first_cons (s : cstore) : option height :=
  fold_left (fun acc kv => match fst kv with KCons h => hmin acc h | _ => acc end) s None.
Definition first_iter (s : cstore) : option height :=
  fold_left (fun acc kv => match fst kv with KIter h => hmin acc h | _ => acc end) s None.

Definition signers (s : cstore) : list (height * bytes) :=
  flat_map (fun kv => match kv with (KSigner h, VAddr a) => [(h, a)] | _ => [] end) s.
Definition del_all_signers (s : cstore) : cstore :=
  filter (fun kv => match fst kv with KSigner _ => false | _ => true end) s.

(** * Code variants *)
Record cfg := {
  f_toggle_new : bool;          (* ddb1f2a: ToggleClient runs the NEW client state's Initialize, no TSS consensus state *)
  f_tss_height : bool;          (* e5a9aac: tss Header.GetHeight returns the zero height (not nil) *)
  f_upgrade_tss_nocons : bool;  (* 6db14eb: UpgradeClient stores no consensus state for a TSS client *)
  f_tm_upgrade_meta : bool;     (* C18a: Tendermint UpgradeState records processed time + iteration key *)
  f_toggle_clear : bool;        (* C18b: ToggleClient empties the client store first *)
  f_cons_type_check : bool;     (* C18c: proposals with a consensus state of another client type are rejected *)
  f_eth_root_check : bool;      (* aa5560b: ETH Initialize / UpgradeState refuse a consensus state whose root (as a 32-byte hash) is not the header's *)
  f_eth_rev_check : bool;       (* 1e12297: ETH checkValidity refuses a header of another revision number than the client's *)
  f_eth_old_header : bool       (* 072bc15: ETH checkValidity refuses a header older than the trusting period *)
}.

(** * Time *)
Definition ns_per_s : N := 1000000000.
Definition secs (now : N) : N := now / ns_per_s.      (* uint64(ctx.BlockTime().Unix()), block times after 1970 *)

(** * Status (client_state.go of each type).  0 Active, 1 Expired, 2 Unknown *)
Definition evm_expired (ts trusting now : N) : bool := add64 ts trusting <? secs now.

Definition status (now : N) (c : client_state) (s : cstore) : nat :=
  match c with
  | ClTm latest trusting _ _ _ =>
      match get_cons TM latest s with
      | None => 2%nat
      | Some cs => if cs_ts cs + trusting <=? now then 1%nat else 0%nat     (* !expirationTime.After(now) *)
      end
  | ClBsc hd _ _ trusting _ =>
      match get_cons BSC (eh_height hd) s with
      | None => 2%nat | Some cs => if evm_expired (cs_ts cs) trusting now then 1%nat else 0%nat end
  | ClEth hd _ trusting _ =>
      match get_cons ETH (eh_height hd) s with
      | None => 2%nat | Some cs => if evm_expired (cs_ts cs) trusting now then 1%nat else 0%nat end
  | ClTss _ _ => 0%nat
  end.

(** * The gates of VerifyPacketCommitment for an HONEST proof at height [h] (a proof that decodes, carries
    the client's contract address and verifies against the root [fx]; for TSS the proof is [tssproof]).
    Classes: 0 verified; 1 proof height above the latest height; 3 no consensus state of the client's type
    at [h]; 4 Tendermint processed time missing; 5 delay not passed yet (Tendermint: time; BSC/ETH: blocks);
    6 proof does not verify against the stored root; 7 TSS address mismatch. *)
Definition root_gate (fx : bytes) (cs : cons_state) : nat := if bytes_eqb (cs_root cs) fx then 0%nat else 6%nat.
(** BSC / ETH verifyMerkleProof: root := common.BytesToHash(consensusState.Root) *)
Definition root_gate_evm (fx : bytes) (cs : cons_state) : nat := if bytes_eqb (hash32 (cs_root cs)) (hash32 fx) then 0%nat else 6%nat.

Definition gate (now : N) (fx tssproof : bytes) (c : client_state) (s : cstore) (h : height) : nat :=
  match c with
  | ClTm latest _ _ delay _ =>
      if h_lt latest h then 1%nat else
      match get_cons TM h s with
      | None => 3%nat
      | Some cs =>
          match sget (KPTime h) s with
          | Some (VTime pt) =>
              (* verifyDelayPeriodPassed: validTime < processedTime (the uint64 sum wrapped, ea14df6) || validTime > currentTimestamp *)
              let valid := add64 pt delay in
              if (valid <? pt) || (now <? valid) then 5%nat else root_gate fx cs
          | _ => 4%nat
          end
      end
  | ClBsc hd _ vals _ _ =>
      if h_lt (eh_height hd) h || negb (fst h =? fst (eh_height hd)) then 1%nat else   (* head gate, revision gate *)
      match get_cons BSC h s with
      | None => 3%nat
      | Some cs => if sub64 (snd (eh_height hd)) (snd h) <? lenN vals / 2 + 1 then 5%nat else root_gate_evm fx cs
      end
  | ClEth hd block_delay _ _ =>
      if h_lt (eh_height hd) h || negb (fst h =? fst (eh_height hd)) then 1%nat else
      match get_cons ETH h s with
      | None => 3%nat
      | Some cs => if sub64 (snd (eh_height hd)) (snd h) <? block_delay then 5%nat else root_gate_evm fx cs
      end
  | ClTss addr _ => if bytes_eqb tssproof addr then 0%nat else 7%nat
  end.

(** * Initialize / UpgradeState *)

(** tendermint store.go setConsensusMetadata: processed time = block time, iteration key *)
Definition set_tm_meta (now : N) (h : height) (s : cstore) : cstore :=
  sset (KIter h) (VRefCons h) (sset (KPTime h) (VTime now) s).

(** bsc client_state.go Initialize (and the second half of UpgradeState) *)
Definition bsc_install (hd : evm_hdr) (epoch : N) (s : cstore) : outcome cstore :=
  if epoch =? 0 then Panic                                     (* height % 0; excluded by Validate *)
  else if negb (snd (eh_height hd) mod epoch =? 0) then Err    (* ErrInvalidGenesisBlock *)
  else match eh_signer hd with
       | None => Err
       | Some sg =>
           if negb (bytes_eqb sg (eh_coinbase hd)) then Err     (* ErrCoinBaseMisMatch *)
           else let s1 := sset (KSigner (eh_height hd)) (VAddr sg) s in
                match eh_vals hd with
                | None => Err
                | Some vs => Ok (sset KPending (VVals vs) s1)
                end
       end.

(** eth client_state.go Initialize = UpgradeState: header index + root-main entry of the installed header
    (SetEthConsensusRoot files it under header.ToEthHeader().Root = common.BytesToHash(header.Root)) *)
Definition eth_install (hd : evm_hdr) (s : cstore) : cstore :=
  let n := snd (eh_height hd) in
  sset (KRootMain (hash32 (eh_root hd)) n) (VRefHIdx (eh_hash hd) n) (sset (KHIdx (eh_hash hd) n) (VHeader hd) s).

Definition initialize (now : N) (c : client_state) (cns : cons_state) (s : cstore) : outcome cstore :=
  match c with
  | ClTm latest _ _ _ _ => if ctype_eqb (cs_type cns) TM then Ok (set_tm_meta now latest s) else Err
  | ClBsc hd epoch _ _ _ => bsc_install hd epoch s
  | ClEth hd _ _ _ => Ok (eth_install hd s)
  | ClTss _ _ => Ok s
  end.

(** The pruning step of BSC / ETH (update.go, BSC UpgradeState): only the FIRST consensus state key is
    looked at; a consensus state of another type there is an error ("this error should never occur"). *)
Definition prune_target (t : ctype) (trusting now : N) (s : cstore) : outcome (option height) :=
  match first_cons s with
  | None => Ok None
  | Some h => match get_cons t h s with
              | None => Err
              | Some cs => Ok (if evm_expired (cs_ts cs) trusting now then Some h else None)
              end
  end.

Definition upgrade_state (c : cfg) (now : N) (cl : client_state) (s : cstore) : outcome cstore :=
  match cl with
  | ClTm latest _ _ _ _ => Ok (if f_tm_upgrade_meta c then set_tm_meta now latest s else s)
  | ClBsc hd epoch _ trusting _ =>
      if epoch =? 0 then Panic
      else if negb (snd (eh_height hd) mod epoch =? 0) then Err
      else p <- prune_target BSC trusting now s ;;
           let s1 := match p with Some h => sdel (KCons h) s | None => s end in
           bsc_install hd epoch (del_all_signers s1)
  | ClEth hd _ _ _ => Ok (eth_install hd s)
  | ClTss _ _ => Ok s
  end.

(** * Keeper: CreateClient / UpgradeClient / ToggleClient on the client store of one chain name *)
Definition put_cons (c : client_state) (cns : cons_state) (s : cstore) : cstore :=
  sset (KCons (latest_of c)) (VCons cns) s.

Definition create_client (now : N) (c : client_state) (cns : cons_state) (s : cstore) : outcome cstore :=
  s1 <- initialize now c cns (sset KClient (VClient c) s) ;;
  Ok (if ctype_eqb (cs_type cns) TSS then s1 else put_cons c cns s1).   (* consensusState.ClientType() != TSS *)

Definition upgrade_client (cf : cfg) (now : N) (c : client_state) (cns : cons_state) (s : cstore) : outcome cstore :=
  match sget KClient s with
  | Some (VClient old) =>
      if negb (ctype_eqb (type_of old) (type_of c)) then Err else
      s1 <- upgrade_state cf now c s ;;
      let s2 := sset KClient (VClient c) s1 in
      Ok (if f_upgrade_tss_nocons cf && ctype_eqb (type_of c) TSS then s2 else put_cons c cns s2)
  | _ => Err
  end.

Definition toggle_client (cf : cfg) (now : N) (c : client_state) (cns : cons_state) (s : cstore) : outcome cstore :=
  match sget KClient s with
  | Some (VClient old) =>
      if ctype_eqb (type_of old) (type_of c) then Err else
      let s0 := sset KClient (VClient c) (if f_toggle_clear cf then [] else s) in
      if f_toggle_new cf then
        s1 <- initialize now c cns s0 ;;
        Ok (if ctype_eqb (cs_type cns) TSS then s1 else put_cons c cns s1)
      else
        s1 <- initialize now old cns s0 ;;       (* pinned: the OLD client state's Initialize *)
        Ok (put_cons c cns s1)
  | _ => Err
  end.

(** * Headers and CheckHeaderAndUpdateState *)
Inductive hdr :=
| HTm (trusted h : height) (cns : cons_state) (hv : bool)   (* cns = the consensus state the header creates *)
| HEvm (t : ctype) (hd : evm_hdr) (hv : bool)                (* t = BSC or ETH *)
| HTss (addr rest : bytes).

(** header.GetHeight(); None = the nil height of the pinned TSS header *)
Definition hdr_height (cf : cfg) (h : hdr) : option height :=
  match h with
  | HTm _ hh _ _ => Some hh
  | HEvm _ hd _ => Some (eh_height hd)
  | HTss _ _ => if f_tss_height cf then Some (0, 0) else None
  end.

(** tendermint update.go *)
Definition tm_prune (trusting now : N) (s : cstore) : outcome cstore :=
  match first_iter s with
  | None => Ok s
  | Some h => match get_cons TM h s with
              | None => Err
              | Some cs => if cs_ts cs + trusting <=? now
                           then Ok (sdel (KIter h) (sdel (KPTime h) (sdel (KCons h) s)))
                           else Ok s
              end
  end.

(** the consensus state update() builds from a Tendermint header is a Tendermint consensus state *)
Definition as_tm (k : cons_state) : cons_state :=
  {| cs_type := TM; cs_ts := cs_ts k; cs_root := cs_root k; cs_dg := cs_dg k |}.

Definition tm_update (now : N) (latest : height) (trusting drift delay : N) (rest : bytes)
           (trusted h : height) (cns : cons_state) (hv : bool) (s : cstore)
  : outcome (client_state * option cons_state * cstore) :=
  match get_cons TM trusted s with
  | None => Err
  | Some tc =>
      if negb (hv && (fst h =? fst trusted) && h_lt trusted h
               && negb (cs_ts tc + trusting <=? now)          (* trusted header within the trusting period *)
               && (cs_ts tc <? cs_ts cns)                     (* header time after the trusted time *)
               && (cs_ts cns <? now + drift))                 (* not from the future: header.Time.Before(now.Add(drift)) *)
      then Err else
      s1 <- tm_prune trusting now s ;;
      let latest' := if h_lt latest h then h else latest in
      Ok (ClTm latest' trusting drift delay rest, Some (as_tm cns), set_tm_meta now h s1)
  end.

(** bsc update.go + header.go verifySeal (store part) *)
Fixpoint del_signers_range (rev start : N) (k : nat) (s : cstore) : cstore :=
  match k with
  | O => s
  | S k' => del_signers_range rev (sub64 start 1) k' (sdel (KSigner (rev, start)) s)
  end.

Definition bsc_update (now : N) (cur : evm_hdr) (epoch : N) (vals : list bytes) (trusting : N) (rest : bytes)
           (hd : evm_hdr) (hv : bool) (s : cstore)
  : outcome (client_state * option cons_state * cstore) :=
  match get_cons BSC (eh_height cur) s with
  | None => Err
  | Some _ =>
      let number := snd (eh_height hd) in
      let rev := fst (eh_height hd) in
      if epoch =? 0 then Panic else
      if negb hv then Err else
      (* verifyCascadingFields: the parent is the client state's header *)
      if negb ((snd (eh_height cur) =? sub64 number 1) && bytes_eqb (eh_hash cur) (eh_parent hd)) then Err else
      match eh_signer hd with
      | None => Err
      | Some sg =>
          if negb (bytes_eqb sg (eh_coinbase hd)) then Err else
          if negb (bmem sg vals) then Err else                                   (* ErrUnauthorizedValidator *)
          let limit := lenN (bdistinct vals) / 2 + 1 in
          if existsb (fun ha => bytes_eqb (snd ha) sg && ((number <? limit) || (number - limit <? snd (fst ha)))) (signers s)
          then Err else                                                          (* ErrRecentlySigned *)
          let s1 := sset (KSigner (eh_height hd)) (VAddr sg) s in
          p <- prune_target BSC trusting now s1 ;;
          let s2 := match p with
                    | Some h => sdel (KCons h) s1          (* the recent signer of the pruned height stays *)
                    | None => s1 end in
          (* update() *)
          s3 <- (if number mod epoch =? 0
                 then match eh_vals hd with None => Err | Some vs => Ok (sset KPending (VVals vs) s2) end
                 else Ok s2) ;;
          let '(vals', s4) :=
            if number mod epoch =? lenN vals / 2 then
              let nv := match sget KPending s3 with Some (VVals l) => l | _ => [] end in
              let oldl := lenN vals / 2 + 1 in
              let newl := lenN (bdistinct nv) / 2 + 1 in
              (nv, if newl <? oldl
                   then del_signers_range rev (sub64 number newl) (N.to_nat (oldl - newl)) s3
                   else s3)
            else (vals, s3) in
          let limit' := lenN vals' / 2 + 1 in
          let s5 := if limit' <=? number then sdel (KSigner (rev, number - limit')) s4 else s4 in
          Ok (ClBsc hd epoch vals' trusting rest,
              Some {| cs_type := BSC; cs_ts := eh_time hd; cs_root := eh_root hd; cs_dg := eh_cons_dg hd |}, s5)
      end
  end.

(** eth update.go (headers extending the client state's header; forks are outside the model) *)
Definition eth_prune (trusting now : N) (s : cstore) : outcome cstore :=
  p <- prune_target ETH trusting now s ;;
  match p with
  | None => Ok s
  | Some h =>
      (* deleteConsensusStateAndIndexHeader *)
      match get_cons ETH h s with
      | None => Err
      | Some cs =>
          (* GetHeaderIndexKeyByEthConsensusRoot(store, common.BytesToHash(consState.Root), height) *)
          match sget (KRootMain (hash32 (cs_root cs)) (snd h)) s with
          | Some (VRefHIdx hash n) => Ok (sdel (KCons h) (sdel (KRootMain (hash32 (cs_root cs)) (snd h)) (sdel (KHIdx hash n) s)))
          | _ => Err
          end
      end
  end.

Definition eth_is_fork (cur hd : evm_hdr) : bool := negb (bytes_eqb (eh_hash cur) (eh_parent hd)).

Definition eth_update (cf : cfg) (now : N) (cur : evm_hdr) (block_delay trusting : N) (rest : bytes)
           (hd : evm_hdr) (hv : bool) (s : cstore)
  : outcome (client_state * option cons_state * cstore) :=
  match get_cons ETH (eh_height cur) s with
  | None => Err
  | Some _ =>
      if negb hv then Err else
      (* checkValidity (1e12297): the relayer-supplied revision number must be the client's *)
      if f_eth_rev_check cf && negb (fst (eh_height hd) =? fst (eh_height cur)) then Err else
      let n := snd (eh_height hd) in
      (* verifyHeader: the parent is read from the header index *)
      match sget (KHIdx (eh_parent hd) (sub64 n 1)) s with
      | Some (VHeader ph) =>
          if negb (bytes_eqb (eh_hash ph) (eh_parent hd)) then Err else
          if eh_time hd <=? eh_time ph then Err else
          (* checkValidity (072bc15): header.Time + TrustingPeriod < block time (uint64) *)
          if f_eth_old_header cf && evm_expired (eh_time hd) trusting now then Err else
          s1 <- eth_prune trusting now s ;;
          if eth_is_fork cur hd then Err (* RestrictChain: not modelled, flagged by LifecycleCheck *) else
          Ok (ClEth hd block_delay trusting rest,
              Some {| cs_type := ETH; cs_ts := eh_time hd; cs_root := eh_root hd; cs_dg := eh_cons_dg hd |},
              eth_install hd s1)
      | _ => Err
      end
  end.

Definition check_header_and_update (cf : cfg) (now : N) (c : client_state) (h : hdr) (s : cstore)
  : outcome (client_state * option cons_state * cstore) :=
  match c, h with
  | ClTm latest trusting drift delay rest, HTm trusted hh cns hv =>
      tm_update now latest trusting drift delay rest trusted hh cns hv s
  | ClBsc cur epoch vals trusting rest, HEvm BSC hd hv => bsc_update now cur epoch vals trusting rest hd hv s
  | ClEth cur bd trusting rest, HEvm ETH hd hv => eth_update cf now cur bd trusting rest hd hv s
  | ClTss _ _, HTss addr rest => Ok (ClTss addr rest, None, s)
  | _, _ => Err                                                       (* header of another client type *)
  end.

(** keeper client.go UpdateClient *)
Definition keeper_update (cf : cfg) (now : N) (h : hdr) (s : cstore) : outcome cstore :=
  match sget KClient s with
  | Some (VClient c) =>
      if negb (Nat.eqb (status now c s) 0) then Err else
      r <- check_header_and_update cf now c h s ;;
      let '(c', cns, s1) := r in
      let s2 := sset KClient (VClient c') s1 in
      match hdr_height cf h with
      | None => Panic                                   (* consensusHeight.String() on the nil height *)
      | Some hh => Ok (match cns with Some cs => sset (KCons hh) (VCons cs) s2 | None => s2 end)
      end
  | _ => Err
  end.

(** * Whole state: client stores by chain name, relayer registry, block time *)
Record state := {
  clients : alist cstore;
  relayers : alist (list bytes);      (* relayer address -> chains *)
  now : N                             (* block time, ns since 1970 *)
}.

Definition store_of (st : state) (name : bytes) : cstore :=
  match aget name (clients st) with Some s => s | None => [] end.
Definition with_store (st : state) (name : bytes) (s : cstore) : state :=
  {| clients := aset name s (clients st); relayers := relayers st; now := now st |}.
Definition has_client (st : state) (name : bytes) : bool :=
  match sget KClient (store_of st name) with Some _ => true | None => false end.

(** host/validate.go ClientIdentifierValidator: 3..64 characters of [a-zA-Z0-9._+-#[]<>] (a blank
    identifier or one containing '/' fails the character class or the length as well) *)
Definition valid_char (b : byte) : bool :=
  let n := Byte.to_N b in
  ((48 <=? n) && (n <=? 57)) || ((65 <=? n) && (n <=? 90)) || ((97 <=? n) && (n <=? 122))
  || (n =? 46) || (n =? 95) || (n =? 43) || (n =? 45) || (n =? 35) || (n =? 91) || (n =? 93) || (n =? 60) || (n =? 62).
Definition valid_name (s : bytes) : bool :=
  (3 <=? length s)%nat && (length s <=? 64)%nat && forallb valid_char s.

Record proposal := {
  p_name : bytes; p_client : client_state; p_cons : cons_state;
  p_validate : bool                   (* clientState.Validate() == nil (oracle) *)
}.

Inductive op :=
| Create (p : proposal) | Upgrade (p : proposal) | Toggle (p : proposal)
| Register (addr : bytes) (chains : list bytes) (wf : bool)   (* wf: the address parses, |addresses| = |chains| > 0 *)
| Update (name : bytes) (h : hdr) (signer : bytes) (vb : bool) (* vb: MsgUpdateClient.ValidateBasic passes *)
| Tick (dt : N).

(** proposal.go ValidateBasic (submission) then keeper proposal.go Handle*Client *)
Definition types_agree (cf : cfg) (p : proposal) : bool :=
  negb (f_cons_type_check cf) || ctype_eqb (cs_type (p_cons p)) (type_of (p_client p)).

(** eth client_state.go checkConsensusRoot (aa5560b), called first by Initialize and UpgradeState: the consensus state's
    root and the header's state root must be the same 32-byte hash.  (A nil consensus state is refused as well; the
    proposal handlers never pass one: UnpackConsensusState fails before.)  The only other way an ETH Initialize /
    UpgradeState fails is none, and every failure of a proposal is an error without effect, so the check is placed
    with the other content checks of [exec]. *)
Definition roots_agree (cf : cfg) (p : proposal) : bool :=
  negb (f_eth_root_check cf) ||
  match p_client p with
  | ClEth hd _ _ _ => bytes_eqb (hash32 (cs_root (p_cons p))) (hash32 (eh_root hd))
  | _ => true
  end.

Definition exec (cf : cfg) (st : state) (o : op) : outcome state :=
  match o with
  | Create p =>
      if negb (valid_name (p_name p) && p_validate p) then Err else
      if has_client st (p_name p) then Err else                        (* ErrClientExists *)
      if negb (types_agree cf p) then Err else
      if negb (roots_agree cf p) then Err else
      s <- create_client (now st) (p_client p) (p_cons p) (store_of st (p_name p)) ;;
      Ok (with_store st (p_name p) s)
  | Upgrade p =>
      if negb (valid_name (p_name p) && p_validate p) then Err else
      if negb (types_agree cf p) then Err else
      if negb (roots_agree cf p) then Err else
      s <- upgrade_client cf (now st) (p_client p) (p_cons p) (store_of st (p_name p)) ;;
      Ok (with_store st (p_name p) s)
  | Toggle p =>
      if negb (valid_name (p_name p) && p_validate p) then Err else
      if negb (has_client st (p_name p)) then Err else                 (* ErrClientNotFound *)
      if negb (types_agree cf p) then Err else
      if negb (roots_agree cf p) then Err else
      s <- toggle_client cf (now st) (p_client p) (p_cons p) (store_of st (p_name p)) ;;
      Ok (with_store st (p_name p) s)
  | Register addr chains wf =>
      if negb (wf && forallb valid_name chains) then Err else
      Ok {| clients := clients st; relayers := aset addr chains (relayers st); now := now st |}
  | Update name h signer vb =>
      if negb vb then Err else
      (* AuthRelayer *)
      if negb (match aget signer (relayers st) with Some cs => bmem name cs | None => false end) then Err else
      match sget KClient (store_of st name) with
      | Some (VClient c) =>
          (* CheckMsg: only the TSS client checks the signer *)
          if negb (match c with ClTss addr _ => bytes_eqb addr signer | _ => true end) then Err else
          s <- keeper_update cf (now st) h (store_of st name) ;;
          Ok (with_store st name s)
      | _ => Err
      end
  | Tick dt => Ok {| clients := clients st; relayers := relayers st; now := now st + dt |}
  end.

(** The wrappers: a proposal handler runs on gov's cache context, written only on success; a message
    runs under BaseApp's per-transaction cache, dropped on error or (recovered) panic.  Result class:
    0 ok, 1 error, 2 panic; the state is the old one unless the class is 0. *)
Definition step (cf : cfg) (st : state) (o : op) : nat * state :=
  match exec cf st o with
  | Ok st' => (0%nat, st')
  | Err => (1%nat, st)
  | Panic => (2%nat, st)
  end.

Fixpoint run (cf : cfg) (st : state) (os : list op) : state :=
  match os with [] => st | o :: os' => run cf (snd (step cf st o)) os' end.

(** The code at the pinned commit, and the code with every repair that has LANDED in /repo (the model
    compared with the implementation by the correspondence check). *)
Definition pinned_cfg : cfg :=
  {| f_toggle_new := false; f_tss_height := false; f_upgrade_tss_nocons := false;
     f_tm_upgrade_meta := false; f_toggle_clear := false; f_cons_type_check := false;
     f_eth_root_check := false; f_eth_rev_check := false; f_eth_old_header := false |}.
Definition head_cfg : cfg :=
  {| f_toggle_new := true; f_tss_height := true; f_upgrade_tss_nocons := true;
     f_tm_upgrade_meta := true; f_toggle_clear := true; f_cons_type_check := true;
     f_eth_root_check := true; f_eth_rev_check := true; f_eth_old_header := true |}.

Definition empty_state (t : N) : state := {| clients := []; relayers := []; now := t |}.
