(** Correspondence and monitor definitions for C18 (client lifecycle), evaluated by [vm_compute] on the
    cases the harness (harness/cmd/c18) ran on the real code.  No proofs here.

    [mismatches]: the model ([Lifecycle.step head_cfg]) against the implementation, step by step: result
    class, block time, every client store of the case (decoded dump; the structured keys are rendered with
    the regenerated key formats of Gen/KeysGen.v and compared with the raw keys), the relayer registry,
    Status() and the gate outcome of VerifyPacketCommitment with an honest proof.
    [monitor_failures]: the property itself on the IMPLEMENTATION's observed trace (pre-state, operation,
    result class, post-state, observed Status / gate outcomes) — it never calls [Lifecycle.step]. *)
From Teleport Require Import Base.Bytes Base.Outcome Base.AList Base.Fmt Gen.KeysGen Model.Lifecycle.
Local Open Scope N_scope.

(** * Boolean equalities *)
Definition opt_eqb {A} (f : A -> A -> bool) (a b : option A) : bool :=
  match a, b with Some x, Some y => f x y | None, None => true | _, _ => false end.
Fixpoint list_eqb {A B} (f : A -> B -> bool) (a : list A) (b : list B) : bool :=
  match a, b with [] , [] => true | x :: a', y :: b' => f x y && list_eqb f a' b' | _, _ => false end.

Definition cons_eqb (a b : cons_state) : bool :=
  ctype_eqb (cs_type a) (cs_type b) && (cs_ts a =? cs_ts b) && bytes_eqb (cs_root a) (cs_root b) && bytes_eqb (cs_dg a) (cs_dg b).

Definition hdr_eqb (a b : evm_hdr) : bool :=
  h_eqb (eh_height a) (eh_height b) && bytes_eqb (eh_hash a) (eh_hash b) && bytes_eqb (eh_parent a) (eh_parent b)
  && bytes_eqb (eh_root a) (eh_root b) && (eh_time a =? eh_time b) && bytes_eqb (eh_dg a) (eh_dg b)
  && bytes_eqb (eh_coinbase a) (eh_coinbase b) && opt_eqb bytes_eqb (eh_signer a) (eh_signer b)
  && opt_eqb (list_eqb bytes_eqb) (eh_vals a) (eh_vals b) && bytes_eqb (eh_cons_dg a) (eh_cons_dg b).

Definition client_eqb (a b : client_state) : bool :=
  match a, b with
  | ClTm l t d y r, ClTm l' t' d' y' r' => h_eqb l l' && (t =? t') && (d =? d') && (y =? y') && bytes_eqb r r'
  | ClBsc h e v t r, ClBsc h' e' v' t' r' => hdr_eqb h h' && (e =? e') && list_eqb bytes_eqb v v' && (t =? t') && bytes_eqb r r'
  | ClEth h b t r, ClEth h' b' t' r' => hdr_eqb h h' && (b =? b') && (t =? t') && bytes_eqb r r'
  | ClTss a r, ClTss a' r' => bytes_eqb a a' && bytes_eqb r r'
  | _, _ => false
  end.

Definition value_eqb (a b : value) : bool :=
  match a, b with
  | VClient x, VClient y => client_eqb x y
  | VCons x, VCons y => cons_eqb x y
  | VTime x, VTime y => x =? y
  | VRefCons x, VRefCons y => h_eqb x y
  | VAddr x, VAddr y => bytes_eqb x y
  | VVals x, VVals y => list_eqb bytes_eqb x y
  | VHeader x, VHeader y => hdr_eqb x y
  | VRefHIdx x n, VRefHIdx y m => bytes_eqb x y && (n =? m)
  | _, _ => false
  end.

(** * Rendering of the structured keys with the regenerated formats *)
Definition render_key (k : ckey) : bytes :=
  match k with
  | KClient => host_KeyClientState
  | KCons h => render host_ConsensusStateKey [VN (fst h); VN (snd h)]
  | KPTime h => render tm_ProcessedTimeKey [VN (fst h); VN (snd h)]
  | KIter h => render tm_IterationKey [VN (fst h); VN (snd h)]
  | KSigner h => render bsc_keyRecentSinger [VN (fst h); VN (snd h)]
  | KPending => bsc_PrefixPendingValidators
  | KHIdx hash n => render eth_EthHeaderIndexKey [VS hash; VN n]
  | KRootMain root n => render eth_EthRootMainKey [VS root; VN n]
  end.

(** insertion sort of a store by rendered key = iterator order of the real store *)
Fixpoint ins_sorted (e : bytes * value) (l : list (bytes * value)) : list (bytes * value) :=
  match l with
  | [] => [e]
  | x :: l' => match bytes_cmp (fst e) (fst x) with Gt => x :: ins_sorted e l' | _ => e :: l end
  end.
Definition rendered (s : cstore) : list (bytes * value) :=
  fold_right ins_sorted [] (map (fun kv => (render_key (fst kv), snd kv)) s).

(** * Observations *)
Record oentry := { oe_raw : bytes; oe_kv : option (ckey * value) }.   (* None: the harness could not classify / decode it *)
Record oprobe := { pr_name : bytes; pr_status : nat; pr_tssproof : bytes; pr_gates : list (height * nat) }.
Record obs := {
  o_class : nat; o_now : N;
  o_stores : list (bytes * list oentry);       (* per valid chain name of the case, iterator order *)
  o_relayers : list (bytes * list bytes);
  o_rest : bytes;                              (* digest of the rest of the xibc store *)
  o_probes : list oprobe }.
Record ostep := { os_op : op; os_obs : obs }.
Record ocase := { oc_tmfx : bytes; oc_evmfx : bytes; oc_init : obs; oc_steps : list ostep }.

Definition entries_store (l : list oentry) : cstore :=
  flat_map (fun e => match oe_kv e with Some kv => [kv] | None => [] end) l.

(** the model-typed state an observation describes *)
Definition state_of_obs (o : obs) : state :=
  {| clients := fold_left (fun acc ne => aset (fst ne) (entries_store (snd ne)) acc) (o_stores o) [];
     relayers := fold_left (fun acc r => aset (fst r) (snd r) acc) (o_relayers o) [];
     now := o_now o |}.

Definition fx_of (c : ocase) (cl : client_state) : bytes :=
  match cl with ClTm _ _ _ _ _ => oc_tmfx c | _ => oc_evmfx c end.

(** the harness cannot tell the block-delay gate of BSC/ETH from their head gate (same error code) *)
Definition proj_gate (cl : client_state) (g : nat) : nat :=
  match cl with
  | ClBsc _ _ _ _ _ | ClEth _ _ _ _ => if Nat.eqb g 5 then 1%nat else g
  | _ => g
  end.

(** * Model vs implementation.  Kinds:
    1 result class; 2 block time; 3 a client store (keys or values); 4 relayer registry; 5 Status; 6 gate
    outcome; 7 an entry the harness could not decode, or a raw key that is not the rendering of its
    structured key; 8 the set of existing clients; 9 the step is outside the modelled fragment (ETH fork);
    10 the [Validate] oracle contradicts a condition the model knows to be necessary. *)
Definition store_matches (ms : cstore) (l : list oentry) : bool :=
  list_eqb (fun (m : bytes * value) (e : oentry) =>
              bytes_eqb (fst m) (oe_raw e) &&
              match oe_kv e with Some (k, v) => bytes_eqb (render_key k) (oe_raw e) && value_eqb (snd m) v | None => false end)
           (rendered ms) l.

Definition entries_decoded (l : list oentry) : bool :=
  forallb (fun e => match oe_kv e with Some (k, _) => bytes_eqb (render_key k) (oe_raw e) | None => false end) l.

Definition relayers_match (st : state) (o : obs) : bool :=
  list_eqb (fun (m : bytes * list bytes) r => bytes_eqb (fst m) (fst r) && list_eqb bytes_eqb (snd m) (snd r))
           (relayers st) (o_relayers o).

Definition client_of (st : state) (name : bytes) : option client_state :=
  match sget KClient (store_of st name) with Some (VClient c) => Some c | _ => None end.

Definition probe_mismatch (c : ocase) (st : state) (p : oprobe) : list nat :=
  match client_of st (pr_name p) with
  | None => [8%nat]
  | Some cl =>
      let s := store_of st (pr_name p) in
      (if Nat.eqb (status (now st) cl s) (pr_status p) then [] else [5%nat]) ++
      (if forallb (fun hg => Nat.eqb (proj_gate cl (gate (now st) (fx_of c cl) (pr_tssproof p) cl s (fst hg))) (snd hg)) (pr_gates p)
       then [] else [6%nat])
  end.

Definition oracle_consistent (o : op) : bool :=
  match o with
  | Create p | Upgrade p | Toggle p =>
      negb (p_validate p) ||
      match p_client p with
      | ClTm l t _ _ _ => negb (snd l =? 0) && negb (t =? 0)
      | ClBsc _ e _ _ _ => negb (e =? 0)
      | _ => true
      end
  | _ => true
  end.

Definition outside_fragment (st : state) (o : op) : bool :=
  match o with
  | Update name (HEvm ETH hd true) _ _ =>
      match client_of st name with
      | Some (ClEth cur _ _ _) =>
          eth_is_fork cur hd && match sget (KHIdx (eh_parent hd) (sub64 (snd (eh_height hd)) 1)) (store_of st name) with Some _ => true | None => false end
      | _ => false
      end
  | _ => false
  end.

Definition state_mismatch (c : ocase) (st : state) (o : obs) : list nat :=
  (if now st =? o_now o then [] else [2%nat]) ++
  (if forallb (fun ne => entries_decoded (snd ne)) (o_stores o) then [] else [7%nat]) ++
  (if forallb (fun ne => store_matches (store_of st (fst ne)) (snd ne)) (o_stores o) then [] else [3%nat]) ++
  (if relayers_match st o then [] else [4%nat]) ++
  (if Nat.eqb (length (filter (fun ne => match client_of st (fst ne) with Some _ => true | None => false end) (o_stores o)))
              (length (o_probes o)) then [] else [8%nat]) ++
  flat_map (probe_mismatch c st) (o_probes o).

Fixpoint cmp_steps (c : ocase) (i : nat) (st : state) (l : list ostep) : list (nat * nat) :=
  match l with
  | [] => []
  | s :: l' =>
      if outside_fragment st (os_op s) then [(i, 9%nat)] else
      if negb (oracle_consistent (os_op s)) then [(i, 10%nat)] else
      let (cls, st') := step head_cfg st (os_op s) in
      if negb (Nat.eqb cls (o_class (os_obs s))) then [(i, 1%nat)] else
      match state_mismatch c st' (os_obs s) with
      | [] => cmp_steps c (S i) st' l'
      | k :: _ => [(i, k)]
      end
  end.

Definition init_state (c : ocase) : state :=
  {| clients := []; relayers := fold_left (fun acc r => aset (fst r) (snd r) acc) (o_relayers (oc_init c)) [];
     now := o_now (oc_init c) |}.

Definition cmp_case (c : ocase) : list (nat * nat) :=
  match state_mismatch c (init_state c) (oc_init c) with
  | [] => cmp_steps c 1 (init_state c) (oc_steps c)
  | k :: _ => [(0%nat, k)]
  end.

Fixpoint number {A} (i : nat) (l : list A) : list (nat * A) :=
  match l with [] => [] | x :: l' => (i, x) :: number (S i) l' end.

Definition mismatches (cs : list ocase) : list (nat * (nat * nat)) :=
  flat_map (fun ic => map (fun m => (fst ic, m)) (cmp_case (snd ic))) (number 0 cs).

(** * The monitor: the property on the implementation's trace.
    [pre], [post] are the states described by the observations before / after the step, [cls] the
    observed class, [probes] the observed Status / gate outcomes after the step.  Kinds:
    11 a failed step changed something (client stores, relayers, rest of the store);
    12 a successful step changed something else than its own client store / the registry / the clock;
    13 a create succeeded under an invalid or used name;
    14 an upgrade succeeded without a client of the same type / a toggle without a client of another type;
    15 after a successful proposal the stored client / consensus state are not the proposal's (TSS: a
       consensus state was stored);
    16 after a successful proposal the metadata the (new) type needs for the installed height is missing;
    17 after a successful create or toggle the client store holds something else than the installed
       client (leftovers), or after any proposal a consensus state of another type;
    18 valid content installed, but the client is not Active or an honest proof at the installed height
       fails for another reason than the delay;
    19 a proposal with a consensus state of another client type succeeded;
    20 an update that must succeed (valid header for the stored client, authorised signer, client Active)
       failed;
    21 a step panicked;
    22 after a successful update the client type changed, the TSS key is not the header's, or the header's
       consensus state is not stored at the header's height;
    24 an ETH proposal whose consensus state root is not (as a 32-byte hash) the state root of its header succeeded
       (the installed header is indexed under ITS root: pruning that consensus state later fails and bricks the client);
    23 (defined at the end) an installed, unexpired client: the proof gate at the installed height did not open
       once the delay had passed, or opened before, or the installed consensus state / its metadata vanished. *)
Definition cstore_eqb (a b : cstore) : bool :=
  list_eqb (fun x y => ckey_eqb (fst x) (fst y) && value_eqb (snd x) (snd y)) a b.

Definition stores_same_except (skip : option bytes) (pre post : obs) : bool :=
  list_eqb (fun (a b : bytes * list oentry) =>
              bytes_eqb (fst a) (fst b) &&
              (match skip with Some n => bytes_eqb n (fst a) | None => false end
               || list_eqb (fun x y => bytes_eqb (oe_raw x) (oe_raw y) &&
                                       opt_eqb (fun p q => ckey_eqb (fst p) (fst q) && value_eqb (snd p) (snd q)) (oe_kv x) (oe_kv y))
                           (snd a) (snd b)))
           (o_stores pre) (o_stores post).

Definition relayers_same (pre post : obs) : bool :=
  list_eqb (fun (a b : bytes * list bytes) => bytes_eqb (fst a) (fst b) && list_eqb bytes_eqb (snd a) (snd b))
           (o_relayers pre) (o_relayers post).

Definition has_key (k : ckey) (v : value) (s : cstore) : bool :=
  match sget k s with Some v' => value_eqb v v' | None => false end.

(** the metadata the type's Initialize / UpgradeState must leave for the installed client state *)
Definition metadata_ok (tnow : N) (c : client_state) (s : cstore) : bool :=
  match c with
  | ClTm latest _ _ _ _ => has_key (KPTime latest) (VTime tnow) s && has_key (KIter latest) (VRefCons latest) s
  | ClBsc hd _ _ _ _ =>
      match eh_signer hd, eh_vals hd with
      | Some sg, Some vs => has_key (KSigner (eh_height hd)) (VAddr sg) s && has_key KPending (VVals vs) s
      | _, _ => false
      end
  | ClEth hd _ _ _ =>
      let n := snd (eh_height hd) in
      has_key (KHIdx (eh_hash hd) n) (VHeader hd) s && has_key (KRootMain (hash32 (eh_root hd)) n) (VRefHIdx (eh_hash hd) n) s
  | ClTss _ _ => true
  end.

(** the entries a freshly installed client consists of *)
Definition installed_keys (c : client_state) : list ckey :=
  KClient ::
  match c with
  | ClTm l _ _ _ _ => [KCons l; KPTime l; KIter l]
  | ClBsc hd _ _ _ _ => [KCons (eh_height hd); KSigner (eh_height hd); KPending]
  | ClEth hd _ _ _ => [KCons (eh_height hd); KHIdx (eh_hash hd) (snd (eh_height hd)); KRootMain (hash32 (eh_root hd)) (snd (eh_height hd))]
  | ClTss _ _ => []
  end.

Definition only_installed (c : client_state) (s : cstore) : bool :=
  forallb (fun kv => existsb (ckey_eqb (fst kv)) (installed_keys c)) s.

Definition cons_all_of_type (t : ctype) (s : cstore) : bool :=
  forallb (fun kv => match kv with (KCons _, VCons cs) => ctype_eqb (cs_type cs) t | (KCons _, _) => false | _ => true end) s.

(** content the property calls valid: well-typed and not expired when it is installed *)
Definition content_fresh (tnow : N) (p : proposal) : bool :=
  ctype_eqb (cs_type (p_cons p)) (type_of (p_client p)) &&
  match p_client p with
  | ClTm _ trusting _ _ _ => negb (cs_ts (p_cons p) + trusting <=? tnow)
  | ClBsc _ _ _ trusting _ | ClEth _ _ trusting _ => negb (evm_expired (cs_ts (p_cons p)) trusting tnow)
  | ClTss _ _ => true
  end.

Definition find_probe (name : bytes) (l : list oprobe) : option oprobe :=
  find (fun p => bytes_eqb (pr_name p) name) l.

Definition gate_at (h : height) (p : oprobe) : option nat :=
  match find (fun hg => h_eqb (fst hg) h) (pr_gates p) with Some hg => Some (snd hg) | None => None end.

Definition usable_probe (c : ocase) (p : proposal) (pr : oprobe) : bool :=
  Nat.eqb (pr_status pr) 0 &&
  match gate_at (latest_of (p_client p)) pr with
  | None => false
  | Some g =>
      match p_client p with
      | ClTss _ _ => Nat.eqb g 0
      | ClTm _ _ _ _ _ =>
          if bytes_eqb (cs_root (p_cons p)) (oc_tmfx c) then Nat.eqb g 0 || Nat.eqb g 5 else Nat.eqb g 6 || Nat.eqb g 5
      | _ =>
          if bytes_eqb (hash32 (cs_root (p_cons p))) (hash32 (oc_evmfx c)) then Nat.eqb g 0 || Nat.eqb g 1 else Nat.eqb g 6 || Nat.eqb g 1
      end
  end.

(** the part of the monitor that looks at the stores only (kinds 19, 24, 15, 16, 17); [kind]: 0 create, 1 upgrade, 2 toggle *)
Definition mon_installed_core (kind : nat) (p : proposal) (post : state) : list nat :=
  let s := store_of post (p_name p) in
  let cl := p_client p in
  (if ctype_eqb (cs_type (p_cons p)) (type_of cl) then [] else [19%nat]) ++
  (if roots_agree head_cfg p then [] else [24%nat]) ++
  (if has_key KClient (VClient cl) s &&
      (if ctype_eqb (type_of cl) TSS then match sget (KCons (0, 0)) s with None => true | Some _ => false end
       else has_key (KCons (latest_of cl)) (VCons (p_cons p)) s)
   then [] else [15%nat]) ++
  (if metadata_ok (now post) cl s then [] else [16%nat]) ++
  (if (Nat.eqb kind 1 || only_installed cl s) && cons_all_of_type (type_of cl) s then [] else [17%nat]).

Definition mon_installed (c : ocase) (kind : nat) (p : proposal) (pre post : state) (probes : list oprobe) : list nat :=
  mon_installed_core kind p post ++
  (if content_fresh (now post) p
   then match find_probe (p_name p) probes with
        | Some pr => if usable_probe c p pr then [] else [18%nat]
        | None => [18%nat]
        end
   else []).

(** "a valid header for the stored client": conditions on the OBSERVED pre-state under which the update
    must succeed; the parts only the inside of the light clients can judge are the oracle bit [hv] *)
Definition update_must_succeed (pre : state) (pre_probes : list oprobe) (name : bytes) (h : hdr) (signer : bytes) (vb : bool) : bool :=
  vb &&
  match aget signer (relayers pre) with Some cs => bmem name cs | None => false end &&
  match find_probe name pre_probes with Some pr => Nat.eqb (pr_status pr) 0 | None => false end &&
  let s := store_of pre name in
  match client_of pre name, h with
  | Some (ClTss addr _), HTss _ _ => bytes_eqb addr signer
  | Some (ClTm latest trusting drift _ _), HTm trusted hh cns hv =>
      hv && (fst hh =? fst trusted) && h_lt trusted hh &&
      match get_cons TM trusted s with
      | Some tc => negb (cs_ts tc + trusting <=? now pre) && (cs_ts tc <? cs_ts cns) && (cs_ts cns <? now pre + drift)
      | None => false
      end &&
      (* nothing foreign where the pruning step looks *)
      match first_iter s with Some fh => match get_cons TM fh s with Some _ => true | None => false end | None => true end
  | Some (ClBsc cur epoch vals _ _), HEvm BSC hd hv =>
      hv && (snd (eh_height cur) + 1 =? snd (eh_height hd)) && (fst (eh_height hd) =? 0) && bytes_eqb (eh_hash cur) (eh_parent hd) &&
      match eh_signer hd with
      | Some sg =>
          bytes_eqb sg (eh_coinbase hd) && bmem sg vals &&
          let limit := lenN (bdistinct vals) / 2 + 1 in
          negb (existsb (fun ha => bytes_eqb (snd ha) sg && ((snd (eh_height hd) <? limit) || (snd (eh_height hd) - limit <? snd (fst ha)))) (signers s))
      | None => false
      end &&
      (if snd (eh_height hd) mod epoch =? 0 then match eh_vals hd with Some _ => true | None => false end else true) &&
      cons_all_of_type BSC s
  | Some (ClEth cur _ trusting _), HEvm ETH hd hv =>
      hv && (snd (eh_height cur) + 1 =? snd (eh_height hd)) && bytes_eqb (eh_hash cur) (eh_parent hd) &&
      (* a header of the client's revision, not older than the trusting period (1e12297, 072bc15) *)
      (fst (eh_height hd) =? fst (eh_height cur)) && negb (evm_expired (eh_time hd) trusting (now pre)) &&
      has_key (KHIdx (eh_hash cur) (snd (eh_height cur))) (VHeader cur) s && (eh_time cur <? eh_time hd) &&
      (* consistent content is enforced by the code (aa5560b, 1e12297): nothing about the root-main index is required
         here.  A refusal because that index lost an entry (KNOWN_FINDINGS eth-revision-collision) IS a failure. *)
      cons_all_of_type ETH s
  | _, _ => false
  end.

Definition mon_update_post (post : state) (pre_type : option ctype) (name : bytes) (h : hdr) : list nat :=
  let s := store_of post name in
  match client_of post name with
  | None => [22%nat]
  | Some cl =>
      if negb (opt_eqb ctype_eqb pre_type (Some (type_of cl))) then [22%nat] else
      match h, cl with
      | HTss addr rest, ClTss a r => if bytes_eqb a addr && bytes_eqb r rest then [] else [22%nat]
      | HTm _ hh cns _, ClTm _ _ _ _ _ => if has_key (KCons hh) (VCons (as_tm cns)) s then [] else [22%nat]
      | HEvm _ hd _, (ClBsc cur _ _ _ _ | ClEth cur _ _ _) =>
          if hdr_eqb cur hd &&
             match sget (KCons (eh_height hd)) s with
             | Some (VCons cs) => bytes_eqb (cs_dg cs) (eh_cons_dg hd)
             | _ => false end
          then [] else [22%nat]
      | _, _ => [22%nat]
      end
  end.

Definition mon_step (c : ocase) (preo : obs) (o : op) (posto : obs) : list nat :=
  let pre := state_of_obs preo in
  let post := state_of_obs posto in
  let cls := o_class posto in
  if Nat.eqb cls 2 then [21%nat] else
  if negb (Nat.eqb cls 0) then
    (if stores_same_except None preo posto && relayers_same preo posto && bytes_eqb (o_rest preo) (o_rest posto) && (o_now preo =? o_now posto)
     then [] else [11%nat]) ++
    match o with
    | Update name h signer vb => if update_must_succeed pre (o_probes preo) name h signer vb then [20%nat] else []
    | _ => []
    end
  else
    match o with
    | Create p =>
        (if stores_same_except (Some (p_name p)) preo posto && relayers_same preo posto && bytes_eqb (o_rest preo) (o_rest posto) then [] else [12%nat]) ++
        (if valid_name (p_name p) && negb (has_client pre (p_name p)) then [] else [13%nat]) ++
        mon_installed c 0 p pre post (o_probes posto)
    | Upgrade p =>
        (if stores_same_except (Some (p_name p)) preo posto && relayers_same preo posto && bytes_eqb (o_rest preo) (o_rest posto) then [] else [12%nat]) ++
        (match client_of pre (p_name p) with
         | Some old => if ctype_eqb (type_of old) (type_of (p_client p)) then [] else [14%nat]
         | None => [14%nat] end) ++
        mon_installed c 1 p pre post (o_probes posto)
    | Toggle p =>
        (if stores_same_except (Some (p_name p)) preo posto && relayers_same preo posto && bytes_eqb (o_rest preo) (o_rest posto) then [] else [12%nat]) ++
        (match client_of pre (p_name p) with
         | Some old => if ctype_eqb (type_of old) (type_of (p_client p)) then [14%nat] else []
         | None => [14%nat] end) ++
        mon_installed c 2 p pre post (o_probes posto)
    | Register _ _ _ =>
        if stores_same_except None preo posto && bytes_eqb (o_rest preo) (o_rest posto) then [] else [12%nat]
    | Update name h _ _ =>
        (if stores_same_except (Some name) preo posto && relayers_same preo posto && bytes_eqb (o_rest preo) (o_rest posto) then [] else [12%nat]) ++
        mon_update_post post (option_map type_of (client_of pre name)) name h
    | Tick _ =>
        if stores_same_except None preo posto && relayers_same preo posto && bytes_eqb (o_rest preo) (o_rest posto) then [] else [12%nat]
    end.

(** ** "... once the delay has passed": the installs of the case are tracked (chain name, proposal, block time of
    the install) and after EVERY later step the observed gate outcome at the installed height is judged, as long
    as the installed content is well-typed and not expired (then the pruning steps must have kept it:
    Props/C18 [C18_update_keeps_unexpired]): while the delay (Tendermint: time since the install; BSC / ETH:
    blocks of the counterparty above the installed height) has not passed the outcome is "delay", afterwards it is
    "verified" (or "root mismatch" when the proposal carried another root than the fixture's); a Tendermint delay
    that overflows a uint64 never passes (ea14df6).  Kind 23. *)
(** an entry: chain name, the installing proposal, the block time of the install, and the SHORTEST trusting period
    the client has had since (an upgrade may change it; the pruning steps in between used the one in force) *)
Definition track := list (bytes * (proposal * (N * N))).

Definition hdr_height_of (h : hdr) : option height :=
  match h with HTm _ hh _ _ => Some hh | HEvm _ hd _ => Some (eh_height hd) | HTss _ _ => None end.

Definition trusting_of (c : client_state) : N :=
  match c with ClTm _ t _ _ _ => t | ClBsc _ _ _ t _ => t | ClEth _ _ t _ => t | ClTss _ _ => 0 end.

Definition track_upd (tr : track) (o : op) (posto : obs) : track :=
  if negb (Nat.eqb (o_class posto) 0) then tr else
  match o with
  | Create p | Toggle p =>
      (p_name p, (p, (o_now posto, trusting_of (p_client p)))) :: filter (fun e => negb (bytes_eqb (fst e) (p_name p))) tr
  | Upgrade p =>
      (* an upgrade keeps what was installed before at OTHER heights (Props/C18 [C18_upgrade_frame]) *)
      (p_name p, (p, (o_now posto, trusting_of (p_client p)))) ::
      map (fun e => if bytes_eqb (fst e) (p_name p)
                    then (fst e, (fst (snd e), (fst (snd (snd e)), N.min (snd (snd (snd e))) (trusting_of (p_client p)))))
                    else e)
          (filter (fun e => negb (bytes_eqb (fst e) (p_name p) && h_eqb (latest_of (p_client (fst (snd e)))) (latest_of (p_client p)))) tr)
  | Update name h _ _ =>
      (* an update TO the installed height overwrites what was installed there: nothing is promised any more *)
      filter (fun e => negb (bytes_eqb (fst e) name && opt_eqb h_eqb (hdr_height_of h) (Some (latest_of (p_client (fst (snd e))))))) tr
  | _ => tr
  end.

(** not expired under trusting period [tr], by the rule of the client's type *)
Definition cons_unexpired (tnow tr : N) (cl : client_state) (k : cons_state) : bool :=
  match cl with
  | ClTm _ _ _ _ _ => negb (cs_ts k + tr <=? tnow)
  | ClBsc _ _ _ _ _ | ClEth _ _ _ _ => negb (evm_expired (cs_ts k) tr tnow)
  | ClTss _ _ => true
  end.

Definition later_ok (c : ocase) (post : state) (probes : list oprobe) (e : bytes * (proposal * (N * N))) : bool :=
  let name := fst e in
  let p := fst (snd e) in
  let t_inst := fst (snd (snd e)) in
  let min_tr := snd (snd (snd e)) in
  match client_of post name, find_probe name probes with
  | Some cl, Some pr =>
      let h := latest_of (p_client p) in
      if negb (ctype_eqb (type_of cl) (type_of (p_client p))) then true else
      if negb (ctype_eqb (cs_type (p_cons p)) (type_of cl) && cons_unexpired (now post) min_tr cl (p_cons p)) then true else
      match gate_at h pr with
      | None => true
      | Some g =>
          let opened := match cl with
                        | ClTm _ _ _ _ _ => if bytes_eqb (cs_root (p_cons p)) (fx_of c cl) then 0%nat else 6%nat
                        | _ => if bytes_eqb (hash32 (cs_root (p_cons p))) (hash32 (fx_of c cl)) then 0%nat else 6%nat
                        end in
          match cl with
          | ClTm latest _ _ delay _ =>
              if h_lt latest h then true else
              let v := add64 t_inst delay in
              if (v <? t_inst) || (now post <? v) then Nat.eqb g 5 else Nat.eqb g opened
          | ClBsc cur _ vals _ _ =>
              if h_lt (eh_height cur) h || negb (fst h =? fst (eh_height cur)) then true else
              if sub64 (snd (eh_height cur)) (snd h) <? lenN vals / 2 + 1 then Nat.eqb g 1 else Nat.eqb g opened
          | ClEth cur bd _ _ =>
              if h_lt (eh_height cur) h || negb (fst h =? fst (eh_height cur)) then true else
              if sub64 (snd (eh_height cur)) (snd h) <? bd then Nat.eqb g 1 else Nat.eqb g opened
          | ClTss _ _ => Nat.eqb g 0
          end
      end
  | _, _ => true
  end.

Definition mon_later (c : ocase) (tr : track) (posto : obs) : list nat :=
  if forallb (later_ok c (state_of_obs posto) (o_probes posto)) tr then [] else [23%nat].

Fixpoint mon_steps (c : ocase) (i : nat) (tr : track) (preo : obs) (l : list ostep) : list (nat * nat) :=
  match l with
  | [] => []
  | s :: l' =>
      let tr' := track_upd tr (os_op s) (os_obs s) in
      map (fun k => (i, k)) (mon_step c preo (os_op s) (os_obs s) ++ mon_later c tr' (os_obs s))
      ++ mon_steps c (S i) tr' (os_obs s) l'
  end.

Definition mon_case (c : ocase) : list (nat * nat) := mon_steps c 1 [] (oc_init c) (oc_steps c).

Definition monitor_failures (cs : list ocase) : list (nat * (nat * nat)) :=
  flat_map (fun ic => map (fun m => (fst ic, m)) (mon_case (snd ic))) (number 0 cs).
