(** C12, second model file: the read side of the registry that the first file does not need, and an executable
    classifier of the branch an operation takes (used only to MEASURE what the generated sequences reach).

      x/aggregate/keeper/token_pairs.go  GetAllTokenPairs  (iteration of prefix 0x01 in key order)
      x/aggregate/genesis.go             ExportGenesis     (Params + GetAllTokenPairs)

    No proofs in this file. *)
From Teleport Require Import Base.Bytes Base.Outcome Base.AList Model.Registry.

(** GetAllTokenPairs: the values of prefix 0x01 in iteration (= key) order *)
Definition get_all_token_pairs (s : state) : list pair := map snd (st_pairs s).

(** ExportGenesis: the parameters (only EnableAggregate concerns the registry) and all pairs *)
Definition export_genesis (s : state) : bool * list pair := (st_enable s, get_all_token_pairs s).

(** GenesisState.Validate applied to the export *)
Definition export_validates (v : variant) (s : state) : bool :=
  match validate_genesis v [] [] (get_all_token_pairs s) with Ok _ => true | _ => false end.

(** strictly increasing keys: what raw iteration of a real store always shows *)
Fixpoint sorted_b {V} (l : alist V) : bool :=
  match l with
  | (k1, _) :: (((k2, _) :: _) as r) => bytes_ltb k1 k2 && sorted_b r
  | _ => true
  end.

Definition sorted_state_b (s : state) : bool :=
  sorted_b (st_pairs s) && sorted_b (st_erc20 s) && sorted_b (st_denom s) && sorted_b (st_meta s).

(** every registered denomination is a valid bank denomination, every address key has 20 bytes *)
Definition valid_denoms_b (s : state) : bool := forallb valid_denom (map fst (st_denom s)).
Definition addr_keys_b (s : state) : bool := forallb (fun a => Nat.eqb (length a) 20) (map fst (st_erc20 s)).

(** * Which branch of the code an operation takes (codes < 100; see [tools/py/props/c12.py] BRANCHES) *)
Section Branch.
  Variable evm_denom : bytes.

  (* the checks shared by RegisterCoin and AddCoin: 0 = passed with new metadata, 8 = passed, metadata "equal" *)
  Definition coin_branch (s : state) (md : metadata) (sup : bool) : nat :=
    if negb (st_enable s) then 2 else
    if is_hex_address (md_base md) then 3 else
    if bytes_eqb (md_base md) evm_denom then 4 else
    if ahas (md_base md) (st_denom s) then 5 else
    if negb sup then 6 else
    match aget (md_base md) (st_meta s) with
    | None => 0
    | Some m => if equal_metadata m md then 8 else 7
    end.

  Definition convert_branch (s : state) (token denom : bytes) (live : list bytes) : nat :=
    if negb (st_enable s) then 2 else
    let id := get_token_pair_id s token in
    if negb (bytes_eqb (get0 (st_denom s) denom) id) then 3 else
    match id with
    | [] => 4
    | _ => match get_pair s id with
           | None => 5
           | Some p => if negb (p_enabled p) then 6 else
                       if existsb (bytes_eqb (addr_of (p_text p))) live then 8 else 7
           end
    end.

  Fixpoint genesis_branch (seen_erc20 seen_denom : list bytes) (ps : list pair) : nat :=
    match ps with
    | [] => 95
    | p :: r =>
        let key := addr_of (p_text p) in
        if existsb (bytes_eqb key) seen_erc20 then 91 else
        match p_denoms p with
        | [] => 92
        | _ => match check_denoms seen_denom (p_denoms p) with
               | None => 93
               | Some seen' => if pair_validate head p then genesis_branch (key :: seen_erc20) seen' r else 94
               end
        end
    end.

  Definition branch (canon : bytes -> bytes) (s : state) (o : op) : nat :=
    match o with
    | ORegisterCoin md _ sup =>
        if negb (validate_basic o) then 1 else
        match coin_branch s md sup with 0 => 9 | n => n end
    | OAddCoin md c sup =>
        if negb (validate_basic o) then 11 else
        match coin_branch s md sup with
        | 0 | 8 => match get_pair s (get0 (st_erc20 s) (addr_of c)) with
                   | None => 18
                   | Some p => if Nat.ltb 1 (length (p_denoms p)) then 20 else 19
                   end
        | n => 10 + n
        end
    | ORegisterERC20 t q =>
        if negb (validate_basic o) then 21 else
        if negb (st_enable s) then 22 else
        if ahas (addr_of t) (st_erc20 s) then 23 else
        match q with
        | None => 24
        | Some q =>
            let str := canon (addr_of t) in
            if ahas (create_denom str) (st_meta s) then 25 else
            if ahas (create_denom str) (st_denom s) then 26 else
            if negb (metadata_validate (erc20_metadata str q)) then 27 else 28
        end
    | OToggle t =>
        if negb (validate_basic o) then 31 else
        match get_token_pair_id s t with
        | [] => 32
        | id => match get_pair s id with
                | None => 33
                | Some p => if p_enabled p then 34 else 35
                end
        end
    | OUpdate a b q =>
        if negb (validate_basic o) then 41 else
        match get0 (st_erc20 s) (addr_of a) with
        | [] => 42
        | id =>
          if ahas (addr_of b) (st_erc20 s) then 43 else
          match get_pair s id with
          | None => 44
          | Some p =>
            match p_denoms p with
            | [] => 44
            | d0 :: _ =>
              match aget d0 (st_meta s) with
              | None => 45
              | Some m =>
                match md_units m, q with
                | [], _ => 46
                | _, None => 47
                | _, Some q =>
                  if negb (bytes_eqb (md_display m) (q_name q)) then 48 else
                  if negb (bytes_eqb (md_symbol m) (q_symbol q)) then 49 else
                  if negb (bytes_eqb (md_desc m) (create_descr (canon (addr_of a)))) then 50 else
                  if negb (unit_matches (md_units m) (q_name q) (q_decimals q)) then 51 else
                  if Nat.ltb 1 (length (p_denoms p)) then 53 else 52
                end
              end
            end
          end
        end
    | OConvertCoin d live => if negb (validate_basic o) then 61 else 60 + convert_branch s d d live
    | OConvertERC20 c d live => if negb (validate_basic o) then 71 else 70 + convert_branch s c d live
    | OSetEnable b => if b then 81 else 82
    | OGenesis ps _ => genesis_branch [] [] ps
    | OEnv => 99
    end.

  (* the outcome class each branch code stands for (9 = not compared): lets every run check the classifier
     against the model's own [step] *)
  Definition branch_class (b : nat) : nat :=
    if existsb (Nat.eqb b) [1; 11; 21; 31; 41; 61; 71]%nat then 3 else
    if existsb (Nat.eqb b) [9; 8; 19; 20; 28; 34; 35; 52; 53; 67; 77; 81; 82; 95]%nat then 0 else
    if existsb (Nat.eqb b) [68; 78; 99]%nat then 9 else 1.
End Branch.
