(** * C14 — comparison of independent replays (the property itself, as a Boolean on the IMPLEMENTATION's traces)

    [replay_disagreements]: every position at which independent replays of one recorded block history differ. *)
From Coq Require Import List String NArith Bool.
Import ListNotations.

(** ** replay comparison

    One observation per recorded operation (InitChain, BeginBlock, DeliverTx, EndBlock, Commit, out-of-band keeper
    call), as produced by harness/cmd/c14 on a FRESH application: outcome class, response code, gas wanted / used,
    and SHA-256 digests (as numbers) of the response data, of the events (attributes of each event sorted — the
    attribute order inside an event is compared separately, field 8), of validator / consensus-parameter updates
    and, for Commit, the application hash itself. *)
Record obs := {
  o_kind : N;        (* 0 init 1 begin 2 tx 3 end 4 commit 5 oob *)
  o_class : N;       (* 0 returned, 2 panicked *)
  o_code : N;
  o_gas_wanted : N;
  o_gas_used : N;
  o_data : N;
  o_events : N;      (* canonical: attributes sorted inside each event *)
  o_extra : N;
  o_hash : N;        (* Commit: LastCommitID().Hash *)
  o_events_raw : N   (* events exactly as returned *)
}.

(** first field in which two observations differ: 1 kind 2 class 3 code 4 gas 5 data 6 events 7 extra/updates
    8 application hash 9 attribute order only; 0 = equal *)
Definition obs_diff (a b : obs) : nat :=
  if negb (N.eqb (o_kind a) (o_kind b)) then 1
  else if negb (N.eqb (o_class a) (o_class b)) then 2
  else if negb (N.eqb (o_code a) (o_code b)) then 3
  else if negb (N.eqb (o_gas_wanted a) (o_gas_wanted b) && N.eqb (o_gas_used a) (o_gas_used b)) then 4
  else if negb (N.eqb (o_data a) (o_data b)) then 5
  else if negb (N.eqb (o_events a) (o_events b)) then 6
  else if negb (N.eqb (o_extra a) (o_extra b)) then 7
  else if negb (N.eqb (o_hash a) (o_hash b)) then 8
  else if negb (N.eqb (o_events_raw a) (o_events_raw b)) then 9
  else 0.

Definition obs_eqb (a b : obs) : bool := match obs_diff a b with 0 => true | _ => false end.

(** all differing positions of two traces: (step, field); a length mismatch is reported as field 10 *)
Fixpoint trace_diffs (i : nat) (t1 t2 : list obs) : list (nat * nat) :=
  match t1, t2 with
  | [], [] => []
  | a :: r1, b :: r2 =>
      match obs_diff a b with
      | 0 => trace_diffs (S i) r1 r2
      | k => (i, k) :: trace_diffs (S i) r1 r2
      end
  | _, _ => [(i, 10)]
  end.

Definition traces_agree (t1 t2 : list obs) : bool := match trace_diffs 0 t1 t2 with [] => true | _ => false end.

(** a case = the traces of one history from several independent replays (the first is the reference) *)
Definition case_diffs (ts : list (list obs)) : list (nat * nat) :=
  match ts with
  | [] => []
  | ref :: others => flat_map (fun t => trace_diffs 0 ref t) others
  end.

(** monitor: (case, (step, field)) for every disagreement — empty = every replay of every history agrees *)
Fixpoint number_from {A} (i : nat) (l : list A) : list (nat * A) :=
  match l with [] => [] | a :: t => (i, a) :: number_from (S i) t end.

Definition replay_disagreements (cases : list (list (list obs))) : list (nat * (nat * nat)) :=
  flat_map (fun c => map (fun d => (fst c, d)) (case_diffs (snd c))) (number_from 0 cases).

(** the same, restricted to what Tendermint 0.34 puts under consensus (codes, data, gas, hashes): fields 1-5, 7, 8, 10 *)
Definition consensus_field (k : nat) : bool := match k with 6 | 9 => false | _ => true end.
