(** * C17 — the native side: what the message router executes (MODELLED from cosmos-sdk v0.45.2,
    validated by the correspondence; the SDK is not verified here) and the bank keeper override.

    - [exec_native] : [x/staking/keeper/msg_server.go] (Delegate, Undelegate, BeginRedelegate) with
      [keeper/delegation.go] (Delegate, Unbond, Undelegate, BeginRedelegation, ValidateUnbondAmount),
      [x/distribution] WithdrawDelegatorReward and the reward withdrawal done by its staking hooks,
      [x/gov/keeper/vote.go] AddVote — for validators that are bonded with exchange rate 1
      (shares = tokens * 10^18), which is what the harness sets up (slashing only ends a history).
    - [burn_coins] : [adapter/bank/keeper.go] [OverwriteBankKeeper.BurnCoins] = module-to-module send
      to the fee collector; [burn_coins_base] = the SDK's BaseKeeper.BurnCoins it replaces.

    Oracle arguments (tabulated from the real functions by the harness): [resolve] = validator
    string -> index of the validator ([sdk.ValAddressFromBech32] succeeds and the validator exists);
    pending rewards per delegation ([n_rew], read from the real distribution keeper before the tx). *)
From Teleport Require Import Base.Bytes Base.Outcome Model.Adapter.
Local Open Scope Z_scope.

(** ** association lists *)
Section Assoc.
  Context {K V : Type}.
  Variable keqb : K -> K -> bool.

  Fixpoint aget (m : list (K * V)) (k : K) : option V :=
    match m with
    | [] => None
    | (k', v) :: r => if keqb k k' then Some v else aget r k
    end.

  Fixpoint aset (m : list (K * V)) (k : K) (v : V) : list (K * V) :=
    match m with
    | [] => [(k, v)]
    | (k', v') :: r => if keqb k k' then (k, v) :: r else (k', v') :: aset r k v
    end.

  Fixpoint adel (m : list (K * V)) (k : K) : list (K * V) :=
    match m with
    | [] => []
    | (k', v') :: r => if keqb k k' then adel r k else (k', v') :: adel r k
    end.
End Assoc.

Definition dkey : Type := bytes * nat.                 (* delegator, validator index *)
Definition rkey : Type := bytes * nat * nat.           (* delegator, source, destination *)
Definition vkey : Type := N * bytes.                   (* proposal, voter *)

Definition dkey_eqb (a b : dkey) : bool := bytes_eqb (fst a) (fst b) && Nat.eqb (snd a) (snd b).
Definition rkey_eqb (a b : rkey) : bool :=
  bytes_eqb (fst (fst a)) (fst (fst b)) && Nat.eqb (snd (fst a)) (snd (fst b)) && Nat.eqb (snd a) (snd b).
Definition vkey_eqb (a b : vkey) : bool := N.eqb (fst a) (fst b) && bytes_eqb (snd a) (snd b).

Record nstate := {
  n_bal : list (bytes * Z);                   (* bank balances in the bond denomination, by 20-byte address *)
  n_supply : Z;                               (* bank total supply of the bond denomination *)
  n_vtok : list Z;                            (* tokens of validator i (delegator shares = tokens * 10^18) *)
  n_dels : list (dkey * Z);                   (* delegation shares, scaled by 10^18; absent = none *)
  n_ubds : list (dkey * list Z);              (* unbonding delegation entries (balances), oldest first *)
  n_reds : list (rkey * list Z);              (* redelegation entries (initial balances) *)
  n_votes : list (vkey * list (Z * Z));       (* votes: (option, weight scaled by 10^18) *)
  n_props : list (N * bool);                  (* proposals: in voting period? *)
  n_rew : list (dkey * Z)                     (* oracle: reward (truncated) a withdrawal would pay now *)
}.

Definition dec18 : Z := 1000000000000000000.
Definition dec16 : Z := 10000000000000000.

Definition bal (s : nstate) (a : bytes) : Z := match aget bytes_eqb (n_bal s) a with Some v => v | None => 0 end.

Definition with_bal (s : nstate) (b : list (bytes * Z)) : nstate :=
  {| n_bal := b; n_supply := n_supply s; n_vtok := n_vtok s; n_dels := n_dels s; n_ubds := n_ubds s;
     n_reds := n_reds s; n_votes := n_votes s; n_props := n_props s; n_rew := n_rew s |}.

(** bank SendCoins (the caller has checked the funds) *)
Definition move (s : nstate) (from to : bytes) (a : Z) : nstate :=
  let b1 := aset bytes_eqb (n_bal s) from (bal s from - a) in
  let s1 := with_bal s b1 in
  with_bal s1 (aset bytes_eqb b1 to (bal s1 to + a)).

Fixpoint upd_nth (l : list Z) (i : nat) (f : Z -> Z) : list Z :=
  match l, i with
  | [], _ => []
  | x :: r, O => f x :: r
  | x :: r, S i' => x :: upd_nth r i' f
  end.

Section Native.
  Variable resolve : bytes -> option nat.
  Variable bonded_pool notbonded_pool distr_mod : bytes.   (* module account addresses *)
  Variable max_entries : nat.                              (* staking parameter MaxEntries *)

  (** distribution hooks / WithdrawDelegationRewards: pay the pending reward of (d, i) to d *)
  Definition withdraw_rewards (s : nstate) (d : bytes) (i : nat) : nstate :=
    match aget dkey_eqb (n_rew s) (d, i) with
    | None => s
    | Some r =>
        let s1 := move s distr_mod d r in
        {| n_bal := n_bal s1; n_supply := n_supply s1; n_vtok := n_vtok s1; n_dels := n_dels s1; n_ubds := n_ubds s1;
           n_reds := n_reds s1; n_votes := n_votes s1; n_props := n_props s1; n_rew := adel dkey_eqb (n_rew s1) (d, i) |}
    end.

  Definition has_del (s : nstate) (d : bytes) (i : nat) : bool :=
    match aget dkey_eqb (n_dels s) (d, i) with Some _ => true | None => false end.

  (** rewards are withdrawn when an EXISTING delegation is about to be modified *)
  Definition touch (s : nstate) (d : bytes) (i : nat) : nstate :=
    if has_del s d i then withdraw_rewards s d i else s.

  Definition add_shares (s : nstate) (d : bytes) (i : nat) (a : Z) : nstate :=
    let cur := match aget dkey_eqb (n_dels s) (d, i) with Some v => v | None => 0 end in
    let nv := cur + a * dec18 in
    {| n_bal := n_bal s; n_supply := n_supply s; n_vtok := upd_nth (n_vtok s) i (fun t => t + a);
       n_dels := if nv =? 0 then adel dkey_eqb (n_dels s) (d, i) else aset dkey_eqb (n_dels s) (d, i) nv;
       n_ubds := n_ubds s; n_reds := n_reds s; n_votes := n_votes s; n_props := n_props s; n_rew := n_rew s |}.

  Definition vtok (s : nstate) (i : nat) : Z := nth i (n_vtok s) 0.

  (** sdk.Dec.MulInt: panic "Int overflow" above 316 bits *)
  Definition mulint_overflows (x : Z) : bool := (316 <? Z.log2 x + 1) && (0 <? x).

  (** Keeper.ValidateUnbondAmount for (d, i, a): Err / Panic / fine *)
  Definition validate_unbond (s : nstate) (d : bytes) (i : nat) (a : Z) : outcome unit :=
    match aget dkey_eqb (n_dels s) (d, i) with
    | None => Err                                             (* ErrNoDelegation *)
    | Some sh =>
        if vtok s i =? 0 then Err else
        if mulint_overflows (vtok s i * dec18 * a) then Panic  (* DelegatorShares.MulInt(amt) *)
        else if sh <? a * dec18 then Err else Ok tt            (* "invalid shares amount" *)
    end.

  Definition entries {K} (eqb : K -> K -> bool) (m : list (K * list Z)) (k : K) : list Z :=
    match aget eqb m k with Some l => l | None => [] end.

  Definition exec_native (m : msg) (s : nstate) : outcome nstate :=
    match m with
    | MDelegate d v a =>
        match resolve v with
        | None => Err
        | Some i =>
            let s1 := touch s d i in
            if bal s1 d <? a then Err                          (* DelegateCoins: insufficient funds *)
            else Ok (add_shares (move s1 d bonded_pool a) d i a)
        end
    | MUndelegate d v a =>
        match resolve v with
        | None => Err
        | Some i =>
            _ <- validate_unbond s d i a ;;
            if (max_entries <=? length (entries dkey_eqb (n_ubds s) (d, i)))%nat then Err else
            let s1 := touch s d i in
            let s2 := add_shares (move s1 bonded_pool notbonded_pool a) d i (- a) in
            Ok {| n_bal := n_bal s2; n_supply := n_supply s2; n_vtok := n_vtok s2; n_dels := n_dels s2;
                  n_ubds := aset dkey_eqb (n_ubds s2) (d, i) (entries dkey_eqb (n_ubds s2) (d, i) ++ [a]);
                  n_reds := n_reds s2; n_votes := n_votes s2; n_props := n_props s2; n_rew := n_rew s2 |}
        end
    | MRedelegate d sv tv a =>
        match resolve sv with
        | None => Err
        | Some i =>
            _ <- validate_unbond s d i a ;;
            match resolve tv with
            | None => Err
            | Some j =>
                if Nat.eqb i j then Err                                             (* ErrSelfRedelegation *)
                else if existsb (fun e => bytes_eqb (fst (fst (fst e))) d && Nat.eqb (snd (fst e)) i) (n_reds s)
                     then Err                                                       (* ErrTransitiveRedelegation *)
                else if (max_entries <=? length (entries rkey_eqb (n_reds s) (d, i, j)))%nat then Err
                else
                  let s1 := touch s d i in
                  let s2 := add_shares s1 d i (- a) in
                  let s3 := touch s2 d j in
                  let s4 := add_shares s3 d j a in
                  Ok {| n_bal := n_bal s4; n_supply := n_supply s4; n_vtok := n_vtok s4; n_dels := n_dels s4;
                        n_ubds := n_ubds s4;
                        n_reds := aset rkey_eqb (n_reds s4) (d, i, j) (entries rkey_eqb (n_reds s4) (d, i, j) ++ [a]);
                        n_votes := n_votes s4; n_props := n_props s4; n_rew := n_rew s4 |}
            end
        end
    | MWithdraw d v =>
        match resolve v with
        | None => Err
        | Some i => if has_del s d i then Ok (withdraw_rewards s d i) else Err
        end
    | MVote d pid o =>
        match aget N.eqb (n_props s) pid with
        | Some true =>
            Ok {| n_bal := n_bal s; n_supply := n_supply s; n_vtok := n_vtok s; n_dels := n_dels s; n_ubds := n_ubds s;
                  n_reds := n_reds s; n_votes := aset vkey_eqb (n_votes s) (pid, d) [(o, dec18)];
                  n_props := n_props s; n_rew := n_rew s |}
        | _ => Err                                             (* unknown / inactive proposal *)
        end
    | MVoteW d pid os =>
        match aget N.eqb (n_props s) pid with
        | Some true =>
            Ok {| n_bal := n_bal s; n_supply := n_supply s; n_vtok := n_vtok s; n_dels := n_dels s; n_ubds := n_ubds s;
                  n_reds := n_reds s;
                  n_votes := aset vkey_eqb (n_votes s) (pid, d) (map (fun ow => (fst ow, snd ow * dec16)) os);
                  n_props := n_props s; n_rew := n_rew s |}
        | _ => Err
        end
    end.
End Native.

(** ** The bank keeper override (adapter/bank/keeper.go) *)

Definition total_bal (s : nstate) : Z := fold_right (fun kv acc => snd kv + acc) 0 (n_bal s).

(** [OverwriteBankKeeper.BurnCoins(module, amt)] = [SendCoinsFromModuleToModule(module, fee_collector, amt)];
    fails when the module account does not hold the amount. *)
Definition burn_coins (fee_collector : bytes) (module : bytes) (a : Z) (s : nstate) : outcome nstate :=
  if (a <? 0) || (bal s module <? a) then Err else Ok (move s module fee_collector a).

(** the SDK's [BaseKeeper.BurnCoins] that staking and gov would get without the override: balance and
    supply both decrease *)
Definition burn_coins_base (module : bytes) (a : Z) (s : nstate) : outcome nstate :=
  if (a <? 0) || (bal s module <? a) then Err else
  let s1 := with_bal s (aset bytes_eqb (n_bal s) module (bal s module - a)) in
  Ok {| n_bal := n_bal s1; n_supply := n_supply s1 - a; n_vtok := n_vtok s1; n_dels := n_dels s1; n_ubds := n_ubds s1;
        n_reds := n_reds s1; n_votes := n_votes s1; n_props := n_props s1; n_rew := n_rew s1 |}.
