(** The real key builders used by the packet model instance: rendered from the format terms that
    tools/gotocoq/keys regenerates from x/xibc/core/host/keys.go (C19 key library), and the identifier
    validator of host/validate.go. *)
From Teleport Require Import Base.Bytes Base.Fmt Gen.KeysGen.
From Teleport Require Model.Keys.

Definition k_receipt (s d : bytes) (q : N) : bytes := Keys.packet_receipt_key (Keys.Build_triple s d q).
Definition k_ack (s d : bytes) (q : N) : bytes := Keys.packet_ack_key (Keys.Build_triple s d q).
Definition k_commitment (s d : bytes) (q : N) : bytes := Keys.packet_commitment_key (Keys.Build_triple s d q).
Definition k_nextseq (s d : bytes) : bytes := Keys.next_seq_send_key s d.
Definition k_valid : bytes -> bool := Keys.valid_chain_name.
