(** Store keys of the XIBC module: the key builders (format terms REGENERATED
    from the Go source, Gen/KeysGen.v), chain-name validation
    (host/validate.go) and the key PARSERS the Go iterators use.  No proofs here
    (Proofs/Keys.v, Proofs/KeysParse.v). *)
From Teleport Require Import Base.Bytes Base.Outcome Base.Fmt Gen.KeysGen Gen.KeysIterGen.
Local Open Scope N_scope.

(** * Chain names — host/validate.go [defaultIdentifierValidator(id, min, max)] *)

Definition is_ascii_space (b : byte) : bool :=
  match b with x09 | x0a | x0b | x0c | x0d | x20 => true | _ => false end.

Definition in_class (cls : bytes) (b : byte) : bool := existsb (Byte.eqb b) cls.

(** accept = no error.  [strings.TrimSpace(id) == ""] / contains "/" / length
    outside [min, max] / not matching [^[class]+$]: each is an error.  (Go's
    TrimSpace also strips non-ASCII white space; such identifiers contain bytes
    >= 0x80, which the ASCII-only regenerated class rejects anyway — the
    translator refuses a class with non-ASCII members.) *)
Definition default_identifier_validator (id : bytes) (min max : N) : bool :=
  negb (forallb is_ascii_space id)
  && no_sep id
  && (min <=? N.of_nat (length id)) && (N.of_nat (length id) <=? max)
  && negb (match id with [] => true | _ => false end)
  && forallb (in_class host_IsValidID_class) id.

(** [host.ClientIdentifierValidator]: the validator applied to the chain name
    of a client (MsgCreateClient / proposals); [SrcChainValidator] and
    [DstChainValidator] carry their own regenerated bounds. *)
Definition valid_chain_name (s : bytes) : bool :=
  default_identifier_validator s host_ClientIdentifierValidator_min host_ClientIdentifierValidator_max.
Definition valid_src_chain (s : bytes) : bool :=
  default_identifier_validator s host_SrcChainValidator_min host_SrcChainValidator_max.
Definition valid_dst_chain (s : bytes) : bool :=
  default_identifier_validator s host_DstChainValidator_min host_DstChainValidator_max.

(** * Packet keys over (source, destination, sequence) *)

Record triple := { t_src : bytes; t_dst : bytes; t_seq : N }.

Definition valid_triple (t : triple) : bool :=
  valid_chain_name (t_src t) && valid_chain_name (t_dst t) && (t_seq t <? two64).

Definition triple_args (t : triple) : args := [VS (t_src t); VS (t_dst t); VN (t_seq t)].

Definition packet_receipt_key (t : triple) : bytes := render host_PacketReceiptKey (triple_args t).
Definition packet_ack_key (t : triple) : bytes := render host_PacketAcknowledgementKey (triple_args t).
Definition packet_commitment_key (t : triple) : bytes := render host_PacketCommitmentKey (triple_args t).
Definition packet_relayer_key (t : triple) : bytes := render host_PacketRelayerKey (triple_args t).
Definition next_seq_send_key (src dst : bytes) : bytes := render host_NextSequenceSendKey [VS src; VS dst].

(** * Client keys *)

Record height := { rev_number : N; rev_height : N }.
Definition valid_height (h : height) : bool := (rev_number h <? two64) && (rev_height h <? two64).
Definition height_args (h : height) : args := [VN (rev_number h); VN (rev_height h)].

(** relative to the client's prefix store ["clients/<name>/"] *)
Definition consensus_state_key (h : height) : bytes := render host_ConsensusStateKey (height_args h).
Definition client_state_key : bytes := render host_ClientStateKey [].
Definition tm_processed_time_key (h : height) : bytes := render tm_ProcessedTimeKey (height_args h).
Definition tm_iteration_key (h : height) : bytes := render tm_IterationKey (height_args h).
Definition bsc_recent_signer_key (h : height) : bytes := render bsc_keyRecentSinger (height_args h).
Definition eth_header_index_key (hash : bytes) (n : N) : bytes := render eth_EthHeaderIndexKey [VS hash; VN n].
Definition eth_root_main_key (root : bytes) (n : N) : bytes := render eth_EthRootMainKey [VS root; VN n].

(** full keys in the xibc store *)
Definition client_store_prefix (name : bytes) : bytes := render clientkeeper_ClientStore_prefix [VS name].
Definition full_client_state_key (name : bytes) : bytes := render host_FullClientStateKey [VS name].
Definition full_consensus_state_key (name : bytes) (h : height) : bytes :=
  render host_FullConsensusStateKey (VS name :: height_args h).
Definition chain_name_key : bytes := clienttypes_KeyClientName.
Definition relayer_key (address : bytes) : bytes := render clientkeeper_RelayerStore_prefix [] ++ address.
(** the relayer family as a format: prefix ++ raw address *)
Definition relayer_fmt : fmt := clientkeeper_RelayerStore_prefix ++ [Raw 0].
Definition chain_name_fmt : fmt := [Lit clienttypes_KeyClientName].

(** * The parsers used by the Go iterators (transcribed) *)

(** [strconv.ParseUint(s, 10, 64)]: non-empty, decimal digits only (leading
    zeros accepted, no sign, no underscore), value < 2^64 *)
Definition parse_uint_go (s : bytes) : option N :=
  match s with
  | [] => None
  | _ => match bytes_uint s with
         | Some u => let v := N.of_uint u in if v <? two64 then Some v else None
         | None => None
         end
  end.

(** packet keeper [iterateHashes]: [keySplit[1]], [keySplit[2]], ParseUint of
    the LAST field; index out of range and a parse error are panics *)
Definition iterate_hashes_parse (k : bytes) : outcome triple :=
  let ks := split_sep k in
  match nth_error ks 1, nth_error ks 2 with
  | Some s, Some d =>
      match parse_uint_go (last ks []) with
      | Some n => Ok {| t_src := s; t_dst := d; t_seq := n |}
      | None => Panic
      end
  | _, _ => Panic
  end.

(** host/parse.go [ParsePath] (used by IteratePacketSequence on
    nextSequenceSend keys): fewer than 3 fields is an error *)
Definition parse_path (k : bytes) : outcome (bytes * bytes) :=
  match split_sep k with
  | _ :: s :: d :: _ => Ok (s, d)
  | _ => Err
  end.

(** [clienttypes.ParseHeight("<rev>-<height>")] *)
Definition is_dash (b : byte) : bool := Byte.eqb b x2d.
Definition parse_height_go (s : bytes) : option height :=
  match split_on is_dash s with
  | [a; b] => match parse_uint_go a, parse_uint_go b with
              | Some r, Some h => Some {| rev_number := r; rev_height := h |}
              | _, _ => None
              end
  | _ => None
  end.

(** [binary.BigEndian.Uint64(b)]: panics when [len(b) < 8], reads the first 8 bytes *)
Definition go_be_uint64 (b : bytes) : outcome N :=
  if Nat.ltb (length b) 8 then Panic else Ok (be_val (firstn 8 b)).

(** [sdk.BigEndianToUint64]: 0 for the empty slice *)
Definition sdk_be_to_uint64 (b : bytes) : outcome N :=
  match b with [] => Ok 0 | _ => go_be_uint64 b end.

(** Result of looking at one key inside an iterator: [Skip] = `continue`. *)
Inductive seen (A : Type) := Skip | Got (a : A).
Arguments Skip {A}.
Arguments Got {A} a.

(** ** Split-based parsing of binary height keys: the code BEFORE the repair of
    defect D7 (/repo commit f424384).  Kept, suffixed [_old], for
    Refuted/C19_split_height_refuted.v. *)

(** client keeper [IterateConsensusStates] on a full key of the xibc store *)
Definition iter_consensus_states_old (k : bytes) : outcome (seen (bytes * height)) :=
  let ks := split_sep k in
  if negb (Nat.eqb (length ks) 4) || negb (bytes_eqb (nth 2 ks []) host_KeyConsensusStatePrefix) then Ok Skip
  else
    let hb := nth 3 ks [] in
    if Nat.ltb (length hb) 8 then Panic            (* heightBytes[:8] *)
    else
      r <- go_be_uint64 (firstn 8 hb) ;;
      h <- go_be_uint64 (skipn 8 hb) ;;
      Ok (Got (nth 1 ks [], {| rev_number := r; rev_height := h |})).

(** tendermint [IterateProcessedTime] on a key of the client store: a filter *)
Definition iter_processed_time_old (k : bytes) : seen bytes :=
  let ks := split_sep k in
  if negb (Nat.eqb (length ks) 3) || negb (bytes_eqb (nth 2 ks []) (B "processedTime")) then Skip else Got k.

(** BSC / ETH [GetHeightFromIterationKey]: fixed offset after "consensusStates/" *)
Definition evm_height_from_key (k : bytes) : outcome height :=
  let off := length (host_KeyConsensusStatePrefix ++ [sep]) in
  if Nat.ltb (length k) off then Panic else
  let be := skipn off k in
  if Nat.ltb (length be) 8 then Panic else          (* bigEndianBytes[0:8] *)
  r <- sdk_be_to_uint64 (firstn 8 be) ;;
  h <- sdk_be_to_uint64 (skipn 8 be) ;;
  Ok {| rev_number := r; rev_height := h |}.

(** BSC / ETH [IterateConsensusStateAscending] on a key of the client store *)
Definition iter_evm_consensus_old (k : bytes) : outcome (seen height) :=
  let ks := split_sep k in
  if negb (Nat.eqb (length ks) 2) then Ok Skip
  else h <- evm_height_from_key k ;; Ok (Got h).

(** client keeper [IterateClients] before the repair: last field must be
    "clientState", the chain name is field 1 *)
Definition iter_clients_old (k : bytes) : outcome (seen bytes) :=
  let ks := split_sep k in
  if negb (bytes_eqb (last ks []) host_KeyClientState) then Ok Skip
  else match nth_error ks 1 with Some n => Ok (Got n) | None => Panic end.

(** ** The parsers of /repo HEAD (fixed offsets, host/parse.go) *)

(** [bytes.IndexByte(rest, '/')]: the part before and after the first separator *)
Fixpoint cut_sep (l : bytes) : option (bytes * bytes) :=
  match l with
  | [] => None
  | c :: r => if is_sep c then Some ([], r)
              else match cut_sep r with Some (a, b) => Some (c :: a, b) | None => None end
  end.

(** [host.ParseClientKey]: "clients/" ++ chainName ++ "/" ++ path *)
Definition parse_client_key (k : bytes) : option (bytes * bytes) :=
  match strip (host_KeyClientStorePrefix ++ [sep]) k with
  | Some rest => cut_sep rest
  | None => None
  end.

(** [host.ParseConsensusStateKey]: "consensusStates/" ++ exactly 16 bytes *)
Definition parse_consensus_state_key (k : bytes) : option height :=
  match strip (host_KeyConsensusStatePrefix ++ [sep]) k with
  | Some hb =>
      if Nat.eqb (length hb) 16
      then Some {| rev_number := be_val (firstn 8 hb); rev_height := be_val (firstn 8 (skipn 8 hb)) |}
      else None
  | None => None
  end.

(** client keeper [IterateConsensusStates] on a full key of the xibc store *)
Definition iter_consensus_states (k : bytes) : seen (bytes * height) :=
  match parse_client_key k with
  | Some (name, path) => match parse_consensus_state_key path with Some h => Got (name, h) | None => Skip end
  | None => Skip
  end.

(** client keeper [IterateClients] on a full key *)
Definition iter_clients (k : bytes) : seen bytes :=
  match parse_client_key k with
  | Some (name, path) => if bytes_eqb path host_KeyClientState then Got name else Skip
  | None => Skip
  end.

Fixpoint has_suffix (sfx l : bytes) : bool :=
  bytes_eqb sfx l || match l with [] => false | _ :: r => has_suffix sfx r end.

(** tendermint [IterateProcessedTime] on a key of the client store: not a
    consensus state key, and ends with "/processedTime" *)
Definition iter_processed_time (k : bytes) : seen bytes :=
  match parse_consensus_state_key k with
  | Some _ => Skip
  | None => if has_suffix tm_KeyProcessedTime k then Got k else Skip
  end.

(** BSC / ETH [IterateConsensusStateAscending] on a key of the client store *)
Definition iter_evm_consensus (k : bytes) : outcome (seen height) :=
  match parse_consensus_state_key k with
  | Some _ => h <- evm_height_from_key k ;; Ok (Got h)
  | None => Ok Skip
  end.

(** ** Parsers that never split binary data (unchanged by the repair) *)

(** tendermint [GetHeightFromIterationKey] (fixed offset after "iterateConsensusStates") *)
Definition tm_height_from_iteration_key (k : bytes) : outcome height :=
  let off := length tm_KeyIterateConsensusStatePrefix in
  if Nat.ltb (length k) off then Panic else
  let be := skipn off k in
  if Nat.ltb (length be) 8 then Panic else
  r <- go_be_uint64 (firstn 8 be) ;;
  h <- go_be_uint64 (skipn 8 be) ;;
  Ok {| rev_number := r; rev_height := h |}.

(** BSC [parseRecentSignerKey] (used by [GetRecentSigners] / [DeleteAllSigner];
    /repo 0d61436): [strings.Split(key, "/")] must have exactly two fields —
    otherwise an error, never an index out of range — then ParseHeight of the
    second field *)
Definition bsc_signer_height_parse (k : bytes) : outcome height :=
  match split_sep k with
  | [_; s] => match parse_height_go s with Some h => Ok h | None => Err end
  | _ => Err
  end.

(** * Whole-store iteration

    [ks] = the keys of a store in store order.  [sdk.KVStorePrefixIterator(store,
    p)] visits exactly the keys with prefix [p], in order.  WHICH prefix every
    iterator of the Go code scans is REGENERATED from the source
    (Gen/KeysIterGen.v, translator tools/gotocoq/keysiter): [prefixes_of
    iterprefix_<pkg>_<Func>]. *)
Definition keys_with_prefix (p : bytes) (ks : list bytes) : list bytes := filter (is_prefix p) ks.

(** the literal prefixes of a regenerated description; [None] if one of them is a format or unknown *)
Fixpoint lit_prefixes (l : list iter_prefix) : option (list bytes) :=
  match l with
  | [] => Some []
  | PLit p :: r => match lit_prefixes r with Some ps => Some (p :: ps) | None => None end
  | _ => None
  end.

(** an iterator whose prefix the translator does not understand visits nothing in
    the model: the correspondence then fails on the first non-empty store *)
Definition prefixes_of (l : list iter_prefix) : list bytes :=
  match lit_prefixes l with Some ps => ps | None => [] end.

(** one prefix iteration after the other (ExportMetadata of bsc / eth) *)
Definition keys_with_prefixes (ps : list bytes) (ks : list bytes) : list bytes :=
  flat_map (fun p => keys_with_prefix p ks) ps.

Fixpoint collect {A} (f : bytes -> seen A) (ks : list bytes) : list A :=
  match ks with
  | [] => []
  | k :: r => match f k with Got x => x :: collect f r | Skip => collect f r end
  end.

(** tendermint [ClientState.ExportMetadata] (genesis.go): the keys handed out by
    [IterateProcessedTime], then every key of its own prefix iteration *)
(** the prefixes ExportMetadata scans itself: when it reaches its iterators only through helpers (the regenerated
    description then lists the prefixes of ALL the functions it calls, in call order) the ones that belong to
    [IterateProcessedTime] — visited through that function's filter, above — are left out *)
Definition iter_prefix_eqb (a b : iter_prefix) : bool :=
  match a, b with PLit x, PLit y => bytes_eqb x y | _, _ => false end.
Definition tm_export_own : list iter_prefix :=
  filter (fun p => negb (existsb (iter_prefix_eqb p) iterprefix_tm_IterateProcessedTime)) iterprefix_tm_ClientState_ExportMetadata.

Definition tm_export_keys (ks : list bytes) : list bytes :=
  collect iter_processed_time (keys_with_prefixes (prefixes_of iterprefix_tm_IterateProcessedTime) ks)
  ++ keys_with_prefixes (prefixes_of tm_export_own) ks.

(** bsc / eth [ClientState.ExportMetadata]: plain prefix iterations, one after the other *)
Definition bsc_export_keys (ks : list bytes) : list bytes :=
  keys_with_prefixes (prefixes_of iterprefix_bsc_ClientState_ExportMetadata) ks.

Definition eth_export_keys (ks : list bytes) : list bytes :=
  keys_with_prefixes (prefixes_of iterprefix_eth_ClientState_ExportMetadata) ks.

(** packet keeper [IteratePacketCommitmentByPath(ctx, srcChain, dstChain, cb)]: the
    prefix is a key format applied to parameters of the function (positions in
    the Go parameter list: ctx = 0, srcChain = 1, dstChain = 2) *)
Definition commitment_path_prefix (src dst : bytes) : bytes :=
  match iterprefix_packetkeeper_IteratePacketCommitmentByPath with
  | [PFmt f ix] => render f (map (fun i => nth i [VS []; VS src; VS dst] (VS [])) ix)
  | _ => []
  end.
