(** Correspondence and monitors for the "world" and "genesis" modes of the C20 harness, evaluated by
    [vm_compute] on what the real code did (no proofs here).

    [w_mismatches] / [g_mismatches]: the regenerated model (Model/RvestingCode.v) against the observation.
    [w_monitor_failures] / [g_monitor_failures]: the property itself on the observed trace alone — they use
    neither the model's step function nor the regenerated terms (the parameters in force are those the real
    code accepted; which parameter a key names is reported by the harness from the code's own constants). *)
From Teleport Require Import Base.Bytes Base.Outcome Model.Rvesting Model.RvestingCheck Model.RvestingIR Model.RvestingBank
  Model.RvestingParams Model.RvestingWorld Model.RvestingCode.
Local Open Scope Z_scope.

Record wobs := {
  wo_class : nat;                  (* 0 done, 1 rejected, 2 panicked *)
  wo_role : nat;                   (* param ops: 1 EnableVesting, 2 PerBlockReward, 3 another key; else 0 *)
  wo_bal : list (list Z);          (* tracked accounts x denominations *)
  wo_sup : list Z;                 (* stored supply per denomination *)
  wo_total : list Z;               (* sum of ALL balances per denomination *)
  wo_rest_same : bool;             (* no untracked account changed *)
  wo_store : list (bytes * bytes); (* params store under "rvesting/" in iterator order *)
  wo_height : Z
}.

Record wcase := { wc_denoms : list bytes; wc_init : wobs; wc_steps : list (wop * wobs) }.

Definition n_tracked : nat := 6.
Definition A_MINTER : nat := 3.
Definition A_FROM : nat := 4.

Definition world_of (ds : list bytes) (o : wobs) (ps : kv) : world :=
  {| w_accts := map (fun row => combine ds row) (wo_bal o);
     w_sup := combine ds (wo_sup o);
     w_ps := ps;
     w_height := wo_height o |}.

(** The params store of a freshly initialised app: DefaultGenesisState through InitGenesis. *)
Definition default_store : outcome kv :=
  set_param_set code_pairs code_lgs code_cgs G.default_enable (lift_coins G.default_rewards) [].

Fixpoint list_ZZ_eqb (a b : list (list Z)) : bool :=
  match a, b with
  | [], [] => true
  | x :: a', y :: b' => list_Z_eqb x y && list_ZZ_eqb a' b'
  | _, _ => false
  end.

Definition bal_table (ds : list bytes) (a : accts) : list (list Z) :=
  map (fun i => map (get (acct a i)) ds) (seq 0 n_tracked).

(** Store dump of the model, sorted by key (the store iterates in key order). *)
Fixpoint ins_kv (e : bytes * bytes) (l : list (bytes * bytes)) : list (bytes * bytes) :=
  match l with
  | [] => [e]
  | x :: t => if bytes_ltb (fst x) (fst e) then x :: ins_kv e t else e :: x :: t
  end.
Definition sort_kv (l : list (bytes * bytes)) : list (bytes * bytes) := fold_right ins_kv [] l.

Fixpoint kvb_eqb (a b : list (bytes * bytes)) : bool :=
  match a, b with
  | [], [] => true
  | (k, v) :: a', (k', v') :: b' => bytes_eqb k k' && bytes_eqb v v' && kvb_eqb a' b'
  | _, _ => false
  end.

Definition store_matches (s : kv) (o : wobs) : bool := kvb_eqb (sort_kv (render_store G.module_name s)) (wo_store o).

(** Outcome class the model predicts for one operation: 0 done, 1 rejected, 2 panic, 3 the model cannot tell. *)
Definition w_op_class (op : wop) (w : world) : nat :=
  match op with
  | WBegin | WBlock => match code_step op w with Ok _ => 0 | Err => 3 | Panic => 2 end
  | WParam k v =>
      match subspace_update code_pairs code_lgs code_cgs (w_ps w) k v with
      | Ok (Some _) => 0 | Ok None => 1 | Err => 3 | Panic => 2
      end
  | WSend i j l => match bank_send (w_accts w) i j l with Ok _ => 0 | _ => 1 end
  | WMint i l => match bank_mint (w_accts w) (w_sup w) i l with Ok _ => 0 | _ => 1 end
  | WBurn i l => match bank_burn (w_accts w) (w_sup w) i l with Ok _ => 0 | _ => 1 end
  end%nat.

(** Kinds: 20 default store differs, 21 outcome class, 22 balances, 23 supply, 24 params store, 25 height,
    26 the model cannot interpret the regenerated code on this input. *)
Definition obs_diff (ds : list bytes) (w : world) (o : wobs) : option nat :=
  if negb (list_ZZ_eqb (bal_table ds (w_accts w)) (wo_bal o)) then Some 22%nat
  else if negb (list_Z_eqb (map (get (w_sup w)) ds) (wo_sup o)) then Some 23%nat
  else if negb (store_matches (w_ps w) o) then Some 24%nat
  else if negb (w_height w =? wo_height o) then Some 25%nat
  else None.

Fixpoint w_cmp_steps (ds : list bytes) (i : nat) (w : world) (l : list (wop * wobs)) : list (nat * nat) :=
  match l with
  | [] => []
  | (op, o) :: l' =>
      let c := w_op_class op w in
      if Nat.eqb c 3 then [(i, 26%nat)]
      else if negb (Nat.eqb c (wo_class o)) then [(i, 21%nat)]
      else match code_step op w with
           | Ok w' => match obs_diff ds w' o with Some k => [(i, k)] | None => w_cmp_steps ds (S i) w' l' end
           | _ => []                      (* both panicked: the history ends *)
           end
  end.

Definition w_cmp_case (c : wcase) : list (nat * nat) :=
  match default_store with
  | Ok ps =>
      if negb (store_matches ps (wc_init c)) then [(0%nat, 20%nat)]
      else w_cmp_steps (wc_denoms c) 0 (world_of (wc_denoms c) (wc_init c) ps) (wc_steps c)
  | _ => [(0%nat, 26%nat)]
  end.

Definition w_mismatches (cs : list wcase) : list (nat * (nat * nat)) :=
  flat_map (fun ic => map (fun m => (fst ic, m)) (w_cmp_case (snd ic))) (number 0 cs).

(** ** Monitor on world traces.  Kinds: 11 BeginBlock (or a change of a vesting parameter) panicked,
    12 an account other than pool / fee collector (/ distribution in a whole block) changed, or the supply,
    13 wrong amount moved, 14 sum of all balances differs from the stored supply after BeginBlock. *)
Definition row (o : wobs) (i : nat) : list Z := nth i (wo_bal o) [].

Fixpoint zip_add (a b : list Z) : list Z :=
  match a, b with x :: a', y :: b' => (x + y) :: zip_add a' b' | _, _ => [] end.

Definition observed_param (p : params) (op : wop) (o : wobs) : params :=
  match op with
  | WParam _ v =>
      if negb (Nat.eqb (wo_class o) 0) then p else
      match wo_role o, v with
      | 1%nat, JBool b => {| enable := b; rewards := rewards p |}
      | 2%nat, JCoins l => match strip_coins l with Some r => {| enable := enable p; rewards := r |} | None => p end
      | _, _ => p
      end
  | _ => p
  end.

Definition tick_ok (whole_block : bool) (p : params) (ds : list bytes) (pre post : wobs) : option nat :=
  if negb (Nat.eqb (wo_class post) 0) then Some 11%nat
  else if negb (wo_rest_same post && list_Z_eqb (wo_sup pre) (wo_sup post)
                && list_Z_eqb (row pre 3) (row post 3) && list_Z_eqb (row pre 4) (row post 4) && list_Z_eqb (row pre 5) (row post 5)
                && (whole_block || list_Z_eqb (row pre 2) (row post 2))) then Some 12%nat
  else if negb (list_Z_eqb (wo_total post) (wo_sup post)) then Some 14%nat
  else
    let prefee := if whole_block then zip_add (row pre 1) (row pre 2) else row pre 1 in
    let postfee := if whole_block then zip_add (row post 1) (row post 2) else row post 1 in
    if check_amounts p ds (row pre 0) prefee (row post 0) postfee then None else Some 13%nat.

Fixpoint w_mon_steps (ds : list bytes) (i : nat) (p : params) (pre : wobs) (l : list (wop * wobs)) : list (nat * nat) :=
  match l with
  | [] => []
  | (op, o) :: l' =>
      match op with
      | WBegin | WBlock =>
          match tick_ok (match op with WBlock => true | _ => false end) p ds pre o with
          | Some k => [(i, k)]
          | None => w_mon_steps ds (S i) p o l'
          end
      | WParam _ _ =>
          if Nat.eqb (wo_class o) 2 then (if Nat.eqb (wo_role o) 3 then [] else [(i, 11%nat)])
          else w_mon_steps ds (S i) (observed_param p op o) o l'
      | _ => w_mon_steps ds (S i) p o l'
      end
  end.

Definition w_mon_case (c : wcase) : list (nat * nat) :=
  w_mon_steps (wc_denoms c) 0 default_params (wc_init c) (wc_steps c).

Definition w_monitor_failures (cs : list wcase) : list (nat * (nat * nat)) :=
  flat_map (fun ic => map (fun m => (fst ic, m)) (w_mon_case (snd ic))) (number 0 cs).

(** * Genesis cases *)
Record gcase := {
  gc_denoms : list bytes;
  gc_gen : genesis;
  gc_validate : nat;               (* ValidateGenesis: 0 nil, 1 error, 2 panic *)
  gc_before : wobs;
  gc_init : nat;                   (* InitGenesis: 0 returned, 2 panicked *)
  gc_after : wobs;
  gc_exported : option (bool * list (bytes * Z));
  gc_exp_plain : bool;             (* exported From == "" and no InitReward *)
  gc_revalidate : nat;
  gc_reinit : nat;
  gc_after2 : option wobs
}.

Definition vclass (o : outcome bool) : nat :=
  match o with Ok true => 0 | Ok false => 1 | Err => 3 | Panic => 2 end.

Fixpoint coins_eqb (a b : list (bytes * Z)) : bool :=
  match a, b with
  | [], [] => true
  | (d, x) :: a', (e, y) :: b' => bytes_eqb d e && (x =? y) && coins_eqb a' b'
  | _, _ => false
  end.

Definition rcoins_eqb (a : list rcoin) (b : list (bytes * Z)) : bool :=
  match strip_coins a with Some r => coins_eqb r b | None => false end.

(** Kinds: 31 ValidateGenesis class, 32 InitGenesis class, 33 balances/supply after, 34 params store after,
    35 export differs, 36 validation of the export, 37 re-import, 26 model cannot interpret. *)
Definition g_cmp_case (c : gcase) : list (nat * nat) :=
  match default_store with
  | Ok ps =>
      let ds := gc_denoms c in
      let w := world_of ds (gc_before c) ps in
      let vc := vclass (code_validate_genesis (gc_gen c)) in
      if Nat.eqb vc 3 then [(0, 26)]
      else if negb (Nat.eqb vc (gc_validate c)) then [(0, 31)]
      else match code_init_genesis (gc_gen c) w with
           | Err => [(0, 26)]
           | Panic => if Nat.eqb (gc_init c) 2 then [] else [(0, 32)]
           | Ok w' =>
               if negb (Nat.eqb (gc_init c) 0) then [(0, 32)]
               else match obs_diff ds w' (gc_after c) with
                    | Some 24%nat => [(0, 34)]
                    | Some _ => [(0, 33)]
                    | None =>
                        match code_export_genesis w', gc_exported c with
                        | Ok e, Some (en, rw) =>
                            if negb (Bool.eqb (g_enable e) en && rcoins_eqb (g_rewards e) rw && gc_exp_plain c) then [(0, 35)]
                            else if negb (Nat.eqb (vclass (code_validate_genesis e)) (gc_revalidate c)) then [(0, 36)]
                            else match code_init_genesis e w', gc_after2 c with
                                 | Ok w2, Some o2 =>
                                     if Nat.eqb (gc_reinit c) 0 && match obs_diff ds w2 o2 with None => true | _ => false end then [] else [(0, 37)]
                                 | Panic, None => if Nat.eqb (gc_reinit c) 2 then [] else [(0, 37)]
                                 | _, _ => [(0, 37)]
                                 end
                        | _, _ => [(0, 35)]
                        end
                    end
           end
  | _ => [(0, 26)]
  end%nat.

Definition g_mismatches (cs : list gcase) : list (nat * (nat * nat)) :=
  flat_map (fun ic => map (fun m => (fst ic, m)) (g_cmp_case (snd ic))) (number 0 cs).

(** ** Monitor on genesis traces (only runs in which InitGenesis returned; a panicking InitGenesis is C15's
    subject).  Kinds: 41 supply changed / sum of balances differs from it, 42 something other than
    "InitReward moves from the funding account to the pool" happened, 43 the export does not carry the
    parameters of the imported genesis (or carries From / InitReward), 44 the export fails validation or its
    import panics, 45 importing the export moved coins or changed the parameters. *)
Definition K (k : nat) : list (nat * nat) := [(0%nat, k)].

Fixpoint zip_sub (a b : list Z) : list Z :=
  match a, b with x :: a', y :: b' => (x - y) :: zip_sub a' b' | _, _ => [] end.

Definition g_mon_case (c : gcase) : list (nat * nat) :=
  if negb (Nat.eqb (gc_init c) 0) then [] else
  let ds := gc_denoms c in
  let pre := gc_before c in
  let post := gc_after c in
  let g := gc_gen c in
  let moved := match g_from g with FromAcct _ => map (vtotal (g_init g)) ds | _ => map (fun _ => 0) ds end in
  if negb (list_Z_eqb (wo_sup pre) (wo_sup post) && list_Z_eqb (wo_total post) (wo_sup post)) then (K 41)
  else if negb (wo_rest_same post
                && list_Z_eqb (row post 0) (zip_add (row pre 0) moved) && list_Z_eqb (row post A_FROM) (zip_sub (row pre A_FROM) moved)
                && list_Z_eqb (row pre 1) (row post 1) && list_Z_eqb (row pre 2) (row post 2)
                && list_Z_eqb (row pre 3) (row post 3) && list_Z_eqb (row pre 5) (row post 5)) then (K 42)
  else match gc_exported c with
       | Some (en, rw) =>
           if negb (Bool.eqb en (g_enable g) && rcoins_eqb (g_rewards g) rw && gc_exp_plain c) then (K 43)
           else if negb (Nat.eqb (gc_revalidate c) 0 && Nat.eqb (gc_reinit c) 0) then (K 44)
           else match gc_after2 c with
                | Some o2 =>
                    if list_ZZ_eqb (wo_bal o2) (wo_bal post) && list_Z_eqb (wo_sup o2) (wo_sup post) && wo_rest_same o2
                       && kvb_eqb (wo_store o2) (wo_store post) then [] else (K 45)
                | None => (K 44)
                end
       | None => (K 43)
       end.

Definition g_monitor_failures (cs : list gcase) : list (nat * (nat * nat)) :=
  flat_map (fun ic => map (fun m => (fst ic, m)) (g_mon_case (snd ic))) (number 0 cs).
