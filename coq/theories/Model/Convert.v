(** Executable model of the coin <-> ERC-20 conversion of x/aggregate (property C11).

    Go sources transcribed (at /repo HEAD, i.e. including the repairs add27e7 of MintingEnabled and c5eeeaa of
    convertCoinNativeERC20):
      x/aggregate/keeper/msg_server.go  ConvertCoin, ConvertERC20, convertCoinNativeCoin,
                                        convertERC20NativeCoin, convertERC20NativeToken,
                                        convertCoinNativeERC20, balanceOf, monitorApprovalEvent
      x/aggregate/keeper/mint.go        MintingEnabled
      x/aggregate/keeper/evm.go         CallEVM, CallEVMWithData (GetSequence of the caller, ApplyMessage, Failed())
      x/aggregate/keeper/token_pairs.go GetTokenPairID, GetTokenPair, DeleteTokenPair, GetERC20Map, GetDenomMap
      x/aggregate/types/msg.go          MsgConvertCoin.ValidateBasic, MsgConvertERC20.ValidateBasic
    Library behaviour modelled:
      cosmos-sdk v0.45.2 x/bank  SendCoins (subUnlockedCoins / addCoins / account creation), SendCoinsFromModuleToAccount
                                 (blocked-address gate), SendCoinsFromAccountToModule, MintCoins, BurnCoins,
                                 GetBalance (panics through NewCoin on an invalid denomination without balance),
                                 IsSendEnabledCoin, BlockedAddr;  sdk.Int (panics when a result needs more than 256 bits);
                                 sdk.ValidateDenom, Coins.IsValid for a single coin
      go-ethereum v1.10.16       common.IsHexAddress / HexToAddress, abi Unpack of one 32-byte word (uint256 / strict bool)
      ibc-go v3.0.0              transfer/types.ValidateIBCDenom
      baseapp                    runTx/runMsgs: ValidateBasic, atomic state branch, panic recovery ([deliver])
      syscontracts/contracts_src/ERC20MinterBurnerDecimals.sol (OpenZeppelin 4.3.2 ERC20, ERC20Burnable):
                                 balanceOf, transfer, mint (MINTER_ROLE), burnCoins (BURNER_ROLE), burn ([std_call])

    A token contract that was NOT deployed by the module is an arbitrary state machine chosen by the adversary:
    the Section variables [X], [xcall], [xcontract] give, for every call the module makes (and every call anybody
    else makes), the post-state, whether the call succeeded, the first 32-byte word of the return data and the
    kinds of the emitted logs.  All addresses and amounts are [Z]. *)
From Teleport Require Import Base.Bytes Base.Outcome.
Local Open Scope Z_scope.

(** * Association lists (first match wins; [aset] shadows) *)
Section AList.
  Context {K V : Type} (keqb : K -> K -> bool) (dflt : V).
  Fixpoint aget (m : list (K * V)) (k : K) : V :=
    match m with
    | [] => dflt
    | (k', v) :: m' => if keqb k' k then v else aget m' k
    end.
  Definition aset (m : list (K * V)) (k : K) (v : V) : list (K * V) := (k, v) :: m.
  Fixpoint adel (m : list (K * V)) (k : K) : list (K * V) :=
    match m with
    | [] => []
    | (k', v) :: m' => if keqb k' k then adel m' k else (k', v) :: adel m' k
    end.
  Fixpoint aupd (m : list (K * V)) (k : K) (f : V -> V) : list (K * V) :=
    match m with
    | [] => []
    | (k', v) :: m' => if keqb k' k then (k', f v) :: m' else (k', v) :: aupd m' k f
    end.
  Fixpoint afind (m : list (K * V)) (k : K) : option V :=
    match m with
    | [] => None
    | (k', v) :: m' => if keqb k' k then Some v else afind m' k
    end.
End AList.

Definition zmap := list (Z * Z).
Definition zget (m : zmap) (k : Z) : Z := aget Z.eqb 0 m k.
Definition zset (m : zmap) (k v : Z) : zmap := aset m k v.

Definition bkey := (Z * bytes)%type.
Definition bkey_eqb (a b : bkey) : bool := (fst a =? fst b) && bytes_eqb (snd a) (snd b).
Definition bmap := list (bkey * Z).
Definition bget (m : bmap) (a : Z) (d : bytes) : Z := aget bkey_eqb 0 m (a, d).
Definition bset (m : bmap) (a : Z) (d : bytes) (v : Z) : bmap := aset m (a, d) v.

Definition smap := list (bytes * Z).
Definition sget (m : smap) (d : bytes) : Z := aget bytes_eqb 0 m d.
Definition sset (m : smap) (d : bytes) (v : Z) : smap := aset m d v.

Fixpoint zmem (a : Z) (l : list Z) : bool :=
  match l with [] => false | x :: l' => (x =? a) || zmem a l' end.

(** * Strings: hex addresses and denominations *)
Definition byte_in (lo hi : N) (b : byte) : bool := let n := Byte.to_N b in ((lo <=? n) && (n <=? hi))%N.
Definition is_digit (b : byte) : bool := byte_in 48 57 b.
Definition is_alpha (b : byte) : bool := byte_in 65 90 b || byte_in 97 122 b.
Definition is_hex_char (b : byte) : bool := is_digit b || byte_in 65 70 b || byte_in 97 102 b.
Definition hex_val (b : byte) : Z :=
  let n := Z.of_N (Byte.to_N b) in
  if is_digit b then n - 48 else if byte_in 65 70 b then n - 55 else n - 87.

(** go-ethereum common.has0xPrefix *)
Definition strip0x (s : bytes) : bytes :=
  match s with
  | x30 :: x78 :: t => t
  | x30 :: x58 :: t => t
  | _ => s
  end.

(** common.IsHexAddress: optional 0x/0X, then exactly 40 hex digits *)
Definition is_hex_address (s : bytes) : bool :=
  let t := strip0x s in (length t =? 40)%nat && forallb is_hex_char t.

Fixpoint hex_fold (acc : Z) (s : bytes) : Z :=
  match s with [] => acc | c :: t => hex_fold (acc * 16 + hex_val c) t end.

(** common.HexToAddress on a string accepted by IsHexAddress *)
Definition hex_to_addr (s : bytes) : Z := hex_fold 0 (strip0x s).

(** common.Address.Hex(): "0x" and 40 hex digits (the EIP-55 mixed case is irrelevant to every reader of the
    string: HexToAddress / IsHexAddress accept both cases; lower case here).
    [Proofs/ConvertHook.v hex_roundtrip]: hex_to_addr (hex_of_addr a) = a for 0 <= a < 2^160. *)
Definition hex_digit (n : Z) : byte :=
  match n with
  | 0 => x30 | 1 => x31 | 2 => x32 | 3 => x33 | 4 => x34 | 5 => x35 | 6 => x36 | 7 => x37
  | 8 => x38 | 9 => x39 | 10 => x61 | 11 => x62 | 12 => x63 | 13 => x64 | 14 => x65 | _ => x66
  end.
Fixpoint hex_digits (n : nat) (v : Z) : bytes :=
  match n with O => [] | S n' => hex_digits n' (v / 16) ++ [hex_digit (v mod 16)] end.
Definition hex_of_addr (a : Z) : bytes := x30 :: x78 :: hex_digits 40 a.

(** sdk.ValidateDenom (v0.45.2): [a-zA-Z][a-zA-Z0-9/-]{2,127} *)
Definition is_denom_tail (b : byte) : bool :=
  is_alpha b || is_digit b || Byte.eqb b x2f || Byte.eqb b x2d.
Definition valid_denom (d : bytes) : bool :=
  match d with
  | [] => false
  | c :: t => is_alpha c && forallb is_denom_tail t && (2 <=? length t)%nat && (length t <=? 127)%nat
  end.

(** x/aggregate/types ValidateAggregateDenom: "aggregate/" followed by a hex address *)
Definition aggregate_prefix : bytes := B "aggregate/".
Definition aggregate_denom (d : bytes) : bool :=
  is_prefix aggregate_prefix d && is_hex_address (skipn (length aggregate_prefix) d).

(** ibc-go v3 ValidateIBCDenom: a valid sdk denomination that is not "ibc" and, when it starts with "ibc/", is
    followed by the hex form of a 32-byte hash *)
Definition ibc_denom (d : bytes) : bool :=
  valid_denom d && negb (bytes_eqb d (B "ibc")) &&
  (if is_prefix (B "ibc/") d
   then let h := skipn 4 d in (length h =? 64)%nat && forallb is_hex_char h
   else true).

(** * Token pairs *)
Record pair := {
  p_id : bytes;          (* TokenPair.GetID() = tmhash(ERC20Address | Denoms[0]) of this value *)
  p_erc20 : Z;           (* GetERC20Contract() *)
  p_denoms : list bytes;
  p_enabled : bool;
  p_owner : Z            (* 0 unspecified, 1 OWNER_MODULE, 2 OWNER_EXTERNAL *)
}.

(** * ERC-20 calls and their results as seen by CallEVM *)
Inductive call :=
| CBalanceOf (a : Z)
| CTransfer (to amt : Z)
| CMint (to amt : Z)
| CBurnCoins (from amt : Z)
| CBurn (amt : Z)
| CApprove (spender amt : Z)
| CIncAllow (spender amt : Z)          (* increaseAllowance *)
| CDecAllow (spender amt : Z)          (* decreaseAllowance *)
| CTransferFrom (from to amt : Z)
| CBurnFrom (from amt : Z).

Inductive logk := LNoTopic | LApproval | LOther.

Record cres := {
  cr_ok : bool;            (* false: ApplyMessage failed or the VM reverted: CallEVM returns an error *)
  cr_ret : option Z;       (* first 32-byte word of the return data, None if fewer than 32 bytes *)
  cr_logs : list logk
}.
Definition cfail : cres := {| cr_ok := false; cr_ret := None; cr_logs := [] |}.
Definition cok (r : option Z) (l : list logk) : cres := {| cr_ok := true; cr_ret := r; cr_logs := l |}.

Definition W256 : Z := 2 ^ 256.

(** ** ERC20MinterBurnerDecimals (OpenZeppelin ERC20 + ERC20Burnable + AccessControl); [owner] holds
    MINTER_ROLE and BURNER_ROLE (the deployer; the module never grants roles and never pauses).  The call alphabet
    is EVERY state-changing function of the compiled contract's ABI except the role-gated administration
    (pause / unpause / grantRole / revokeRole / renounceRole): Gen/Erc20AbiGen.v + Proofs/ConvertAbi.v check that on
    every run against syscontracts/contracts_compiled/ERC20MinterBurnerDecimals.json. *)
Definition akey_eqb (a b : Z * Z) : bool := (fst a =? fst b) && (snd a =? snd b).
Definition amap := list ((Z * Z) * Z).                      (* (owner, spender) -> allowance *)
Definition alget (m : amap) (o sp : Z) : Z := aget akey_eqb 0 m (o, sp).
Definition alset (m : amap) (o sp v : Z) : amap := aset m (o, sp) v.

Record std_token := { st_bal : zmap; st_total : Z; st_allow : amap }.

(** ERC20._spendAllowance as COMPILED into syscontracts/contracts_compiled/ERC20MinterBurnerDecimals.json: an allowance
    of 2^256-1 is "infinite" and is not decreased.  (The Solidity files under syscontracts/contracts_src carry
    OpenZeppelin 4.3.2 headers, where burnFrom / transferFrom always decrease the allowance: the deployed byte code
    was built from a newer OpenZeppelin.  The model follows the byte code — the correspondence run executes it.) *)
Definition spend_allowance (al : amap) (o sp amt : Z) : amap :=
  let cur := alget al o sp in if cur =? W256 - 1 then al else alset al o sp (cur - amt).

Definition std_call (owner : Z) (t : std_token) (caller : Z) (cl : call) : std_token * cres :=
  let bal := st_bal t in
  let al := st_allow t in
  match cl with
  | CBalanceOf a => (t, cok (Some (zget bal a)) [])
  | CTransfer to amt =>
      if (amt <? 0) || (caller =? 0) || (to =? 0) || (zget bal caller <? amt) then (t, cfail)
      else let b1 := zset bal caller (zget bal caller - amt) in
           let b2 := zset b1 to (zget b1 to + amt) in
           ({| st_bal := b2; st_total := st_total t; st_allow := al |}, cok (Some 1) [LOther])
  | CMint to amt =>
      if (amt <? 0) || negb (caller =? owner) || (to =? 0) || (W256 <=? st_total t + amt) then (t, cfail)
      else ({| st_bal := zset bal to (zget bal to + amt); st_total := st_total t + amt; st_allow := al |}, cok None [LOther])
  | CBurnCoins from amt =>
      if (amt <? 0) || negb (caller =? owner) || (from =? 0) || (zget bal from <? amt) then (t, cfail)
      else ({| st_bal := zset bal from (zget bal from - amt); st_total := st_total t - amt; st_allow := al |}, cok None [LOther])
  | CBurn amt =>
      if (amt <? 0) || (caller =? 0) || (zget bal caller <? amt) then (t, cfail)
      else ({| st_bal := zset bal caller (zget bal caller - amt); st_total := st_total t - amt; st_allow := al |}, cok None [LOther])
  | CApprove sp amt =>                     (* _approve(msg.sender, spender, amount) *)
      if (amt <? 0) || (W256 <=? amt) || (caller =? 0) || (sp =? 0) then (t, cfail)
      else ({| st_bal := bal; st_total := st_total t; st_allow := alset al caller sp amt |}, cok (Some 1) [LApproval])
  | CIncAllow sp amt =>                    (* checked addition *)
      let cur := alget al caller sp in
      if (amt <? 0) || (caller =? 0) || (sp =? 0) || (W256 <=? cur + amt) then (t, cfail)
      else ({| st_bal := bal; st_total := st_total t; st_allow := alset al caller sp (cur + amt) |}, cok (Some 1) [LApproval])
  | CDecAllow sp amt =>                    (* require(currentAllowance >= subtractedValue) *)
      let cur := alget al caller sp in
      if (amt <? 0) || (caller =? 0) || (sp =? 0) || (cur <? amt) then (t, cfail)
      else ({| st_bal := bal; st_total := st_total t; st_allow := alset al caller sp (cur - amt) |}, cok (Some 1) [LApproval])
  | CTransferFrom from to amt =>           (* _spendAllowance(from, msg.sender, amount); _transfer(from, to, amount) *)
      let cur := alget al from caller in
      if (amt <? 0) || (caller =? 0) || (from =? 0) || (to =? 0) || (zget bal from <? amt) || (cur <? amt) then (t, cfail)
      else let b1 := zset bal from (zget bal from - amt) in
           let b2 := zset b1 to (zget b1 to + amt) in
           ({| st_bal := b2; st_total := st_total t; st_allow := spend_allowance al from caller amt |},
            cok (Some 1) (if cur =? W256 - 1 then [LOther] else [LApproval; LOther]))
  | CBurnFrom from amt =>                  (* _spendAllowance(from, msg.sender, amount); _burn(from, amount) *)
      let cur := alget al from caller in
      if (amt <? 0) || (caller =? 0) || (from =? 0) || (cur <? amt) || (zget bal from <? amt) then (t, cfail)
      else ({| st_bal := zset bal from (zget bal from - amt); st_total := st_total t - amt;
               st_allow := spend_allowance al from caller amt |},
            cok None (if cur =? W256 - 1 then [LOther] else [LApproval; LOther]))
  end.

(** * Messages *)
Record msg_cc := {            (* MsgConvertCoin *)
  cc_denom : bytes; cc_amount : Z;
  cc_receiver : bytes;        (* hex string as sent *)
  cc_sender : Z; cc_sender_ok : bool   (* AccAddressFromBech32: parsed value, success *)
}.
Record msg_ce := {            (* MsgConvertERC20 *)
  ce_contract : bytes;        (* hex string as sent *)
  ce_amount : Z;
  ce_receiver : Z; ce_receiver_ok : bool;
  ce_sender : bytes;          (* hex string as sent *)
  ce_denom : bytes
}.
Inductive msg := MCC (m : msg_cc) | MCE (m : msg_ce).

Definition validate_basic (m : msg) : bool :=
  match m with
  | MCC c => (aggregate_denom (cc_denom c) || ibc_denom (cc_denom c)) && (0 <? cc_amount c)
             && cc_sender_ok c && is_hex_address (cc_receiver c)
  | MCE c => is_hex_address (ce_contract c) && (0 <? ce_amount c) && ce_receiver_ok c && is_hex_address (ce_sender c)
  end.

(** sdk.Int holds at most 256 bits *)
Definition INTMAX : Z := 2 ^ 256.

Section Model.
  Variable X : Type.
  Variable xcall : X -> Z -> Z -> call -> X * cres.   (* state, contract, caller, call *)
  Variable xcontract : X -> Z -> bool.                 (* is there (still) code at this address *)
  Variable MODULE : Z.                                 (* types.ModuleAddress *)

  Record state := {
    s_params : bool;                       (* Params.EnableAggregate *)
    s_evm_call : bool;                     (* evm Params.EnableCall *)
    s_pairs : list (bytes * pair);         (* prefix 1: id -> pair *)
    s_erc20 : list (Z * bytes);            (* prefix 2: address -> id *)
    s_denom : list (bytes * bytes);        (* prefix 3: denomination -> id *)
    s_bank : bmap;
    s_supply : smap;
    s_blocked : list Z;
    s_send_default : bool;
    s_send : list (bytes * bool);
    s_accts : list Z;                      (* addresses that have an auth account *)
    s_mtok : list (Z * std_token);         (* contracts deployed by the module (RegisterCoin) *)
    s_ext : X
  }.

  Definition set_bank (s : state) (b : bmap) : state :=
    {| s_params := s_params s; s_evm_call := s_evm_call s; s_pairs := s_pairs s; s_erc20 := s_erc20 s;
       s_denom := s_denom s; s_bank := b; s_supply := s_supply s; s_blocked := s_blocked s;
       s_send_default := s_send_default s; s_send := s_send s; s_accts := s_accts s; s_mtok := s_mtok s;
       s_ext := s_ext s |}.
  Definition set_supply (s : state) (b : smap) : state :=
    {| s_params := s_params s; s_evm_call := s_evm_call s; s_pairs := s_pairs s; s_erc20 := s_erc20 s;
       s_denom := s_denom s; s_bank := s_bank s; s_supply := b; s_blocked := s_blocked s;
       s_send_default := s_send_default s; s_send := s_send s; s_accts := s_accts s; s_mtok := s_mtok s;
       s_ext := s_ext s |}.
  Definition set_accts (s : state) (a : list Z) : state :=
    {| s_params := s_params s; s_evm_call := s_evm_call s; s_pairs := s_pairs s; s_erc20 := s_erc20 s;
       s_denom := s_denom s; s_bank := s_bank s; s_supply := s_supply s; s_blocked := s_blocked s;
       s_send_default := s_send_default s; s_send := s_send s; s_accts := a; s_mtok := s_mtok s;
       s_ext := s_ext s |}.
  Definition set_tokens (s : state) (tk : list (Z * std_token) * X) : state :=
    {| s_params := s_params s; s_evm_call := s_evm_call s; s_pairs := s_pairs s; s_erc20 := s_erc20 s;
       s_denom := s_denom s; s_bank := s_bank s; s_supply := s_supply s; s_blocked := s_blocked s;
       s_send_default := s_send_default s; s_send := s_send s; s_accts := s_accts s; s_mtok := fst tk;
       s_ext := snd tk |}.
  Definition set_registry (s : state) (p : list (bytes * pair)) (e : list (Z * bytes)) (d : list (bytes * bytes)) : state :=
    {| s_params := s_params s; s_evm_call := s_evm_call s; s_pairs := p; s_erc20 := e;
       s_denom := d; s_bank := s_bank s; s_supply := s_supply s; s_blocked := s_blocked s;
       s_send_default := s_send_default s; s_send := s_send s; s_accts := s_accts s; s_mtok := s_mtok s;
       s_ext := s_ext s |}.
  Definition set_flags (s : state) (params evmcall snd_default : bool) (snd : list (bytes * bool)) : state :=
    {| s_params := params; s_evm_call := evmcall; s_pairs := s_pairs s; s_erc20 := s_erc20 s;
       s_denom := s_denom s; s_bank := s_bank s; s_supply := s_supply s; s_blocked := s_blocked s;
       s_send_default := snd_default; s_send := snd; s_accts := s_accts s; s_mtok := s_mtok s;
       s_ext := s_ext s |}.

  (** ** EVM *)
  (** The token contracts: those deployed by the module (semantics [std_call], role holder = the module) and
      everything else (the oracle). *)
  Definition tokens := (list (Z * std_token) * X)%type.
  Definition s_tokens (s : state) : tokens := (s_mtok s, s_ext s).

  Definition find_mtok (s : state) (c : Z) : option std_token := afind Z.eqb (s_mtok s) c.

  (** GetAccountWithoutBalance(erc20) != nil && IsContract() *)
  Definition is_contract (s : state) (c : Z) : bool :=
    match find_mtok s c with Some _ => true | None => xcontract (s_ext s) c end.

  (** one message call executed by the EVM; a reverted call leaves no trace *)
  Definition tok_exec (tk : tokens) (c caller : Z) (cl : call) : tokens * cres :=
    match afind Z.eqb (fst tk) c with
    | Some t => let '(t', r) := std_call MODULE t caller cl in
                if cr_ok r then ((aset (fst tk) c t', snd tk), r) else (tk, cfail)
    | None => let '(x', r) := xcall (snd tk) c caller cl in
              if cr_ok r then ((fst tk, x'), r) else (tk, cfail)
    end.

  (** CallEVMWithData(from = caller, contract, data) with commit: GetSequence(caller) fails for an address
      without account; ApplyMessage fails when calls are disabled. *)
  Definition evm_call (s : state) (c caller : Z) (cl : call) : state * cres :=
    if negb (zmem caller (s_accts s)) || negb (s_evm_call s) then (s, cfail) else
    let '(tk', r) := tok_exec (s_tokens s) c caller cl in
    if cr_ok r then (set_tokens s tk', r) else (s, cfail).

  (** keeper.balanceOf: nil (None) when the call fails or the return data does not decode *)
  Definition balance_of (s : state) (c a : Z) : state * option Z :=
    let '(s', r) := evm_call s c MODULE (CBalanceOf a) in (s', cr_ret r).

  (** abi.UnpackIntoInterface(&ERC20BoolResponse, "transfer", ret): strict bool *)
  Definition unpack_bool (r : option Z) : option bool :=
    match r with
    | Some 0 => Some false
    | Some 1 => Some true
    | _ => None
    end.

  (** monitorApprovalEvent: [log.Topics[0]] panics on a log without topics *)
  Fixpoint approval_check (l : list logk) : outcome unit :=
    match l with
    | [] => Ok tt
    | LNoTopic :: _ => Panic
    | LApproval :: _ => Err
    | LOther :: l' => approval_check l'
    end.

  (** ** Bank *)
  Definition coin_valid (d : bytes) (a : Z) : bool := valid_denom d && (0 <? a).

  (** bank GetBalance: NewCoin panics for an invalid denomination when no balance is stored *)
  Definition get_balance (s : state) (a : Z) (d : bytes) : outcome Z :=
    let b := bget (s_bank s) a d in
    if (b =? 0) && negb (valid_denom d) then Panic else Ok b.

  Definition sub_coins (s : state) (from : Z) (d : bytes) (a : Z) : outcome state :=
    if negb (coin_valid d a) then Err else
    let b := bget (s_bank s) from d in
    if b <? a then Err else Ok (set_bank s (bset (s_bank s) from d (b - a))).

  Definition add_coins (s : state) (to : Z) (d : bytes) (a : Z) : outcome state :=
    if negb (coin_valid d a) then Err else
    let b := bget (s_bank s) to d in
    if INTMAX <=? b + a then Panic else Ok (set_bank s (bset (s_bank s) to d (b + a))).

  Definition ensure_acct (s : state) (a : Z) : state :=
    if zmem a (s_accts s) then s else set_accts s (a :: s_accts s).

  Definition send_coins (s : state) (from to : Z) (d : bytes) (a : Z) : outcome state :=
    s1 <- sub_coins s from d a ;;
    s2 <- add_coins s1 to d a ;;
    Ok (ensure_acct s2 to).

  Definition send_module_to_account (s : state) (to : Z) (d : bytes) (a : Z) : outcome state :=
    if zmem to (s_blocked s) then Err else send_coins s MODULE to d a.

  Definition mint_coins (s : state) (d : bytes) (a : Z) : outcome state :=
    s1 <- add_coins s MODULE d a ;;
    let sup := sget (s_supply s1) d in
    if INTMAX <=? sup + a then Panic else Ok (set_supply s1 (sset (s_supply s1) d (sup + a))).

  Definition burn_coins (s : state) (d : bytes) (a : Z) : outcome state :=
    s1 <- sub_coins s MODULE d a ;;
    let sup := sget (s_supply s1) d in
    if sup <? a then Panic else Ok (set_supply s1 (sset (s_supply s1) d (sup - a))).

  Definition send_enabled (s : state) (d : bytes) : bool := aget bytes_eqb (s_send_default s) (s_send s) d.

  (** ** Registry look-ups *)
  Definition get_erc20_map (s : state) (a : Z) : bytes := aget Z.eqb [] (s_erc20 s) a.
  Definition get_denom_map (s : state) (d : bytes) : bytes := aget bytes_eqb [] (s_denom s) d.

  (** GetTokenPairID: a 40-hex-digit string is looked up as an address, anything else as a denomination *)
  Definition token_pair_id (s : state) (token : bytes) : bytes :=
    if is_hex_address token then get_erc20_map s (hex_to_addr token) else get_denom_map s token.

  Definition is_nil (b : bytes) : bool := match b with [] => true | _ => false end.

  Definition get_pair (s : state) (id : bytes) : option pair := afind bytes_eqb (s_pairs s) id.

  (** DeleteTokenPair: the pair under its GetID(), the address entry, the entry of every listed denomination *)
  Definition delete_pair (s : state) (p : pair) : state :=
    set_registry s (adel bytes_eqb (s_pairs s) (p_id p))
                   (adel Z.eqb (s_erc20 s) (p_erc20 p))
                   (fold_left (fun m d => adel bytes_eqb m d) (p_denoms p) (s_denom s)).

  (** mint.go MintingEnabled (HEAD: the denomination is resolved through the denom index only) *)
  Definition minting_enabled (s : state) (sender receiver : Z) (token denom : bytes) : outcome pair :=
    if negb (s_params s) then Err else
    let id := token_pair_id s token in
    let did := get_denom_map s denom in
    if negb (bytes_eqb did id) then Err else
    if is_nil id then Err else
    match get_pair s id with
    | None => Err
    | Some p =>
        if negb (p_enabled p) then Err else
        if zmem receiver (s_blocked s) then Err else
        if negb (sender =? receiver) && negb (send_enabled s denom) then Err else Ok p
    end.

  (** ** The four flows *)

  (** case 1.1: coin -> token of a module-owned contract: escrow, mint, check receiver's token balance *)
  Definition convert_coin_native_coin (s : state) (p : pair) (d : bytes) (a receiver sender : Z) : outcome state :=
    let c := p_erc20 p in
    let '(s0, b0) := balance_of s c receiver in
    s1 <- send_coins s0 sender MODULE d a ;;
    let '(s2, r) := evm_call s1 c MODULE (CMint receiver a) in
    if negb (cr_ok r) then Err else
    let '(s3, b1) := balance_of s2 c receiver in
    match b0, b1 with
    | Some v0, Some v1 => if v1 =? v0 + a then Ok s3 else Err
    | _, _ => Panic        (* big.Int method on a nil pointer *)
    end.

  (** case 1.2: token -> coin of a module-owned contract: burn the sender's tokens, unescrow, check both *)
  Definition convert_erc20_native_coin (s : state) (p : pair) (d : bytes) (a receiver sender : Z) : outcome state :=
    let c := p_erc20 p in
    bc0 <- get_balance s receiver d ;;
    let '(s0, b0) := balance_of s c sender in
    let '(s1, r) := evm_call s0 c MODULE (CBurnCoins sender a) in
    if negb (cr_ok r) then Err else
    s2 <- send_module_to_account s1 receiver d a ;;
    bc1 <- get_balance s2 receiver d ;;
    if negb (bc1 =? bc0 + a) then Err else
    let '(s3, b1) := balance_of s2 c sender in
    match b0, b1 with
    | Some v0, Some v1 => if v1 =? v0 - a then Ok s3 else Err
    | _, _ => Panic
    end.

  (** case 2.1: token -> voucher coin of an external contract: the SENDER transfers to the module, the
      module's token balance must grow by [a], mint the voucher, send it, check, no Approval log *)
  Definition convert_erc20_native_token (s : state) (p : pair) (d : bytes) (a receiver sender : Z) : outcome state :=
    let c := p_erc20 p in
    bc0 <- get_balance s receiver d ;;
    let '(s0, b0) := balance_of s c MODULE in
    let '(s1, r) := evm_call s0 c sender (CTransfer MODULE a) in
    if negb (cr_ok r) then Err else
    match unpack_bool (cr_ret r) with
    | None => Err
    | Some false => Err
    | Some true =>
        let '(s2, b1) := balance_of s1 c MODULE in
        match b0, b1 with
        | Some v0, Some v1 =>
            if negb (v1 =? v0 + a) then Err else
            s3 <- mint_coins s2 d a ;;
            s4 <- send_module_to_account s3 receiver d a ;;
            bc1 <- get_balance s4 receiver d ;;
            if negb (bc1 =? bc0 + a) then Err else
            _ <- approval_check (cr_logs r) ;;
            Ok s4
        | _, _ => Panic
        end
    end.

  (** case 2.2: voucher coin -> token of an external contract: escrow, the module transfers to the receiver,
      the receiver's token balance must have grown by [a] AND (repair c5eeeaa) the module's own token balance must
      have dropped by exactly [a]; burn the escrowed voucher, no Approval log *)
  Definition convert_coin_native_erc20 (s : state) (p : pair) (d : bytes) (a receiver sender : Z) : outcome state :=
    let c := p_erc20 p in
    let '(s0, b0) := balance_of s c receiver in
    let '(s0', e0) := balance_of s0 c MODULE in
    s1 <- send_coins s0' sender MODULE d a ;;
    let '(s2, r) := evm_call s1 c MODULE (CTransfer receiver a) in
    if negb (cr_ok r) then Err else
    match unpack_bool (cr_ret r) with
    | None => Err
    | Some false => Err
    | Some true =>
        let '(s3, b1) := balance_of s2 c receiver in
        match b0, b1 with
        | Some v0, Some v1 =>
            if negb (v1 =? v0 + a) then Err else
            let '(s3', e1) := balance_of s3 c MODULE in
            match e0, e1 with
            | Some w0, Some w1 =>
                if negb (w1 =? w0 - a) then Err else
                s4 <- burn_coins s3' d a ;;
                _ <- approval_check (cr_logs r) ;;
                Ok s4
            | _, _ => Err      (* "cannot read the escrowed token balance" *)
            end
        | _, _ => Panic
        end
    end.

  (** the same flow BEFORE the repair c5eeeaa (only the receiver's balance was compared); kept for
      Refuted/C11_refuted.v *)
  Definition convert_coin_native_erc20_old (s : state) (p : pair) (d : bytes) (a receiver sender : Z) : outcome state :=
    let c := p_erc20 p in
    let '(s0, b0) := balance_of s c receiver in
    s1 <- send_coins s0 sender MODULE d a ;;
    let '(s2, r) := evm_call s1 c MODULE (CTransfer receiver a) in
    if negb (cr_ok r) then Err else
    match unpack_bool (cr_ret r) with
    | None => Err
    | Some false => Err
    | Some true =>
        let '(s3, b1) := balance_of s2 c receiver in
        match b0, b1 with
        | Some v0, Some v1 =>
            if negb (v1 =? v0 + a) then Err else
            s4 <- burn_coins s3 d a ;;
            _ <- approval_check (cr_logs r) ;;
            Ok s4
        | _, _ => Panic
        end
    end.

  (** msg_server.go ConvertCoin *)
  Definition convert_coin (s : state) (m : msg_cc) : outcome state :=
    let receiver := hex_to_addr (cc_receiver m) in
    let sender := cc_sender m in
    p <- minting_enabled s sender receiver (cc_denom m) (cc_denom m) ;;
    if negb (is_contract s (p_erc20 p)) then Ok (delete_pair s p) else
    if p_owner p =? 1 then convert_coin_native_coin s p (cc_denom m) (cc_amount m) receiver sender
    else if p_owner p =? 2 then convert_coin_native_erc20 s p (cc_denom m) (cc_amount m) receiver sender
    else Err.

  (** msg_server.go ConvertERC20 *)
  Definition convert_erc20 (s : state) (m : msg_ce) : outcome state :=
    let receiver := ce_receiver m in
    let sender := hex_to_addr (ce_sender m) in
    p <- minting_enabled s sender receiver (ce_contract m) (ce_denom m) ;;
    if negb (is_contract s (p_erc20 p)) then Ok (delete_pair s p) else
    if p_owner p =? 1 then convert_erc20_native_coin s p (ce_denom m) (ce_amount m) receiver sender
    else if p_owner p =? 2 then convert_erc20_native_token s p (ce_denom m) (ce_amount m) receiver sender
    else Err.

  Definition handle (s : state) (m : msg) : outcome state :=
    match m with MCC c => convert_coin s c | MCE c => convert_erc20 s c end.

  (** baseapp runTx for one message: ValidateBasic, then the handler on a branch of the state that is written
      back only when it returns without error; a panic is recovered and reported as an error.
      Result: state and outcome class (0 ok, 1 error, 2 recovered panic). *)
  Definition deliver (s : state) (m : msg) : state * nat :=
    if negb (validate_basic m) then (s, 1%nat) else
    match handle s m with
    | Ok s' => (s', 0%nat)
    | Err => (s, 1%nat)
    | Panic => (s, 2%nat)
    end.

  (** keeper/ibc_hook.go OnRecvPacket (the ICS-20 middleware hook), from the point where the packet data has been
      decoded to a denomination [d] = IBCDenom(destPort, destChannel, data.Denom), an amount [a] =
      NewIntFromString(data.Amount) and a receiver [r] of exactly 20 bytes (decoding, the amount parser, bech32 and
      the sha256 of the denomination trace are property C16's oracles; on each of those failures the hook returns
      before touching the state).  The hook
        - returns when the denomination is not in the denom index (IsDenomRegistered = store.Has),
        - builds sdk.NewCoin(d, a): PANICS on an invalid denomination or a negative amount (the panic leaves the
          hook and fails the enclosing transaction),
        - calls ConvertCoin DIRECTLY (no ValidateBasic, no BaseApp around it: a zero amount reaches the bank) with
          sender = the receiver and Receiver = common.BytesToAddress(receiver).Hex(), on a CACHE branch of the
          context that is written back only when ConvertCoin returns nil; an error is swallowed (status FAILED),
          a panic propagates.
      Result: state and class (0 converted and written, 1 returned without converting, 2 panicked). *)
  Definition denom_registered (s : state) (d : bytes) : bool :=
    match afind bytes_eqb (s_denom s) d with Some _ => true | None => false end.

  Definition hook_msg (r : Z) (d : bytes) (a : Z) : msg_cc :=
    {| cc_denom := d; cc_amount := a; cc_receiver := hex_of_addr r; cc_sender := r; cc_sender_ok := true |}.

  Definition hook_recv (s : state) (r : Z) (d : bytes) (a : Z) : state * nat :=
    if negb (denom_registered s d) then (s, 1%nat) else
    if negb (valid_denom d) || (a <? 0) then (s, 2%nat) else
    match convert_coin s (hook_msg r d a) with
    | Ok s' => (s', 0%nat)
    | Err => (s, 1%nat)
    | Panic => (s, 2%nat)
    end.

  (** Coins created by ANOTHER module and paid out to an account (ICS-20 transfer crediting a voucher right before
      the hook runs, x/mint inflation, ...): bank MintCoins on that module + SendCoinsFromModuleToAccount. *)
  Definition env_mint (s : state) (to : Z) (d : bytes) (a : Z) : state * nat :=
    if zmem to (s_blocked s) then (s, 1%nat) else
    match (s1 <- add_coins s to d a ;;
           let sup := sget (s_supply s1) d in
           if INTMAX <=? sup + a then Panic
           else Ok (ensure_acct (set_supply s1 (sset (s_supply s1) d (sup + a))) to)) with
    | Ok s' => (s', 0%nat)
    | Err => (s, 1%nat)
    | Panic => (s, 2%nat)
    end.

  (** ** Histories: conversions interleaved with what everybody else can do *)
  Inductive op :=
  | OMsg (m : msg)
  | OTokenCall (c caller : Z) (cl : call)      (* somebody's Ethereum transaction calling a token contract *)
  | OBankSend (from to : Z) (d : bytes) (a : Z) (* bank MsgSend between accounts *)
  | OToggle (id : bytes)                        (* governance: ToggleRelay *)
  | OFlags (params evmcall snd_default : bool) (snd : list (bytes * bool)) (* governance: parameters *)
  | OHook (r : Z) (d : bytes) (a : Z)            (* an ICS-20 packet for receiver r reaches the aggregate hook *)
  | OEnvMint (to : Z) (d : bytes) (a : Z).       (* another module mints coins to an account *)

  Definition toggle_pair (p : pair) : pair :=
    {| p_id := p_id p; p_erc20 := p_erc20 p; p_denoms := p_denoms p; p_enabled := negb (p_enabled p); p_owner := p_owner p |}.

  (** An Ethereum transaction is atomic as well: a failed call changes nothing. *)
  Definition token_call (s : state) (c caller : Z) (cl : call) : state * nat :=
    let '(s', r) := evm_call s c caller cl in if cr_ok r then (s', 0%nat) else (s, 1%nat).

  (** bank MsgSend: refused for blocked recipients *)
  Definition bank_send (s : state) (from to : Z) (d : bytes) (a : Z) : state * nat :=
    if zmem to (s_blocked s) then (s, 1%nat) else
    match send_coins s from to d a with
    | Ok s' => (s', 0%nat)
    | Err => (s, 1%nat)
    | Panic => (s, 2%nat)
    end.

  Definition step (s : state) (o : op) : state :=
    match o with
    | OMsg m => fst (deliver s m)
    | OTokenCall c caller cl => fst (token_call s c caller cl)
    | OBankSend from to d a => fst (bank_send s from to d a)
    | OToggle id =>
        match get_pair s id with
        | Some _ => set_registry s (aupd bytes_eqb (s_pairs s) id toggle_pair) (s_erc20 s) (s_denom s)
        | None => s
        end
    | OFlags p e sd sl => set_flags s p e sd sl
    | OHook r d a => fst (hook_recv s r d a)
    | OEnvMint to d a => fst (env_mint s to d a)
    end.

  Definition run (s : state) (l : list op) : state := fold_left step l s.

  (** Nobody holds a private key of the module account: no operation of a history is signed by it (messages:
      the signer is the sender; Ethereum transactions: the caller; bank sends: the source).  The hook converts on
      behalf of the ICS-20 receiver; the transfer application refuses to credit a blocked address such as the
      module account (SendCoinsFromModuleToAccount) and then returns an error acknowledgement, after which the
      middleware does not call the hook: the module account is never the hook's receiver. *)
  Definition signer (o : op) : option Z :=
    match o with
    | OMsg (MCC m) => Some (cc_sender m)
    | OMsg (MCE m) => Some (hex_to_addr (ce_sender m))
    | OTokenCall _ caller _ => Some caller
    | OBankSend from _ _ _ => Some from
    | OHook r _ _ => Some r
    | _ => None
    end.
  Definition not_module_signed (o : op) : Prop := signer o <> Some MODULE.

End Model.

Arguments s_params {X}. Arguments s_evm_call {X}. Arguments s_pairs {X}. Arguments s_erc20 {X}.
Arguments s_denom {X}. Arguments s_bank {X}. Arguments s_supply {X}. Arguments s_blocked {X}.
Arguments s_send_default {X}. Arguments s_send {X}. Arguments s_accts {X}. Arguments s_mtok {X}.
Arguments s_ext {X}.
Arguments set_bank {X}.
Arguments set_supply {X}.
Arguments set_accts {X}.
Arguments set_tokens {X}.
Arguments s_tokens {X}.
Arguments tok_exec {X}.
Arguments set_registry {X}.
Arguments set_flags {X}.
Arguments find_mtok {X}.
Arguments is_contract {X}.
Arguments evm_call {X}.
Arguments balance_of {X}.
Arguments get_balance {X}.
Arguments sub_coins {X}.
Arguments add_coins {X}.
Arguments ensure_acct {X}.
Arguments send_coins {X}.
Arguments send_module_to_account {X}.
Arguments mint_coins {X}.
Arguments burn_coins {X}.
Arguments send_enabled {X}.
Arguments get_erc20_map {X}.
Arguments get_denom_map {X}.
Arguments token_pair_id {X}.
Arguments get_pair {X}.
Arguments delete_pair {X}.
Arguments minting_enabled {X}.
Arguments convert_coin_native_coin {X}.
Arguments convert_erc20_native_coin {X}.
Arguments convert_erc20_native_token {X}.
Arguments convert_coin_native_erc20 {X}.
Arguments convert_coin_native_erc20_old {X}.
Arguments convert_coin {X}.
Arguments convert_erc20 {X}.
Arguments handle {X}.
Arguments deliver {X}.
Arguments denom_registered {X}.
Arguments hook_recv {X}.
Arguments env_mint {X}.
Arguments token_call {X}.
Arguments bank_send {X}.
Arguments step {X}.
Arguments run {X}.
