(** x/rvesting parameters at the level of the params subspace, and genesis validation, as INTERPRETERS of the
    terms tools/gotocoq/rvesting regenerates from the Go source (types in Model/RvestingIR.v; the instance for
    the current tree is Model/RvestingCode.v).  No proofs here.

    Go sources:
      x/rvesting/types/param.go     validatePerBlockReward, ParamSetPairs, Params.validate, DefaultParams
      x/rvesting/keeper/params.go   GetParams / SetParams
      x/rvesting/types/genesis.go   ValidateGenesis
    Library behaviour modelled (cosmos-sdk v0.45.2, x/params/types/subspace.go): [Subspace.Update] (panics on an
    unregistered key; JSON decoding error, validator error -> error; else Set), [Subspace.SetParamSet]
    (validator error -> panic), [Subspace.GetParamSet] (missing value -> panic), the key prefix "<subspace>/";
    amino-JSON of bool and sdk.Coins; sdk.Coins.Validate. *)
From Teleport Require Import Base.Bytes Base.Outcome Base.Fmt Model.Rvesting Model.RvestingIR Model.RvestingBank.
Local Open Scope Z_scope.

(** * Reward lists as they arrive (JSON / genesis file): an amount may be absent (Go: sdk.Int{} with a nil big.Int) *)
Definition rcoin := (bytes * option Z)%type.

Definition lift_coin (c : bytes * Z) : rcoin := (fst c, Some (snd c)).
Definition lift_coins (l : list (bytes * Z)) : list rcoin := map lift_coin l.

Fixpoint strip_coins (l : list rcoin) : option (list (bytes * Z)) :=
  match l with
  | [] => Some []
  | (d, Some a) :: t => match strip_coins t with Some r => Some ((d, a) :: r) | None => None end
  | (_, None) :: _ => None
  end.

(** ** validatePerBlockReward, interpreted from its guard lists.  Each guard evaluates to
    [Ok true] = "returns an error", [Ok false] = passes, [Panic], or [Err] = the model cannot tell. *)
Definition cguard_eval (g : cguard) (seen : list bytes) (c : rcoin) : outcome bool :=
  match g with
  | GEmptyDenom => Ok (match fst c with [] => true | _ => false end)
  | GValidDenom => Ok (negb (valid_denom (fst c)))
  | GNilAmount => Ok (match snd c with None => true | Some _ => false end)
  | GNegative => match snd c with None => Panic | Some a => Ok (a <? 0) end   (* Int.IsNegative on a nil *big.Int *)
  | GDuplicate => Ok (mem (fst c) seen)
  | GUnknown _ => Err
  end.

(** First guard that fires decides; [Ok true] = the coin is rejected. *)
Fixpoint coin_rejected (gs : list cguard) (seen : list bytes) (c : rcoin) : outcome bool :=
  match gs with
  | [] => Ok false
  | g :: gs' =>
      match cguard_eval g seen c with
      | Ok true => Ok true
      | Ok false => coin_rejected gs' seen c
      | Err => Err
      | Panic => Panic
      end
  end.

Fixpoint coins_rejected (gs : list cguard) (seen : list bytes) (l : list rcoin) : outcome bool :=
  match l with
  | [] => Ok false
  | c :: l' =>
      match coin_rejected gs seen c with
      | Ok true => Ok true
      | Ok false => coins_rejected gs (fst c :: seen) l'
      | Err => Err
      | Panic => Panic
      end
  end.

Definition lguard_eval (g : lguard) (l : list rcoin) : outcome bool :=
  match g with
  | LTypeCoins => Ok false                                  (* the value has the registered type *)
  | LEmpty => Ok (match l with [] => true | _ => false end)
  | LUnknown _ => Err
  end.

Fixpoint list_rejected (gs : list lguard) (l : list rcoin) : outcome bool :=
  match gs with
  | [] => Ok false
  | g :: gs' =>
      match lguard_eval g l with
      | Ok true => Ok true
      | Ok false => list_rejected gs' l
      | Err => Err
      | Panic => Panic
      end
  end.

(** [Ok true] = accepted (nil error), [Ok false] = error returned. *)
Definition validate_raw (lgs : list lguard) (cgs : list cguard) (l : list rcoin) : outcome bool :=
  match list_rejected lgs l with
  | Ok true => Ok false
  | Ok false => match coins_rejected cgs [] l with Ok b => Ok (negb b) | Err => Err | Panic => Panic end
  | Err => Err
  | Panic => Panic
  end.

(** * The params subspace: key -> typed value (the amino-JSON text is rendered for the store dump only). *)
Inductive pval := PB (b : bool) | PC (l : list (bytes * Z)).
Definition kv := list (bytes * pval).

Fixpoint kv_get (s : kv) (k : bytes) : option pval :=
  match s with
  | [] => None
  | (k', v) :: t => if bytes_eqb k' k then Some v else kv_get t k
  end.

Fixpoint kv_set (s : kv) (k : bytes) (v : pval) : kv :=
  match s with
  | [] => [(k, v)]
  | (k', v') :: t => if bytes_eqb k' k then (k, v) :: t else (k', v') :: kv_set t k v
  end.

(** A proposed value as the JSON decoder sees it. *)
Inductive pvalue :=
| JBool (b : bool)                (* true / false *)
| JCoins (l : list rcoin)         (* [{"denom":..,"amount":..}, ..]; amount member missing = None *)
| JMalformed.                     (* anything else: not JSON, wrong shape, non-numeric amount *)

Fixpoint find_pair (pairs : list ppair) (k : bytes) : option ppair :=
  match pairs with
  | [] => None
  | p :: t => if bytes_eqb (pp_key p) k then Some p else find_pair t k
  end.

Section WithCode.
  Variable pairs : list ppair.
  Variable lgs : list lguard.
  Variable cgs : list cguard.

  (** The validator function of a pair applied to a decoded value: [Ok (Some v)] = accepted typed value. *)
  Definition run_validator (p : ppair) (v : pvalue) : outcome (option pval) :=
    match pp_type p, v with
    | TBool, JBool b =>
        match pp_validator p with
        | VAcceptAll => Ok (Some (PB b))
        | _ => Err                                   (* a validator the model does not know on a bool *)
        end
    | TCoins, JCoins l =>
        match pp_validator p with
        | VAcceptAll => match strip_coins l with Some r => Ok (Some (PC r)) | None => Err end
        | VRewards =>
            match validate_raw lgs cgs l with
            | Ok true => match strip_coins l with Some r => Ok (Some (PC r)) | None => Err end
            | Ok false => Ok None
            | Err => Err
            | Panic => Panic
            end
        | VOther _ => Err
        end
    | _, _ => Ok None                                (* JSON does not decode into the registered type *)
    end.

  (** Subspace.Update(key, value): [Panic] unregistered key; [Ok None] = error returned (store untouched). *)
  Definition subspace_update (s : kv) (k : bytes) (v : pvalue) : outcome (option kv) :=
    match find_pair pairs k with
    | None => Panic
    | Some p =>
        match run_validator p v with
        | Ok (Some tv) => Ok (Some (kv_set s k tv))
        | Ok None => Ok None
        | Err => Err
        | Panic => Panic
        end
    end.

  Definition field_value (en : bool) (rw : list rcoin) (p : ppair) : option pvalue :=
    match pp_type p with
    | TBool => Some (JBool en)
    | TCoins => Some (JCoins rw)
    | TOtherType _ => None
    end.

  (** Subspace.SetParamSet(&params): every pair validated (error -> panic) and stored, in order. *)
  Fixpoint set_param_set_from (ps : list ppair) (en : bool) (rw : list rcoin) (s : kv) : outcome kv :=
    match ps with
    | [] => Ok s
    | p :: t =>
        match field_value en rw p with
        | None => Err
        | Some v =>
            match run_validator p v with
            | Ok (Some tv) => set_param_set_from t en rw (kv_set s (pp_key p) tv)
            | Ok None => Panic
            | Err => Err
            | Panic => Panic
            end
        end
    end.
  Definition set_param_set (en : bool) (rw : list rcoin) (s : kv) : outcome kv := set_param_set_from pairs en rw s.

  (** Subspace.GetParamSet(&params): a missing value makes the JSON decoder fail -> panic.  The pairs are
      identified by the TYPE of the field they fill (one bool, one coin list). *)
  Fixpoint get_bool_from (ps : list ppair) (s : kv) : outcome bool :=
    match ps with
    | [] => Err
    | p :: t => match pp_type p with
                | TBool => match kv_get s (pp_key p) with Some (PB b) => Ok b | _ => Panic end
                | _ => get_bool_from t s
                end
    end.
  Fixpoint get_coins_from (ps : list ppair) (s : kv) : outcome (list (bytes * Z)) :=
    match ps with
    | [] => Err
    | p :: t => match pp_type p with
                | TCoins => match kv_get s (pp_key p) with Some (PC l) => Ok l | _ => Panic end
                | _ => get_coins_from t s
                end
    end.
  Definition get_params (s : kv) : outcome params :=
    match get_bool_from pairs s, get_coins_from pairs s with
    | Ok b, Ok l => Ok {| enable := b; rewards := l |}
    | Panic, _ | _, Panic => Panic
    | _, _ => Err
    end.
End WithCode.

(** * Rendering of the raw store (key = "<module>/<key>", value = amino JSON), for the store-dump comparison. *)
Definition dq : byte := x22.
Definition quoted (s : bytes) : bytes := dq :: s ++ [dq].

Definition render_Z (z : Z) : bytes :=
  match z with
  | Zneg p => x2d :: dec (Npos p)
  | _ => dec (Z.to_N z)
  end.

Definition render_coin (c : bytes * Z) : bytes :=
  B "{" ++ quoted (B "denom") ++ B ":" ++ quoted (fst c) ++ B "," ++ quoted (B "amount") ++ B ":" ++ quoted (render_Z (snd c)) ++ B "}".

Fixpoint join_comma (l : list bytes) : bytes :=
  match l with
  | [] => []
  | [x] => x
  | x :: t => x ++ B "," ++ join_comma t
  end.

Definition render_pval (v : pval) : bytes :=
  match v with
  | PB true => B "true"
  | PB false => B "false"
  | PC l => B "[" ++ join_comma (map render_coin l) ++ B "]"
  end.

Definition render_store (module : bytes) (s : kv) : list (bytes * bytes) :=
  map (fun e => (module ++ B "/" ++ fst e, render_pval (snd e))) s.

(** * Genesis *)
Inductive from_kind :=
| FromEmpty                       (* From == "" *)
| FromBad                         (* not a bech32 account address *)
| FromAcct (i : nat).             (* decodes to the account with this index *)

Record genesis := {
  g_enable : bool;
  g_rewards : list rcoin;
  g_from : from_kind;
  g_init : list (bytes * Z)       (* InitReward *)
}.

(** sdk.Coins.Validate: like IsValid. *)
Definition coins_validate (l : list (bytes * Z)) : bool := coins_is_valid l.

Section WithGenesisCode.
  Variable lgs : list lguard.
  Variable cgs : list cguard.
  Variable shape : pvshape.

  (** Params.validate: [Ok true] = accepted. *)
  Definition params_validate (en : bool) (rw : list rcoin) : outcome bool :=
    match shape with
    | PVAlways => validate_raw lgs cgs rw
    | PVIfEnabled => if en then validate_raw lgs cgs rw else Ok true
    | PVUnknown => Err
    end.

  Definition gvstep_rejects (g : genesis) (st : gvstep) : outcome bool :=
    match st with
    | GVParams => match params_validate (g_enable g) (g_rewards g) with Ok b => Ok (negb b) | Err => Err | Panic => Panic end
    | GVBech32 => Ok (match g_from g with FromAcct _ => false | _ => true end)
    | GVInitCoins => Ok (negb (coins_validate (g_init g)))
    | GVUnknown _ => Err
    end.

  (** ValidateGenesis: [Ok true] = nil error. *)
  Fixpoint validate_genesis (steps : list (bool * gvstep)) (g : genesis) : outcome bool :=
    match steps with
    | [] => Ok true
    | (under_from, st) :: t =>
        if under_from && match g_from g with FromEmpty => true | _ => false end then validate_genesis t g
        else match gvstep_rejects g st with
             | Ok true => Ok false
             | Ok false => validate_genesis t g
             | Err => Err
             | Panic => Panic
             end
    end.
End WithGenesisCode.
