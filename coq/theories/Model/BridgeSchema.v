(** C03 — the wire fields behind the abstract packet of Model/Bridge.v.

    The record [Bridge.packet] abstracts what the chain code moves between chains: the ABI tuples of
    x/xibc/core/packet/types/evm.go (packet, transfer data, call data, receive result, acknowledgement).  This file
    states which wire field each model field stands for and checks, against the tuples REGENERATED from the Go source
    on every run (Gen/AbiSchemaGen.v, translator tools/gotocoq/abischema), that these are exactly the wire fields:
    a field added to / removed from / retyped in one of the tuples (e.g. a second amount, a fee recipient) makes
    [bridge_schema_ok] compute to [false], i.e. the model no longer accounts for everything a packet carries. *)
From Coq Require Import List Bool.
From Teleport Require Import Base.Bytes Base.AbiSchema Gen.AbiSchemaGen.
Import ListNotations.

Definition wire (name : bytes) (ty : aty) : tfield := {| tf_name := name; tf_ty := ty |}.

Definition tf_eqb (a b : tfield) : bool := bytes_eqb (tf_name a) (tf_name b) && aty_eqb (tf_ty a) (tf_ty b).

Fixpoint tfl_eqb (a b : list tfield) : bool :=
  match a, b with
  | [], [] => true
  | x :: a', y :: b' => tf_eqb x y && tfl_eqb a' b'
  | _, _ => false
  end.

(** TuplePacketData <-> Bridge.packet *)
Definition wire_packet : list tfield :=
  [ wire (B "src_chain") TStr;          (* p_src *)
    wire (B "dst_chain") TStr;          (* p_dst *)
    wire (B "sequence") TU64;           (* p_seq *)
    wire (B "sender") TStr;             (* p_sender *)
    wire (B "transfer_data") TBytes;    (* p_recv p_token p_ori p_amount: see [wire_transfer]; empty = [p_amount = 0] *)
    wire (B "call_data") TBytes;        (* p_cd: see [wire_call]; empty = [CdNone] *)
    wire (B "callback_address") TStr;   (* p_cb *)
    wire (B "fee_option") TU64 ].       (* always 0 in this tree: fees are kept in packet.packetFees on the source *)

(** TupleTransferData <-> the token part *)
Definition wire_transfer : list tfield :=
  [ wire (B "token") TStr;              (* p_token (token on the source chain) *)
    wire (B "oriToken") TStr;           (* p_ori (empty = forward transfer) *)
    wire (B "amount") TBytes;           (* p_amount, in units of the origin token *)
    wire (B "receiver") TStr ].         (* p_recv (not a hex address = [None]) *)

(** TupleCallData <-> [calldata]: contract and payload, classified by how execution ends *)
Definition wire_call : list tfield :=
  [ wire (B "contractAddress") TStr; wire (B "callData") TBytes ].

(** TupleRecvPacketResultData <-> the result of Packet.onRecvPacket: [code] decides everything, the rest is carried
    into the acknowledgement unchanged *)
Definition wire_result : list tfield :=
  [ wire (B "code") TU64; wire (B "result") TBytes; wire (B "message") TStr ].

(** TupleAckData <-> p_code (+ relayer for the fee payout; result, message, fee_option are not interpreted by the chain) *)
Definition wire_ack : list tfield :=
  [ wire (B "code") TU64; wire (B "result") TBytes; wire (B "message") TStr; wire (B "relayer") TStr; wire (B "fee_option") TU64 ].

Definition bridge_schema_ok : bool :=
  tfl_eqb tuple_TuplePacketData wire_packet &&
  tfl_eqb tuple_TupleTransferData wire_transfer &&
  tfl_eqb tuple_TupleCallData wire_call &&
  tfl_eqb tuple_TupleRecvPacketResultData wire_result &&
  tfl_eqb tuple_TupleAckData wire_ack &&
  (* the Go structs are packed and unpacked with these tuples *)
  tfl_eqb (sc_pack packet_schema) wire_packet && tfl_eqb (sc_unpack packet_schema) wire_packet &&
  tfl_eqb (sc_pack transfer_data_schema) wire_transfer && tfl_eqb (sc_unpack transfer_data_schema) wire_transfer &&
  tfl_eqb (sc_pack call_data_schema) wire_call && tfl_eqb (sc_unpack call_data_schema) wire_call &&
  tfl_eqb (sc_pack ack_schema) wire_ack && tfl_eqb (sc_unpack ack_schema) wire_ack &&
  tfl_eqb (sc_unpack result_schema) wire_result.
