(** Correspondence and monitor definitions for C17, evaluated by [vm_compute] on what the harness
    observed on the real code (no proofs here).

    Two kinds of cases:
    - [hcase] (pure hook): the real [PostTxProcessing] functions ran on a generated receipt with a
      recording message router (optionally failing at the n-th message);
    - [acase] (application): a history of Ethereum transactions / environment steps on a real app.

    Result lists are [(case, (step, kind))]; empty = fine.  Kinds:
    1 hook outcome class differs, 2 recorded message list differs, 3 wrong denomination,
    11 a message without a matching log, 12 success but not one message per matching log,
    13 signer differs from the event's first field, 14 a field of the native message (validator strings,
    amount, proposal, option, weights, signer) is not VERBATIM the field of its event;
    31 tx result class differs, 32 logs differ, 33 native state after differs, 34 EVM-visible
    counters differ, 35 constants (addresses / event ids) differ, 36 ill-formed call tree;
    41 failed tx changed something, 42 state of a non-caller changed, 43 effect differs from the
    passed arguments, 44 supply changed / balances do not add up to it, 45 coins burned by a slash
    did not arrive at the fee collector, 46 a step or the block boundary after it panicked outside any
    recovery (chain halt), 47 state outside the observed universe appeared (another denomination, an
    unknown validator, a failing reward query). *)
From Teleport Require Import Base.Bytes Base.Outcome Model.Adapter Model.AdapterEvm Model.AdapterNative.
Local Open Scope Z_scope.

(** hex text -> bytes: the case files carry byte strings as hex text (fast to parse), decoded by [vm_compute] *)
Definition hexv (a : ascii) : N := let n := N_of_ascii a in if (n <? 58)%N then (n - 48)%N else (n - 87)%N.
Fixpoint hx (s : string) : bytes :=
  match s with
  | String a (String b r) => byte_of_N (hexv a * 16 + hexv b) :: hx r
  | _ => []
  end.

Fixpoint number {A} (i : nat) (l : list A) : list (nat * A) :=
  match l with [] => [] | x :: l' => (i, x) :: number (S i) l' end.

(** ** equality tests *)
Fixpoint list_eqb {A} (eqb : A -> A -> bool) (a b : list A) : bool :=
  match a, b with
  | [], [] => true
  | x :: a', y :: b' => eqb x y && list_eqb eqb a' b'
  | _, _ => false
  end.

Definition pair_eqb {A B} (ea : A -> A -> bool) (eb : B -> B -> bool) (x y : A * B) : bool :=
  ea (fst x) (fst y) && eb (snd x) (snd y).

Definition msg_eqb (a b : msg) : bool :=
  match a, b with
  | MDelegate d v x, MDelegate d' v' x' | MUndelegate d v x, MUndelegate d' v' x' =>
      bytes_eqb d d' && bytes_eqb v v' && (x =? x')
  | MRedelegate d s t x, MRedelegate d' s' t' x' => bytes_eqb d d' && bytes_eqb s s' && bytes_eqb t t' && (x =? x')
  | MWithdraw d v, MWithdraw d' v' => bytes_eqb d d' && bytes_eqb v v'
  | MVote d p o, MVote d' p' o' => bytes_eqb d d' && N.eqb p p' && (o =? o')
  | MVoteW d p os, MVoteW d' p' os' => bytes_eqb d d' && N.eqb p p' && list_eqb (pair_eqb Z.eqb Z.eqb) os os'
  | _, _ => false
  end.

Definition log_eqb (a b : log) : bool :=
  bytes_eqb (l_addr a) (l_addr b) && list_eqb bytes_eqb (l_topics a) (l_topics b) && bytes_eqb (l_data a) (l_data b).

(** maps compared as functions with a default *)
Definition assoc_equiv {K V} (keqb : K -> K -> bool) (veqb : V -> V -> bool) (dflt : V) (a b : list (K * V)) : bool :=
  let get m k := match aget keqb m k with Some v => v | None => dflt end in
  forallb (fun k => veqb (get a k) (get b k)) (map fst a ++ map fst b).

(** ** pure hook cases *)
Record hcase := {
  hc_which : nat;                 (* 0 staking hook, 1 gov hook, 2 MultiEvmHooks(staking, gov) *)
  hc_logs : list log;
  hc_fail_at : option nat;        (* the recording router fails at this message index *)
  hc_class : nat;                 (* observed: 0 nil, 1 error, 2 panic *)
  hc_msgs : list msg;             (* observed: messages the router accepted, in order *)
  hc_den_ok : bool                (* observed: every amount carried the bond denomination *)
}.

Definition rec_exec (fail : option nat) (m : msg) (s : list msg) : outcome (list msg) :=
  match fail with
  | Some k => if Nat.eqb k (length s) then Err else Ok (s ++ [m])
  | None => Ok (s ++ [m])
  end.

Definition hook_model (c : hcase) : outcome unit * list msg :=
  match hc_which c with
  | 0%nat => post_tx (rec_exec (hc_fail_at c)) HStaking (hc_logs c) []
  | 1%nat => post_tx (rec_exec (hc_fail_at c)) HGov (hc_logs c) []
  | _ => multi_hook (rec_exec (hc_fail_at c)) (hc_logs c) []
  end.

(** the recording router reports weights as the SDK decimal (scaled by 10^18) *)
Definition scale_msg (m : msg) : msg :=
  match m with
  | MVoteW d p os => MVoteW d p (map (fun ow => (fst ow, snd ow * dec16)) os)
  | _ => m
  end.

Definition cmp_hcase (c : hcase) : list (nat * nat) :=
  let (r, ms) := hook_model c in
  if negb (Nat.eqb (oclass r) (hc_class c)) then [(0, 1)%nat]
  else if negb (list_eqb msg_eqb (map scale_msg ms) (hc_msgs c)) then [(0, 2)%nat]
  else if negb (hc_den_ok c) then [(0, 3)%nat] else [].

Definition hook_mismatches (cs : list hcase) : list (nat * (nat * nat)) :=
  flat_map (fun ic => map (fun m => (fst ic, m)) (cmp_hcase (snd ic))) (number 0 cs).

(** monitor on the implementation's output only *)
Definition hooks_of (w : nat) : list hkind :=
  match w with 0%nat => [HStaking] | 1%nat => [HGov] | _ => [HStaking; HGov] end.

Definition matching (h : hkind) (l : log) : bool :=
  bytes_eqb (l_addr l) (sys_addr h) &&
  match l_topics l with t0 :: _ => match handler_of h t0 with Some _ => true | None => false end | [] => false end.

(** the logs a hook selection reacts to, each with the hook that reacts, in execution order *)
Definition matching_logs (w : nat) (logs : list log) : list (hkind * log) :=
  flat_map (fun h => map (pair h) (filter (matching h) logs)) (hooks_of w).

Definition msg_signer (m : msg) : bytes :=
  match m with
  | MDelegate d _ _ | MUndelegate d _ _ | MRedelegate d _ _ _ | MWithdraw d _ | MVote d _ _ | MVoteW d _ _ => d
  end.

Fixpoint signers_ok (ls : list (hkind * log)) (ms : list msg) : bool :=
  match ls, ms with
  | _, [] => true
  | [], _ :: _ => false
  | hl :: ls', m :: ms' =>
      (if (32 <=? length (l_data (snd hl)))%nat then bytes_eqb (msg_signer m) (firstn 20 (skipn 12 (l_data (snd hl)))) else true)
      && signers_ok ls' ms'
  end.

(** "exactly the validator, amount, proposal and options it passed": the recorded message (weights as the
    SDK decimal, scaled by 10^18) carries the event's fields verbatim — no cast, no truncation, no swap *)
Definition verbatim (ev : event) (m : msg) : bool :=
  match ev, m with
  | EDelegated d v (Some a), MDelegate d' v' a' | EUndelegated d v (Some a), MUndelegate d' v' a' =>
      bytes_eqb d d' && bytes_eqb v v' && (a' =? Z.of_N a)
  | ERedelegated d s t (Some a), MRedelegate d' s' t' a' =>
      bytes_eqb d d' && bytes_eqb s s' && bytes_eqb t t' && (a' =? Z.of_N a)
  | EWithdrew d v, MWithdraw d' v' => bytes_eqb d d' && bytes_eqb v v'
  | EVoted d p o, MVote d' p' o' => bytes_eqb d d' && N.eqb p p' && (o' =? Z.of_N o)
  | EVotedW d p os, MVoteW d' p' os' =>
      bytes_eqb d d' && N.eqb p p' &&
      list_eqb (pair_eqb Z.eqb Z.eqb) os' (map (fun ow => (Z.of_N (fst ow), Z.of_N (snd ow) * dec16)) os)
  | _, _ => false
  end.

(** the event is read off the log with the ABI decoder of the hook's own event table; a message for a log
    that does not decode is a failure, too *)
Definition fields_ok (hl : hkind * log) (m : msg) : bool :=
  match l_topics (snd hl) with
  | t0 :: _ =>
      match handler_of (fst hl) t0 with
      | Some k =>
          match parse_log k (length (l_topics (snd hl))) (l_data (snd hl)) with
          | Some ev => verbatim ev m
          | None => false
          end
      | None => false
      end
  | [] => false
  end.

Fixpoint all_fields_ok (ls : list (hkind * log)) (ms : list msg) : bool :=
  match ls, ms with
  | hl :: ls', m :: ms' => fields_ok hl m && all_fields_ok ls' ms'
  | _, _ => true
  end.

Definition mon_hcase (c : hcase) : list (nat * nat) :=
  let ml := matching_logs (hc_which c) (hc_logs c) in
  if (length ml <? length (hc_msgs c))%nat then [(0, 11)%nat]
  else if Nat.eqb (hc_class c) 0 && negb (Nat.eqb (length ml) (length (hc_msgs c))) then [(0, 12)%nat]
  else if negb (signers_ok ml (hc_msgs c)) then [(0, 13)%nat]
  else if negb (all_fields_ok ml (hc_msgs c)) then [(0, 14)%nat] else [].

Definition hook_monitor_failures (cs : list hcase) : list (nat * (nat * nat)) :=
  flat_map (fun ic => map (fun m => (fst ic, m)) (mon_hcase (snd ic))) (number 0 cs).

(** ** application cases *)
Record ostate := { o_n : nstate; o_ctr : list (bytes * N) }.

(** case files define each distinct observed state once (without the reward oracle) and attach the oracle *)
Definition with_rew (s : nstate) (r : list (dkey * Z)) : nstate :=
  {| n_bal := n_bal s; n_supply := n_supply s; n_vtok := n_vtok s; n_dels := n_dels s; n_ubds := n_ubds s;
     n_reds := n_reds s; n_votes := n_votes s; n_props := n_props s; n_rew := r |}.

Record envinfo := {
  e_staking : bytes; e_gov : bytes; e_topics : list bytes;     (* topics in the order of [all_kinds] *)
  e_bonded : bytes; e_notbonded : bytes; e_distr : bytes; e_feecoll : bytes; e_max : nat
}.

Record astep := {
  a_kind : nat;                          (* 0 transaction, 1 environment step, 2 slashing (burns pool coins) *)
  a_tx : txd;
  a_vres : list (bytes * option nat);    (* oracle: validator string -> index *)
  a_pre : ostate; a_post : ostate;
  a_class : nat;                         (* 0 ok, 1 EVM failed, 2 hook failed, 3 tx rejected, 4 panic recovered *)
  a_logs : list log;
  a_halt : bool;                         (* observed: the step / the block boundary after it panicked unrecovered *)
  a_other_ok : bool                      (* observed: nothing outside the projected universe in pre and post *)
}.

Record acase := { ac_env : envinfo; ac_steps : list astep; ac_final : ostate }.

Definition all_kinds : list evkind := [KDelegated; KUndelegated; KRedelegated; KWithdrew; KVoted; KVotedWeighted].

Definition consts_ok (e : envinfo) : bool :=
  bytes_eqb (e_staking e) staking_addr && bytes_eqb (e_gov e) gov_addr &&
  list_eqb bytes_eqb (e_topics e) (map topic_of all_kinds).

Definition resolve_of (vres : list (bytes * option nat)) (v : bytes) : option nat :=
  match aget bytes_eqb vres v with Some (Some i) => Some i | _ => None end.

Definition add_ctrs (ctrs : list bytes) (c : list (bytes * N)) : list (bytes * N) :=
  fold_left (fun acc a => aset bytes_eqb acc a ((match aget bytes_eqb acc a with Some v => v | None => 0 end) + 1)%N) ctrs c.

Definition lift_exec (ex : msg -> nstate -> outcome nstate) (m : msg) (s : ostate) : outcome ostate :=
  match ex m (o_n s) with
  | Ok n' => Ok {| o_n := n'; o_ctr := o_ctr s |}
  | Err => Err
  | Panic => Panic
  end.

(** the model of one transaction step: result class and state after *)
Definition model_tx (e : envinfo) (st : astep) : nat * ostate * list log :=
  let r := run_tx (a_tx st) in
  if negb (fr_ok r) then (1%nat, a_pre st, [])
  else
    let ex := lift_exec (exec_native (resolve_of (a_vres st)) (e_bonded e) (e_notbonded e) (e_distr e) (e_max e)) in
    let evm s := {| o_n := o_n s; o_ctr := add_ctrs (fr_ctr r) (o_ctr s) |} in
    match deliver ex evm (fr_logs r) (a_pre st) with
    | (Ok _, s') => (0%nat, s', fr_logs r)
    | (Err, s') => (2%nat, s', fr_logs r)
    | (Panic, s') => (4%nat, s', fr_logs r)
    end.

Definition opt_list_eqb (a b : list Z) : bool := list_eqb Z.eqb a b.

Definition native_eqb (a b : nstate) : bool :=
  assoc_equiv bytes_eqb Z.eqb 0 (n_bal a) (n_bal b) && (n_supply a =? n_supply b) &&
  list_eqb Z.eqb (n_vtok a) (n_vtok b) &&
  assoc_equiv dkey_eqb Z.eqb 0 (n_dels a) (n_dels b) &&
  assoc_equiv dkey_eqb opt_list_eqb [] (n_ubds a) (n_ubds b) &&
  assoc_equiv rkey_eqb opt_list_eqb [] (n_reds a) (n_reds b) &&
  assoc_equiv vkey_eqb (list_eqb (pair_eqb Z.eqb Z.eqb)) [] (n_votes a) (n_votes b).

Definition ctr_eqb (a b : list (bytes * N)) : bool := assoc_equiv bytes_eqb N.eqb 0%N a b.

Definition cmp_astep (e : envinfo) (st : astep) : list nat :=
  match a_kind st with
  | 0%nat =>
      if negb (wf_tx (a_tx st)) then [36%nat] else
      let '(cls, post, logs) := model_tx e st in
      if negb (Nat.eqb cls (a_class st)) then [31%nat]
      else if (a_class st <? 3)%nat && negb (list_eqb log_eqb logs (a_logs st)) then [32%nat]
      else if negb (native_eqb (o_n post) (o_n (a_post st))) then [33%nat]
      else if negb (ctr_eqb (o_ctr post) (o_ctr (a_post st))) then [34%nat] else []
  | _ => []
  end.

Definition cmp_acase (c : acase) : list (nat * nat) :=
  (if consts_ok (ac_env c) then [] else [(0, 35)%nat]) ++
  flat_map (fun ist => map (fun k => (fst ist, k)) (cmp_astep (ac_env c) (snd ist))) (number 0 (ac_steps c)).

Definition app_mismatches (cs : list acase) : list (nat * (nat * nat)) :=
  flat_map (fun ic => map (fun m => (fst ic, m)) (cmp_acase (snd ic))) (number 0 cs).

(** ** The property as a monitor of the implementation's trace *)

Definition mem_bytes (a : bytes) (l : list bytes) : bool := existsb (bytes_eqb a) l.

(** everything observable is unchanged *)
Definition unchanged (a b : ostate) : bool := native_eqb (o_n a) (o_n b) && ctr_eqb (o_ctr a) (o_ctr b).

Definition others_same {K V} (keqb : K -> K -> bool) (veqb : V -> V -> bool) (dflt : V) (owner : K -> bytes)
  (callers : list bytes) (a b : list (K * V)) : bool :=
  let get m k := match aget keqb m k with Some v => v | None => dflt end in
  forallb (fun k => mem_bytes (owner k) callers || veqb (get a k) (get b k)) (map fst a ++ map fst b).

(** state keyed by an account that is not an immediate caller of a system contract is untouched *)
Definition attribution_ok (e : envinfo) (callers : list bytes) (pre post : nstate) : bool :=
  others_same dkey_eqb Z.eqb 0 fst callers (n_dels pre) (n_dels post) &&
  others_same dkey_eqb opt_list_eqb [] fst callers (n_ubds pre) (n_ubds post) &&
  others_same rkey_eqb opt_list_eqb [] (fun k => fst (fst k)) callers (n_reds pre) (n_reds post) &&
  others_same vkey_eqb (list_eqb (pair_eqb Z.eqb Z.eqb)) [] snd callers (n_votes pre) (n_votes post) &&
  others_same bytes_eqb Z.eqb 0 (fun k => k) (callers ++ [e_bonded e; e_notbonded e; e_distr e]) (n_bal pre) (n_bal post).

(** the effect the passed arguments ask for, applied to the staking / gov tables only *)
Record tables := {
  t_vtok : list Z; t_dels : list (dkey * Z); t_ubds : list (dkey * list Z); t_reds : list (rkey * list Z);
  t_votes : list (vkey * list (Z * Z)); t_deleg : list (bytes * Z); t_undel : Z; t_bad : bool
}.

Definition bump (m : list (dkey * Z)) (k : dkey) (x : Z) : list (dkey * Z) :=
  aset dkey_eqb m k ((match aget dkey_eqb m k with Some v => v | None => 0 end) + x).

Definition apply_inv (res : bytes -> option nat) (t : tables) (iv : invocation) : tables :=
  let c := snd (fst iv) in
  let bad := {| t_vtok := t_vtok t; t_dels := t_dels t; t_ubds := t_ubds t; t_reds := t_reds t; t_votes := t_votes t;
                t_deleg := t_deleg t; t_undel := t_undel t; t_bad := true |} in
  match snd iv with
  | FDelegate v a =>
      match res v with
      | None => bad
      | Some i => {| t_vtok := upd_nth (t_vtok t) i (fun x => x + Z.of_N a); t_dels := bump (t_dels t) (c, i) (Z.of_N a * dec18);
                     t_ubds := t_ubds t; t_reds := t_reds t; t_votes := t_votes t;
                     t_deleg := (c, Z.of_N a) :: t_deleg t; t_undel := t_undel t; t_bad := t_bad t |}
      end
  | FUndelegate v a =>
      match res v with
      | None => bad
      | Some i => {| t_vtok := upd_nth (t_vtok t) i (fun x => x - Z.of_N a); t_dels := bump (t_dels t) (c, i) (- Z.of_N a * dec18);
                     t_ubds := aset dkey_eqb (t_ubds t) (c, i)
                                 ((match aget dkey_eqb (t_ubds t) (c, i) with Some l => l | None => [] end) ++ [Z.of_N a]);
                     t_reds := t_reds t; t_votes := t_votes t;
                     t_deleg := t_deleg t; t_undel := t_undel t + Z.of_N a; t_bad := t_bad t |}
      end
  | FRedelegate sv tv a =>
      match res sv, res tv with
      | Some i, Some j =>
          {| t_vtok := upd_nth (upd_nth (t_vtok t) i (fun x => x - Z.of_N a)) j (fun x => x + Z.of_N a);
             t_dels := bump (bump (t_dels t) (c, i) (- Z.of_N a * dec18)) (c, j) (Z.of_N a * dec18);
             t_ubds := t_ubds t;
             t_reds := aset rkey_eqb (t_reds t) (c, i, j)
                         ((match aget rkey_eqb (t_reds t) (c, i, j) with Some l => l | None => [] end) ++ [Z.of_N a]);
             t_votes := t_votes t; t_deleg := t_deleg t; t_undel := t_undel t; t_bad := t_bad t |}
      | _, _ => bad
      end
  | FWithdraw v => match res v with None => bad | Some _ => t end
  | FVote pid o =>
      {| t_vtok := t_vtok t; t_dels := t_dels t; t_ubds := t_ubds t; t_reds := t_reds t;
         t_votes := aset vkey_eqb (t_votes t) (pid, c) [(Z.of_N o, dec18)];
         t_deleg := t_deleg t; t_undel := t_undel t; t_bad := t_bad t |}
  | FVoteW pid os =>
      {| t_vtok := t_vtok t; t_dels := t_dels t; t_ubds := t_ubds t; t_reds := t_reds t;
         t_votes := aset vkey_eqb (t_votes t) (pid, c) (map (fun ow => (Z.of_N (fst ow), Z.of_N (snd ow) * dec16)) os);
         t_deleg := t_deleg t; t_undel := t_undel t; t_bad := t_bad t |}
  end.

Definition sum_for (c : bytes) (l : list (bytes * Z)) : Z :=
  fold_right (fun kv acc => if bytes_eqb (fst kv) c then snd kv + acc else acc) 0 l.

Definition rew_for (c : bytes) (l : list (dkey * Z)) : Z :=
  fold_right (fun kv acc => if bytes_eqb (fst (fst kv)) c then snd kv + acc else acc) 0 l.

Definition exact_ok (e : envinfo) (res : bytes -> option nat) (invs : list invocation) (pre post : nstate) : bool :=
  let t0 := {| t_vtok := n_vtok pre; t_dels := n_dels pre; t_ubds := n_ubds pre; t_reds := n_reds pre; t_votes := n_votes pre;
               t_deleg := []; t_undel := 0; t_bad := false |} in
  let t := fold_left (apply_inv res) invs t0 in
  let total_deleg := fold_right (fun kv acc => snd kv + acc) 0 (t_deleg t) in
  negb (t_bad t) &&
  list_eqb Z.eqb (t_vtok t) (n_vtok post) &&
  assoc_equiv dkey_eqb Z.eqb 0 (t_dels t) (n_dels post) &&
  assoc_equiv dkey_eqb opt_list_eqb [] (t_ubds t) (n_ubds post) &&
  assoc_equiv rkey_eqb opt_list_eqb [] (t_reds t) (n_reds post) &&
  assoc_equiv vkey_eqb (list_eqb (pair_eqb Z.eqb Z.eqb)) [] (t_votes t) (n_votes post) &&
  (bal post (e_bonded e) =? bal pre (e_bonded e) + total_deleg - t_undel t) &&
  (bal post (e_notbonded e) =? bal pre (e_notbonded e) + t_undel t) &&
  forallb (fun c =>
             let lo := bal pre c - sum_for c (t_deleg t) in
             (lo <=? bal post c) && (bal post c <=? lo + rew_for c (n_rew pre)))
          (map (fun iv => snd (fst iv)) invs).

(** supply is what it was, and the balances add up to it *)
Definition supply_ok (pre post : nstate) : bool :=
  (n_supply post =? n_supply pre) && (total_bal post =? n_supply post) && (total_bal pre =? n_supply pre).

Definition mon_astep (e : envinfo) (st : astep) : list nat :=
  (if a_halt st then [46%nat] else []) ++ (if a_other_ok st then [] else [47%nat]) ++
  (if supply_ok (o_n (a_pre st)) (o_n (a_post st)) then [] else [44%nat]) ++
  match a_kind st with
  | 0%nat =>
      if negb (Nat.eqb (a_class st) 0) then
        (if unchanged (a_pre st) (a_post st) then [] else [41%nat])
      else
        let r := run_tx (a_tx st) in
        let callers := map (fun iv => snd (fst iv)) (fr_inv r) in
        (if attribution_ok e callers (o_n (a_pre st)) (o_n (a_post st)) then [] else [42%nat]) ++
        (if exact_ok e (resolve_of (a_vres st)) (fr_inv r) (o_n (a_pre st)) (o_n (a_post st)) then [] else [43%nat])
  | 2%nat =>
      (* what left the staking pools is what the fee collector received *)
      let pre := o_n (a_pre st) in let post := o_n (a_post st) in
      let pools s := bal s (e_bonded e) + bal s (e_notbonded e) in
      if (bal post (e_feecoll e) - bal pre (e_feecoll e) =? pools pre - pools post) && (pools post <=? pools pre)
      then [] else [45%nat]
  | _ => []
  end.

(** between steps (block boundaries: EndBlock / BeginBlock, where burns happen) the supply stays too *)
Fixpoint mon_between (i : nat) (prev : option nstate) (l : list astep) (final : nstate) : list (nat * nat) :=
  match l with
  | [] => match prev with Some p => if supply_ok p final then [] else [(i, 44%nat)] | None => [] end
  | st :: r =>
      (match prev with Some p => if supply_ok p (o_n (a_pre st)) then [] else [(i, 44%nat)] | None => [] end)
      ++ mon_between (Datatypes.S i) (Some (o_n (a_post st))) r final
  end.

Definition mon_acase (c : acase) : list (nat * nat) :=
  flat_map (fun ist => map (fun k => (fst ist, k)) (mon_astep (ac_env c) (snd ist))) (number 0 (ac_steps c))
  ++ mon_between 0 None (ac_steps c) (o_n (ac_final c)).

Definition app_monitor_failures (cs : list acase) : list (nat * (nat * nat)) :=
  flat_map (fun ic => map (fun m => (fst ic, m)) (mon_acase (snd ic))) (number 0 cs).
